import IceProofs.Sys2C01Main
import IceProofs.Sys2C01LiveNoise
import IceProofs.Sys2C01LiveWide
import IceProofs.Sys2C01LiveDisc
import IceProofs.Sys2C01LiveDisc2
import IceProofs.Sys2C01LiveDisc3
import IceProofs.Sys2C01LiveRetx
import IceProofs.Sys2C01LiveDiscRoutes
import IceProofs.Sys2C01LiveDisc4
/-!
# C01 — two agents converge on the same, working candidate pair (SAFETY part)

Property theorems only.  System: `IceProofs.Sys2Run` (two `AgentCore` agents + the hub of
`IceModel.Sys2`; closed: agents receive traffic only through the hub).  Every theorem quantifies over
ALL initial configurations (`Sys.Init`: any configuration, credentials, tie-breakers, counters, NAT
mapping, reachability matrix), ALL event lists (any interleaving of API calls of both agents —
including `restart`, `close`, late signalling —, deliveries, duplications, drops and clock advances),
unbounded numbers of candidates and steps.

Schedule hypothesis `LocalsSane`: every address at which a local candidate is added survives the NAT
round trip (`unmapped (mapped x) = x`); implied by the global `NatSane`.  Passwords play no role in
the argument: a success response validates a pair only through the transaction id of a logged
request, and transaction ids of the two agents are disjoint by the tag (modelling assumption for
"96-bit random ids never collide").

Liveness: `C01_converges` (every fair schedule, every start state) is NOT proved; proved are the single-agent progress
lemmas (`C01_progress_*`), convergence along the canonical fair rounds from every reachable `ReadyD` state, with an
explicit round bound (`C01_converges_round_partial`), and convergence on EVERY loss-free suffix with bounded latency
from every reachable `ReadyF` state, with an explicit time bound (`C01_converges_fair_partial`), see the last section
and notes/C01-live.md.  The mirror theorem
only in the partial form `C01_mirror_partial` (one local address per agent).
-/
namespace IceProps.C01
open IceModel.AgentCore IceModel.Sys2 IceProofs.Sys2Run IceProofs.C01

/-- global topology sanity: `unmapped (mapped x) = x` for every address occurring in the mapping … -/
def NatSane (nat : List (Nat × Nat)) : Prop := ∀ x ∈ nat.map (·.1) ++ nat.map (·.2), SaneAddr nat x

instance (nat : List (Nat × Nat)) : Decidable (NatSane nat) := by unfold NatSane; infer_instance

/-- … which is the same as for every address at all. -/
theorem NatSane_all {nat : List (Nat × Nat)} (h : NatSane nat) (x : Nat) : unmappedL nat (mappedL nat x) = x := by
  by_cases hx : x ∈ nat.map (·.1) ++ nat.map (·.2)
  · exact h x hx
  · have h1 : nat.find? (·.1 == x) = none := by
      rw [List.find?_eq_none]
      intro e he hex
      exact hx (List.mem_append_left _ (List.mem_map.mpr ⟨e, he, by simpa using hex⟩))
    have h2 : nat.find? (·.2 == x) = none := by
      rw [List.find?_eq_none]
      intro e he hex
      exact hx (List.mem_append_right _ (List.mem_map.mpr ⟨e, he, by simpa using hex⟩))
    simp [unmappedL, mappedL, h1, h2]

theorem LocalsSane_of_NatSane {nat : List (Nat × Nat)} (h : NatSane nat) (evs : List SysEv) : LocalsSane nat evs :=
  fun x _ => NatSane_all h x

/-- `Reach` for the pair `p` of agent `x`: with `la` / `ra` the addresses of its local / remote
candidate, `(la, ra) ∉ blocked` (the check reaches the peer) and `(unmapped ra, mapped la) ∉ blocked`
(the peer's answer comes back); moreover `la` is an address agent `isB` added a local candidate at, `ra`
is a signalled address or a local address seen through the NAT, and `ra` is the NAT image of the real
address `unmapped ra`, at which some agent (the responder) added a local candidate. -/
def PairReach (nat blocked : List (Nat × Nat)) (evs : List SysEv) (isB : Bool) (x : Agent) (p : Pair) : Prop :=
  ∀ l r, x.localOf p.l = some l → x.remoteOf p.r = some r →
    Reach nat blocked l.addr r.addr ∧ l.addr ∈ localAddrsOf isB evs ∧ r.addr ∈ remoteAddrs nat evs
    ∧ mappedL nat (unmappedL nat r.addr) = r.addr ∧ unmappedL nat r.addr ∈ localAddrs evs

/-- no candidate address pair of the schedule is reachable in both directions. -/
def Unreachable (nat blocked : List (Nat × Nat)) (evs : List SysEv) : Prop :=
  ∀ la ∈ localAddrs evs, ∀ ra ∈ remoteAddrs nat evs, ¬ Reach nat blocked la ra

instance (nat blocked : List (Nat × Nat)) (evs : List SysEv) : Decidable (Unreachable nat blocked evs) := by
  unfold Unreachable; infer_instance

/-- **C01 safety.**  In every reachable state, for each FULL agent: every Succeeded pair — hence the
selected pair — lies on an address pair that is reachable in both directions; a selected pair is
listed and Succeeded; Connected / Disconnected imply a selected pair. -/
theorem C01_no_false_connect (s0 : Sys) (evs : List SysEv) (hi : Sys.Init s0) (hs : LocalsSane s0.nat evs) (isB : Bool)
    (hfull : ((Sys.runs s0 evs).agent isB).cfg.lite = false) :
    (∀ p ∈ ((Sys.runs s0 evs).agent isB).checklist, p.state = .succeeded →
        PairReach s0.nat s0.blocked evs isB ((Sys.runs s0 evs).agent isB) p)
    ∧ (∀ id, ((Sys.runs s0 evs).agent isB).selected = some id →
        ∃ p ∈ ((Sys.runs s0 evs).agent isB).checklist, p.id = id ∧ p.state = .succeeded)
    ∧ (((Sys.runs s0 evs).agent isB).connState = .connected ∨ ((Sys.runs s0 evs).agent isB).connState = .disconnected →
        ∃ id, ((Sys.runs s0 evs).agent isB).selected = some id) := by
  obtain ⟨LA, LB, h⟩ := reach_inv hi hs (pre := evs) (fun e he => he)
  have hfin := h.agent_final isB hfull
  refine ⟨?_, hfin.2.1, hfin.2.2.1⟩
  intro p hp hsucc l r hl hr
  obtain ⟨la, ra, hg, h1, h2⟩ := hfin.1 p hp hsucc
  rw [h1 l hl, h2 r hr]
  refine ⟨hg.1, ?_, hg.2.2.1, hg.2.2.2.1, (SLor_SLof hg.2.2.2.2).2⟩
  cases isB <;> exact hg.2.1.2

/-- the selected pair of a full agent is reachable in both directions. -/
theorem C01_selected_reach (s0 : Sys) (evs : List SysEv) (hi : Sys.Init s0) (hs : LocalsSane s0.nat evs) (isB : Bool)
    (hfull : ((Sys.runs s0 evs).agent isB).cfg.lite = false) (id : Nat)
    (hsel : ((Sys.runs s0 evs).agent isB).selected = some id) :
    ∃ p ∈ ((Sys.runs s0 evs).agent isB).checklist, p.id = id ∧ p.state = .succeeded
      ∧ PairReach s0.nat s0.blocked evs isB ((Sys.runs s0 evs).agent isB) p := by
  obtain ⟨h1, h2, _⟩ := C01_no_false_connect s0 evs hi hs isB hfull
  obtain ⟨p, hp, hid, hsucc⟩ := h2 id hsel
  exact ⟨p, hp, hid, hsucc, h1 p hp hsucc⟩

/-- the same under the global topology hypothesis `NatSane`. -/
theorem C01_no_false_connect_natSane (s0 : Sys) (evs : List SysEv) (hi : Sys.Init s0) (hn : NatSane s0.nat) (isB : Bool)
    (hfull : ((Sys.runs s0 evs).agent isB).cfg.lite = false) :
    (∀ p ∈ ((Sys.runs s0 evs).agent isB).checklist, p.state = .succeeded →
        PairReach s0.nat s0.blocked evs isB ((Sys.runs s0 evs).agent isB) p)
    ∧ (∀ id, ((Sys.runs s0 evs).agent isB).selected = some id →
        ∃ p ∈ ((Sys.runs s0 evs).agent isB).checklist, p.id = id ∧ p.state = .succeeded)
    ∧ (((Sys.runs s0 evs).agent isB).connState = .connected ∨ ((Sys.runs s0 evs).agent isB).connState = .disconnected →
        ∃ id, ((Sys.runs s0 evs).agent isB).selected = some id) :=
  C01_no_false_connect s0 evs hi (LocalsSane_of_NatSane hn evs) isB hfull

/-- a callback that reports a connection. -/
def isConnOut : Out → Bool
  | .cbState .connected => true
  | .cbPair _ _ => true
  | _ => false

/-- **C01, unreachable topologies.**  If no candidate address pair of the schedule `evs` is reachable
in both directions then, at every point `pre` of the schedule, a full agent has no Succeeded pair, no
selected pair, is neither Connected nor Disconnected, and the next step `ev` makes it emit neither
`cbState connected` nor `cbPair`. -/
theorem C01_unreachable_never_connects (s0 : Sys) (pre : List SysEv) (ev : SysEv) (post : List SysEv)
    (hi : Sys.Init s0) (hs : LocalsSane s0.nat (pre ++ ev :: post))
    (hu : Unreachable s0.nat s0.blocked (pre ++ ev :: post)) (isB : Bool)
    (hfull : (s0.agent isB).cfg.lite = false) :
    (∀ p ∈ ((Sys.runs s0 pre).agent isB).checklist, p.state ≠ .succeeded)
    ∧ ((Sys.runs s0 pre).agent isB).selected = none
    ∧ ((Sys.runs s0 pre).agent isB).connState ≠ .connected
    ∧ ((Sys.runs s0 pre).agent isB).connState ≠ .disconnected
    ∧ (∀ o ∈ (if isB then (Sys.runOut (Sys.runs s0 pre) ev).2.2 else (Sys.runOut (Sys.runs s0 pre) ev).2.1),
        isConnOut o = false) := by
  obtain ⟨LA, LB, h⟩ := reach_inv hi hs (pre := pre) (fun e he => List.mem_append_left _ he)
  have hnog : ∀ (b : Bool) la ra, ¬ GoodS s0.nat s0.blocked (SLof s0.nat (pre ++ ev :: post) b)
      (SLor (SLof s0.nat (pre ++ ev :: post) false) (SLof s0.nat (pre ++ ev :: post) true))
      (SRof s0.nat (pre ++ ev :: post)) la ra :=
    fun b la ra hg => hu la (localAddrsOf_sub hg.2.1.2) ra hg.2.2.1 hg.1
  have hev : evSane (SLof s0.nat (pre ++ ev :: post) false) (SLof s0.nat (pre ++ ev :: post) true)
      (SRof s0.nat (pre ++ ev :: post)) ev := evSane_of_mem hs (by simp)
  obtain ⟨_, hoa, hob⟩ := runOut_ok SLof_sane SLof_SRof h ev hev
  have hconn : ∀ (b : Bool) {lite : Bool} {o : Out}, lite = false →
      ConnOutOK (GoodS s0.nat s0.blocked (SLof s0.nat (pre ++ ev :: post) b)
        (SLor (SLof s0.nat (pre ++ ev :: post) false) (SLof s0.nat (pre ++ ev :: post) true))
        (SRof s0.nat (pre ++ ev :: post))) lite o →
      isConnOut o = false := by
    intro b lite o hl hc
    have hnog := hnog b
    cases o with
    | cbState s =>
      cases s <;> first | rfl | (obtain ⟨la, ra, hg⟩ := hc rfl hl; exact absurd hg (hnog la ra))
    | cbPair x y => obtain ⟨la, ra, hg⟩ := hc hl; exact absurd hg (hnog la ra)
    | dgram f t m => rfl
    | data f t n => rfl
    | cbCand x => rfl
    | res s => rfl
  have hlite : ((Sys.runs s0 pre).agent isB).cfg.lite = false := by
    rw [h.lite_eq isB]
    cases isB <;> exact hfull
  have hfin := h.agent_final isB hlite
  have h1 : ∀ p ∈ ((Sys.runs s0 pre).agent isB).checklist, p.state ≠ .succeeded := by
    intro p hp hsucc
    obtain ⟨la, ra, hg, _⟩ := hfin.1 p hp hsucc
    cases isB with
    | false => exact hnog false la ra hg
    | true => exact hnog true la ra hg
  have h2 : ((Sys.runs s0 pre).agent isB).selected = none := by
    cases hsel : ((Sys.runs s0 pre).agent isB).selected with
    | none => rfl
    | some id =>
      obtain ⟨p, hp, _, hsucc⟩ := hfin.2.1 id hsel
      exact absurd hsucc (h1 p hp)
  refine ⟨h1, h2, ?_, ?_, ?_⟩
  · intro hc
    obtain ⟨id, hid⟩ := hfin.2.2.1 (Or.inl hc)
    rw [h2] at hid; cases hid
  · intro hc
    obtain ⟨id, hid⟩ := hfin.2.2.1 (Or.inr hc)
    rw [h2] at hid; cases hid
  · cases isB with
    | false => exact fun o ho => hconn false (show s0.a.cfg.lite = false from hfull) (hoa o ho)
    | true => exact fun o ho => hconn true (show s0.b.cfg.lite = false from hfull) (hob o ho)

/-! ## Mirror images (partial) -/

/-- each agent adds its local candidates at one address only (`a` for A, `b` for B; any number of
candidates, any types, any number of remote candidates). -/
def SingleAddr (evs : List SysEv) (a b : Nat) : Prop :=
  (∀ x ∈ localAddrsOf false evs, x = a) ∧ (∀ x ∈ localAddrsOf true evs, x = b)

instance (evs : List SysEv) (a b : Nat) : Decidable (SingleAddr evs a b) := by unfold SingleAddr; infer_instance

/-- no hairpinning: an agent cannot reach the public image of its own address. -/
def NoHairpin (nat blocked : List (Nat × Nat)) (evs : List SysEv) : Prop :=
  ∀ x ∈ localAddrs evs, (x, mappedL nat x) ∈ blocked

instance (nat blocked : List (Nat × Nat)) (evs : List SysEv) : Decidable (NoHairpin nat blocked evs) := by
  unfold NoHairpin; infer_instance

/-- the pair the model resolves `selected` to. -/
def selectedPair (x : Agent) : Option Pair := x.selected.bind x.pairById

/-- **C01 mirror, partial.**  FULL statement (not proved, see notes/C01.md): in every reachable state of
a session without restart and with opposite roles, the selected pairs of two full agents are mirror
images modulo NAT.  PROVED here under the extra hypotheses `SingleAddr` (one local address per agent)
and `NoHairpin`, but for ALL schedules (restarts, role conflicts, renomination included): if both
agents have a selected pair then `mapped (A.local.addr) = B.remote.addr` and
`mapped (B.local.addr) = A.remote.addr`. -/
theorem C01_mirror_partial (s0 : Sys) (evs : List SysEv) (hi : Sys.Init s0) (hs : LocalsSane s0.nat evs)
    (a b : Nat) (h1 : SingleAddr evs a b) (hh : NoHairpin s0.nat s0.blocked evs)
    (hfa : (Sys.runs s0 evs).a.cfg.lite = false) (hfb : (Sys.runs s0 evs).b.cfg.lite = false)
    (pa pb : Pair) (hpa : selectedPair (Sys.runs s0 evs).a = some pa) (hpb : selectedPair (Sys.runs s0 evs).b = some pb)
    (la ra lb rb : Cand)
    (hla : (Sys.runs s0 evs).a.localOf pa.l = some la) (hra : (Sys.runs s0 evs).a.remoteOf pa.r = some ra)
    (hlb : (Sys.runs s0 evs).b.localOf pb.l = some lb) (hrb : (Sys.runs s0 evs).b.remoteOf pb.r = some rb) :
    mappedL s0.nat la.addr = rb.addr ∧ mappedL s0.nat lb.addr = ra.addr := by
  -- the selected pairs are Succeeded
  have sel_succ : ∀ (isB : Bool) (p : Pair), ((Sys.runs s0 evs).agent isB).cfg.lite = false →
      selectedPair ((Sys.runs s0 evs).agent isB) = some p →
      PairReach s0.nat s0.blocked evs isB ((Sys.runs s0 evs).agent isB) p := by
    intro isB p hf hp
    obtain ⟨c1, c2, _⟩ := C01_no_false_connect s0 evs hi hs isB hf
    have hsel := selected_pair hp
    obtain ⟨hpm, hpid⟩ := pairById_mem (a := (Sys.runs s0 evs).agent isB) (id := p.id) (p := p) (by
      unfold selectedPair at hp
      rw [hsel] at hp
      exact hp)
    obtain ⟨q, hq, hqid, hqs⟩ := c2 p.id hsel
    obtain ⟨LA, LB, hinv⟩ := reach_inv hi hs (pre := evs) (fun e he => he)
    have huniq := (hinv.agent_final isB hf).2.2.2
    have : q = p := pair_eq_of_id huniq hq hpm hqid
    subst this
    exact c1 q hq hqs
  obtain ⟨hrA, hlA, _, hmA, hxA⟩ := sel_succ false pa hfa hpa la ra hla hra
  obtain ⟨hrB, hlB, _, hmB, hxB⟩ := sel_succ true pb hfb hpb lb rb hlb hrb
  have ela : la.addr = a := h1.1 _ hlA
  have elb : lb.addr = b := h1.2 _ hlB
  -- the responder of A's pair is B, the responder of B's pair is A
  have exA : unmappedL s0.nat ra.addr = b := by
    rcases localAddrs_split hxA with hx | hx
    · have e := h1.1 _ hx
      have := hrA.2
      rw [e, ela] at this
      exact absurd (hh a (by rw [← ela]; exact localAddrsOf_sub hlA)) this
    · exact h1.2 _ hx
  have exB : unmappedL s0.nat rb.addr = a := by
    rcases localAddrs_split hxB with hx | hx
    · exact h1.1 _ hx
    · have e := h1.2 _ hx
      have := hrB.2
      rw [e, elb] at this
      exact absurd (hh b (by rw [← elb]; exact localAddrsOf_sub hlB)) this
  refine ⟨?_, ?_⟩
  · rw [ela, ← exB, hmB]
  · rw [elb, ← exA, hmA]

/-! ## Non-vacuity -/

namespace Example
def s0 : Sys := { a := { localUfrag := "ua", localPwd := "pa", tieBreaker := 5 },
                  b := { tag := 1, localUfrag := "ub", localPwd := "pb", tieBreaker := 3 }, hasB := true }
def hostA : Cand := { uid := 0, ty := 1, net := 0, addr := 16, prio := 100 }
def hostB : Cand := { uid := 0, ty := 1, net := 0, addr := 32, prio := 100 }
/-- signalling, start, checks, nomination: both agents end up Connected on the pair 16 ↔ 32. -/
def sched : List SysEv :=
  [.api false (.addLocal 0 hostA), .api true (.addLocal 0 hostB),
   .api false (.addRemote 0 hostB), .api true (.addRemote 0 hostA),
   .api false (.start 0 true "ub" "pb"), .api true (.start 0 false "ua" "pa"),
   .deliver 0, .deliver 0, .deliver 0, .deliver 0, .deliver 0, .deliver 0,
   .advance 200000000, .deliver 0, .deliver 0, .deliver 0, .deliver 0]
/-- the same agents and schedule, but nothing sent by B (32) reaches A (16) (and no address reaches itself). -/
def s0OneWay : Sys := { s0 with blocked := [(32, 16), (16, 16), (32, 32)] }
/-- a longer schedule (one more tick and the deliveries it causes). -/
def schedLong : List SysEv :=
  sched ++ [.advance 400000000, .deliver 0, .deliver 0, .deliver 0, .deliver 0, .deliver 0]
/-- no address reaches itself (no hairpinning). -/
def s0NoHairpin : Sys := { s0 with blocked := [(16, 16), (32, 32)] }
/-- a NAT in front of A's candidate: 16 is seen as 336. -/
def s0Nat : Sys := { s0 with nat := [(16, 336)] }
end Example

open Example in
/-- the hypotheses of `C01_no_false_connect` hold on a run that reaches a selected pair on both sides … -/
example : Sys.Init s0 ∧ LocalsSane s0.nat sched ∧ NatSane s0.nat
    ∧ (Sys.runs s0 sched).a.selected = some 1 ∧ (Sys.runs s0 sched).b.selected = some 1
    ∧ (Sys.runs s0 sched).a.connState = .connected ∧ (Sys.runs s0 sched).b.connState = .connected
    ∧ (Sys.runs s0 sched).a.cfg.lite = false ∧ Reach s0.nat s0.blocked 16 32 := by
  refine ⟨⟨rfl, rfl, rfl, rfl, rfl, rfl, rfl, rfl, rfl, rfl, rfl, rfl, rfl, rfl, rfl⟩, ?_⟩
  decide

open Example in
/-- … and with a one-way block nothing is ever selected (the hypotheses of
`C01_unreachable_never_connects` hold, and the model indeed selects nothing). -/
example : Sys.Init s0OneWay ∧ LocalsSane s0OneWay.nat sched ∧ Unreachable s0OneWay.nat s0OneWay.blocked sched
    ∧ (Sys.runs s0OneWay sched).a.selected = none ∧ (Sys.runs s0OneWay sched).b.selected = none
    ∧ (Sys.runs s0OneWay sched).a.connState = .checking := by
  refine ⟨⟨rfl, rfl, rfl, rfl, rfl, rfl, rfl, rfl, rfl, rfl, rfl, rfl, rfl, rfl, rfl⟩, ?_⟩
  decide

open Example in
/-- an ordinary NAT (16 seen as 336) satisfies the schedule hypothesis `LocalsSane` but NOT the global
`NatSane` (336 itself does not survive the round trip) — the reason the main theorem is stated with
`LocalsSane`; the run through the NAT connects on the peer-reflexive address. -/
example : LocalsSane s0Nat.nat schedLong ∧ ¬ NatSane s0Nat.nat
    ∧ (Sys.runs s0Nat schedLong).a.selected = some 1 ∧ (Sys.runs s0Nat schedLong).b.selected = some 2 := by
  decide

open Example in
/-- the hypotheses of `C01_mirror_partial` hold on a run in which both agents select a pair (and the
pairs are indeed mirror images: A 16 → 32, B 32 → 16). -/
example : Sys.Init s0NoHairpin ∧ LocalsSane s0NoHairpin.nat sched ∧ SingleAddr sched 16 32
    ∧ NoHairpin s0NoHairpin.nat s0NoHairpin.blocked sched
    ∧ ((selectedPair (Sys.runs s0NoHairpin sched).a).map (·.id)) = some 1
    ∧ ((selectedPair (Sys.runs s0NoHairpin sched).b).map (·.id)) = some 1 := by
  refine ⟨⟨rfl, rfl, rfl, rfl, rfl, rfl, rfl, rfl, rfl, rfl, rfl, rfl, rfl, rfl, rfl⟩, ?_⟩
  decide

/-- `NatSane` holds e.g. for the empty mapping and for a mapping that is a permutation. -/
example : NatSane [] ∧ NatSane [(16, 336), (336, 16)] := by decide

/-! ## Liveness (partial): progress of one agent, convergence along the canonical fair rounds

FULL statement `C01_converges` (NOT proved): for every reachable state in which both agents are started in opposite
roles with each other's credentials and candidates, some candidate pair is reachable in both directions and not out
of retry budget on the controlling side, and for EVERY infinite schedule whose suffix is loss-free, delivers each
datagram within the transaction timeout and ticks both agents infinitely often, both agents eventually notify
Connected (and the selected pairs are mirror images).

PROVED: (1) the progress steps of one agent, for all states and parameters (`C01_progress_*`); (2) convergence along
ONE family of fair schedules — the canonical rounds `roundsEvs` (advance the clock to the controlling agent's next
tick — the controlled agent runs every tick that is due —, then three times "deliver everything in flight", in FIFO
order; zero latency, no loss, no duplication) — from EVERY state reachable by ANY prefix (loss, duplication,
reordering, restarts, … included) that satisfies the decidable start condition `ReadyD`, for ALL topologies (any
number of candidates, NAT, one-way links), within an explicit number of rounds.  (3) the same with ARBITRARY extra deliveries and duplications (any datagram in
flight, any order, any number) inserted before every round (`C01_converges_noisy_rounds_partial`; the stability lemmas
`Ob.keep`, `Ch1.keep`, `DP.keep`, `LinkedJ.keep`, `SysOK.deliver` hold for every delivery / duplication).  (4) convergence on EVERY index-based schedule that is loss-free and fair with bounded latency (`SufOK`, `FairL`:
deliveries, duplications and clock advances in any order and number; every datagram in flight is delivered before the
clock has moved by more than `L`, `2 L < 4 s`), from every reachable state satisfying the decidable start condition
`ReadyF` (it contains `ReadyD`, and admits a controlling agent that is already selected), within an
explicit time (`C01_converges_fair_partial`); peer-reflexive discovery at the controlling agent inside the suffix is
covered (the forced tick it triggers is treated as a tick), and so are clock advances over several ticks of the
controlling agent (jump bound `J`, `J + 2 L < 4 s`).  MISSING for the full statement: convergence through a pair that does not
exist at the start of the suffix (created by a peer-reflexive discovery inside it), retransmission after the latency
bound is missed, and the start states excluded by
`ReadyF` (see notes/C01-live.md). -/

open IceProofs.C01Live IceProofs.Agent in
/-- **progress: a tick pings.**  `pingAllCandidates` at `now` emits, for every listed pair that is Waiting / In-Progress,
within its request budget and whose ends resolve, a Binding request from the local to the remote address carrying
the agent's credentials and role, and records the transaction (pair ids unique, pending ids issued by the counter). -/
theorem C01_progress_tick_pings (a : Agent) (now : Nat) (hi : IceProofs.C03.IdsOK a) (hp : PendOK a) (p0 : Pair)
    (hp0 : p0 ∈ a.checklist) (hst : p0.state = .waiting ∨ p0.state = .inProgress)
    (hb : p0.reqCount ≤ a.cfg.maxBindingRequests) (l r : Cand) (hl : a.localOf p0.l = some l) (hr : a.remoteOf p0.r = some r) :
    ∃ m, Out.dgram l.addr r.addr m ∈ (a.pingAll now).2 ∧ IsReq a false m ∧
      (a.pingAll now).1.pending.find? (·.tid == m.tid) = some (pendOf m.tid l.addr r.addr r.net false now) :=
  pingAll_emits a now hi hp p0 hp0 hst hb l r hl hr

open IceProofs.C01Live IceProofs.Agent in
/-- **progress: a request is answered.**  An authenticated Binding request without role conflict, from a source that
is a known remote candidate or passes the remote-IP filter (peer-reflexive discovery), is answered with a success
response from the receiving local candidate's address to the source address. -/
theorem C01_progress_request_answered (a : Agent) (now : Nat) (l : Cand) (src : Nat) (m : Msg) (ha : AuthRequest a m)
    (hnc : NoConflict a m) (hsrc : SrcOK a l src) :
    Out.dgram l.addr src (respMsg a m) ∈ (a.handleInbound now l src m).2 :=
  request_answered a now l src m ha hnc hsrc

open IceProofs.C01Live IceProofs.Agent in
/-- **progress: a matching response validates, a nomination selects.**  A success response verifying under the remote
password, from a known remote candidate, matching a live transaction sent from this local candidate to that source,
makes the pair `findPair l r` Succeeded; a USE-CANDIDATE transaction of a controlling agent selects it when nothing is
selected; on a controlled agent a pair marked `nomOnSuccess` gets selected unless a pair is selected already. -/
theorem C01_progress_response_validates (a : Agent) (now : Nat) (l : Cand) (src : Nat) (m : Msg) (r : Cand) (pd : Pending)
    (p : Pair) (hcls : m.cls = 2) (hmeth : m.method = 1) (hkey : m.key = some a.remotePwd)
    (hr : a.findRemote l.net src = some r) (hpd : a.pending.find? (·.tid == m.tid) = some pd)
    (hyoung : now - pd.ts < maxBindingRequestTimeout) (hnet : pd.net = l.net) (hdest : pd.dest = src)
    (hsrc : pd.src = l.addr) (hp : a.findPair l r = some p) :
    (∃ p' ∈ (a.handleInbound now l src m).1.checklist, p'.id = p.id ∧ p'.state = .succeeded)
    ∧ (a.controlling = true → pd.useCand = true → pd.nom = none → (a.handleInbound now l src m).1.selected.isSome = true)
    ∧ (a.controlling = false → p.nomOnSuccess = true → p.deferredNom = none →
        (a.handleInbound now l src m).1.selected.isSome = true) :=
  response_validates a now l src m r pd p hcls hmeth hkey hr hpd hyoung hnet hdest hsrc hp

open IceProofs.C01Live in
/-- **progress: the controlling agent nominates.**  The single tick at `T = nextTick` of a `Good` controlling agent
(started, open, full, no timeout due before the horizon `H`) without a selected pair but with a Succeeded pair, once
the longest acceptance wait has passed since the selector started, sends a USE-CANDIDATE request on the ends of a
listed Succeeded pair and records the transaction. -/
theorem C01_progress_nominates {T0 H T : Nat} {a : Agent} (hg : Good T0 H a) (hT : T ≤ H) (htk : a.nextTick = some T)
    (hc : a.controlling = true) (hs : a.selected = none) (hsucc : ∃ p ∈ a.checklist, p.state = .succeeded)
    (htime : a.selStart + Config.maxWait a.cfg ≤ T) :
    ∃ p l r m, p ∈ a.checklist ∧ p.state = .succeeded ∧ a.localOf p.l = some l ∧ a.remoteOf p.r = some r ∧
      Out.dgram l.addr r.addr m ∈ (step a (.advance T)).2 ∧ IsReq a true m ∧
      (step a (.advance T)).1.pending.find? (·.tid == m.tid) = some (pendOf m.tid l.addr r.addr r.net true T) :=
  agent_tick_nominate hg hT htk hc hs hsucc htime

open IceProofs.C01Live IceProofs.Agent in
/-- **progress: the controlled agent follows a nomination.**  A `Good` controlled agent (bookkeeping invariant of C06)
that receives an authenticated USE-CANDIDATE request (no nomination value) from an unfiltered source has a selected
pair afterwards, or has marked the pair the request arrived on `nomOnSuccess` and has a check of its own on that
pair in flight and pending. -/
theorem C01_progress_controlled_follows {T0 H now : Nat} {a : Agent} (h0 : T0 ≤ now) (hn : now ≤ H) (hg : Good T0 H a)
    (hc6 : IceProofs.AgentC06.Inv a) {la src : Nat} {m : Msg} {l : Cand} (hl : a.localByAddr la = some l)
    (ha : AuthRequest a m) (hnc : NoConflict a m) (hflt : a.cfg.blockedIPs.contains (ipOf src) = false)
    (hctl : a.controlling = false) (huc : m.useCand = true) (hnom : m.nom = none) :
    (step a (.inbound now la src m)).1.selected.isSome = true ∨
    ∃ l' rc q mt, (step a (.inbound now la src m)).1.localByAddr la = some l' ∧
      (step a (.inbound now la src m)).1.findRemote 0 src = some rc ∧
      (step a (.inbound now la src m)).1.findPair l' rc = some q ∧ q.nomOnSuccess = true ∧
      Out.dgram la src mt ∈ (step a (.inbound now la src m)).2 ∧ IsReq a false mt ∧
      (step a (.inbound now la src m)).1.pending.find? (·.tid == mt.tid) = some (pendOf mt.tid la src 0 false now) :=
  step_request_nominates h0 hn hg hc6 hl ha hnc hflt hctl huc hnom

open IceProofs.C01Live in
/-- **C01 convergence along the canonical fair rounds (partial).**  Let `s` be the state reached from an initial state
by ANY prefix `pre` whose local candidate addresses survive the NAT round trip.  If `s` satisfies the decidable start
condition `ReadyD` for the controlling agent `c`, a time `T0 ≤ now` and a horizon `H` that reaches 2 s beyond the later
of the controlling agent's next tick and `nomTime` (= selector start + longest acceptance wait), and the controlling
agent has a Succeeded pair or a pair under its request budget on a `Link` (both directions open, NAT round trips the
identity, the two agents listening at the two ends), then for some `1 ≤ n ≤ roundBound = (nomTime − first tick) /
minInterval + 1`: after the `n + 1` canonical rounds `roundsEvs c (n + 1) s` (clock advances and in-order deliveries
only) BOTH agents have a selected pair and are in state Connected. -/
theorem C01_converges_round_partial (s0 : Sys) (pre : List SysEv) (hi : Sys.Init s0) (hf : FreshSel s0)
    (hs : LocalsSane s0.nat pre) (c : Bool) (T0 H : Nat) (hr : ReadyD pre c T0 H (Sys.runs s0 pre))
    (hstart : HasSucc (Sys.runs s0 pre) c ∨ BudgetPairD c (Sys.runs s0 pre))
    (hH : max (tickTime c 0 (Sys.runs s0 pre)) (nomTime c (Sys.runs s0 pre)) + 2000000000 ≤ H) :
    ∃ n, 1 ≤ n ∧ n ≤ roundBound c (Sys.runs s0 pre) ∧
      (∀ e ∈ roundsEvs c (n + 1) (Sys.runs s0 pre), isFairEv e = true) ∧
      ∀ x, ((Sys.runs s0 (pre ++ roundsEvs c (n + 1) (Sys.runs s0 pre))).agent x).selected.isSome = true ∧
           ((Sys.runs s0 (pre ++ roundsEvs c (n + 1) (Sys.runs s0 pre))).agent x).connState = .connected := by
  have hri := ready_rinv hi hf hs hr
  obtain ⟨n, h1, h2, h3⟩ := converge_bound hri (hstart.imp id BudgetPairD.budget) hH
  refine ⟨n, h1, h2, roundsEvs_fair c (n + 1) _, fun x => ?_⟩
  rw [Sys.runs_append, ← rounds_runs]
  exact h3 x

/-- the canonical rounds contain no API call: the local-address sets of the schedule are those of the prefix -/
theorem localAddrsOf_rounds (isB : Bool) (pre : List SysEv) (suf : List SysEv)
    (h : ∀ e ∈ suf, IceProofs.C01Live.isFairEv e = true) : localAddrsOf isB (pre ++ suf) = localAddrsOf isB pre := by
  have hnil : localAddrsOf isB suf = [] := by
    unfold localAddrsOf
    rw [List.filterMap_eq_nil_iff]
    intro e he
    have := h e he
    cases e <;> first | rfl | (simp [IceProofs.C01Live.isFairEv] at this)
  have happ : localAddrsOf isB (pre ++ suf) = localAddrsOf isB pre ++ localAddrsOf isB suf := by
    unfold localAddrsOf; rw [List.filterMap_append]
  rw [happ, hnil, List.append_nil]

theorem localAddrs_rounds (pre : List SysEv) (suf : List SysEv)
    (h : ∀ e ∈ suf, IceProofs.C01Live.isFairEv e = true) : localAddrs (pre ++ suf) = localAddrs pre := by
  have hnil : localAddrs suf = [] := by
    unfold localAddrs
    rw [List.filterMap_eq_nil_iff]
    intro e he
    have := h e he
    cases e <;> first | rfl | (simp [IceProofs.C01Live.isFairEv] at this)
  have happ : localAddrs (pre ++ suf) = localAddrs pre ++ localAddrs suf := by
    unfold localAddrs; rw [List.filterMap_append]
  rw [happ, hnil, List.append_nil]

open IceProofs.C01Live in
/-- **… and the selected pairs are mirror images** when each agent has one local address (`C01_mirror_partial`). -/
theorem C01_converges_round_mirror_partial (s0 : Sys) (pre : List SysEv) (hi : Sys.Init s0) (hf : FreshSel s0)
    (hs : LocalsSane s0.nat pre) (c : Bool) (T0 H : Nat) (hr : ReadyD pre c T0 H (Sys.runs s0 pre))
    (hstart : HasSucc (Sys.runs s0 pre) c ∨ BudgetPairD c (Sys.runs s0 pre))
    (hH : max (tickTime c 0 (Sys.runs s0 pre)) (nomTime c (Sys.runs s0 pre)) + 2000000000 ≤ H)
    (a b : Nat) (h1 : SingleAddr pre a b) (hh : NoHairpin s0.nat s0.blocked pre) :
    ∃ n, 1 ≤ n ∧ n ≤ roundBound c (Sys.runs s0 pre) ∧
      ∀ pa pb la ra lb rb,
        selectedPair (Sys.runs s0 (pre ++ roundsEvs c (n + 1) (Sys.runs s0 pre))).a = some pa →
        selectedPair (Sys.runs s0 (pre ++ roundsEvs c (n + 1) (Sys.runs s0 pre))).b = some pb →
        (Sys.runs s0 (pre ++ roundsEvs c (n + 1) (Sys.runs s0 pre))).a.localOf pa.l = some la →
        (Sys.runs s0 (pre ++ roundsEvs c (n + 1) (Sys.runs s0 pre))).a.remoteOf pa.r = some ra →
        (Sys.runs s0 (pre ++ roundsEvs c (n + 1) (Sys.runs s0 pre))).b.localOf pb.l = some lb →
        (Sys.runs s0 (pre ++ roundsEvs c (n + 1) (Sys.runs s0 pre))).b.remoteOf pb.r = some rb →
        mappedL s0.nat la.addr = rb.addr ∧ mappedL s0.nat lb.addr = ra.addr := by
  obtain ⟨n, hn1, hn2, hfair, _⟩ := C01_converges_round_partial s0 pre hi hf hs c T0 H hr hstart hH
  refine ⟨n, hn1, hn2, ?_⟩
  intro pa pb la ra lb rb hpa hpb hla hra hlb hrb
  have hr7 := hr.2.2.2.2.2.2.1
  have hfull : ∀ x, ((Sys.runs s0 pre).agent x).cfg.lite = false := fun x => (hr7 x).1
  -- configuration never changes
  obtain ⟨LA, LB, hinv0⟩ := reach_inv hi hs (pre := pre) (fun e he => he)
  have hs' : LocalsSane s0.nat (pre ++ roundsEvs c (n + 1) (Sys.runs s0 pre)) := by
    unfold LocalsSane; rw [localAddrs_rounds pre _ hfair]; exact hs
  obtain ⟨LA', LB', hinv1⟩ := reach_inv hi hs' (pre := pre ++ roundsEvs c (n + 1) (Sys.runs s0 pre)) (fun e he => he)
  have hl0 := fun x => hinv0.lite_eq x
  have hl1 := fun x => hinv1.lite_eq x
  have hfa : (Sys.runs s0 (pre ++ roundsEvs c (n + 1) (Sys.runs s0 pre))).a.cfg.lite = false := by
    have e1 := hl1 false; have e0 := hl0 false; have f := hfull false
    simp only [Sys.agent, Bool.false_eq_true, if_false] at e1 e0 f
    rw [e1, ← e0]; exact f
  have hfb : (Sys.runs s0 (pre ++ roundsEvs c (n + 1) (Sys.runs s0 pre))).b.cfg.lite = false := by
    have e1 := hl1 true; have e0 := hl0 true; have f := hfull true
    simp only [Sys.agent, if_true] at e1 e0 f
    rw [e1, ← e0]; exact f
  exact C01_mirror_partial s0 _ hi hs' a b
    (by unfold SingleAddr; rw [localAddrsOf_rounds false pre _ hfair, localAddrsOf_rounds true pre _ hfair]; exact h1)
    (by unfold NoHairpin; rw [localAddrs_rounds pre _ hfair]; exact hh)
    hfa hfb pa pb hpa hpb la ra lb rb hla hra hlb hrb

open IceProofs.C01Live in
/-- **C01 convergence with arbitrary extra deliveries and duplications between the rounds (partial).**  As
`C01_converges_round_partial`, for EVERY family `N` of noise blocks: before each canonical round any number of
deliveries and duplications of any datagram in flight, in any order (no loss, no clock advance, no API call).  The
round bound is computed from the first tick after the first noise block; the controlling agent must have a Succeeded
pair, or still a pair under budget on a `Link` after the first noise block. -/
theorem C01_converges_noisy_rounds_partial (s0 : Sys) (pre : List SysEv) (hi : Sys.Init s0) (hf : FreshSel s0)
    (hs : LocalsSane s0.nat pre) (c : Bool) (T0 H : Nat) (hr : ReadyD pre c T0 H (Sys.runs s0 pre))
    (N : Nat → List SysEv) (hN : ∀ k, ∀ e ∈ N k, isNoise e = true)
    (hstart : HasSucc (Sys.runs s0 pre) c ∨ BudgetPairD c (Sys.runs (Sys.runs s0 pre) (N 0)))
    (hH : max (ntick c N 0 (Sys.runs s0 pre)) (nomTime c (Sys.runs s0 pre)) + 2000000000 ≤ H) :
    ∃ n, 1 ≤ n ∧ n ≤ nroundBound c N (Sys.runs s0 pre) ∧
      ∀ x, ((Sys.runs s0 (pre ++ nroundsEvs c N (n + 1) (Sys.runs s0 pre))).agent x).selected.isSome = true ∧
           ((Sys.runs s0 (pre ++ nroundsEvs c N (n + 1) (Sys.runs s0 pre))).agent x).connState = .connected := by
  have hri := ready_rinv hi hf hs hr
  obtain ⟨n, h1, h2, h3⟩ := converge_bound_noisy hri N hN (hstart.imp id BudgetPairD.budget) hH
  refine ⟨n, h1, h2, fun x => ?_⟩
  rw [Sys.runs_append, ← nrounds_runs]
  exact h3 x

open IceProofs.C01Live in
/-- **C01 convergence on every fair, loss-free suffix (partial).**  Let `s` be the state reached from an initial state
by ANY prefix `pre` (local candidate addresses survive the NAT round trip) and let `s` satisfy the decidable start
condition `ReadyF` for the controlling agent `c`, times `T0 ≤ now ≤ H`, a latency bound `L` and a jump bound `J` with
`J + 2 L` below the transaction timeout (4 s); the controlling agent has a Succeeded pair, a selected pair, or a pair under its request
budget on a `Link`.  Let `suf` be ANY list of deliveries, duplications (of any datagram in flight, in any order) and
clock advances that are monotone, stay within the horizon `H` and go at most `J` beyond the next tick of the controlling
agent (`SufOK`: no loss, no API call; `J = 0`: its timer fires exactly when due, `J > 0`: an advance may run several of
its ticks, `J + 2 L` below the transaction timeout and the catch-up ticks within the fuel of the model's timer loop; the
controlled agent may run any number of ticks per advance; extra advances between ticks are allowed), and FAIR: whatever is in flight at some point of `suf` is delivered before the clock has
moved by more than `L` (`FairL`; decidable form `FairLD`).  If the clock at the end of `suf` is beyond
`fairBound = max (now + 2 s + J + 2 L) nomTime + 2 s + 2 J + 4 L`, BOTH agents have a selected pair and are Connected at the
end of `suf` (hence at the end of every longer such suffix). -/
theorem C01_converges_fair_partial (s0 : Sys) (pre : List SysEv) (hi : Sys.Init s0) (hf : FreshSel s0)
    (hs : LocalsSane s0.nat pre) (c : Bool) (T0 H L J : Nat) (hr : ReadyF pre c T0 H L (Sys.runs s0 pre))
    (hstart : HasSucc (Sys.runs s0 pre) c ∨ Sel (Sys.runs s0 pre) c ∨ BudgetPairD c (Sys.runs s0 pre))
    (hL : J + 2 * L < 4000000000) (hfuel : J < 99998 * Config.minInterval ((Sys.runs s0 pre).agent c).cfg)
    (suf : List SysEv) (hsuf : SufOK c H J (Sys.runs s0 pre) suf) (hfair : FairL L (Sys.runs s0 pre) suf)
    (hend : fairBound c L J (Sys.runs s0 pre) < (Sys.runs s0 (pre ++ suf)).now) :
    ∀ x, ((Sys.runs s0 (pre ++ suf)).agent x).selected.isSome = true ∧
         ((Sys.runs s0 (pre ++ suf)).agent x).connState = .connected := by
  have hL' : J + 2 * L < maxBindingRequestTimeout := by unfold maxBindingRequestTimeout; exact hL
  obtain ⟨hfi, hlink⟩ := ready_finv (J := J) hi hf hs hr hfuel (by omega)
  rw [Sys.runs_append] at hend ⊢
  exact converge_fair hfi hsuf hfair hL' hlink (hstart.imp id (Or.imp id BudgetPairD.budget)) hend

open IceProofs.C01Live in
/-- **… and the selected pairs are mirror images** when each agent has one local address (`C01_mirror_partial`; a
loss-free suffix contains no API call, so it adds no local address). -/
theorem C01_converges_fair_mirror_partial (s0 : Sys) (pre : List SysEv) (hi : Sys.Init s0)
    (hs : LocalsSane s0.nat pre) (c : Bool) (T0 H L : Nat) (hr : ReadyF pre c T0 H L (Sys.runs s0 pre))
    (J : Nat) (suf : List SysEv) (hsuf : SufOK c H J (Sys.runs s0 pre) suf)
    (a b : Nat) (h1 : SingleAddr pre a b) (hh : NoHairpin s0.nat s0.blocked pre) :
    ∀ pa pb la ra lb rb,
      selectedPair (Sys.runs s0 (pre ++ suf)).a = some pa → selectedPair (Sys.runs s0 (pre ++ suf)).b = some pb →
      (Sys.runs s0 (pre ++ suf)).a.localOf pa.l = some la → (Sys.runs s0 (pre ++ suf)).a.remoteOf pa.r = some ra →
      (Sys.runs s0 (pre ++ suf)).b.localOf pb.l = some lb → (Sys.runs s0 (pre ++ suf)).b.remoteOf pb.r = some rb →
      mappedL s0.nat la.addr = rb.addr ∧ mappedL s0.nat lb.addr = ra.addr := by
  intro pa pb la ra lb rb hpa hpb hla hra hlb hrb
  have hna : ∀ e ∈ suf, ∀ b ev, e ≠ SysEv.api b ev := fun e he => hsuf.not_api he
  have hr7 := hr.2.2.2.2.2.2.1
  have hfull : ∀ x, ((Sys.runs s0 pre).agent x).cfg.lite = false := fun x => (hr7 x).1
  obtain ⟨LA, LB, hinv0⟩ := reach_inv hi hs (pre := pre) (fun e he => he)
  have hs' : LocalsSane s0.nat (pre ++ suf) := by
    unfold LocalsSane; rw [localAddrs_noApi pre _ hna]; exact hs
  obtain ⟨LA', LB', hinv1⟩ := reach_inv hi hs' (pre := pre ++ suf) (fun e he => he)
  have hl0 := fun x => hinv0.lite_eq x
  have hl1 := fun x => hinv1.lite_eq x
  have hfa : (Sys.runs s0 (pre ++ suf)).a.cfg.lite = false := by
    have e1 := hl1 false; have e0 := hl0 false; have f := hfull false
    simp only [Sys.agent, Bool.false_eq_true, if_false] at e1 e0 f
    rw [e1, ← e0]; exact f
  have hfb : (Sys.runs s0 (pre ++ suf)).b.cfg.lite = false := by
    have e1 := hl1 true; have e0 := hl0 true; have f := hfull true
    simp only [Sys.agent, if_true] at e1 e0 f
    rw [e1, ← e0]; exact f
  exact C01_mirror_partial s0 _ hi hs' a b
    (by unfold SingleAddr; rw [localAddrsOf_noApi false pre _ hna, localAddrsOf_noApi true pre _ hna]; exact h1)
    (by unfold NoHairpin; rw [localAddrs_noApi pre _ hna]; exact hh)
    hfa hfb pa pb hpa hpb la ra lb rb hla hra hlb hrb

/-! ### Non-vacuity of the liveness hypotheses -/

namespace LiveExample
/-- 2 × 2 host candidates (A: 16, 17; B: 32, 33); nothing sent from 32 reaches 16 (a one-way link), and A cannot reach
its own addresses -/
def s0 : Sys := { a := { localUfrag := "ua", localPwd := "pa", tieBreaker := 5 },
                  b := { tag := 1, localUfrag := "ub", localPwd := "pb", tieBreaker := 3 }, hasB := true,
                  blocked := [(32, 16), (16, 16), (16, 17), (17, 16), (17, 17)] }
def cA1 : Cand := { uid := 0, ty := 1, net := 0, addr := 16, prio := 200 }
def cA2 : Cand := { uid := 0, ty := 1, net := 0, addr := 17, prio := 100 }
def cB1 : Cand := { uid := 0, ty := 1, net := 0, addr := 32, prio := 200 }
def cB2 : Cand := { uid := 0, ty := 1, net := 0, addr := 33, prio := 100 }
/-- signalling and start (A controlling), then a lossy prefix: of the first checks one is dropped, one duplicated, one
delivered, another dropped; nine datagrams are still in flight -/
def pre : List SysEv :=
  [.api false (.addLocal 0 cA1), .api false (.addLocal 0 cA2), .api true (.addLocal 0 cB1), .api true (.addLocal 0 cB2),
   .api false (.addRemote 0 cB1), .api false (.addRemote 0 cB2), .api true (.addRemote 0 cA1), .api true (.addRemote 0 cA2),
   .api false (.start 0 true "ub" "pb"), .api true (.start 0 false "ua" "pa"),
   .drop 0, .dup 0, .deliver 1, .drop 2]
end LiveExample

open LiveExample IceProofs.C01Live in
/-- every hypothesis of `C01_converges_round_partial` holds on this state (default timeouts: horizon 4 s, round bound
10) … -/
example : Sys.Init s0 ∧ FreshSel s0 ∧ LocalsSane s0.nat pre ∧ ReadyD pre false 0 4000000000 (Sys.runs s0 pre)
    ∧ BudgetPairD false (Sys.runs s0 pre)
    ∧ max (tickTime false 0 (Sys.runs s0 pre)) (nomTime false (Sys.runs s0 pre)) + 2000000000 ≤ 4000000000
    ∧ roundBound false (Sys.runs s0 pre) = 10 ∧ (Sys.runs s0 pre).inflight.length = 9 := by
  refine ⟨⟨rfl, rfl, rfl, rfl, rfl, rfl, rfl, rfl, rfl, rfl, rfl, rfl, rfl, rfl, rfl⟩, ?_⟩
  decide

set_option maxRecDepth 100000 in
open LiveExample IceProofs.C01Live in
/-- … and the model indeed converges (here already after two rounds, the host acceptance wait being 0): A selects its
pair 17 → 32 (the return path of 16 → 32 is blocked), B the mirror pair 32 → 17. -/
example : (rounds false 2 (Sys.runs s0 pre)).a.selected = some 2 ∧ (rounds false 2 (Sys.runs s0 pre)).b.selected = some 3
    ∧ (rounds false 2 (Sys.runs s0 pre)).a.connState = .connected ∧ (rounds false 2 (Sys.runs s0 pre)).b.connState = .connected
    ∧ (((rounds false 2 (Sys.runs s0 pre)).a.pairById 2).map fun p => (p.l, p.r)) = some (2, 3)
    ∧ (((rounds false 2 (Sys.runs s0 pre)).b.pairById 3).map fun p => (p.l, p.r)) = some (1, 4) := by
  decide

open LiveExample IceProofs.C01Live in
/-- the hypotheses of `C01_converges_noisy_rounds_partial` hold for the noise "duplicate the head, deliver the fourth,
duplicate the second" before every round. -/
example : (∀ k, ∀ e ∈ (fun _ : Nat => [SysEv.dup 0, .deliver 3, .dup 1]) k, isNoise e = true)
    ∧ BudgetPairD false (Sys.runs (Sys.runs s0 pre) [.dup 0, .deliver 3, .dup 1])
    ∧ max (ntick false (fun _ => [.dup 0, .deliver 3, .dup 1]) 0 (Sys.runs s0 pre)) (nomTime false (Sys.runs s0 pre)) + 2000000000
        ≤ 4000000000 := by
  refine ⟨fun _ e he => ?_, ?_⟩
  · simp only [List.mem_cons, List.mem_singleton, List.not_mem_nil, or_false] at he
    rcases he with rfl | rfl | rfl <;> rfl
  · decide

namespace LiveExample
/-- a fair suffix that is NOT a sequence of canonical rounds: a duplication, deliveries in reverse order, clock
advances between the ticks, later plain rounds; the last advance stops short of the next tick -/
def suf : List SysEv :=
  [.dup 0, .deliver 10, .deliver 10, .deliver 9, .deliver 8, .deliver 8, .deliver 7, .deliver 6, .deliver 6, .deliver 5,
   .deliver 4, .deliver 4, .deliver 3, .deliver 3, .deliver 2, .deliver 2, .deliver 1, .deliver 2, .deliver 2, .deliver 1,
   .deliver 0, .deliver 1, .deliver 1, .deliver 0, .advance 100000000, .advance 200000000,
   .dup 0, .deliver 2, .deliver 1, .deliver 0, .deliver 0, .advance 300000000, .advance 400000000,
   .deliver 0, .deliver 0, .deliver 0, .deliver 0, .advance 2400000000,
   .deliver 0, .deliver 0, .deliver 0, .deliver 0, .advance 4400000000,
   .deliver 0, .deliver 0, .deliver 0, .deliver 0, .advance 4700000000]

/-- a prefix after which the CONTROLLING agent A is already selected and B is not: all of B's first checks are lost,
A validates three pairs, nominates 17 → 32 at its tick; B has answered the nomination and its own check on the marked
pair is in flight -/
def pre3 : List SysEv :=
  [.api false (.addLocal 0 cA1), .api false (.addLocal 0 cA2), .api true (.addLocal 0 cB1), .api true (.addLocal 0 cB2),
   .api false (.addRemote 0 cB1), .api false (.addRemote 0 cB2), .api true (.addRemote 0 cA1), .api true (.addRemote 0 cA2),
   .api false (.start 0 true "ub" "pb"), .api true (.start 0 false "ua" "pa"),
   .drop 4, .drop 4, .drop 4, .drop 4, .deliver 0, .deliver 0, .deliver 0, .deliver 0,
   .drop 1, .drop 2, .drop 3, .drop 4, .deliver 0, .deliver 0, .deliver 0, .deliver 0,
   .advance 200000000, .deliver 0, .deliver 4]

def suf3 : List SysEv :=
  [.dup 1, .deliver 5, .deliver 4, .deliver 4, .deliver 3, .deliver 3, .deliver 2, .deliver 2, .deliver 1, .deliver 1,
   .deliver 0, .advance 300000000, .advance 400000000, .deliver 0, .deliver 0, .deliver 0, .deliver 0, .advance 2400000000,
   .deliver 0, .deliver 0, .deliver 0, .deliver 0, .advance 4400000000, .deliver 0, .deliver 0, .deliver 0, .deliver 0,
   .advance 4900000000]
end LiveExample

set_option maxRecDepth 100000 in
open LiveExample IceProofs.C01Live in
/-- the hypotheses of `C01_converges_fair_partial` hold on the state of the first example for the non-canonical fair
suffix `suf` (latency bound 100 ms, horizon 5 s, `fairBound` = 4.6 s) … -/
example : ReadyF pre false 0 5000000000 100000000 (Sys.runs s0 pre) ∧ BudgetPairD false (Sys.runs s0 pre)
    ∧ SufOK false 5000000000 0 (Sys.runs s0 pre) suf ∧ FairLD 100000000 (Sys.runs s0 pre) suf
    ∧ fairBound false 100000000 0 (Sys.runs s0 pre) < (Sys.runs s0 (pre ++ suf)).now := by
  decide

set_option maxRecDepth 100000 in
open LiveExample IceProofs.C01Live in
/-- … and on a state in which the controlling agent is already selected and the controlled one is not (excluded by
`ReadyD`): `ReadyF` holds through `DPYD`. -/
example : LocalsSane s0.nat pre3 ∧ ReadyF pre3 false 0 5000000000 100000000 (Sys.runs s0 pre3)
    ∧ (Sys.runs s0 pre3).a.selected = some 2 ∧ (Sys.runs s0 pre3).b.selected = none ∧ HasSucc (Sys.runs s0 pre3) false
    ∧ SufOK false 5000000000 0 (Sys.runs s0 pre3) suf3 ∧ FairLD 100000000 (Sys.runs s0 pre3) suf3
    ∧ fairBound false 100000000 0 (Sys.runs s0 pre3) < (Sys.runs s0 (pre3 ++ suf3)).now := by
  decide

/-! ### The excluded points of `C01_converges_fair_partial`, on the model -/

namespace LiveExample
/-- `e10_prflx`: A (controlling) is not told B's second address 33, and 16 ↔ 32 is blocked both ways -/
def s10 : Sys := { s0 with blocked := [(32, 16), (16, 32)] }
def pre10 : List SysEv :=
  [.api false (.addLocal 0 cA1), .api true (.addLocal 0 cB1), .api true (.addLocal 0 cB2),
   .api false (.addRemote 0 cB1), .api true (.addRemote 0 cA1),
   .api false (.start 0 true "ub" "pb"), .api true (.start 0 false "ua" "pa")]
/-- A (16) knows 32 only; B has 32 and 33; everything reachable except A's own address -/
def s11 : Sys := { s0 with blocked := [(16, 16)] }
def pre11 : List SysEv := pre10
def suf11 : List SysEv :=
  [.deliver 2, .deliver 4, .deliver 5, .deliver 5, .deliver 4, .deliver 3, .deliver 4, .deliver 4, .deliver 3, .deliver 2,
   .deliver 1, .deliver 2, .deliver 2, .deliver 1, .deliver 0, .deliver 0, .advance 200000000,
   .deliver 0, .deliver 0, .deliver 0, .deliver 0, .advance 2200000000, .deliver 0, .deliver 0, .deliver 0, .deliver 0,
   .advance 4200000000, .deliver 0, .deliver 0, .deliver 0, .deliver 0, .advance 4700000000]
/-- clock advances that go 200 ms beyond the next tick of the controlling agent (two of its ticks per advance) -/
def sufJ : List SysEv :=
  List.replicate 20 (.deliver 0) ++ [.advance 400000000] ++ List.replicate 6 (.deliver 0) ++ [.advance 800000000] ++
  List.replicate 4 (.deliver 0) ++ [.advance 2800000000] ++ List.replicate 4 (.deliver 0) ++ [.advance 4800000000] ++
  List.replicate 4 (.deliver 0) ++ [.advance 4950000000]
/-- `e12_bigadv`: clock advances of 1 s (five ticks of the controlling agent each), then everything in flight -/
def big : List SysEv :=
  (List.range 2).flatMap fun i => SysEv.advance ((i + 1) * 1000000000) :: List.replicate 100 (SysEv.deliver 0)
end LiveExample

set_option maxRecDepth 100000 in
open LiveExample IceProofs.C01Live in
/-- the only pair of the controlling agent at the start (16 → 32) is not on a `Link`; the pair it converges on (16 → 33)
is created by a peer-reflexive discovery inside the suffix (`hstart` of `C01_converges_fair_partial` fails): the MODEL
converges, after five canonical rounds (the acceptance wait of a prflx candidate is 1 s). -/
example : ¬ BudgetPairD false (Sys.runs s10 pre10) ∧ ¬ HasSucc (Sys.runs s10 pre10) false
    ∧ (rounds false 5 (Sys.runs s10 pre10)).a.selected = some 2 ∧ (rounds false 5 (Sys.runs s10 pre10)).b.selected = some 2
    ∧ (rounds false 5 (Sys.runs s10 pre10)).a.connState = .connected ∧ (rounds false 5 (Sys.runs s10 pre10)).b.connState = .connected
    ∧ (((rounds false 5 (Sys.runs s10 pre10)).a.remotes.map fun r => (r.addr, r.ty))) = [(32, 1), (33, 3)] := by
  decide

set_option maxRecDepth 100000 in
open LiveExample IceProofs.C01Live in
/-- peer-reflexive discovery at the controlling agent INSIDE the suffix is covered: A is not told B's second address 33
(`KnownSrc` fails), the first delivery of `suf11` makes it discover 33 and run a forced tick; all hypotheses of
`C01_converges_fair_partial` hold. -/
example : LocalsSane s11.nat pre11 ∧ ¬ KnownSrc false (Sys.runs s11 pre11)
    ∧ ReadyF pre11 false 0 5000000000 100000000 (Sys.runs s11 pre11) ∧ BudgetPairD false (Sys.runs s11 pre11)
    ∧ SufOK false 5000000000 0 (Sys.runs s11 pre11) suf11 ∧ FairLD 100000000 (Sys.runs s11 pre11) suf11
    ∧ fairBound false 100000000 0 (Sys.runs s11 pre11) < (Sys.runs s11 (pre11 ++ suf11)).now
    ∧ ((Sys.runs s11 pre11).a.remotes.length, (Sys.runs s11 (pre11 ++ suf11.take 1)).a.remotes.length) = (1, 2) := by
  decide

set_option maxRecDepth 100000 in
open LiveExample IceProofs.C01Live in
/-- clock advances over several ticks of the controlling agent are covered up to the jump bound `J`: `sufJ` is not a
`J = 0` suffix, all hypotheses of `C01_converges_fair_partial` hold with `J` = 200 ms, `L` = 50 ms (`fairBound` = 4.9 s). -/
example : ¬ SufOK false 5000000000 0 (Sys.runs s0 pre) sufJ
    ∧ ReadyF pre false 0 5000000000 50000000 (Sys.runs s0 pre) ∧ BudgetPairD false (Sys.runs s0 pre)
    ∧ 200000000 + 2 * 50000000 < 4000000000
    ∧ 200000000 < 99998 * Config.minInterval ((Sys.runs s0 pre).agent false).cfg
    ∧ SufOK false 5000000000 200000000 (Sys.runs s0 pre) sufJ ∧ FairLD 50000000 (Sys.runs s0 pre) sufJ
    ∧ fairBound false 50000000 200000000 (Sys.runs s0 pre) < (Sys.runs s0 (pre ++ sufJ)).now := by
  decide

set_option maxRecDepth 100000 in
open LiveExample IceProofs.C01Live in
/-- clock advances of 1 s (`J` ≥ 800 ms; then `fairBound` exceeds the horizon the default timeouts allow, 5 s — not covered):
the MODEL converges. -/
example : ¬ SufOK false 6000000000 0 (Sys.runs s0 pre) big
    ∧ (Sys.runs s0 (pre ++ big)).a.selected = some 2 ∧ (Sys.runs s0 (pre ++ big)).b.selected = some 3
    ∧ (Sys.runs s0 (pre ++ big)).a.connState = .connected ∧ (Sys.runs s0 (pre ++ big)).b.connState = .connected := by
  decide


/-! ### Round 4: convergence from the first valid pair on — a pair created by a discovery INSIDE the suffix -/

open IceProofs.C01Live in
/-- **liveness (partial): convergence on every fair loss-free suffix in which the controlling agent has its first valid
pair by time `B`** — NO hypothesis on the pairs of the start state (`hstart` of `C01_converges_fair_partial` is gone):
the pair may be created inside the suffix by a peer-reflexive discovery, the controlled agent's check being the first
datagram on that route.  `ValidBy c B s suf` (decidable, a property of the schedule): at some split point of `suf` with
clock `≤ B` the controlling agent has a Succeeded or selected pair.  Beyond
`validBound = max B nomTime + 2 s + 2 J + 4 L` BOTH agents have a selected pair and are Connected.

The full statement would DERIVE `ValidBy` from fairness and "some address pair is reachable both ways and both agents
have a candidate on it, the controlled agent's pair on it within its budget"; that derivation is proved only from
`Start` (`C01_first_valid_fair_partial`), see `C01_first_valid_needs_start_witness`. -/
theorem C01_converges_fair_valid_partial (s0 : Sys) (pre : List SysEv) (hi : Sys.Init s0) (hf : FreshSel s0)
    (hs : LocalsSane s0.nat pre) (c : Bool) (T0 H L J B : Nat) (hr : ReadyF pre c T0 H L (Sys.runs s0 pre))
    (hL : J + 2 * L < 4000000000) (hfuel : J < 99998 * Config.minInterval ((Sys.runs s0 pre).agent c).cfg)
    (suf : List SysEv) (hsuf : SufOK c H J (Sys.runs s0 pre) suf) (hfair : FairL L (Sys.runs s0 pre) suf)
    (hvalid : ValidBy c B (Sys.runs s0 pre) suf)
    (hend : validBound c L J B (Sys.runs s0 pre) < (Sys.runs s0 (pre ++ suf)).now) :
    ∀ x, ((Sys.runs s0 (pre ++ suf)).agent x).selected.isSome = true ∧
         ((Sys.runs s0 (pre ++ suf)).agent x).connState = .connected := by
  have hL' : J + 2 * L < maxBindingRequestTimeout := by unfold maxBindingRequestTimeout; exact hL
  obtain ⟨hfi, hlink⟩ := ready_finv (J := J) hi hf hs hr hfuel (by omega)
  rw [Sys.runs_append] at hend ⊢
  exact converge_fair_from hfi hsuf hfair hL' hlink hvalid hend

open IceProofs.C01Live in
/-- **liveness (partial): the first valid pair.**  From a `ReadyF` state in which the controlling agent has a valid or
selected pair or a pair under budget on a reachable address pair (`hstart`), every fair loss-free suffix whose clock
passes `now + 2 s + J + 2 L` gives the controlling agent a Succeeded or selected pair by that time.  (Composed with
`C01_converges_fair_valid_partial` this is `C01_converges_fair_partial`.)

Full statement (NOT proved): the same conclusion with `hstart` replaced by "the CONTROLLED agent has a pair under budget
on a reachable address pair" — its tick pings, the controlling agent discovers the source, pairs it and checks it. -/
theorem C01_first_valid_fair_partial (s0 : Sys) (pre : List SysEv) (hi : Sys.Init s0) (hf : FreshSel s0)
    (hs : LocalsSane s0.nat pre) (c : Bool) (T0 H L J : Nat) (hr : ReadyF pre c T0 H L (Sys.runs s0 pre))
    (hstart : HasSucc (Sys.runs s0 pre) c ∨ Sel (Sys.runs s0 pre) c ∨ BudgetPairD c (Sys.runs s0 pre))
    (hL : J + 2 * L < 4000000000) (hfuel : J < 99998 * Config.minInterval ((Sys.runs s0 pre).agent c).cfg)
    (suf : List SysEv) (hsuf : SufOK c H J (Sys.runs s0 pre) suf) (hfair : FairL L (Sys.runs s0 pre) suf)
    (hend : (Sys.runs s0 pre).now + 2000000000 + J + 2 * L < (Sys.runs s0 (pre ++ suf)).now) :
    ValidBy c ((Sys.runs s0 pre).now + 2000000000 + J + 2 * L) (Sys.runs s0 pre) suf := by
  have hL' : J + 2 * L < maxBindingRequestTimeout := by unfold maxBindingRequestTimeout; exact hL
  obtain ⟨hfi, _⟩ := ready_finv (L := L) (J := J) hi hf hs hr hfuel (by omega)
  rw [Sys.runs_append] at hend
  exact first_valid_by hfi hsuf hfair hL' (hstart.imp id (Or.imp id BudgetPairD.budget)) hend

namespace LiveExample
/-- `f5_disc`: A (16, controlling) is told 32 only and 16 ↔ 32 is blocked both ways (and A cannot reach itself); B has
32 and 33 -/
def s12 : Sys := { s0 with blocked := [(32, 16), (16, 32), (16, 16)] }
def blk (t : Nat) : List SysEv := SysEv.advance t :: List.replicate 12 (SysEv.deliver 0)
/-- everything in flight, then A's ticks every 200 ms with everything in flight after each, the keepalive tick at
3.2 s, a last advance to 4.5 s -/
def suf12 : List SysEv :=
  List.replicate 12 (.deliver 0) ++ blk 200000000 ++ blk 400000000 ++ blk 600000000 ++ blk 800000000 ++ blk 1000000000 ++
  blk 1200000000 ++ blk 3200000000 ++ [.advance 4500000000]
/-- nothing is reachable -/
def sBlk : Sys := { s0 with blocked := [(32, 16), (16, 32), (16, 16), (33, 16), (16, 33)] }
def sufBlk : List SysEv := List.replicate 12 (.deliver 0) ++ (List.range 12).flatMap fun i => blk ((i + 1) * 200000000)
end LiveExample

set_option maxRecDepth 100000 in
open LiveExample IceProofs.C01Live in
/-- non-vacuity of `C01_converges_fair_valid_partial` AT THE POINT `C01_converges_fair_partial` EXCLUDES: the controlling
agent's only pair at the start (16 → 32) is not on a `Link` (`hstart` fails); B's check 33 → 16, in flight at the start,
makes A discover 33, pair 16 → 33 and check it in the forced tick; the answer validates the pair at time 0 (`ValidBy … 0`);
all hypotheses hold (`L` = 100 ms, `validBound` = 4.4 s).  Real agents: `notes/C01-live-f5_disc.ops`, 0 mismatches. -/
example : LocalsSane s12.nat pre10 ∧ ReadyF pre10 false 0 5000000000 100000000 (Sys.runs s12 pre10)
    ∧ ¬ (HasSucc (Sys.runs s12 pre10) false ∨ Sel (Sys.runs s12 pre10) false ∨ BudgetPairD false (Sys.runs s12 pre10))
    ∧ SufOK false 5000000000 0 (Sys.runs s12 pre10) suf12 ∧ FairLD 100000000 (Sys.runs s12 pre10) suf12
    ∧ ValidBy false 0 (Sys.runs s12 pre10) suf12
    ∧ validBound false 100000000 0 0 (Sys.runs s12 pre10) < (Sys.runs s12 (pre10 ++ suf12)).now
    ∧ ((Sys.runs s12 pre10).a.remotes.map fun r => (r.addr, r.ty)) = [(32, 1)]
    ∧ ((Sys.runs s12 (pre10 ++ suf12)).a.remotes.map fun r => (r.addr, r.ty)) = [(32, 1), (33, 3)] := by
  decide

set_option maxRecDepth 100000 in
open LiveExample IceProofs.C01Live in
/-- non-vacuity of `C01_first_valid_fair_partial`: the first example (`pre`, `suf`), deadline 2.2 s. -/
example : ReadyF pre false 0 5000000000 100000000 (Sys.runs s0 pre) ∧ BudgetPairD false (Sys.runs s0 pre)
    ∧ SufOK false 5000000000 0 (Sys.runs s0 pre) suf ∧ FairLD 100000000 (Sys.runs s0 pre) suf
    ∧ (Sys.runs s0 pre).now + 2000000000 + 0 + 2 * 100000000 < (Sys.runs s0 (pre ++ suf)).now
    ∧ ValidBy false 2200000000 (Sys.runs s0 pre) suf := by
  decide

set_option maxRecDepth 100000 in
open LiveExample IceProofs.C01Live in
/-- `hstart` cannot simply be dropped from `C01_first_valid_fair_partial`: with NO address pair reachable every other
hypothesis holds on a fair loss-free suffix, and no valid pair ever appears (what must replace `hstart` in the full
statement is a reachable pair under budget at the CONTROLLED agent). -/
theorem C01_first_valid_needs_start_witness :
    ¬ (∀ (s0 : Sys) (pre : List SysEv) (c : Bool) (T0 H L J : Nat), Sys.Init s0 → FreshSel s0 → LocalsSane s0.nat pre →
        ReadyF pre c T0 H L (Sys.runs s0 pre) → J + 2 * L < 4000000000 →
        J < 99998 * Config.minInterval ((Sys.runs s0 pre).agent c).cfg →
        ∀ suf, SufOK c H J (Sys.runs s0 pre) suf → FairLD L (Sys.runs s0 pre) suf →
        (Sys.runs s0 pre).now + 2000000000 + J + 2 * L < (Sys.runs s0 (pre ++ suf)).now →
        ValidBy c ((Sys.runs s0 pre).now + 2000000000 + J + 2 * L) (Sys.runs s0 pre) suf) := by
  intro h
  have := h sBlk pre10 false 0 5000000000 100000000 0 ⟨rfl, rfl, rfl, rfl, rfl, rfl, rfl, rfl, rfl, rfl, rfl, rfl, rfl, rfl, rfl⟩
    (by decide) (by decide) (by decide) (by decide) (by decide) sufBlk (by decide) (by decide) (by decide)
  revert this
  decide


open IceProofs.C01Live in
/-- **liveness (partial): convergence through a pair that comes into being by a peer-reflexive discovery INSIDE the
suffix.**  Start class = `ReadyF` WITHOUT `hstart` (the controlling agent need not have any usable pair) + `DiscReqD`
(decidable): an ordinary check of the CONTROLLED agent is in flight on an address pair reachable both ways (`Link`), and
the controlling agent does not know its source as a remote candidate.  On every fair loss-free suffix (latency `L`,
jumps `J`, `J + 2 L < 4 s`): the controlling agent discovers the source within `L` (the delivery of that check, or of any
other datagram from that source), pairs it with its local candidate and checks the new pair in the forced tick; the
pair is valid within `3 L`; beyond `validBound … (now + 3 L) = max (now + 3 L) nomTime + 2 s + 2 J + 4 L` BOTH agents have a
selected pair and are Connected.

Full statement (NOT proved): `DiscReqD` replaced by "the controlled agent has a pair under budget on a `Link`" (its next
tick sends the check) — needs the controlled agent's ticks as progress steps, see notes/C01-live.md. -/
theorem C01_converges_fair_disc_partial (s0 : Sys) (pre : List SysEv) (hi : Sys.Init s0) (hf : FreshSel s0)
    (hs : LocalsSane s0.nat pre) (c : Bool) (T0 H L J : Nat) (hr : ReadyF pre c T0 H L (Sys.runs s0 pre))
    (hdisc : DiscReqD c (Sys.runs s0 pre))
    (hL : J + 2 * L < 4000000000) (hfuel : J < 99998 * Config.minInterval ((Sys.runs s0 pre).agent c).cfg)
    (suf : List SysEv) (hsuf : SufOK c H J (Sys.runs s0 pre) suf) (hfair : FairL L (Sys.runs s0 pre) suf)
    (hend : validBound c L J ((Sys.runs s0 pre).now + 3 * L) (Sys.runs s0 pre) < (Sys.runs s0 (pre ++ suf)).now) :
    ∀ x, ((Sys.runs s0 (pre ++ suf)).agent x).selected.isSome = true ∧
         ((Sys.runs s0 (pre ++ suf)).agent x).connState = .connected := by
  have hL' : J + 2 * L < maxBindingRequestTimeout := by unfold maxBindingRequestTimeout; exact hL
  obtain ⟨hfi, hlink⟩ := ready_finv (J := J) hi hf hs hr hfuel (by omega)
  rw [Sys.runs_append] at hend ⊢
  have hend' : (Sys.runs s0 pre).now + 3 * L < (Sys.runs (Sys.runs s0 pre) suf).now := by
    unfold validBound at hend
    have := Nat.le_max_left ((Sys.runs s0 pre).now + 3 * L) (nomTime c (Sys.runs s0 pre))
    omega
  exact converge_fair_from hfi hsuf hfair hL' hlink (disc_valid_D hfi hsuf hfair hL' hdisc hend') hend

set_option maxRecDepth 100000 in
open LiveExample IceProofs.C01Live in
/-- non-vacuity of `C01_converges_fair_disc_partial` on the `f5_disc` state: `hstart` fails, B's check 33 → 16 is in
flight and A does not know 33 (`DiscReqD`); with nothing reachable (`sBlk`) `DiscReqD` fails. -/
example : LocalsSane s12.nat pre10 ∧ ReadyF pre10 false 0 5000000000 100000000 (Sys.runs s12 pre10)
    ∧ ¬ (HasSucc (Sys.runs s12 pre10) false ∨ Sel (Sys.runs s12 pre10) false ∨ BudgetPairD false (Sys.runs s12 pre10))
    ∧ DiscReqD false (Sys.runs s12 pre10) ∧ ¬ DiscReqD false (Sys.runs sBlk pre10)
    ∧ SufOK false 5000000000 0 (Sys.runs s12 pre10) suf12 ∧ FairLD 100000000 (Sys.runs s12 pre10) suf12
    ∧ validBound false 100000000 0 ((Sys.runs s12 pre10).now + 3 * 100000000) (Sys.runs s12 pre10)
        < (Sys.runs s12 (pre10 ++ suf12)).now := by
  decide


open IceProofs.C01Live in
/-- **liveness (partial): the controlled agent's TICK as the progress step.**  Start class = `ReadyF` WITHOUT `hstart` +
`TickReqD` (decidable): nothing in flight is deliverable (e.g. the controlled agent's first check was lost), the
controlled agent has no selected pair, its timer is due not later than the controlling agent's, and it has a pair
Waiting / In-Progress within its request budget on an address pair reachable both ways whose local address the
controlling agent does not know.  On every fair loss-free suffix: the controlled agent's tick sends the check (by
`ctlTick + J` at the latest), the controlling agent discovers the source, pairs and checks it
(`C01_converges_fair_disc_partial`), has a valid pair by `ctlTick + J + 3 L`, and beyond
`validBound … (ctlTick + J + 3 L)` BOTH agents have a selected pair and are Connected.

Full statement (NOT proved): without "nothing in flight is deliverable" and "timer not later than the controlling
agent's" — then deliveries to the controlled agent before its tick must be shown not to take its pair out of
Waiting / In-Progress or to select it without the controlling agent having a valid pair (notes/C01-live.md). -/
theorem C01_converges_fair_tick_partial (s0 : Sys) (pre : List SysEv) (hi : Sys.Init s0) (hf : FreshSel s0)
    (hs : LocalsSane s0.nat pre) (c : Bool) (T0 H L J : Nat) (hr : ReadyF pre c T0 H L (Sys.runs s0 pre))
    (htick : TickReqD c (Sys.runs s0 pre))
    (hL : J + 2 * L < 4000000000) (hfuel : J < 99998 * Config.minInterval ((Sys.runs s0 pre).agent c).cfg)
    (suf : List SysEv) (hsuf : SufOK c H J (Sys.runs s0 pre) suf) (hfair : FairL L (Sys.runs s0 pre) suf)
    (hend : validBound c L J (ctlTick c (Sys.runs s0 pre) + J + 3 * L) (Sys.runs s0 pre) < (Sys.runs s0 (pre ++ suf)).now) :
    ∀ x, ((Sys.runs s0 (pre ++ suf)).agent x).selected.isSome = true ∧
         ((Sys.runs s0 (pre ++ suf)).agent x).connState = .connected := by
  have hL' : J + 2 * L < maxBindingRequestTimeout := by unfold maxBindingRequestTimeout; exact hL
  obtain ⟨hfi, hlink⟩ := ready_finv (J := J) hi hf hs hr hfuel (by omega)
  rw [Sys.runs_append] at hend ⊢
  have hend' : ctlTick c (Sys.runs s0 pre) + J + 3 * L < (Sys.runs (Sys.runs s0 pre) suf).now := by
    unfold validBound at hend
    have := Nat.le_max_left (ctlTick c (Sys.runs s0 pre) + J + 3 * L) (nomTime c (Sys.runs s0 pre))
    omega
  exact converge_fair_from hfi hsuf hfair hL' hlink (tick_valid_D hfi hsuf hfair hL' htick hend') hend

namespace LiveExample
/-- `f6_tick`: as `f5_disc`, but B's first check 33 → 16 has been LOST; only blocked datagrams are in flight -/
def pre13 : List SysEv := pre10 ++ [.drop 2]
def suf13 : List SysEv :=
  List.replicate 3 (.deliver 0) ++ blk 200000000 ++ blk 400000000 ++ blk 600000000 ++ blk 800000000 ++ blk 1000000000 ++
  blk 1200000000 ++ blk 3200000000 ++ [.advance 4600000000]
end LiveExample

set_option maxRecDepth 100000 in
open LiveExample IceProofs.C01Live in
/-- non-vacuity of `C01_converges_fair_tick_partial`: B's check is not in flight (`DiscReqD` fails), B's tick at 200 ms
re-sends it; `validBound` = 4.4 s.  (On `pre10` the check is still in flight, deliverable: `TickReqD` fails there.)
Real agents: `notes/C01-live-f6_tick.ops`. -/
example : LocalsSane s12.nat pre13 ∧ ReadyF pre13 false 0 5000000000 100000000 (Sys.runs s12 pre13)
    ∧ ¬ DiscReqD false (Sys.runs s12 pre13) ∧ TickReqD false (Sys.runs s12 pre13) ∧ ¬ TickReqD false (Sys.runs s12 pre10)
    ∧ ctlTick false (Sys.runs s12 pre13) = 200000000
    ∧ SufOK false 5000000000 0 (Sys.runs s12 pre13) suf13 ∧ FairLD 100000000 (Sys.runs s12 pre13) suf13
    ∧ validBound false 100000000 0 (ctlTick false (Sys.runs s12 pre13) + 0 + 3 * 100000000) (Sys.runs s12 pre13)
        < (Sys.runs s12 (pre13 ++ suf13)).now := by
  decide


open IceProofs.C01Live in
/-- **liveness (partial): the controlled agent converges through its OWN retransmission** (a start class `ReadyF`
EXCLUDES: `NomSeenD ∧ ¬ DPYD`).  `ReadyF0` = `ReadyF` without the clause `¬ NomSeenD ∨ DPYD`; `RetxD` (decidable): the
controlling agent is selected, the controlled agent is not, NOTHING in flight is deliverable (its nomination-triggered
check was lost), its timer is due not later than the controlling agent's, and it has a pair Waiting / In-Progress
within its request budget on an address pair reachable both ways whose responses are looked up to a pair marked
`nomOnSuccess`.  On every fair loss-free suffix (`J + 2 L < 2 s`): the controlled agent's tick re-sends the check (by
`ctlTick + J`), the controlling agent answers, the response selects; beyond `validBound … (ctlTick + J)` BOTH agents have
a selected pair and are Connected.

Full statement (NOT proved): without "nothing in flight is deliverable" / "timer not later than the controlling agent's". -/
theorem C01_converges_fair_retx_partial (s0 : Sys) (pre : List SysEv) (hi : Sys.Init s0) (hf : FreshSel s0)
    (hs : LocalsSane s0.nat pre) (c : Bool) (T0 H L J : Nat) (hr : ReadyF0 pre c T0 H (Sys.runs s0 pre))
    (hretx : RetxD c (Sys.runs s0 pre))
    (hL : J + 2 * L < 2000000000) (hfuel : J < 99998 * Config.minInterval ((Sys.runs s0 pre).agent c).cfg)
    (suf : List SysEv) (hsuf : SufOK c H J (Sys.runs s0 pre) suf) (hfair : FairL L (Sys.runs s0 pre) suf)
    (hend : validBound c L J (ctlTick c (Sys.runs s0 pre) + J) (Sys.runs s0 pre) < (Sys.runs s0 (pre ++ suf)).now) :
    ∀ x, ((Sys.runs s0 (pre ++ suf)).agent x).selected.isSome = true ∧
         ((Sys.runs s0 (pre ++ suf)).agent x).connState = .connected := by
  have hL' : J + 2 * L < maxBindingRequestTimeout := by unfold maxBindingRequestTimeout; omega
  have hfi := ready_finv0 (J := J) hi hf hs hr hfuel (by omega)
  rw [Sys.runs_append] at hend ⊢
  exact retx_converge_D hfi hsuf hfair hL' hL hretx hend

namespace LiveExample
/-- `f7_retx`: `pre3` (A selected, B not, B's triggered check in flight), then EVERYTHING deliverable in flight is lost -/
def pre14 : List SysEv := pre3 ++ [.drop 1, .drop 1, .drop 1, .drop 1]
def suf14 : List SysEv :=
  [.deliver 0] ++ blk 400000000 ++ blk 2400000000 ++ blk 4400000000 ++ [.advance 4500000000]
end LiveExample

set_option maxRecDepth 100000 in
open LiveExample IceProofs.C01Live in
/-- non-vacuity of `C01_converges_fair_retx_partial`: `ReadyF` fails (A is selected, B's check is gone), `ReadyF0` and
`RetxD` hold (on `pre3` the check is still in flight: `RetxD` fails there); B's tick at 400 ms re-sends the check on its
marked pair 32 → 17; `validBound` = 4.4 s.  Real agents: `notes/C01-live-f7_retx.ops`. -/
example : LocalsSane s0.nat pre14 ∧ ReadyF0 pre14 false 0 5000000000 (Sys.runs s0 pre14)
    ∧ ¬ ReadyF pre14 false 0 5000000000 100000000 (Sys.runs s0 pre14)
    ∧ RetxD false (Sys.runs s0 pre14) ∧ ¬ RetxD false (Sys.runs s0 pre3)
    ∧ ctlTick false (Sys.runs s0 pre14) = 400000000
    ∧ SufOK false 5000000000 0 (Sys.runs s0 pre14) suf14 ∧ FairLD 100000000 (Sys.runs s0 pre14) suf14
    ∧ validBound false 100000000 0 (ctlTick false (Sys.runs s0 pre14) + 0) (Sys.runs s0 pre14)
        < (Sys.runs s0 (pre14 ++ suf14)).now := by
  decide


/-! ### Round 4, (c): one wide start class -/

open IceProofs.C01Live in
/-- **the wide start class** (decidable): `ReadyF` with one of — the controlling agent has a valid / selected / budgeted
pair on a reachable address pair (`hstart`); a check of the controlled agent is in flight on a reachable pair whose
source the controlling agent does not know (`DiscReqD`); that check is lost, quiet network (`TickReqD`) — or `ReadyF0`
with: controlling agent selected, the controlled agent's triggered check lost, quiet network (`RetxD`, `J + 2 L < 2 s`). -/
def ReadyW (pre : List SysEv) (c : Bool) (T0 H L J : Nat) (s : Sys) : Prop :=
  (ReadyF pre c T0 H L s ∧ ((HasSucc s c ∨ Sel s c ∨ BudgetPairD c s) ∨ DiscReqD c s ∨ TickReqD c s)) ∨
  (ReadyF0 pre c T0 H s ∧ RetxD c s ∧ J + 2 * L < 2000000000)

open IceProofs.C01Live in
instance (pre : List SysEv) (c : Bool) (T0 H L J : Nat) (s : Sys) : Decidable (ReadyW pre c T0 H L J s) := by
  unfold ReadyW; infer_instance

open IceProofs.C01Live in
/-- the time by which every `ReadyW` start has converged -/
def wideBound (c : Bool) (L J : Nat) (s : Sys) : Nat :=
  validBound c L J (max (s.now + 2000000000 + J + 2 * L) (ctlTick c s + J + 3 * L)) s

open IceProofs.C01Live in
/-- **liveness (partial): convergence on every fair loss-free suffix from the wide start class `ReadyW`**, one bound
`wideBound = max (now + 2 s + J + 2 L) (ctlTick + J + 3 L) nomTime + 2 s + 2 J + 4 L` (the four round-3/4 theorems composed).

Full statement `C01_converges` (NOT proved): any reachable state of two opposite-role agents holding each other's
credentials with one bidirectionally reachable candidate address pair within the retry budget, every fair schedule —
the quiet-network restrictions of `TickReqD` / `RetxD`, the jump bound and the exclusions of `ReadyF` remain
(notes/C01-live.md). -/
theorem C01_converges_fair_wide_partial (s0 : Sys) (pre : List SysEv) (hi : Sys.Init s0) (hf : FreshSel s0)
    (hs : LocalsSane s0.nat pre) (c : Bool) (T0 H L J : Nat) (hr : ReadyW pre c T0 H L J (Sys.runs s0 pre))
    (hL : J + 2 * L < 4000000000) (hfuel : J < 99998 * Config.minInterval ((Sys.runs s0 pre).agent c).cfg)
    (suf : List SysEv) (hsuf : SufOK c H J (Sys.runs s0 pre) suf) (hfair : FairL L (Sys.runs s0 pre) suf)
    (hend : wideBound c L J (Sys.runs s0 pre) < (Sys.runs s0 (pre ++ suf)).now) :
    ∀ x, ((Sys.runs s0 (pre ++ suf)).agent x).selected.isSome = true ∧
         ((Sys.runs s0 (pre ++ suf)).agent x).connState = .connected := by
  unfold wideBound validBound at hend
  rcases hr with ⟨hrf, hst | hd | ht⟩ | ⟨hr0, hx, hJ⟩
  · exact C01_converges_fair_partial s0 pre hi hf hs c T0 H L J hrf hst hL hfuel suf hsuf hfair
      (by unfold fairBound; omega)
  · exact C01_converges_fair_disc_partial s0 pre hi hf hs c T0 H L J hrf hd hL hfuel suf hsuf hfair
      (by unfold validBound; omega)
  · exact C01_converges_fair_tick_partial s0 pre hi hf hs c T0 H L J hrf ht hL hfuel suf hsuf hfair
      (by unfold validBound; omega)
  · exact C01_converges_fair_retx_partial s0 pre hi hf hs c T0 H L J hr0 hx hJ hfuel suf hsuf hfair
      (by unfold validBound; omega)

namespace LiveExample
def suf12w : List SysEv := suf12.dropLast ++ [.advance 4700000000]
end LiveExample

set_option maxRecDepth 100000 in
open LiveExample IceProofs.C01Live in
/-- non-vacuity of `C01_converges_fair_wide_partial`: the four example states (budgeted pair at A; B's check in flight,
source unknown to A; that check lost; A selected and B's triggered check lost) are all `ReadyW`, the unreachable one
is not; on the discovery state the fair suffix `suf12w` passes `wideBound` (4.6 s). -/
example : ReadyW pre false 0 5000000000 100000000 0 (Sys.runs s0 pre)
    ∧ ReadyW pre10 false 0 5000000000 100000000 0 (Sys.runs s12 pre10)
    ∧ ReadyW pre13 false 0 5000000000 100000000 0 (Sys.runs s12 pre13)
    ∧ ReadyW pre14 false 0 5000000000 100000000 0 (Sys.runs s0 pre14)
    ∧ ¬ ReadyW pre10 false 0 5000000000 100000000 0 (Sys.runs sBlk pre10)
    ∧ SufOK false 5000000000 0 (Sys.runs s12 pre10) suf12w ∧ FairLD 100000000 (Sys.runs s12 pre10) suf12w
    ∧ wideBound false 100000000 0 (Sys.runs s12 pre10) < (Sys.runs s12 (pre10 ++ suf12w)).now := by
  decide


/-! ### Round 4: the controlled agent's tick WITHOUT "its timer is due first" -/

open IceProofs.C01Live in
/-- **liveness (partial): the controlled agent's tick as the progress step, the controlling agent ticking in between.**
As `C01_converges_fair_tick_partial`, but `TickReq2D` (decidable) replaces "the controlled agent's timer is due not
later than the controlling agent's" by "every (local address, known remote address) route of the controlling agent is
undeliverable" (blocked, or nobody listens): the controlling agent's ticks before the controlled agent's tick then
only send undeliverable checks (`advance_routes`: a clock advance sends only on such routes).  The controlled agent's tick
sends the check by `cldTick + 2 s + J`; valid pair by `cldTick + 2 s + J + 3 L`.

Full statement (NOT proved): without "nothing in flight is deliverable" / "routes undeliverable" (notes/C01-live.md). -/
theorem C01_converges_fair_tick2_partial (s0 : Sys) (pre : List SysEv) (hi : Sys.Init s0) (hf : FreshSel s0)
    (hs : LocalsSane s0.nat pre) (c : Bool) (T0 H L J : Nat) (hr : ReadyF pre c T0 H L (Sys.runs s0 pre))
    (htick : TickReq2D c (Sys.runs s0 pre))
    (hL : J + 2 * L < 4000000000) (hfuel : J < 99998 * Config.minInterval ((Sys.runs s0 pre).agent c).cfg)
    (suf : List SysEv) (hsuf : SufOK c H J (Sys.runs s0 pre) suf) (hfair : FairL L (Sys.runs s0 pre) suf)
    (hend : validBound c L J (cldTick c (Sys.runs s0 pre) + 2000000000 + J + 3 * L) (Sys.runs s0 pre)
      < (Sys.runs s0 (pre ++ suf)).now) :
    ∀ x, ((Sys.runs s0 (pre ++ suf)).agent x).selected.isSome = true ∧
         ((Sys.runs s0 (pre ++ suf)).agent x).connState = .connected := by
  have hL' : J + 2 * L < maxBindingRequestTimeout := by unfold maxBindingRequestTimeout; exact hL
  obtain ⟨hfi, hlink⟩ := ready_finv (J := J) hi hf hs hr hfuel (by omega)
  rw [Sys.runs_append] at hend ⊢
  have hend' : cldTick c (Sys.runs s0 pre) + 2000000000 + J + 3 * L < (Sys.runs (Sys.runs s0 pre) suf).now := by
    unfold validBound at hend
    have := Nat.le_max_left (cldTick c (Sys.runs s0 pre) + 2000000000 + J + 3 * L) (nomTime c (Sys.runs s0 pre))
    omega
  exact converge_fair_from hfi hsuf hfair hL' hlink
    (tick_valid2_D (fun hg hT h => advance_routes hg hT h) hfi hsuf hfair hL' htick hend') hend

namespace LiveExample
/-- `f8_tick2`: A starts at 0, B at 100 ms; B's first check 33 → 16 is lost; A's timer (200 ms) is due BEFORE B's (300 ms) -/
def pre15 : List SysEv :=
  [.api false (.addLocal 0 cA1), .api true (.addLocal 0 cB1), .api true (.addLocal 0 cB2),
   .api false (.addRemote 0 cB1), .api true (.addRemote 0 cA1),
   .api false (.start 0 true "ub" "pb"), .advance 100000000, .api true (.start 100000000 false "ua" "pa"), .drop 2]
def suf15 : List SysEv :=
  List.replicate 3 (.deliver 0) ++ blk 200000000 ++ blk 300000000 ++ blk 500000000 ++ blk 700000000 ++ blk 900000000 ++
  blk 1100000000 ++ blk 1300000000 ++ blk 3300000000 ++ [.advance 4700000000]
end LiveExample

set_option maxRecDepth 100000 in
open LiveExample IceProofs.C01Live in
/-- non-vacuity of `C01_converges_fair_tick2_partial` where `TickReqD` fails (A's tick at 200 ms comes first, it pings
the blocked pair 16 → 32); B's tick at 300 ms re-sends its check; `L` = 50 ms, `validBound` = 4.65 s.
Real agents: `notes/C01-live-f8_tick2.ops`. -/
example : LocalsSane s12.nat pre15 ∧ ReadyF pre15 false 0 5000000000 50000000 (Sys.runs s12 pre15)
    ∧ TickReq2D false (Sys.runs s12 pre15) ∧ ¬ TickReqD false (Sys.runs s12 pre15) ∧ ¬ DiscReqD false (Sys.runs s12 pre15)
    ∧ cldTick false (Sys.runs s12 pre15) = 300000000 ∧ ctlTick false (Sys.runs s12 pre15) = 200000000
    ∧ SufOK false 5000000000 0 (Sys.runs s12 pre15) suf15 ∧ FairLD 50000000 (Sys.runs s12 pre15) suf15
    ∧ validBound false 50000000 0 (cldTick false (Sys.runs s12 pre15) + 2000000000 + 0 + 3 * 50000000) (Sys.runs s12 pre15)
        < (Sys.runs s12 (pre15 ++ suf15)).now := by
  decide

end IceProps.C01
