import IceProofs.CloseSysFinal
import IceTie.Order
/-!
# C08 — Close always terminates, unblocks everyone, and is final

Property theorems over the shutdown model `IceModel.CloseSys` (all reachable states of all well-formed
initial configurations `Init`: any number of threads with any programs, any handler tables, any number of
candidates created by tasks, any socket behaviour).  Lemmas are in `IceProofs/CloseSys*.lean`.

* `C08_no_deadlock`            — while a Close is pending some non-environment transition is enabled
                                  (under the documented contract `Contract`: no handler calls GracefulClose)
* `C08_graceful_in_handler_witness` — the excluded case does deadlock (concrete execution)
* `C08_close_first_step`       — the first statement of every Close is always enabled
* `C08_terminates`             — once `done` is closed EVERY transition strictly decreases the measure `mu`
* `C08_terminates_bound`       — hence every execution from such a state has at most `mu s` transitions
* `C08_close_returns`          — a maximal execution leaves no Close pending
* `C08_after_close`            — the state after a Close has returned; `C08_after_close_stable` — it stays so
-/
namespace IceProps.C08
open IceModel.CloseSys IceProofs.CloseSys

/-- **No deadlock.** In every reachable state in which some `Close`/`GracefulClose` is pending, some
non-environment transition is enabled — for every initial configuration whose handlers respect the
documented contract (agent.go:1509-1511: GracefulClose is not called synchronously from a handler). -/
theorem C08_no_deadlock {s0 s : State} (h0 : Init s0) (hc : Contract s0) (hr : Reach s0 s) (hp : ClosePending s) :
    ∃ a : Action, a.nonEnv = true ∧ (step s a).isSome = true :=
  (reach_inv h0 hr).no_deadlock (reach_contract hc hr) hp

/-! ### the excluded case: `GracefulClose` called synchronously from a handler -/

/-- one notifier whose handler for event 1 calls `GracefulClose`; one API thread whose task enqueues event 1. -/
def witness0 : State :=
  { streams := [{ hdl := [[], [.close true]] }], thr := [{ prog := [.run .loop [.enq 0 1]] }] }

/-- the API call runs its task (event 1 is queued), the drainer enters the handler, the handler calls
GracefulClose, the loop shuts down, the closer closes notifier 0 and waits for its own drainer. -/
def witnessActs : List Action :=
  [.th (.api 0) false, .th (.api 0) true, .loop, .loop, .th (.api 0) false,
   .th (.dr 0) false, .th (.dr 0) false, .th (.dr 0) false, .th (.dr 0) false,
   .loop, .loop, .loop, .loop, .loop, .loop, .loop, .loop,
   .th (.dr 0) false, .th (.dr 0) false]

def witnessEnd : State := (run witness0 witnessActs).getD {}

theorem witness_init : Init witness0 := by
  refine ⟨rfl, rfl, rfl, rfl, rfl, rfl, rfl, ?_, ?_, by simp [witness0]⟩
  · intro n th h
    cases n with
    | zero => simp [witness0] at h; subst h; simp
    | succ n => simp [witness0] at h
  · intro i st h
    cases i with
    | zero => simp [witness0] at h; subst h; simp
    | succ i => simp [witness0] at h

theorem witness_run : run witness0 witnessActs = some witnessEnd := by
  have h1 : (run witness0 witnessActs).isSome = true := by decide
  unfold witnessEnd
  cases h : run witness0 witnessActs with
  | none => simp [h] at h1
  | some s => rfl

theorem witness_pending : ClosePending witnessEnd :=
  ⟨.dr 0, { prog := [.close true], loc := .cWait true 0 }, by decide, fun st h => by
      have : st = (witnessEnd.streams[0]?).getD {} := by rw [h]; rfl
      subst this; decide, trivial⟩

theorem witness_stuck (a : Action) : step witnessEnd a = none := by
  cases a with
  | loop => decide
  | th t alt =>
    cases t with
    | api n =>
      cases n with
      | zero => cases alt <;> decide
      | succ n => rfl
    | dr i =>
      cases i with
      | zero => cases alt <;> decide
      | succ i => rfl
    | rl c => rfl
  | rl c alt => rfl
  | envData c => rfl
  | envLoopWrite => decide
  | envTh t =>
    cases t with
    | api n =>
      cases n with
      | zero => decide
      | succ n => rfl
    | dr i =>
      cases i with
      | zero => decide
      | succ i => rfl
    | rl c => rfl

/-- **The contract is necessary.** From a well-formed initial configuration whose only defect is a
handler that calls `GracefulClose`, a concrete execution reaches a state in which that Close is pending
and NO transition at all (not even an environment transition) is enabled. -/
theorem C08_graceful_in_handler_witness :
    Init witness0 ∧ ¬ Contract witness0 ∧ Reach witness0 witnessEnd ∧ ClosePending witnessEnd ∧
      ∀ a : Action, step witnessEnd a = none := by
  refine ⟨witness_init, ?_, reach_run witness_run, witness_pending, witness_stuck⟩
  intro hc
  have := (hc 0 _ (by decide : witness0.streams[0]? = some { hdl := [[], [.close true]] })).1 [.close true] (by simp)
  simp [NoG] at this


/-! ### termination -/

/-- The first statement of every `Close` (take the loop's close-once, or find it taken) is enabled unless
another closer is inside the once — and that closer can always move (`abortIO` never blocks). -/
theorem C08_close_first_step {s0 s : State} (h0 : Init s0) (hr : Reach s0 s) {t : Tid} {th : Th} {g : Bool}
    (hget : getTh s t = some th) (ha : Active s t th) (hl : th.loc = .cOnce g) :
    ∃ a : Action, a.nonEnv = true ∧ (step s a).isSome = true := by
  have h := reach_inv h0 hr
  cases ho : s.once with
  | free => exact CanStep.th (t := t) (alt := false) (thStep_some hget ha (by simp [callStep, hl, ho]))
  | finished => exact CanStep.th (t := t) (alt := false) (thStep_some hget ha (by simp [callStep, hl, ho]))
  | running o k => exact h.owner_can_step ho

/-- **Termination measure.** In every reachable state in which `done` is closed (some Close has executed
its first statement), EVERY transition — loop, threads, receive loops, handlers, and environment —
strictly decreases the natural-number measure `mu` (the wait-for ranks of DESIGN D.4 as one potential). -/
theorem C08_terminates {s0 s s' : State} {a : Action} (h0 : Init s0) (hr : Reach s0 s) (hd : s.done = true)
    (hs : step s a = some s') : mu s' < mu s :=
  mu_step (reach_inv h0 hr) hd hs

/-- … hence every execution from such a state is finite: at most `mu s` transitions, under ANY scheduler. -/
theorem C08_terminates_bound {s0 s s' : State} {acts : List Action} (h0 : Init s0) (hr : Reach s0 s)
    (hd : s.done = true) (hrun : run s acts = some s') : acts.length ≤ mu s := by
  have := run_length_le_mu (reach_inv h0 hr) hd hrun; omega

/-- **Every Close returns.** A state reached by an execution after which no non-environment transition is
enabled (a maximal execution: the fair scheduler has nothing left to run) has no pending Close. With
`C08_terminates_bound` (executions are finite) this is "every fair execution returns from every Close". -/
theorem C08_close_returns {s0 s : State} (h0 : Init s0) (hc : Contract s0) (hr : Reach s0 s)
    (hmax : ∀ a : Action, a.nonEnv = true → step s a = none) : ¬ ClosePending s := by
  intro hp
  obtain ⟨a, ha, hs⟩ := C08_no_deadlock h0 hc hr hp
  rw [hmax a ha] at hs
  simp at hs

/-! ### after Close has returned -/

/-- **After a Close has returned** (`closeRet`): `done` and `taskLoopDone` are closed — the loop goroutine is
gone; every receive loop has returned and every candidate's socket I/O is aborted; the gather cycle has
ended; the buffer is closed; Closed is the last state the connection-state notifier accepted; every
notifier is closed; every new `Run`/`Read`/`Write` and every call still blocked in `Run`, `Read`, `Write`,
`AwaitConnect` returns at once with the closed / I/O error and without touching the shared state; no
transition ever hands a task to the loop again. After a GracefulClose (`gcloseRet`) moreover no notifier
has a drainer (and, notifiers being closed, none is started later). -/
theorem C08_after_close {s0 s : State} (h0 : Init s0) (hr : Reach s0 s) (hc : s.closeRet = true) :
    AfterClose s ∧
    (∀ (t : Tid) (th : Th), StateCall th → ErrReturn s t th) ∧
    (∀ (a : Action) (s' : State), step s a = some s' → s'.tasksRun = s.tasksRun) ∧
    (s.gcloseRet = true → ∀ (i : Nat) (st : Stream), s.streams[i]? = some st → st.ndone = true ∧ st.running = false) := by
  have h := reach_inv h0 hr
  have ha := h.afterClose hc
  exact ⟨ha, fun t th hc => ha.errReturn t th hc, fun a s' hs => step_tasksRun ha.done hs, fun hg => h.ghost.2 hg⟩

/-- Close is final: the two ghost flags are never reset, so `C08_after_close` holds in every later state. -/
theorem C08_after_close_stable {s s' : State} {a : Action} (hs : step s a = some s') :
    (s.closeRet = true → s'.closeRet = true) ∧ (s.gcloseRet = true → s'.gcloseRet = true) :=
  ⟨fun h => by rw [step_closeRet h hs]; exact h, fun h => by rw [step_gcloseRet h hs]; exact h⟩

/-! ### non-vacuity -/

/-- a session: two notifiers (the state handler re-enters the API and calls `Close()` on event 1), an API thread
that adds a blocking candidate, one that starts checks (state change 1) and writes on the blocking socket inside
a task, a reader, an awaiter, a gather cycle, a checker, a plain closer and a graceful closer. -/
def demo0 : State :=
  { streams := [{ hdl := [[.work], [.run .loop [], .close false]] }, { hdl := [[.work]] }],
    thr := [{ prog := [.run .loop [.startCand true 2 true, .gather 4, .spawn 5, .startedFn, .enq 0 1, .enq 1 0]] },
            { prog := [.run .loop [.write 0]] },
            { prog := [.read] }, { prog := [.await] },
            { kind := .gather, live := false, prog := [.run .loop [], .work, .run .own [.startCand false 0 false]] },
            { kind := .checker, live := false, prog := [.run .loop [], .run .loop []] },
            { prog := [.close false] }, { prog := [.close true] }],
    rtask := [.write 0] }

theorem demo_init : Init demo0 := by
  refine ⟨rfl, rfl, rfl, rfl, rfl, rfl, rfl, ?_, ?_, by simp [demo0]⟩
  · intro n th h
    have hn : n < 8 := by
      rcases Nat.lt_or_ge n 8 with h1 | h1
      · exact h1
      · simp [demo0, h1] at h
    have : th = (demo0.thr[n]?).getD {} := by rw [h]; rfl
    subst this
    rcases n with _ | _ | _ | _ | _ | _ | _ | _ | n
    all_goals first | omega | (refine ⟨rfl, ?_⟩; simp [demo0, GProg])
  · intro i st h
    have hi : i < 2 := by
      rcases Nat.lt_or_ge i 2 with h1 | h1
      · exact h1
      · simp [demo0, h1] at h
    have : st = (demo0.streams[i]?).getD {} := by rw [h]; rfl
    subst this
    rcases i with _ | _ | i
    all_goals first | omega | simp [demo0]

theorem demo_contract : Contract demo0 := by
  intro i st h
  have hi : i < 2 := by
    rcases Nat.lt_or_ge i 2 with h1 | h1
    · exact h1
    · simp [demo0, h1] at h
  have : st = (demo0.streams[i]?).getD {} := by rw [h]; rfl
  subst this
  rcases i with _ | _ | i
  · refine ⟨?_, by simp [NoG, demo0], by simp [demo0, LocNoG]⟩; intro p hp; simp [demo0] at hp; rcases hp with rfl | rfl <;> simp [NoG]
  · refine ⟨?_, by simp [NoG, demo0], by simp [demo0, LocNoG]⟩; intro p hp; simp [demo0] at hp; subst hp; simp [NoG]
  · omega

/-- an execution in which a task blocks writing on a blocking socket, a Read and an AwaitConnect are parked,
`Close` is called from an API thread AND from inside the state handler, then `GracefulClose`; everything
returns. -/
def demoActs : List Action :=
  [ -- thread 0: Run(task): candidate 0 (blocking socket), gather cycle 4, checker 5, startedFn, two notifications
    .th (.api 0) false, .th (.api 0) true, .loop, .loop, .loop, .loop, .loop, .loop, .loop, .th (.api 0) false,
    -- candidate 0's receive loop starts reading; reader and awaiter park
    .rl 0 true, .th (.api 2) false, .th (.api 3) false,
    -- thread 1: a task that blocks in the socket write
    .th (.api 1) false, .th (.api 1) true,
    -- the state handler (event 1) re-enters the API …
    .th (.dr 0) false, .th (.dr 0) false,
    -- … while thread 6 calls Close: once, done, abort candidate 0 (pre-stop) — the blocked write returns
    .th (.api 6) false, .th (.api 6) false, .th (.api 6) false, .th (.api 6) false,
    .th (.dr 0) false,                       -- the handler's Run returns the closed error
    .th (.dr 0) false, .th (.dr 0) false,    -- the handler calls Close(): finds the once finished, waits for the loop
    .loop, .loop,                            -- write returns, task ends
    .th (.api 1) false,                      -- Run of thread 1 returns nil
    .loop, .loop,                            -- onClose: cancel gather; wait …
    .th (.api 4) false,                      -- gather cycle: Run → closed
    .th (.api 4) false, .th (.api 4) false,  -- work; Run(own ctx) → closed; cycle done
    .loop,                                   -- gather done; deleteAllCandidates waits for candidate 0's closedCh
    .rl 0 false,                             -- recvLoop: read fails, exits
    .loop, .loop,                            -- unlist; no candidate left
    .loop, .loop, .loop, .loop,              -- startedFn, buf.Close, Closed → notifier, taskLoopDone
    .th (.api 2) false, .th (.api 3) false,  -- Read → error, AwaitConnect → closed
    .th (.api 5) false,                      -- checker leaves at loop.Done
    .th (.api 6) false, .th (.api 6) false, .th (.api 6) false, .th (.api 6) false,  -- Close returns
    .th (.dr 0) false, .th (.dr 0) false, .th (.dr 0) false, .th (.dr 0) false,      -- handler's Close returns
    .th (.api 7) false, .th (.api 7) false, .th (.api 7) false, .th (.api 7) false,  -- GracefulClose: notifier 0 closed, wait
    .th (.dr 0) false, .th (.dr 0) false, .th (.dr 0) false,                        -- drainer: Closed handler, exits
    .th (.api 7) false, .th (.api 7) false,
    .th (.dr 1) false, .th (.dr 1) false, .th (.dr 1) false,
    .th (.api 7) false, .th (.api 7) false ]

def demoEnd : State := (run demo0 demoActs).getD {}

theorem demo_run : run demo0 demoActs = some demoEnd := by
  have h1 : (run demo0 demoActs).isSome = true := by decide
  unfold demoEnd
  cases h : run demo0 demoActs with
  | none => simp [h] at h1
  | some s => rfl

/-- the hypotheses of the theorems are satisfiable together: a well-formed, contract-respecting configuration,
a reachable state with Close pending (after 18 actions), and a reachable state in which Close and GracefulClose
have returned, every thread has returned, with the errors the property demands. -/
example : Init demo0 ∧ Contract demo0 := ⟨demo_init, demo_contract⟩
example : ClosePending ((run demo0 (demoActs.take 19)).getD {}) :=
  ⟨.api 6, { prog := [.close false], loc := .cPre false }, by decide, rfl, trivial⟩
example : demoEnd.closeRet = true ∧ demoEnd.gcloseRet = true ∧ demoEnd.loop = .exited ∧ demoEnd.lastAcc = some 0 := by decide
example : demoEnd.thr.map (·.last) =
    [some .ok, some .ok, some .ioerr, some .closed, some .closed, none, some .ok, some .ok] := by decide
example : demoEnd.thr.all (·.finished) = true ∧ demoEnd.streams.all (fun st => st.ndone && !st.running) = true := by decide
example : mu demoEnd = 0 := by decide

/-! ## Tie to the code (T, order of effects): the onClose function of the agent's task loop and the candidate's `abortIO` / `close`
are REGENERATED on every run in effect mode -/

/-- the onClose function (runs once, after the last task): cancel gathering and WAIT for the gather goroutine, release the mux
ufrag, delete (close) all candidates, release `startedCh`, close the receive buffer, close the mDNS connection and LAST set the
state Closed — the final notified state — whether or not closing the buffer failed -/
theorem C08_code_onClose (hasGatherDone bufCloseFails : Bool) :
    IceGen.agent_onClose hasGatherDone bufCloseFails
      = IceTie.Order.c "gatherCandidateCancel" :: (if hasGatherDone then [IceTie.Order.c "wait gatherCandidateDone"] else [])
        ++ [IceTie.Order.c "removeUfragFromMux", IceTie.Order.c "deleteAllCandidates", IceTie.Order.c "startedFn",
            IceTie.Order.c "buf.Close", IceTie.Order.c "closeMulticastConn",
            IceTie.Order.c1 "updateConnectionState" (IceModel.Val.i 7)] ∧
    (IceGen.agent_onClose hasGatherDone bufCloseFails).getLast? = some (IceTie.Order.c1 "updateConnectionState" (IceModel.Val.i 7)) ∧
    IceTie.Order.pos (IceGen.agent_onClose hasGatherDone bufCloseFails) (IceTie.Order.c "deleteAllCandidates")
      < IceTie.Order.pos (IceGen.agent_onClose hasGatherDone bufCloseFails) (IceTie.Order.c1 "updateConnectionState" (IceModel.Val.i 7)) :=
  ⟨IceTie.Order.onClose_tie hasGatherDone bufCloseFails, (IceTie.Order.onClose_closed_last hasGatherDone bufCloseFails).1,
   (IceTie.Order.onClose_closed_last hasGatherDone bufCloseFails).2⟩

/-- `candidateBase.abortIO` and `close`: a never-started candidate returns nil at once; otherwise, once: unblock recvLoop
(`close(closeCh)`), `SetDeadline(now)`, `abortWrite` for mux handles, `conn.Close` — in this order, keeping the first error; `close`
then WAITS for recvLoop and unregisters the candidate -/
theorem C08_code_candidate_close (neverStarted isWriteAborter hasAgent : Bool) :
    IceGen.candidateBase_abortIO neverStarted
      = (if neverStarted then ([], "nil") else ([IceTie.Order.c "closeOnce.Do(abort)"], "closeErr")) ∧
    IceGen.candidateBase_abortIO_once isWriteAborter
      = [IceTie.Order.c "close(closeCh)", IceTie.Order.c "conn.SetDeadline(now) [closeErr = err]"]
        ++ (if isWriteAborter then [IceTie.Order.c "abortWrite [closeErr = first err]"] else [])
        ++ [IceTie.Order.c "conn.Close [closeErr = first err]"] ∧
    IceGen.candidateBase_close neverStarted hasAgent
      = (if neverStarted then ([], "nil")
        else ([IceTie.Order.c "abortIO", IceTie.Order.c "wait closedCh"]
              ++ (if hasAgent then [IceTie.Order.c "unregisterStartedCandidate"] else []), "abortIO err")) :=
  ⟨(IceTie.Order.abortIO_tie neverStarted isWriteAborter).1, (IceTie.Order.abortIO_tie neverStarted isWriteAborter).2,
   IceTie.Order.candidateClose_tie neverStarted hasAgent⟩

example : IceGen.candidateBase_abortIO_once true
    = [IceModel.Eff.call "close(closeCh)" [], IceModel.Eff.call "conn.SetDeadline(now) [closeErr = err]" [],
       IceModel.Eff.call "abortWrite [closeErr = first err]" [], IceModel.Eff.call "conn.Close [closeErr = first err]" []] := by decide

end IceProps.C08
