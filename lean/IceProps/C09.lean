import IceTie.Lifecycle
import IceModel.Gather
import IceSpec.C09
import IceProofs.GatherLedger
import IceProofs.GatherAgent
import IceProofs.GatherPark
import IceProofs.GatherMon
/-!
# C09 — every socket the agent opens is closed when its candidate goes away

Property theorems only (lemmas: `IceProofs/GatherLedger.lean`, `GatherAgent.lean`, `GatherPark.lean`).
Resources: UDP sockets, mux connection handles (UDP / TCP / srflx mux), TURN clients, relay
allocations.  Every gatherer of gather.go is a program over them (`IceModel.Gather.progOf`); the same
programs drive the model that the `gather` component compares with the counting fake Net / muxes /
TURN client around the real agent after every operation.
-/
namespace IceProps.C09
open IceModel.Gather IceProofs.GatherLedger IceProofs.GatherAgent IceProofs.GatherPark IceProofs.GatherMon

/-- **Every exit path of every gatherer is balanced.** For every gather unit (any kind, any number of
mapped / relayed addresses) and EVERY sequence of answers of the environment — each fallible step may
succeed or fail, `addCandidate` may start the candidate, find a duplicate, or fail; a failing
`addCandidate` is what a cancellation at any earlier point looks like to the gatherer, and an answer
after a long wait is a reply that arrives after the cancellation — when the unit returns:
no slot was touched when it was not held (no double release, no release after the hand-over, no
hand-over after a release), and every acquired resource was either released, or closed by
`addCandidate`'s duplicate branch, or is owned by exactly one started candidate. -/
theorem C09_paths_balanced (u : GUnit) (as : List Ans) (l' : Led) (h : (progOf u).run as {} = some l') :
    l'.misuse = false ∧
      ∀ st ∈ l'.slots, st = SlotSt.released ∨ st = SlotSt.dupClosed ∨ ∃ ci, st = SlotSt.owned ci := by
  have hb := ok_sound (progOf u) {} as l' (progOf_ok u) h
  rw [balanced_iff] at hb
  refine ⟨hb.1, ?_⟩
  intro st hst
  have := hb.2 st hst
  cases st with
  | held => exact absurd rfl this
  | released => exact Or.inl rfl
  | dupClosed => exact Or.inr (Or.inl rfl)
  | owned ci => exact Or.inr (Or.inr ⟨ci, rfl⟩)

/-- the checker is not vacuous: the two leaks that were found (F6: reflexive gatherer after a failed
`addCandidate`; F10: relay gatherer after a failed address resolution) are paths on which a slot is
still held when the unit returns -/
theorem C09_paths_balanced_F6_witness :
    srflxProgF6.run [.ok, .ok, .ok, .ok, .fail] {} = some { slots := [.held], misuse := false } :=
  srflxProgF6_leaks

theorem C09_paths_balanced_F10_witness :
    (relayProgWith false 1).run [.ok, .ok, .ok, .ok, .ok, .fail] {}
      = some { slots := [.held, .held, .held], misuse := false } :=
  relayProgF10_leaks

/-! ### candidate removal -/

theorem exec_cands_notlive (p : Prog) : ∀ (s : MState) (j : Job), jobLive s j = false →
    (exec s j p).1.cands = s.cands ∧ (exec s j p).1.cyc = s.cyc := by
  induction p with
  | ret => intro s j _; exact ⟨rfl, rfl⟩
  | acquire l k a b iha ihb =>
    intro s j h
    simp only [exec]
    split
    · exact ⟨rfl, rfl⟩
    · exact ihb _ _ (by simpa [jobLive] using h)
    · exact iha _ _ (by simpa [jobLive] using h)
  | step l a b iha ihb =>
    intro s j h
    simp only [exec]
    split
    · exact ⟨rfl, rfl⟩
    · exact iha _ _ (by simpa [jobLive] using h)
    · exact ihb _ _ (by simpa [jobLive] using h)
  | release i n ih =>
    intro s j h
    simp only [exec]
    have hc : (j.take i .released).1.cyc = j.cyc := by unfold Job.take; split <;> rfl
    exact ih _ _ (by simpa [jobLive, hc] using h)
  | addCand ci is st fl ihs ihf =>
    intro s j h
    simp only [exec, h, Bool.not_false, Bool.true_or, ↓reduceIte]
    exact ihf _ _ h

/-- **Restart, Failed and Close release everything the candidates own, once.** `deleteAllCandidates`
(`dropCands`) empties the candidate list and counts exactly the resources the candidates owned as
closed; the three ways a candidate goes away all go through it, and conservation
(`opens = closes + resources still owned by candidates or held by running units`) holds before and
after: nothing is dropped uncounted, nothing is counted twice. -/
theorem C09_candidate_release (s : MState) (h : Good s) :
    ((dropCands s).cands = [] ∧ (dropCands s).opens = s.opens
        ∧ (dropCands s).closes = s.closes + (s.cands.flatMap (·.res)).length ∧ Good (dropCands s))
    ∧ (step s .close).1.cands = [] ∧ Good (step s .close).1
    ∧ (∀ n, s.failed < n → (applyFailed s n).cands = [] ∧ Good (applyFailed s n))
    ∧ Good (step s .restart).1 := by
  refine ⟨⟨rfl, rfl, rfl, dropCands_good h⟩, rfl, step_good h .close, ?_, step_good h .restart⟩
  intro n hn
  have : applyFailed s n = { dropCands s with failed := n } := by simp [applyFailed, hn]
  rw [this]
  exact ⟨rfl, good_of_same (dropCands_good h) rfl rfl rfl rfl⟩

/-- conservation and the `ok` invariant of parked units hold after ANY sequence of operations on a
fresh agent, for every configuration and interface table -/
theorem C09_conservation (cfg : Config) (ifs : List Iface) (s0 : MState) (h0 : newAgent cfg ifs = .ok s0)
    (ops : List Op) :
    let s := runOps s0 ops
    s.opens = s.closes + s.liveRes.length ∧ ∀ j ∈ s.jobs, j.prog.ok j.led = true := by
  have hg := runOps_good ops (good_init cfg ifs s0 h0)
  refine ⟨?_, hg.jobsOk⟩
  have := hg.cons
  simp only [Cons, ConsK] at this
  rw [liveRes_length]; omega

/-! ### nothing of the ended generation stays open -/

/-- a relay agent with continual gathering and finding C09-G11, 733 ms after its table got a second address: the
monitor's re-gather pass waits for its TURN allocation -/
def g11With (quirks : List Nat) : MState :=
  match newAgent { candTypes := [.relay], netTypes := [.udp4], turnUrls := 1, continual := true, monIntervalMs := 733,
                   quirks := quirks }
      [{ name := 0, up := true, loopback := false, addrs := [⟨.g4, 1⟩] }] with
  | .ok s0 =>
    -- the first pass ends when its TURN allocation times out (8 s): the monitor starts then
    let s1 := (step s0 .gather).1
    let s2 := (step s1 (.adv 8000)).1
    let s3 := (step s2 (.ifaces [{ name := 0, up := true, loopback := false, addrs := [⟨.g4, 1⟩, ⟨.g4, 2⟩] }])).1
    (step s3 (.adv 733)).1
  | .error _ => {}

def g11State : MState := g11With [11]

theorem le_foldl_max (l : List Nat) : ∀ (a x : Nat), (x ∈ l ∨ x ≤ a) → x ≤ l.foldl max a := by
  induction l with
  | nil => intro a x h; rcases h with h | h; simp at h; simpa using h
  | cons y l ih =>
    intro a x h
    simp only [List.foldl_cons]
    apply ih
    rcases h with h | h
    · simp only [List.mem_cons] at h
      rcases h with h | h
      · right; subst h; exact Nat.le_max_right _ _
      · left; exact h
    · right; exact Nat.le_trans h (Nat.le_max_left _ _)

/-- **After Close has returned.** No candidate is left and NO unit is left — neither of the last cycle (first pass
or a re-gather pass of its monitor, continual gathering) nor of a cycle that an earlier Restart superseded and that
has not wound down yet: Close waits for the gatherers of every cycle.  (Repaired code: without findings C09-G11 and
C09-G12, see the witnesses below.  `closeAgent` opens the gate of the fake mux first, which is how the harness closes.) -/
theorem C09_zero_after_close (s : MState) (hp : Parked s) (h11 : s.cfg.has 11 = false) (h12 : s.cfg.has 12 = false) :
    let s' := closeAgent s
    s'.cands = [] ∧ s'.mon = none ∧ s'.jobs = [] := by
  intro s'
  let g := openGate s
  have hg : Parked g := openGate_parked hp
  have hcfg : g.cfg.has 11 = false := by
    show (openGate s).cfg.has 11 = false
    rw [(openGate_fr s).cfg]; exact h11
  have hcfg12 : g.cfg.has 12 = false := by
    show (openGate s).cfg.has 12 = false
    rw [(openGate_fr s).cfg]; exact h12
  -- unfold closeAgent step by step
  let s1 : MState := { g with cyc := (Cycle.step false g.cyc .close).1, mon := none }
  let pick1 : Job → Option (Ans × Nat) := fun j => if isStunJob j &&
      ((g.cyc.cycles[j.cyc]?).map (fun c => !c.cancelled)).getD false then some (.fail, 0) else none
  let s2 := resume s1 pick1
  let cur := g.cyc.cycles.length - 1
  let dl := closeDeadline s2 (g.cfg.has 11 && g.mon.isSome) cur (g.cfg.has 12)
  let s3 := closeWait s2 dl
  let pick2 : Job → Option (Ans × Nat) := fun j => if j.deadline ≤ s3.now then some (.fail, 0) else none
  have hs' : s' = dropCands (resume s3 pick2) := rfl
  have h1 : Parked s1 := parked_of_jobs hg rfl
  have h2 : Parked s2 := resume_parked h1 pick1
  have h3 : Parked s3 := closeWait_parked h2 dl
  have hj3 : s3.jobs = s2.jobs := by
    show (closeWait s2 dl).jobs = s2.jobs
    unfold closeWait; split <;> rfl
  have hdl : dl = (s2.jobs.map (·.deadline)).foldl max 0 := by
    show closeDeadline s2 (g.cfg.has 11 && g.mon.isSome) cur (g.cfg.has 12) = _
    have hf : s2.jobs.filter (fun _ => true) = s2.jobs := List.filter_eq_self.2 (fun _ _ => rfl)
    simp [closeDeadline, hcfg, hcfg12, hf]
  have hnow : dl ≤ s3.now := by
    show dl ≤ (closeWait s2 dl).now
    unfold closeWait
    split
    · simp only; omega
    · omega
  have hmon : s'.mon = none := by
    rw [hs']
    show (resume s3 pick2).mon = none
    have m3 : s3.mon = none := by
      show (closeWait s2 dl).mon = none
      have m2 : s2.mon = none := resume_mon_none s1 pick1 rfl
      unfold closeWait; split
      · exact m2
      · exact m2
    exact resume_mon_none s3 pick2 m3
  refine ⟨rfl, hmon, ?_⟩
  apply List.eq_nil_iff_forall_not_mem.2
  intro j hj
  rw [hs', dropCands_jobs, resume_jobs h3, hj3] at hj
  simp only [List.mem_filter] at hj
  obtain ⟨hj2, hpk⟩ := hj
  have hdead : s3.now < j.deadline := by
    simp only [pick2] at hpk
    split at hpk
    · simp at hpk
    · omega
  have : j.deadline ≤ dl := by
    rw [hdl]
    apply le_foldl_max
    left
    simp only [List.mem_map]
    exact ⟨j, hj2, rfl⟩
  omega
where
  /-- the gatherers never start a monitor -/
  exec_mon (p : Prog) : ∀ (s : MState) (j : Job), (exec s j p).1.mon = s.mon := by
    induction p with
    | ret => intro s j; rfl
    | acquire l k a b iha ihb =>
      intro s j; simp only [exec]; split
      · rfl
      · exact ihb _ _
      · rw [iha]
    | step l a b iha ihb =>
      intro s j; simp only [exec]; split
      · rfl
      · exact iha _ _
      · exact ihb _ _
    | release i n ih => intro s j; simp only [exec]; rw [ih]
    | addCand ci is st fl ihs ihf =>
      intro s j; simp only [exec]; split
      · exact ihf _ _
      · split
        · rw [ihs]
        · rw [ihs]
  settle_mon (p : MState × Job) : (settle p).mon = p.1.mon := by
    unfold settle; split <;> rfl
  resume_mon_none (s : MState) (pick : Job → Option (Ans × Nat)) (h : s.mon = none) : (resume s pick).mon = none := by
    unfold resume
    have key : ∀ (todo : List Job) (s0 : MState),
        (todo.foldl (fun s j =>
          match pick j with
          | none => s
          | some (a, m) => settle (exec s { j with answer := some a, m := m } j.prog)) s0).mon = s0.mon := by
      intro todo
      induction todo with
      | nil => intro s0; rfl
      | cons j todo ih =>
        intro s0
        simp only [List.foldl_cons]
        rw [ih]
        cases pick j with
        | none => rfl
        | some am => obtain ⟨a, m⟩ := am; simp only; rw [settle_mon, exec_mon]
    exact (key _ _).trans h

/-- the code with finding C09-G11 (Close does not wait for a re-gather pass of the monitor): a relay agent whose
monitor started a pass 733 ms ago closes — the TURN unit of the LAST cycle is still parked after `closeAgent`, with
its socket and TURN client open -/
theorem C09_zero_after_close_G11_witness :
    ¬ (∀ s : MState, Parked s →
        ∀ j ∈ (closeAgent s).jobs, j.cyc ≠ (openGate s).cyc.cycles.length - 1) := by
  intro h
  have hp : Parked g11State := by
    intro j hj
    have : g11State.jobs.all (fun j => j.prog.parked) = true := by decide
    exact List.all_eq_true.1 this j hj
  have := h g11State hp
  have hex : (closeAgent g11State).jobs.any (fun j => j.cyc == (openGate g11State).cyc.cycles.length - 1) = true := by decide
  obtain ⟨j, hj, hc⟩ := List.any_eq_true.1 hex
  exact this j hj (by simpa using hc)

/-- a relay agent (gather-once): the first cycle's TURN allocation is still parked when Restart supersedes the cycle;
the second cycle's allocation is answered and the cycle completes -/
def g12With (quirks : List Nat) : MState :=
  match newAgent { candTypes := [.relay], netTypes := [.udp4], turnUrls := 1, quirks := quirks }
      [{ name := 0, up := true, loopback := false, addrs := [⟨.g4, 1⟩] }] with
  | .ok s0 =>
    let s1 := (step s0 .gather).1
    let s2 := (step s1 .restart).1
    let s3 := (step s2 .gather).1
    -- what `step s3 (.turnreply 1 true 1)` computes, written without `sortedJobs` (a merge sort the kernel does not
    -- unfold): the allocation of the second cycle (cycle 1) is answered
    monKick (finishCycle (resume s3 (fun x => if x.cyc == 1 then some (.ok, 1) else none)))
  | .error _ => {}

/-- the code with finding C09-G12 (Close waits for the LAST gathering cycle only): after `closeAgent` the TURN unit of
the superseded first cycle is still parked, with its socket and TURN client open, and its goroutine running -/
theorem C09_zero_after_close_G12_witness :
    ¬ (∀ s : MState, Parked s → s.cfg.has 11 = false → (closeAgent s).jobs = []) := by
  intro h
  have hp : Parked (g12With [12]) := by
    intro j hj
    have : (g12With [12]).jobs.all (fun j => j.prog.parked) = true := by decide
    exact List.all_eq_true.1 this j hj
  have := h (g12With [12]) hp (by decide)
  have hex : (closeAgent (g12With [12])).jobs.length = 1 := by decide
  rw [this] at hex
  exact absurd hex (by decide)

/-- the repaired code on the same history: Close waits 8 s (the allocation's timeout) and everything is released -/
example : ((g12With []).opens, (g12With []).closes, (g12With []).jobs.length, (g12With []).now) = (5, 0, 1, 0) := by decide
example : ((closeAgent (g12With [])).opens, (closeAgent (g12With [])).closes, (closeAgent (g12With [])).jobs.length,
    (closeAgent (g12With [])).now) = (5, 5, 0, 8000) := by decide
example : ((closeAgent (g12With [12])).opens, (closeAgent (g12With [12])).closes, (closeAgent (g12With [12])).jobs.length,
    (closeAgent (g12With [12])).now) = (5, 3, 1, 0) := by decide

/-- **After Restart, once the superseded cycle has wound down.** After the virtual clock has been advanced,
every unit still parked times out strictly later: a unit whose deadline has passed is gone (each answered unit
returns, `exec_answered`), and a unit started by the monitor of a continual cycle on the way is either gone too
or has its deadline ahead, … -/
theorem C09_expired_units_gone (s : MState) (hp : Parked s) (ms : Nat) :
    ∀ j ∈ (step s (.adv ms)).1.jobs, s.now + ms < j.deadline :=
  advTo_late hp (s.now + ms) (by omega)

/-- … and when no candidate and no unit is left, every resource that was ever opened has been closed:
the open count is zero, whatever the history (reply timings, cancellations, errors, duplicates). -/
theorem C09_zero_when_wound_down (cfg : Config) (ifs : List Iface) (s0 : MState) (h0 : newAgent cfg ifs = .ok s0)
    (ops : List Op) (hc : (runOps s0 ops).cands = []) (hj : (runOps s0 ops).jobs = []) :
    (runOps s0 ops).opens = (runOps s0 ops).closes ∧ (runOps s0 ops).liveRes = [] := by
  have := (C09_conservation cfg ifs s0 h0 ops).1
  have hl : (runOps s0 ops).liveRes = [] := by simp [MState.liveRes, hc, hj]
  simp only [hl, List.length_nil, Nat.add_zero] at this
  exact ⟨this, hl⟩

/-! ### non-vacuity -/

/-- a relay unit with two addresses: allocation succeeds, first candidate starts, second is refused -/
example : (relayProg 2).run [.ok, .ok, .ok, .ok, .ok, .ok, .ok, .fail] {}
    = some { slots := [.owned 0, .owned 0, .owned 0], misuse := false } := by decide
/-- the same unit when the cycle was cancelled before the allocation answer arrived -/
example : (relayProg 2).run [.ok, .ok, .ok, .ok, .ok, .ok, .fail] {}
    = some { slots := [.released, .released, .released], misuse := false } := by decide
example : (srflxProg).run [.ok, .ok, .ok, .ok, .dup] {} = some { slots := [.dupClosed], misuse := false } := by decide
/-- srflx-mapped unit with two externals: the first maps to a disabled network type (C18-G6 fix: its socket
is released, the loop continues), the second is listened for, passes and is started -/
example : (srflxMappedProg 2).run [.ok, .ok, .ok, .ok, .ok, .fail, .ok, .ok, .ok, .ok, .ok, .ok] {}
    = some { slots := [.released, .owned 1], misuse := false } := by decide
/-- three externals: the first is site-local (C18-G7 fix: `supported6` fails, socket released), the second
link-local (location filter, socket released), the third is started -/
example : (srflxMappedProg 3).run [.ok, .ok, .ok, .fail, .ok, .fail, .ok, .ok, .ok, .ok, .ok, .ok] {}
    = some { slots := [.released, .released, .owned 2], misuse := false } := by decide
/-- the monitor does reject an observation: a socket of an ended generation with nothing in flight -/
example : (IceSpec.C09.check {} "stunreply" "ok"
    { gen := 1, led := [((.sock, some 0), 1)], opens := 1, closes := 0 }).1
    = some "resources of an ended generation still open after its gathering wound down: sk" := by decide

/-- continual gathering: the re-gather pass of `g11State` holds a socket and a TURN client (2 opens of the first pass
closed again after its timeout, 2 open now); the repaired code's Close waits for the pass (8 s more on the clock),
nothing is left parked, everything is closed; the code with C09-G11 returns at once with both still open -/
example : ((g11With []).opens, (g11With []).closes, (g11With []).jobs.length, (g11With []).now) = (4, 2, 1, 8733) := by decide
example : ((closeAgent (g11With [])).opens, (closeAgent (g11With [])).closes, (closeAgent (g11With [])).jobs.length,
    (closeAgent (g11With [])).now) = (4, 4, 0, 16733) := by decide
example : ((closeAgent g11State).opens, (closeAgent g11State).closes, (closeAgent g11State).jobs.length,
    (closeAgent g11State).now) = (4, 2, 1, 8733) := by decide
/-- … which the monitor rejects -/
example : (IceSpec.C09.check {} "close" "ok"
    { st := none, gen := 0, led := [((.sock, some 0), 1), ((.tclient, some 0), 1)], opens := 4, closes := 2,
      pend := [(true, 0, "T0.0.u4.u4.0")] }).1
    = some "resources of the closed generation still open after Close returned" := by decide

/-! ## Tie to the code (T, round 4): the done-channel chaining of 83e8561 and the release order, REGENERATED on every run
(`IceGen.T_Lifecycle`) -/

/-- the task of `GatherCandidates` reads the previous done channel BEFORE it stores the new one and spawns the goroutine last;
`gatherCandidates` registers `close(done)` FIRST and the wait for the superseded cycle's channel SECOND on every path (deferred calls
run in reverse: the wait, then the close), so a cycle's done channel is closed after that of the cycle it superseded and Close —
which waits for the latest channel — waits for the gatherers of every cycle: in the model, `closeDeadline` is no earlier than the
deadline of any parked gatherer of any cycle -/
theorem C09_code_done_chaining :
    (∀ state noHandler, IceGen.agent_GatherCandidates_task state noHandler
      = if state != 1 then [IceModel.Eff.set "gatherErr" (IceModel.Val.s "ErrMultipleGatherAttempted")]
        else if noHandler then [IceModel.Eff.set "gatherErr" (IceModel.Val.s "ErrNoOnCandidateHandler")]
        else IceTie.Lifecycle.acceptEffs) ∧
    (IceTie.Lifecycle.pos IceTie.Lifecycle.acceptEffs (IceTie.Lifecycle.c "gatherCandidateCancel()") = 0 ∧
     IceTie.Lifecycle.pos IceTie.Lifecycle.acceptEffs (IceTie.Lifecycle.c "prevDone := a.gatherCandidateDone")
        < IceTie.Lifecycle.pos IceTie.Lifecycle.acceptEffs (IceModel.Eff.set "a.gatherCandidateDone" (IceModel.Val.s "done")) ∧
     IceTie.Lifecycle.pos IceTie.Lifecycle.acceptEffs (IceModel.Eff.set "a.gatherCandidateDone" (IceModel.Val.s "done"))
        < IceTie.Lifecycle.pos IceTie.Lifecycle.acceptEffs (IceTie.Lifecycle.c "go gatherCandidates(ctx, done, prevDone)") ∧
     IceTie.Lifecycle.acceptEffs.getLast? = some (IceTie.Lifecycle.c "go gatherCandidates(ctx, done, prevDone)")) ∧
    (∀ stateErr applied policy, IceGen.agent_gatherCandidates stateErr applied policy
      = [IceTie.Lifecycle.deferClose, IceTie.Lifecycle.deferWait, IceTie.Lifecycle.c "setGatheringState(Gathering)"] ++
        (if stateErr || !applied then []
         else [IceTie.Lifecycle.c "if GatherContinually: record lastKnownInterfaces through the loop", IceTie.Lifecycle.c "gatherCandidatesInternal"] ++
           (if policy == 0 then [IceTie.Lifecycle.c "setGatheringState(Complete)"]
            else if policy == 1 then [IceTie.Lifecycle.c "startNetworkMonitoring"] else []))) ∧
    (∀ stateErr applied policy, (IceGen.agent_gatherCandidates stateErr applied policy).take 2 = [IceTie.Lifecycle.deferClose, IceTie.Lifecycle.deferWait]) ∧
    (∀ (s : MState) (cur : Nat) (j : Job), j ∈ s.jobs → j.deadline ≤ closeDeadline s false cur false) :=
  ⟨IceTie.Lifecycle.GatherCandidates_task_tie, IceTie.Lifecycle.GatherCandidates_task_order, IceTie.Lifecycle.gatherCandidates_tie, IceTie.Lifecycle.gatherCandidates_defers,
   IceTie.Lifecycle.closeDeadline_covers_all⟩

example : IceGen.agent_GatherCandidates_task 2 false = [IceModel.Eff.set "gatherErr" (IceModel.Val.s "ErrMultipleGatherAttempted")] ∧
    IceGen.agent_GatherCandidates_task 1 false = IceTie.Lifecycle.acceptEffs ∧
    IceGen.agent_gatherCandidates false false 0 = [IceTie.Lifecycle.deferClose, IceTie.Lifecycle.deferWait, IceTie.Lifecycle.c "setGatheringState(Gathering)"] := by decide

/-- `removeUfragFromMux`: the local ufrag leaves each configured mux (TCP, UDP, srflx UDP, in this order);
`deleteAllCandidates`: per network type every local candidate is closed and then the map entry deleted, then the same for the remote
candidates; the model's `wipe` leaves no candidate, pair, transaction or selection -/
theorem C09_code_release_order :
    (∀ hasTcp hasUdp hasSrflx, IceGen.agent_removeUfragFromMux hasTcp hasUdp hasSrflx
      = (if hasTcp then [IceTie.Lifecycle.c "tcpMux.RemoveConnByUfrag(localUfrag)"] else []) ++
        (if hasUdp then [IceTie.Lifecycle.c "udpMux.RemoveConnByUfrag(localUfrag)"] else []) ++
        (if hasSrflx then [IceTie.Lifecycle.c "udpMuxSrflx.RemoveConnByUfrag(localUfrag)"] else [])) ∧
    IceGen.agent_deleteAllCandidates
      = [IceTie.Lifecycle.c "for:localCandidates", IceTie.Lifecycle.c "close every candidate of the network type", IceTie.Lifecycle.c "delete(localCandidates, net)",
         IceTie.Lifecycle.c "end:localCandidates", IceTie.Lifecycle.c "for:remoteCandidates", IceTie.Lifecycle.c "close every candidate of the network type",
         IceTie.Lifecycle.c "delete(remoteCandidates, net)", IceTie.Lifecycle.c "end:remoteCandidates"] ∧
    (∀ a : IceModel.AgentCore.Agent,
      a.wipe.locals = [] ∧ a.wipe.remotes = [] ∧ a.wipe.checklist = [] ∧ a.wipe.pending = [] ∧ a.wipe.selected = none) :=
  ⟨IceTie.Lifecycle.removeUfragFromMux_tie, IceTie.Lifecycle.deleteAllCandidates_tie, IceTie.Lifecycle.wipe_model⟩

example : IceGen.agent_removeUfragFromMux false true false = [IceTie.Lifecycle.c "udpMux.RemoveConnByUfrag(localUfrag)"] := by decide

end IceProps.C09
