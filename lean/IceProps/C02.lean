import IceTie.AgentDispatch
import IceProofs.AgentC02Step
import IceTie.AgentInbound
import IceTie.Order
import IceTie.Addr
/-!
# C02 — unauthenticated or mismatched STUN never influences the agent

Property theorems only.  All statements are about the executable model `IceModel.AgentCore` (validated
against the real agent by the differential correspondence of component `agent`) and hold for ALL agent
states `a` — reachable or not —, all times, all local candidates, all source addresses and all messages.
"No observable effect" is stated in the strongest form the model can express: the result of the
transition is literally `(a, [])`: the same state (candidates, pairs, selection, connection state,
liveness timestamps, pending transactions, counters, …) and no output (no datagram, no callback).

The `*_code` theorems are about the two pure predicates REGENERATED from the Go source on every run
(`IceGen.T_Agent`): they are what the kernel re-checks when `canHandleInbound` / `responseSymmetric`
change.
-/
namespace IceProps.C02
open IceModel.AgentCore IceProofs.AgentC02

/-! ## Concrete states for the non-vacuity examples -/

def exL : Cand := { uid := 1, ty := 1, net := 0, addr := 16, prio := 100 }
def exR : Cand := { uid := 2, ty := 1, net := 0, addr := 33, prio := 90 }
/-- a started controlling agent with one local, one remote, one in-progress pair and one transaction
(id 2, sent at t = 1000 from address 16 to address 33 over udp4) in flight -/
def exA : Agent := {
  started := true
  localUfrag := "lu"
  localPwd := "lp"
  remoteUfrag := "ru"
  remotePwd := "rp"
  locals := [exL]
  remotes := [exR]
  nextUid := 3
  checklist := [{ id := 1, l := 1, r := 2, state := .inProgress, controlling := true }]
  nextPairID := 1
  controlling := true
  connState := .checking
  pending := [{ tid := 2, src := 16, dest := 33, net := 0, useCand := false, nom := none, ts := 1000 }]
  nextTid := 2 }
/-- a correct success response to that transaction -/
def goodResp : Msg := { cls := 2, tid := 2, key := some "rp" }
/-- a correct Binding request -/
def goodReq : Msg := { cls := 0, tid := 77, user := some "lu:ru", key := some "lp", prio := some 5 }

-- the model is not inert: the correct messages DO change pair state / produce a reply
example : (exA.handleInbound 2000 exL 33 goodResp).1.checklist ≠ exA.checklist := by decide
example : ((exA.handleInbound 2000 exL 33 goodResp).1.checklist.map (·.state)) = [.succeeded] := by decide
example : (exA.handleInbound 2000 exL 33 goodReq).2.length = 1 := by decide
example : (step exA (.inbound 2000 16 33 goodResp)).1.checklist ≠ exA.checklist := by decide

/-! ## Requests -/

/-- A Binding request whose USERNAME is not `<local ufrag>:<remote ufrag>` or whose MESSAGE-INTEGRITY was
not computed with the local password: same state, nothing sent, no callback. -/
theorem C02_bad_request_noop (a : Agent) (now : Nat) (l : Cand) (src : Nat) (m : Msg)
    (hc : m.cls = 0)
    (h : m.user ≠ some (a.localUfrag ++ ":" ++ a.remoteUfrag) ∨ m.key ≠ some a.localPwd) :
    a.handleInbound now l src m = (a, []) :=
  handleInbound_request_bad a now l src m hc h

-- hypotheses satisfiable: wrong user, absent user, wrong key, absent key, key = REMOTE password
example : ({ goodReq with user := some "ru:lu" } : Msg).user ≠ some (exA.localUfrag ++ ":" ++ exA.remoteUfrag) := by decide
example : ({ goodReq with user := none } : Msg).user ≠ some (exA.localUfrag ++ ":" ++ exA.remoteUfrag) := by decide
example : ({ goodReq with key := some "rp" } : Msg).key ≠ some exA.localPwd := by decide
example : ({ goodReq with key := none } : Msg).key ≠ some exA.localPwd := by decide

/-! ## Success responses -/

/-- A Binding success response whose MESSAGE-INTEGRITY was not computed with the remote password. -/
theorem C02_bad_response_noop (a : Agent) (now : Nat) (l : Cand) (src : Nat) (m : Msg)
    (hc : m.cls = 2) (h : m.key ≠ some a.remotePwd) :
    a.handleInbound now l src m = (a, []) :=
  handleInbound_response_badkey a now l src m hc h

example : ({ goodResp with key := some "lp" } : Msg).key ≠ some exA.remotePwd := by decide
example : ({ goodResp with key := none } : Msg).key ≠ some exA.remotePwd := by decide

/-- … and a success response (even correctly signed) from a source that is not the canonical address of
a remote candidate of the receiving candidate's network type. -/
theorem C02_unknown_source_response_noop (a : Agent) (now : Nat) (l : Cand) (src : Nat) (m : Msg)
    (hc : m.cls = 2) (h : a.findRemote l.net src = none) :
    a.handleInbound now l src m = (a, []) :=
  handleInbound_response_unknown a now l src m hc h

example : exA.findRemote exL.net 34 = none := by decide
example : exA.findRemote 1 33 = none := by decide   -- known address, other network type

/-- A correctly signed success response from a known remote `r` whose transaction id has no outstanding
entry (`outstanding a now m.tid`: the first pending entry with this id that survives the 4 s expiry),
or whose outstanding entry was sent over another network type, or to another address than the response
came from, or from another local address than the one the response arrived on: nothing is emitted and the state is `a` except that expired entries and the entry with this
id leave `pending` and `r.lastRecv` is refreshed.  (`pendingAfter` is a sub-list of `a.pending`.) -/
theorem C02_response_needs_outstanding (a : Agent) (now : Nat) (l : Cand) (src : Nat) (m : Msg) (r : Cand)
    (hc : m.cls = 2) (hm : m.method = 1) (hk : m.key = some a.remotePwd)
    (hr : a.findRemote l.net src = some r)
    (h : NoSymmetricOutstanding a now l src m.tid) :
    a.handleInbound now l src m
      = (({ a with pending := pendingAfter a now m.tid } : Agent).seenRemoteRecv r.uid now, []) :=
  handleInbound_response_no_match a now l src m r hc hm hk hr h

/-- The same, field by field: checklist, selection, connection state, candidates (up to `r.lastRecv`),
nomination state are unchanged, nothing is emitted, `pending` can only shrink. -/
theorem C02_response_needs_outstanding_fields (a : Agent) (now : Nat) (l : Cand) (src : Nat) (m : Msg) (r : Cand)
    (hc : m.cls = 2) (hm : m.method = 1) (hk : m.key = some a.remotePwd)
    (hr : a.findRemote l.net src = some r)
    (h : NoSymmetricOutstanding a now l src m.tid) :
    let res := a.handleInbound now l src m
    res.2 = [] ∧ res.1.checklist = a.checklist ∧ res.1.selected = a.selected ∧ res.1.connState = a.connState ∧
    res.1.locals = a.locals ∧
    res.1.remotes = updCand a.remotes r.uid (fun c => { c with lastRecv := some now }) ∧
    res.1.nominatedPair = a.nominatedPair ∧ res.1.lastNomination = a.lastNomination ∧
    res.1.pending.Sublist a.pending ∧ res.1.controlling = a.controlling ∧ res.1.nextPairID = a.nextPairID ∧
    res.1.forcePending = a.forcePending := by
  intro res
  have e : res = _ := C02_response_needs_outstanding a now l src m r hc hm hk hr h
  rw [e]
  exact ⟨rfl, rfl, rfl, rfl, rfl, rfl, rfl, rfl, pendingAfter_sublist a now m.tid, rfl, rfl, rfl⟩

/-- A form of the hypothesis that does not mention "the first" entry: EVERY unexpired pending entry with
this transaction id was sent on another network type, to another address or from another local address (in
particular: there is none). -/
theorem C02_response_needs_outstanding_all (a : Agent) (now : Nat) (l : Cand) (src : Nat) (m : Msg) (r : Cand)
    (hc : m.cls = 2) (hm : m.method = 1) (hk : m.key = some a.remotePwd)
    (hr : a.findRemote l.net src = some r)
    (h : ∀ pd ∈ a.pending, pd.tid = m.tid → now - pd.ts < 4000000000 →
      pd.net ≠ l.net ∨ pd.dest ≠ src ∨ pd.src ≠ l.addr) :
    a.handleInbound now l src m
      = (({ a with pending := pendingAfter a now m.tid } : Agent).seenRemoteRecv r.uid now, []) := by
  apply C02_response_needs_outstanding a now l src m r hc hm hk hr
  intro pd ho
  have hf := List.find?_some ho
  have hmem := List.mem_of_find?_eq_some ho
  rw [List.mem_filter] at hmem
  have hu : now - pd.ts < 4000000000 := of_decide_eq_true hmem.2
  exact h pd hmem.1 (by simpa using hf) hu

/-- … and also when the transaction matches but the pair (local, remote) does not exist. -/
theorem C02_response_needs_pair (a : Agent) (now : Nat) (l : Cand) (src : Nat) (m : Msg) (r : Cand)
    (hc : m.cls = 2) (hm : m.method = 1) (hk : m.key = some a.remotePwd)
    (hr : a.findRemote l.net src = some r) (h : a.findPair l r = none) :
    a.handleInbound now l src m
      = (({ a with pending := pendingAfter a now m.tid } : Agent).seenRemoteRecv r.uid now, []) :=
  handleInbound_response_no_pair a now l src m r hc hm hk hr h

-- hypotheses satisfiable on `exA` (known remote at 33): never-issued id; expired (t ≥ 1000 + 4 s);
-- outstanding id but the response comes in on a local candidate of another network type
example : exA.findRemote exL.net 33 = some exR := by decide
example : outstanding exA 2000 4 = none := by decide
example : outstanding exA 4000001000 2 = none := by decide
example : (outstanding exA 4000000999 2).isSome := by decide
example : NoSymmetricOutstanding exA 2000 exL 33 4 := by decide
example : NoSymmetricOutstanding exA 4000001000 exL 33 2 := by decide
example : ¬ NoSymmetricOutstanding exA 2000 exL 33 2 := by decide
example : NoSymmetricOutstanding exA 2000 { exL with net := 1 } 33 2 := by decide
-- and with a different pending destination the wrong-source case
example : NoSymmetricOutstanding { exA with pending := [{ tid := 2, src := 16, dest := 49, net := 0, useCand := false, nom := none, ts := 1000 }] } 2000 exL 33 2 := by decide
-- the request left from another local address (32) than the one the response arrives on (16): F17's case
example : NoSymmetricOutstanding { exA with pending := [{ tid := 2, src := 32, dest := 33, net := 0, useCand := false, nom := none, ts := 1000 }] } 2000 exL 33 2 := by decide

/-! ## Other classes and methods; indications -/

/-- Error responses, unknown classes and every non-Binding method: nothing at all. -/
theorem C02_other_classes_noop (a : Agent) (now : Nat) (l : Cand) (src : Nat) (m : Msg)
    (h : m.cls = 3 ∨ 4 ≤ m.cls ∨ m.method ≠ 1) :
    a.handleInbound now l src m = (a, []) := by
  apply handleInbound_gate
  rcases h with h | h | h
  · simp [h]
  · have h0 : m.cls ≠ 0 := by omega
    have h1 : m.cls ≠ 1 := by omega
    have h2 : m.cls ≠ 2 := by omega
    simp [h0, h1, h2]
  · simp [h]

example : ({ goodResp with cls := 3, errCode := some 487 } : Msg).cls = 3 := rfl
example : ({ goodReq with method := 3 } : Msg).method ≠ 1 := by decide

/-- A Binding indication: no output; the state is `a` except that `lastRecv` of the known remote at `src`
(if there is one) becomes `now`.  With another method it is `a` itself. -/
theorem C02_indication_only_liveness (a : Agent) (now : Nat) (l : Cand) (src : Nat) (m : Msg)
    (hc : m.cls = 1) :
    a.handleInbound now l src m =
      (if m.method = 1 then
         (match a.findRemote l.net src with
          | some r => a.seenRemoteRecv r.uid now
          | none => a)
       else a, []) := by
  by_cases hm : m.method = 1
  · rw [if_pos hm]
    exact handleInbound_indication a now l src m hc hm
  · rw [if_neg hm]
    exact C02_other_classes_noop a now l src m (Or.inr (Or.inr hm))

example : (exA.handleInbound 2000 exL 33 { cls := 1, tid := 9 }).1.remotes.map (·.lastRecv) = [some 2000] := by decide

/-! ## One predicate for "must be dropped", and the level of `step` -/

/-- The messages that C02 says have no effect at all, for receiving local candidate `l` and source `src`. -/
def Dropped (a : Agent) (l : Cand) (src : Nat) (m : Msg) : Prop :=
  (m.cls = 0 ∧ (m.user ≠ some (a.localUfrag ++ ":" ++ a.remoteUfrag) ∨ m.key ≠ some a.localPwd)) ∨
  (m.cls = 2 ∧ (m.key ≠ some a.remotePwd ∨ a.findRemote l.net src = none)) ∨
  m.cls = 3 ∨ 4 ≤ m.cls ∨ m.method ≠ 1

instance (a : Agent) (l : Cand) (src : Nat) (m : Msg) : Decidable (Dropped a l src m) := by
  unfold Dropped; infer_instance

theorem C02_dropped_noop (a : Agent) (now : Nat) (l : Cand) (src : Nat) (m : Msg) (h : Dropped a l src m) :
    a.handleInbound now l src m = (a, []) := by
  rcases h with ⟨hc, h⟩ | ⟨hc, h | h⟩ | h
  · exact C02_bad_request_noop a now l src m hc h
  · exact C02_bad_response_noop a now l src m hc h
  · exact C02_unknown_source_response_noop a now l src m hc h
  · exact C02_other_classes_noop a now l src m h

example : Dropped exA exL 33 { goodReq with key := some "old" } := by decide
example : Dropped exA exL 34 goodResp := by decide
example : ¬ Dropped exA exL 33 goodResp := by decide

/-- Quiescence (the model runs a forced tick at the end of the event that requested it, so between events
none is waiting): `a.started → ¬ a.closed → a.forcePending = false`. -/
abbrev Quiescent (a : Agent) : Prop := Q a

/-- `step` on a dropped message is a no-op — for every quiescent agent, started or not, closed or not. -/
theorem C02_step_noop (a : Agent) (now la src : Nat) (m : Msg) (q : Quiescent a)
    (h : ∀ l, a.localByAddr la = some l → Dropped a l src m) :
    step a (.inbound now la src m) = (a, []) := by
  cases hs : a.started with
  | false => exact step_inbound_inactive a now la src m (Or.inl hs)
  | true =>
    cases hcl : a.closed with
    | true => exact step_inbound_inactive a now la src m (Or.inr hcl)
    | false =>
      cases hl : a.localByAddr la with
      | none => exact step_inbound_nolocal a now la src m hl
      | some l =>
        exact step_inbound_active a now la src m l a hs hcl (q (by simp [hs]) (by simp [hcl])) hl
          (C02_dropped_noop a now l src m (h l hl)) rfl

example : Quiescent exA := by decide
example : exA.localByAddr 16 = some exL := by decide

/-- Before `start` and after `close` EVERY inbound STUN message is a no-op. -/
theorem C02_inactive_noop (a : Agent) (now la src : Nat) (m : Msg) (h : a.started = false ∨ a.closed = true) :
    step a (.inbound now la src m) = (a, []) :=
  step_inbound_inactive a now la src m h

/-- `step` on a Binding indication (running quiescent agent, receiving candidate `l`). -/
theorem C02_step_indication (a : Agent) (now la src : Nat) (m : Msg) (l : Cand) (q : Quiescent a)
    (hs : a.started = true) (hcl : a.closed = false) (hl : a.localByAddr la = some l) (hc : m.cls = 1) :
    step a (.inbound now la src m) =
      (if m.method = 1 then
         (match a.findRemote l.net src with
          | some r => a.seenRemoteRecv r.uid now
          | none => a)
       else a, []) := by
  refine step_inbound_active a now la src m l _ hs hcl (q (by simp [hs]) (by simp [hcl])) hl
    (C02_indication_only_liveness a now l src m hc) ?_
  repeat' split
  all_goals rfl

/-- `step` on a verified success response without an outstanding symmetric transaction. -/
theorem C02_step_response_needs_outstanding (a : Agent) (now la src : Nat) (m : Msg) (l r : Cand) (q : Quiescent a)
    (hs : a.started = true) (hcl : a.closed = false) (hl : a.localByAddr la = some l)
    (hc : m.cls = 2) (hm : m.method = 1) (hk : m.key = some a.remotePwd)
    (hr : a.findRemote l.net src = some r)
    (h : NoSymmetricOutstanding a now l src m.tid) :
    step a (.inbound now la src m)
      = (({ a with pending := pendingAfter a now m.tid } : Agent).seenRemoteRecv r.uid now, []) :=
  step_inbound_active a now la src m l _ hs hcl (q (by simp [hs]) (by simp [hcl])) hl
    (C02_response_needs_outstanding a now l src m r hc hm hk hr h) rfl

/-- Quiescence is an invariant: every event, from every quiescent state, leads to a quiescent state
(the initial agent is not started, hence quiescent) — so it holds in every reachable state. -/
theorem C02_quiescent (a : Agent) (ev : Ev) (q : Quiescent a) : Quiescent (step a ev).1 :=
  Q_step a ev q

theorem C02_quiescent_run (a : Agent) (evs : List Ev) (q : Quiescent a) : Quiescent (run a evs) :=
  Q_run a evs q

theorem C02_quiescent_init (a : Agent) (h : a.started = false) : Quiescent a :=
  fun hs => absurd hs (by simp [h])

/-- Without quiescence the statement is false IN THE MODEL (not in the code: the forced tick belongs to
the timer goroutine and would run anyway): a waiting forced tick runs at the end of the event. -/
theorem C02_step_noop_needs_quiescent_witness :
    ¬ (∀ (a : Agent) (now la src : Nat) (m : Msg),
        (∀ l, a.localByAddr la = some l → Dropped a l src m) → (step a (.inbound now la src m)).2 = []) := by
  intro h
  have := h { exA with forcePending := true } 2000 16 33 { goodReq with key := none }
    (fun _ _ => Or.inl ⟨rfl, Or.inr (by decide)⟩)
  revert this
  decide

/-! ## Restart: messages of the ended generation -/

/-- (i) Restart empties the pending list (and sets the new local credentials, clears the remote ones and
forgets every candidate): no transaction of the ended generation is outstanding. -/
theorem C02_stale_generation (a : Agent) (now : Nat) (u p : String) (hcl : a.closed = false) :
    let a' := (step a (.restart now u p)).1
    a'.pending = [] ∧ a'.localUfrag = u ∧ a'.localPwd = p ∧ a'.remoteUfrag = "" ∧ a'.remotePwd = "" ∧
    a'.remotes = [] ∧ a'.nextTid = a.nextTid ∧ a'.tag = a.tag := by
  intro a'
  have e : a' = (a.doRestart now u p).1 := step_restart a now u p hcl
  rw [e]
  exact doRestart_fields a now u p

/-- (i, corollary) right after Restart every success response — whatever its key and transaction id — is
a no-op (no remote candidate is known any more). -/
theorem C02_stale_generation_response (a : Agent) (now now' : Nat) (u p : String) (hcl : a.closed = false)
    (l : Cand) (src : Nat) (m : Msg) (hc : m.cls = 2) :
    (step a (.restart now u p)).1.handleInbound now' l src m = ((step a (.restart now u p)).1, []) := by
  apply C02_unknown_source_response_noop _ _ _ _ _ hc
  have h := (C02_stale_generation a now u p hcl).2.2.2.2.2.1
  unfold Agent.findRemote
  rw [h]
  rfl

/-- (i, over histories) in EVERY state reached from the restarted agent by any sequence of events, every
pending transaction has an id ≥ `2 * a.nextTid + a.tag`, the next id the old generation would have
issued (`sendRequest` is the only source of ids: it uses `2 * nextTid + tag` and increments `nextTid`).
So a response to any transaction of the ended generation (`m.tid < 2 * a.nextTid + a.tag`) finds nothing
outstanding, and `C02_response_needs_outstanding` applies to it, however the new generation looks. -/
theorem C02_stale_generation_history (a : Agent) (now : Nat) (u p : String) (hcl : a.closed = false)
    (evs : List Ev) (now' tid : Nat) (ht : tid < 2 * a.nextTid + a.tag) :
    outstanding (run (step a (.restart now u p)).1 evs) now' tid = none := by
  obtain ⟨hp, _, _, _, _, _, hn, htag⟩ := C02_stale_generation a now u p hcl
  have hf := tid_run (step a (.restart now u p)).1 evs
  unfold outstanding
  rw [List.find?_eq_none]
  intro pd hpd
  have hmem := (List.mem_filter.mp hpd).1
  rcases hf.pend pd hmem with h | h
  · rw [hp] at h; cases h
  · rw [hn, htag] at h
    simp only [beq_iff_eq]
    omega

/-- … hence: a verified success response carrying a transaction id of the ended generation, arriving in
any later state `b` of the new generation from a known remote, changes nothing but `r.lastRecv` and the
expiry of pending entries. -/
theorem C02_stale_generation_response_history (a : Agent) (now : Nat) (u p : String) (hcl : a.closed = false)
    (evs : List Ev) (now' : Nat) (l : Cand) (src : Nat) (m : Msg) (r : Cand)
    (ht : m.tid < 2 * a.nextTid + a.tag)
    (hc : m.cls = 2) (hm : m.method = 1)
    (hk : m.key = some (run (step a (.restart now u p)).1 evs).remotePwd)
    (hr : (run (step a (.restart now u p)).1 evs).findRemote l.net src = some r) :
    let b := run (step a (.restart now u p)).1 evs
    b.handleInbound now' l src m = (({ b with pending := pendingAfter b now' m.tid } : Agent).seenRemoteRecv r.uid now', []) := by
  intro b
  apply C02_response_needs_outstanding b now' l src m r hc hm hk hr
  intro pd hpd
  rw [C02_stale_generation_history a now u p hcl evs now' m.tid ht] at hpd
  cases hpd

/-- what `sendRequest` uses as transaction id, and that the counter moves on (justifies the reading
"ids of the ended generation are `< 2 * a.nextTid + a.tag`") -/
theorem C02_tid_source (a : Agent) (now : Nat) (l r : Cand) (uc : Bool) (nom : Option Nat) :
    (a.sendRequest now l r uc nom).1.nextTid = a.nextTid + 1 ∧
    (∃ m, (a.sendRequest now l r uc nom).2 = [.dgram l.addr r.addr m] ∧ m.tid = 2 * a.nextTid + a.tag) ∧
    (∀ pd ∈ (a.sendRequest now l r uc nom).1.pending, pd ∈ a.pending ∨ pd.tid = 2 * a.nextTid + a.tag) := by
  unfold Agent.sendRequest
  dsimp only
  refine ⟨?_, ⟨_, rfl, rfl⟩, ?_⟩
  · split <;> rfl
  · intro pd h
    have h' : pd ∈ (a.invalidatePending now).pending ++
        [{ tid := 2 * a.nextTid + a.tag, src := l.addr, dest := r.addr, net := r.net, useCand := uc, nom := nom, ts := now }] := by
      revert h
      split <;> exact id
    rcases List.mem_append.mp h' with h | h
    · exact Or.inl (List.mem_filter.mp h).1
    · right; rw [List.mem_singleton.mp h]

/-- (ii) after Restart a request signed with the OLD local password (≠ the new one), or whose USERNAME
names the old ufrag pair (≠ the new one), is a no-op. -/
theorem C02_stale_generation_request (a : Agent) (now now' : Nat) (u p : String) (hcl : a.closed = false)
    (l : Cand) (src : Nat) (m : Msg) (hc : m.cls = 0)
    (h : (m.key = some a.localPwd ∧ a.localPwd ≠ p) ∨
         (m.user = some (a.localUfrag ++ ":" ++ a.remoteUfrag) ∧ a.localUfrag ++ ":" ++ a.remoteUfrag ≠ u ++ ":" ++ "")) :
    (step a (.restart now u p)).1.handleInbound now' l src m = ((step a (.restart now u p)).1, []) := by
  obtain ⟨_, hu, hp, hru, _⟩ := C02_stale_generation a now u p hcl
  apply C02_bad_request_noop _ _ _ _ _ hc
  rw [hu, hp, hru]
  rcases h with ⟨hk, hne⟩ | ⟨hk, hne⟩
  · right; rw [hk]; intro e; exact hne (Option.some.inj e)
  · left; rw [hk]; intro e; exact hne (Option.some.inj e)

/-- (ii, at the level of `step`, any later point of the new generation): in ANY state `b` whose current
local password differs from the old one, a request signed with the old password is a no-op.  This is
`C02_step_noop` read for stale traffic; stated to make the corollary explicit. -/
theorem C02_stale_generation_step (b : Agent) (oldPwd : String) (now la src : Nat) (m : Msg) (q : Quiescent b)
    (hc : m.cls = 0) (hk : m.key = some oldPwd) (hne : oldPwd ≠ b.localPwd) :
    step b (.inbound now la src m) = (b, []) := by
  apply C02_step_noop b now la src m q
  intro l _
  left
  refine ⟨hc, Or.inr ?_⟩
  rw [hk]
  intro e
  exact hne (Option.some.inj e)

example : (step exA (.restart 3000 "nu" "np")).1.pending = [] := by decide
example : exA.localPwd ≠ "np" := by decide
example : 2 < 2 * exA.nextTid + exA.tag := by decide

/-! ## Tie T: the gates of the code -/

/-- `canHandleInbound` of agent.go, regenerated from the source: Binding method and class ∈ {success
response (2), request (0), indication (1)} in pion/stun's numbering — the gate of `Agent.handleInbound`. -/
theorem C02_class_gate_code (method : UInt16) (cls : UInt8) :
    IceGen.canHandleInbound method cls
      = (method.toNat == 1 && (cls.toNat == 2 || cls.toNat == 0 || cls.toNat == 1)) :=
  IceTie.AgentInbound.canHandleInbound_tie method cls

/-- … so the model's gate, on a message whose method/class are the numbers on the wire, IS the code's. -/
theorem C02_class_gate_model (a : Agent) (now : Nat) (l : Cand) (src : Nat) (m : Msg) (method : UInt16) (cls : UInt8)
    (hm : method.toNat = m.method) (hc : cls.toNat = m.cls) (h : IceGen.canHandleInbound method cls = false) :
    a.handleInbound now l src m = (a, []) := by
  apply handleInbound_gate
  rw [IceTie.AgentInbound.gate_eq_code m method cls hm hc, h]

/-- `responseSymmetric` of selection.go, regenerated from the source: same network type ∧ the response comes
from the request's destination ∧ (no source recorded ∨ the response arrived on the request's source address)
(RFC 8445 §7.2.5.2.1, both halves; fix of F17). -/
theorem C02_symmetry_code (sameNet sameAddr hasSource sameSource : Bool) :
    IceGen.responseSymmetric sameNet sameAddr hasSource sameSource
      = (sameNet && sameAddr && (!hasSource || sameSource)) :=
  IceTie.AgentInbound.responseSymmetric_tie sameNet sameAddr hasSource sameSource

/-- … and for a request recorded by `sendBindingRequest` (source always recorded) it is the test
`pd.net == l.net && pd.dest == rsrc && pd.src == l.addr` of the model's `handleSuccess` (`rsrc` = source of the
response, `l` = local candidate it arrived on, `pd` = the pending transaction). -/
theorem C02_symmetry_code_model (pd : Pending) (l : Cand) (rsrc : Nat) :
    IceGen.responseSymmetric (pd.net == l.net) (pd.dest == rsrc) true (pd.src == l.addr)
      = (pd.net == l.net && pd.dest == rsrc && pd.src == l.addr) :=
  IceTie.AgentInbound.responseSymmetric_model pd l rsrc

example : IceGen.responseSymmetric true true true false = false := by decide
example : IceGen.responseSymmetric true true false false = true := by decide

example : IceGen.canHandleInbound 1 3 = false := by decide
example : IceGen.canHandleInbound 1 2 = true := by decide
example : IceGen.canHandleInbound 2 0 = false := by decide

/-! ## more code ties (T): the source address of an inbound packet and the STUN path of `handleInboundPacket` -/

/-- `netAddrToAddrPort` and `portFitsInUint16` (addr.go, regenerated): nil → the invalid zero value; a `*net.UDPAddr` and a
`*net.TCPAddr` alike → zero for a typed nil or a port outside 0 … 65535 (65535 itself is valid), else the address's own
`AddrPort()` (IP WITH its zone, port); anything else is parsed from its string.  So a real UDP/TCP source address is never
turned into an invalid source (which `handleInbound` would drop) -/
theorem C02_code_netAddrToAddrPort (isNil isUDPAddr isTCPAddr typedNil : Bool) (port : Int64) (parseFails : Bool) :
    IceGen.portFitsInUint16 port = decide (0 ≤ port.toInt ∧ port.toInt ≤ 65535) ∧
    IceGen.netAddrToAddrPort isNil isUDPAddr isTCPAddr typedNil port parseFails
      = (if isNil then "zero"
        else if isUDPAddr || isTCPAddr then
          (if typedNil || !decide (0 ≤ port.toInt ∧ port.toInt ≤ 65535) then "zero" else "a.AddrPort()")
        else if parseFails then "zero" else "ParseAddrPort(addr.String())") ∧
    ((isUDPAddr || isTCPAddr) = true → 0 ≤ port.toInt → port.toInt ≤ 65535 →
      IceGen.netAddrToAddrPort false isUDPAddr isTCPAddr false port parseFails = "a.AddrPort()") :=
  ⟨IceTie.Addr.portFitsInUint16_tie port, IceTie.Addr.netAddrToAddrPort_tie isNil isUDPAddr isTCPAddr typedNil port parseFails,
   IceTie.Addr.netAddrToAddrPort_valid isUDPAddr isTCPAddr port parseFails⟩

/-- `toAddrPortKey` (the 18-byte key of the address maps): an invalid address is the zero key, otherwise the 16 address bytes and
the port big endian; two different ports never share their two bytes -/
theorem C02_code_toAddrPortKey (valid : Bool) (port q : UInt16) :
    IceGen.toAddrPortKey valid port
      = (if valid then
          ([IceModel.Eff.call "copy(ap[:16], As16)" [], IceModel.Eff.set "ap[16]" (IceModel.Val.n (port.toNat / 256)),
            IceModel.Eff.set "ap[17]" (IceModel.Val.n (port.toNat % 256))], "ap")
        else ([], "ap")) ∧
    ((port.toNat / 256, port.toNat % 256) = (q.toNat / 256, q.toNat % 256) → port = q) :=
  ⟨IceTie.Addr.toAddrPortKey_tie valid port, IceTie.Addr.toAddrPortKey_port_injective port q⟩

/-- the STUN path of `candidateBase.handleInboundPacket` (regenerated in effect mode): a STUN message is handed to the STUN
handler and NOTHING else happens — in particular the data-plane cache is not probed (nor filled) for it -/
theorem C02_code_stun_path (cacheHit valid writeFails : Bool) (n : Int64) (hasSelected : Bool) :
    IceGen.candidateBase_handleInboundPacket true cacheHit valid writeFails n hasSelected
      = [IceTie.Order.c "handleInboundSTUNMessage"] :=
  (IceTie.Order.handleInboundPacket_order cacheHit valid writeFails n hasSelected).1

example : IceGen.portFitsInUint16 65535 = true ∧ IceGen.portFitsInUint16 65536 = false ∧ IceGen.portFitsInUint16 (-1) = false ∧
    IceGen.netAddrToAddrPort false false true false 65535 false = "a.AddrPort()" ∧
    IceGen.netAddrToAddrPort false true false false 70000 false = "zero" := by decide

/-! ## Tie to the code (T, round 3): the inbound dispatch `handleInbound` / `handleInboundResponse` / `handleInboundRequest` and
`sendBindingSuccess` (agent.go) are REGENERATED on every run (`IceGen.T_Round3`, effect mode) -/

open IceTie.AgentDispatch in
/-- `Agent.handleInbound`: nothing for nil arguments and for what `canHandleInbound` rejects; responses and requests go to their
handlers; `seen(false)` (the liveness refresh) comes after the handler and only if it accepted the message; the model's gate and
indication branch do the same -/
theorem C02_code_handleInbound :
    (∀ msgNil localNil method cls hasRemote respOk reqOk hasRemoteAfter,
      IceGen.agent_handleInbound msgNil localNil method cls hasRemote respOk reqOk hasRemoteAfter
        = if msgNil || localNil || !(IceGen.canHandleInbound method cls) then []
          else if cls == 2 then c "handleInboundResponse" :: (if respOk && hasRemote then [seen] else [])
          else if cls == 0 then c "handleInboundRequest" :: (if reqOk && hasRemoteAfter then [seen] else [])
          else if hasRemote then [seen] else []) ∧
    (∀ (a : Agent) (now : Nat) (l : Cand) (src : Nat) (m : Msg),
      (m.method == 1 && (m.cls == 2 || m.cls == 0 || m.cls == 1)) = false → a.handleInbound now l src m = (a, [])) :=
  ⟨handleInbound_tie, handleInbound_model_gate⟩

example : IceGen.agent_handleInbound false false 1 0 true false false true = [IceTie.AgentDispatch.c "handleInboundRequest"] ∧
    IceGen.agent_handleInbound false false 1 0 false false true true
      = [IceTie.AgentDispatch.c "handleInboundRequest", IceTie.AgentDispatch.seen] ∧
    IceGen.agent_handleInbound false false 1 3 true true true true = [] := by decide

open IceTie.AgentDispatch in
/-- `Agent.handleInboundResponse`: integrity under the remote password, then a known remote candidate, only then the selector;
`Agent.handleInboundRequest`: USERNAME, then integrity under the local password — a request failing either has NO effect (code
and model); then prflx discovery, the role-conflict gate, the selector -/
theorem C02_code_inbound_gates :
    (∀ integrityErr remoteNil, IceGen.agent_handleInboundResponse integrityErr remoteNil
      = if !integrityErr && !remoteNil then ([c "selector.HandleSuccessResponse"], true) else ([], false)) ∧
    (∀ userErr integrityErr remoteNil netErr prioErr newErr added roleErr sameRole,
      IceGen.agent_handleInboundRequest userErr integrityErr remoteNil netErr prioErr newErr added roleErr sameRole
        = if userErr || integrityErr then ([], ("nil", false))
          else if remoteNil then
            (if netErr then ([], ("nil", false))
             else if newErr || !added then (prflxEffs prioErr newErr, ("nil", false))
             else (prflxEffs prioErr newErr ++ (roleEffs roleErr sameRole).1, (roleEffs roleErr sameRole).2))
          else roleEffs roleErr sameRole) ∧
    (∀ (a : Agent) (now : Nat) (l : Cand) (src : Nat) (m : Msg), m.method = 1 → m.cls = 0 →
      m.user ≠ some (a.localUfrag ++ ":" ++ a.remoteUfrag) ∨ m.key ≠ some a.localPwd → a.handleInbound now l src m = (a, [])) :=
  ⟨handleInboundResponse_tie, handleInboundRequest_tie, handleInbound_model_request_unauthenticated⟩

example : IceGen.agent_handleInboundRequest false true false false false false true true false = ([], ("nil", false)) ∧
    IceGen.agent_handleInboundRequest false false false false false false true true false
      = ([IceTie.AgentDispatch.c "selector.HandleBindingRequest"], ("remoteCandidate", true)) ∧
    IceGen.agent_handleInboundResponse true false = ([], false) := by decide

open IceTie.AgentDispatch in
/-- `Agent.sendBindingSuccess`: the request's transaction, the remote candidate's address, the LOCAL password; the pair's
response counter before the single `sendSTUN`; nothing is sent on a parse / build failure; the model emits exactly that datagram -/
theorem C02_code_sendBindingSuccess :
    (∀ parseErr buildErr hasPair, IceGen.agent_sendBindingSuccess parseErr buildErr hasPair
      = if parseErr then []
        else [c "attrs(m,BindingSuccess,XORMappedAddress(remote))", c "attrs+=(Integrity(localPwd),Fingerprint)"] ++
          (if buildErr then [] else (if hasPair then [c "pair.UpdateResponseSent"] else []) ++ [c "sendSTUN"])) ∧
    (∀ (a : Agent) (now : Nat) (m : Msg) (l r : Cand),
      (a.sendSuccess now m l r).2 = [.dgram l.addr r.addr { cls := 2, tid := m.tid, key := some a.localPwd }]) :=
  ⟨sendBindingSuccess_tie, sendSuccess_model⟩

example : IceGen.agent_sendBindingSuccess true false true = [] ∧
    (IceGen.agent_sendBindingSuccess false false true).length = 4 := by decide

end IceProps.C02
