import IceProofs.TaskLoopTrace
import IceProofs.TaskLoopProgress
import IceSpec.C10
import IceProofs.C10View
/-!
# C10 — agent state is only touched serially (task loop)

Property theorems only.  All of them quantify over EVERY state reachable in the model
`IceModel.TaskLoop` by ANY finite action sequence: any number of submitter and closer threads, any
interleaving, contexts cancelled at any point.  The safety theorems need no hypothesis (they also hold
when a task calls `Run` re-entrantly); only the progress theorem excludes re-entrant `Run`
(`noReentry`), and `C10_reentry_deadlock_witness` shows that the excluded case does deadlock.

The tie of the model to `internal/taskloop/taskloop.go` is the A tie (recorded histories of the real
`Loop` replayed through `step`, `Driver/TaskLoop.lean`) plus the source-shape check `taskloop skel`.
-/
namespace IceProps.C10
open IceModel.TaskLoop IceSpec.C10 IceProofs.TaskLoop
set_option linter.unusedSimpArgs false

/-- **Mutual exclusion.** In every reachable state at most one task is executing (started and not
finished), and it is the one the loop thread is inside of. -/
theorem C10_mutex {s : State} (h : Reachable s) (i j : Nat) (hi : executing s i) (hj : executing s j) :
    i = j ∧ execOf s.loop = some i := by
  have a := view_running (executing_loop h hi)
  have b := view_running (executing_loop h hj)
  rw [a] at b
  exact ⟨Option.some.inj b, a⟩

example : ∃ s, Reachable s ∧ executing s 0 :=
  ⟨_, ⟨[.call 0, .errCheckPass 0, .handoff 0, .start 0], rfl⟩, by decide⟩

/-- Every task starts at most once and finishes at most once, whatever happens. -/
theorem C10_at_most_once {s : State} (h : Reachable s) (i : Nat) :
    (s.subs i).started ≤ 1 ∧ (s.subs i).finished ≤ (s.subs i).started ∧ (s.subs i).taken ≤ 1 ∧
    ((s.subs i).taken = 1 → (s.subs i).offered = true) := by
  have hi := (inv_reachable h).subs i
  revert hi
  generalize s.subs i = u
  generalize view s.loop i = v
  intro hi
  rcases u with ⟨pc, cd, pd, off, tk, st, fi, rt⟩
  cases v <;> rcases pc with _ | _ | _ | _ | ⟨_ | _ | _⟩ <;> simp_all [SubOK]

/-- **`Run` returns nil iff its task ran exactly once to completion.**  In every reachable state in
which call `i` has returned `r`: `r = nil` iff the task of call `i` has started exactly once and
finished exactly once.  Because this holds in the state right after the return the run happened BEFORE
the return; because it holds in every later state the task never runs again. -/
theorem C10_run_nil_iff_ran {s : State} (h : Reachable s) (i : Nat) (r : RunRes)
    (hr : (s.subs i).returned = some r) :
    r = .nil ↔ ((s.subs i).started = 1 ∧ (s.subs i).finished = 1) := by
  have hi := (inv_reachable h).subs i
  revert hi hr
  generalize s.subs i = u
  generalize view s.loop i = v
  intro hr hi
  rcases u with ⟨pc, cd, pd, off, tk, st, fi, rt⟩
  cases v <;> rcases pc with _ | _ | _ | _ | ⟨_ | _ | _⟩ <;> simp_all [SubOK]

/-- **`Run` returns an error iff its task never ran**: in every reachable state (so also in all later
ones) in which call `i` has returned `r`, `r ≠ nil` iff the task has never started — it was not even
received by the loop (`taken = 0`). -/
theorem C10_run_err_iff_never {s : State} (h : Reachable s) (i : Nat) (r : RunRes)
    (hr : (s.subs i).returned = some r) :
    r ≠ .nil ↔ ((s.subs i).started = 0 ∧ (s.subs i).taken = 0) := by
  have hi := (inv_reachable h).subs i
  revert hi hr
  generalize s.subs i = u
  generalize view s.loop i = v
  intro hr hi
  rcases u with ⟨pc, cd, pd, off, tk, st, fi, rt⟩
  cases v <;> rcases pc with _ | _ | _ | _ | ⟨_ | _ | _⟩ <;> simp_all [SubOK]

example : ∃ s, Reachable s ∧ (s.subs 0).returned = some .nil ∧ (s.subs 1).returned = some .ctx :=
  ⟨_, ⟨[.call 0, .call 1, .errCheckPass 1, .errCheckPass 0, .handoff 0, .cancel 1, .start 0, .selCtx 1,
        .finish 0, .closePriv 0, .wake 0], rfl⟩, by decide⟩

/-- The moment of the return: the transition that makes call `i` return `r` is enabled only when the
task has already run once to completion (`r = nil`) resp. has never started (`r ≠ nil`). -/
theorem C10_run_return_moment {s s' : State} (h : Reachable s) (a : Action) (i : Nat) (r : RunRes)
    (hs : step s a = some s') (hl : label a = some (.runReturn i r)) :
    (r = .nil → (s.subs i).started = 1 ∧ (s.subs i).finished = 1) ∧ (r ≠ .nil → (s.subs i).started = 0) := by
  have hinv := inv_reachable h
  have hi := hinv.subs i
  cases a <;> simp [label] at hl <;> obtain ⟨rfl, rfl⟩ := hl <;> simp only [step] at hs <;>
    split at hs <;> (try cases hs) <;> rename_i hg
  · have f := sub_not_offered_facts hi (Or.inl hg.1); simp [f.1]
  · have f := sub_not_offered_facts hi (Or.inr (Or.inl hg.1)); simp [f.1]
  · have f := sub_not_offered_facts hi (Or.inr (Or.inl hg.1)); simp [f.1]
  · have f := sub_woken_facts hi hg.1 hg.2; simp [f.1, f.2.1]

/-- **No task starts after any `Close` has returned** (state form): in a reachable state in which
some `Close` has returned, no enabled transition is a task start or even a hand-off. -/
theorem C10_no_start_after_close {s s' : State} (h : Reachable s) (hc : s.closeReturned = true)
    (a : Action) (hs : step s a = some s') :
    (∀ i, a ≠ .start i) ∧ (∀ i, a ≠ .handoff i) ∧ s'.closeReturned = true := by
  obtain ⟨_, g2, _, _, _, _, g6, _⟩ := (inv_reachable h).glob
  have hex := g2.mp (g6 hc).1
  refine ⟨?_, ?_, closeReturned_mono a hs hc⟩
  · intro i e; subst e; simp [step, hex] at hs
  · intro i e; subst e; simp [step, hex] at hs

example : ∃ s, Reachable s ∧ s.closeReturned = true ∧ (s.subs 0).returned = some .closed :=
  ⟨_, ⟨[.call 0, .errCheckPass 0, .closeCall 0 true, .onceWin 0, .storeErr 0, .closeDoneCh 0, .preStopRun 0, .loopDone,
        .onClose, .onCloseEnd, .closeTLD, .onceExit 0, .waitTLD 0, .selDone 0], rfl⟩, by decide⟩

/-- Execution form: in any execution, after a `closeReturn` event there is no `taskStart` event. -/
theorem C10_no_start_after_close_trace (as bs : List Action) (s : State)
    (h : run init (as ++ bs) = some s) (j : Nat) (hj : Ev.closeReturn j ∈ trace as) (i : Nat) :
    Ev.taskStart i ∉ trace bs := by
  -- split the execution at the boundary
  rw [run_append] at h
  cases h1 : run init as with
  | none => simp [h1] at h
  | some s1 =>
  have h2 : run s1 bs = some s := by simpa [h1] using h
  -- after `as` some Close has returned
  have flag : ∀ (as : List Action) (s0 s1 : State), run s0 as = some s1 →
      (s0.closeReturned = true ∨ Ev.closeReturn j ∈ trace as) → s1.closeReturned = true := by
    intro as
    induction as with
    | nil => intro s0 s1 h hc; simp [run] at h; subst h; simpa [trace] using hc
    | cons a as ih =>
      intro s0 s1 h hc
      simp only [run] at h
      split at h
      · rename_i s' hs'
        apply ih s' s1 h
        rcases hc with hc | hc
        · exact Or.inl (closeReturned_mono a hs' hc)
        · simp only [trace, List.filterMap_cons] at hc
          cases hl : label a with
          | none => rw [hl] at hc; exact Or.inr hc
          | some e =>
            rw [hl] at hc
            simp only [List.mem_cons] at hc
            rcases hc with hc | hc
            · subst hc
              left
              cases a <;> simp [label] at hl
              subst hl
              simp only [step] at hs'; split at hs' <;> cases hs'; simp [setCloserPc]
            · exact Or.inr hc
      · cases h
  have hc1 := flag as init s1 h1 (Or.inr hj)
  -- from then on no start
  have nostart : ∀ (bs : List Action) (s1 s : State), Reachable s1 → s1.closeReturned = true →
      run s1 bs = some s → Ev.taskStart i ∉ trace bs := by
    intro bs
    induction bs with
    | nil => intro _ _ _ _ _; simp [trace]
    | cons b bs ih =>
      intro s1 s hr hc h
      simp only [run] at h
      split at h
      · rename_i s' hs'
        have k := C10_no_start_after_close hr hc b hs'
        have hr' : Reachable s' := reachable_step hr b hs'
        have rest := ih s' s hr' k.2.2 h
        simp only [trace, List.filterMap_cons]
        cases hl : label b with
        | none => exact rest
        | some e =>
          simp only [List.mem_cons, not_or]
          refine ⟨?_, rest⟩
          intro he; subst he
          cases b <;> simp [label] at hl
          subst hl; exact k.1 _ rfl
      · cases h
  exact nostart bs s1 s ⟨as, h1⟩ hc1 h2

/-- **`onClose` runs exactly once, after the last task, before any `Close` returns.**  In every
reachable state: it has run at most once; if it has run, no task is executing and no enabled
transition starts a task or runs `onClose` again; if some `Close` has returned, it has run and has
returned (`oncloseEnds = 1`). -/
theorem C10_onclose_once_last {s : State} (h : Reachable s) :
    s.oncloseRuns ≤ 1 ∧ s.oncloseEnds ≤ s.oncloseRuns ∧
    (s.oncloseRuns = 1 → (∀ i, ¬ executing s i) ∧
      ∀ a s', step s a = some s' → (∀ i, a ≠ .start i) ∧ (∀ i, a ≠ .handoff i) ∧ a ≠ .onClose) ∧
    (s.closeReturned = true → s.oncloseRuns = 1 ∧ s.oncloseEnds = 1) ∧
    (∀ s', step s .onClose = some s' → ∀ i, ¬ executing s i) := by
  have hinv := inv_reachable h
  obtain ⟨g1, g2, g3, g3e, _, _, g6, _⟩ := hinv.glob
  refine ⟨?_, ?_, ?_, ?_, ?_⟩
  · rw [g3]; split <;> simp
  · rw [g3, g3e]; cases hl : s.loop <;> simp [onclosed, oncloseEnded]
  · intro h1
    have hon : onclosed s.loop = true := by
      cases ho : onclosed s.loop
      · rw [ho] at g3; simp [g3] at h1
      · rfl
    constructor
    · intro i he
      have := view_running (executing_loop h he)
      cases hl : s.loop <;> simp_all [onclosed, execOf]
    · intro a s' hs
      refine ⟨?_, ?_, ?_⟩
      · intro i e; subst e; simp only [step] at hs; split at hs
        · rename_i hl; rw [hl] at hon; simp [onclosed] at hon
        · cases hs
      · intro i e; subst e; simp only [step] at hs; split at hs
        · rename_i hl; rw [hl.2] at hon; simp [onclosed] at hon
        · cases hs
      · intro e; subst e; simp only [step] at hs; split at hs
        · rename_i hl; rw [hl] at hon; simp [onclosed] at hon
        · cases hs
  · intro hc
    have := g2.mp (g6 hc).1
    rw [g3, g3e, this]; simp [onclosed, oncloseEnded]
  · intro s' hs i he
    simp only [step] at hs; split at hs
    · rename_i hl
      have := view_running (executing_loop h he)
      rw [hl] at this; simp [execOf] at this
    · cases hs

example : ∃ s, Reachable s ∧ s.oncloseRuns = 1 ∧ s.closeReturned = true :=
  ⟨_, ⟨[.closeCall 0 false, .onceWin 0, .storeErr 0, .closeDoneCh 0, .loopDone, .onClose, .onCloseEnd, .closeTLD,
        .preStopNil 0, .onceExit 0, .waitTLD 0], rfl⟩, by decide⟩

/-- **Every trace of the model passes the spec monitor of C10** (all clauses, every execution,
any number of threads). -/
theorem C10_trace_passes_monitor (as : List Action) (s : State) (h : run init as = some s) :
    monitor (trace as) = none := by
  obtain ⟨m, hm, _⟩ := sim_run inv_init rel_init as h
  simp [monitor, hm]

example : trace [.call 0, .errCheckPass 0, .handoff 0, .start 0, .finish 0, .closePriv 0, .wake 0] =
    [.submit 0, .taskStart 0, .taskEnd 0, .runReturn 0 .nil] := by decide

open IceSpec.C10.View in
/-- **View round trip (history tokens).** Every recorded event (including nested submits and unknown
errors) is read back from its canonical token by the reader the driver uses (`IceSpec/C10View.lean`; no
well-formedness hypothesis), and the string monitor on a printed history is the typed monitor. -/
theorem C10_view_roundtrip :
    (∀ e : HEv, parseTok (printH e) = some e) ∧ (∀ e : Ev, toEv (hevOf e) = some e) ∧
    (∀ h : List Ev, monitorToks ((h.map hevOf).map printH) = monitor h) :=
  ⟨IceProofs.C10View.parseTok_printH, IceProofs.C10View.toEv_hevOf, IceProofs.C10View.monitorToks_print⟩

open IceSpec.C10.View in
-- non-vacuity: the printed tokens are the protocol's tokens
example : [HEv.submit 0, .nested 0 12, .tstart 0, .tend 0, .ret 0 (some .nil), .ret 1 none, .ccall 0 true, .prestop, .cret 0].map printH
    = ["s0", "n0.12", "b0", "e0", "r0:n", "r1:?", "c0:1", "p", "d0"] := by decide

open IceSpec.C10.View in
/-- **Model ⊆ STRING monitor.** The printed trace of EVERY execution of the model is accepted by
`monitorToks`, the monitor the driver runs on the tokens recorded from the real loop. -/
theorem C10_model_passes_string_monitor (as : List Action) (s : State) (h : run init as = some s) :
    monitorToks (((trace as).map hevOf).map printH) = none := by
  rw [IceProofs.C10View.monitorToks_print]
  exact C10_trace_passes_monitor as s h

open IceSpec.C10.View in
example : ((trace [.call 0, .errCheckPass 0, .handoff 0, .start 0, .finish 0, .closePriv 0, .wake 0]).map hevOf).map printH =
    ["s0", "b0", "e0", "r0:n"] := by decide

/-- **No deadlock when `Run` is never called from inside a task.**  After any execution without
`callNested`, as long as some `Run` or `Close` call is in progress, some statement of the code (or the
return of the task / callback in progress) is enabled.  In particular the guards standing for "closing
a closed channel panics" never block, every `Run` eventually can return, every `Close` can return. -/
theorem C10_progress (as : List Action) (s : State) (h : run init as = some s)
    (hn : noReentry as = true)
    (hact : (∃ i, subActive (s.subs i) = true) ∨ (∃ j, closerActive (s.closers j) = true)) : CanStep s :=
  progress (inv_run inv_init as h) (notNested_run as h hn rfl) hact

example : noReentry [.call 0, .errCheckPass 0, .handoff 0, .start 0] = true := by decide
example : ∃ s, run init [.call 0, .errCheckPass 0, .handoff 0, .start 0] = some s ∧ subActive (s.subs 0) = true :=
  ⟨_, rfl, by decide⟩

/-- The excluded case: task 0 calls `Run` (call 1) from inside the loop thread and waits. -/
def reentryWitness : List Action :=
  [.call 0, .errCheckPass 0, .handoff 0, .start 0, .callNested 0 1, .errCheckPass 1]

/-- **Witness that the hypothesis of `C10_progress` is needed**: after `reentryWitness` call 1 is in
progress (blocked in the `select` of `Run`) and NO statement of the code can execute: the loop thread
waits for call 1, call 1 waits for the loop thread.  Only the environment (cancelling `ctx_1`, or a
`Close`) can resolve it. -/
theorem C10_reentry_deadlock_witness :
    ∃ s, run init reentryWitness = some s ∧ subActive (s.subs 1) = true ∧ ¬ CanStep s := by
  refine ⟨_, rfl, by decide, ?_⟩
  rintro ⟨a, ha, hen⟩
  cases a <;> simp [Action.isEnv] at ha <;>
    simp [step, init, upd, retSub, setCloserPc] at hen
  all_goals (try (split at hen <;> simp_all))
  all_goals (split at hen <;> simp_all)

end IceProps.C10
