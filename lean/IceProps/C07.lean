import IceProofs.AgentC07Sys
import IceTie.Order
/-!
# C07 — application data travels only over validated pairs and only from known peers

Property theorems only (lemmas: `IceProofs/AgentC07*.lean`).  All statements are about the executable model
`IceModel.AgentCore.step` / `IceModel.Sys2`; the model is tied to the Go code by the differential
correspondence of component `agent`.  Payloads are their length plus the `stunLike` flag
(`stun.IsMessage`); the model never touches contents, so "unmodified" holds by construction.

Reading guide.  `route a` = the selected pair if it is listed, else `bestValid`.  `wrote a now pid luid len` =
`a` with the local candidate's last-sent time refreshed and, when `len > 0`, pair `pid`'s `pktSent+1`,
`bytesSent+len`.  `inboundAccepted a e` = the filter written independently of `step` (`inboundOverflow a e` = its overflow twin: known
source, payload does not fit): `some len` iff the payload fits into the receive buffer (`rxFits`) and the
agent is open and started, the payload is not STUN-like, a local candidate listens at the address, and its
cache holds the source or a current remote candidate of its network type has that address.
`Inv` = invariant of reachable states (`Inv_init`, `Inv_step`); `run a evs` = the state after a history.
`.read cap` = `Conn.Read` into a caller buffer of `cap` bytes (`packetio.Buffer.Read`: the head datagram is consumed
whole, `min n cap` bytes are returned, with `io.ErrShortBuffer` — answer `short:cap` — when `cap < n`).
-/
namespace IceProps.C07
open IceModel.AgentCore IceModel.Sys2 IceProofs.AgentC07

/-! ## Fixtures for the non-vacuity examples -/

def L : Cand := { uid := 0, ty := 1, net := 0, addr := 16, prio := 100 }
def R : Cand := { uid := 0, ty := 1, net := 0, addr := 32, prio := 100 }
def a0 : Agent := {}
/-- gather, signal, start (controlling), first check answered: pair 1 is `succeeded`, nothing selected -/
def validated : List Ev := [.addLocal 0 L, .addRemote 0 R, .start 0 true "ru" "rp",
  .inbound 1 16 32 { cls := 2, tid := 2, key := some "rp" }]
/-- … then the nomination tick and its answer: pair 1 is selected -/
def selected : List Ev := validated ++ [.advance 200000000,
  .inbound 200000001 16 32 { cls := 2, tid := 4, key := some "rp" }]
/-- traffic while pair 1 stays selected: writes (one empty, one STUN-like), inbound from the known peer,
from an unknown source, a STUN-like one, `WriteToPair`, reads -/
def traffic : List Ev := [.write 5 100 false, .inboundData 6 16 32 50 false, .write 7 0 false,
  .writeToPair 8 1 7 false, .inboundData 9 16 48 60 false, .write 10 30 true, .inboundData 11 16 32 70 true,
  .inboundData 12 16 32 20 false, .read 8192]
/-- reads with caller buffers shorter than, equal to and longer than the queued datagram, and of size 0 -/
def shortReads : List Ev := [.inboundData 6 16 32 50 false, .inboundData 7 16 32 10 false,
  .inboundData 8 16 32 10 false, .inboundData 9 16 32 0 false, .read 49, .read 10, .read 0, .read 0, .read 5]

/-! ## `bestValid` -/

/-- `bestValid` is the first pair of highest `pairPrio` among the `succeeded` pairs of the checklist
(strictly better than every succeeded pair before it, at least as good as every one after it), and is
`none` exactly when no listed pair is `succeeded`. -/
theorem C07_bestValid (a : Agent) :
    (∀ b, a.bestValid = some b ↔ IsBest a.pairPrio (fun p => p.state == .succeeded) a.checklist b) ∧
    (a.bestValid = none ↔ ∀ p ∈ a.checklist, (p.state == .succeeded) = false) :=
  ⟨fun b => bestBy_eq_some_iff a _ b, bestBy_eq_none_iff a _⟩

example : ((run a0 validated).bestValid.map (·.id)) = some 1 := by decide

/-! ## Write path -/

/-- `Conn.Write` in EVERY agent state: closed ⇒ `err:closed`; STUN-like ⇒ `err:stun`; both leave the state
unchanged and emit nothing.  Otherwise the pair is the selected pair when it is listed, else `bestValid`;
no such pair ⇒ `err:nopairs`, nothing emitted, state unchanged; a pair whose two candidates resolve ⇒
exactly one datagram, from the pair's local address to the pair's remote address with the same length,
the answer `ok:len`, and the state `wrote …` with `connBytesSent + len`; a pair with a dangling candidate
(unreachable, see `C07_write_outcome`) ⇒ `err:nopairs`, nothing emitted. -/
theorem C07_write_route (a : Agent) (now len : Nat) (stunLike : Bool) :
    (a.closed = true → step a (.write now len stunLike) = (a, [.res "err:closed"])) ∧
    (a.closed = false → stunLike = true → step a (.write now len stunLike) = (a, [.res "err:stun"])) ∧
    (a.closed = false → stunLike = false →
      (∀ id p, a.selected = some id → a.pairById id = some p → route a = some p) ∧
      (a.selected.bind a.pairById = none → route a = a.bestValid) ∧
      (route a = none → step a (.write now len stunLike) = (a, [.res "err:nopairs"])) ∧
      (∀ p, route a = some p →
        (∀ l rm, a.localOf p.l = some l → a.remoteOf p.r = some rm →
          (step a (.write now len stunLike)).2 = [.data l.addr rm.addr len, .res s!"ok:{len}"] ∧
          (step a (.write now len stunLike)).1 =
            { wrote a now p.id l.uid len with connBytesSent := a.connBytesSent + len }) ∧
        ((a.localOf p.l = none ∨ a.remoteOf p.r = none) →
          (step a (.write now len stunLike)).2 = [.res "err:nopairs"]))) := by
  refine ⟨fun h => write_closed a now len stunLike h, fun h hs => by subst hs; exact write_stun a now len h,
    fun h hs => ?_⟩
  subst hs
  refine ⟨fun id p => route_selected a id p, route_unselected a, write_noroute a now len h, fun p hr => ⟨?_, ?_⟩⟩
  · intro l rm hl hrm
    rw [write_routed a now len p h hr, writeVia_ok a now p len l rm hl hrm]
    refine ⟨rfl, ?_⟩
    unfold wrote
    split <;> rfl
  · intro hu
    rw [write_routed a now len p h hr, writeVia_err a now p len hu]

-- before selection the best validated pair carries the write …
example : dataOf (step (run a0 validated) (.write 2 100 false)).2 = [(16, 32, 100)] := by decide
-- … with no validated pair the write fails …
example : resOf (step (run a0 (validated.take 3)) (.write 2 100 false)).2 = ["err:nopairs"] := by decide
-- … after selection the selected pair carries it
example : (run a0 selected).selected = some 1 ∧
    dataOf (step (run a0 selected) (.write 5 100 false)).2 = [(16, 32, 100)] := by decide

/-- `Conn.WriteToPair` in every agent state: closed / STUN-like / unknown id / pair not `succeeded` ⇒ the
corresponding error, state unchanged, nothing emitted; otherwise exactly one datagram on that pair. -/
theorem C07_writeToPair_route (a : Agent) (now id len : Nat) (stunLike : Bool) :
    (a.closed = true → step a (.writeToPair now id len stunLike) = (a, [.res "err:closed"])) ∧
    (a.closed = false → stunLike = true → step a (.writeToPair now id len stunLike) = (a, [.res "err:stun"])) ∧
    (a.closed = false → stunLike = false →
      (a.pairById id = none → step a (.writeToPair now id len stunLike) = (a, [.res "err:notfound"])) ∧
      (∀ p, a.pairById id = some p →
        (p.state ≠ .succeeded → step a (.writeToPair now id len stunLike) = (a, [.res "err:notsucceeded"])) ∧
        (p.state = .succeeded →
          (∀ l rm, a.localOf p.l = some l → a.remoteOf p.r = some rm →
            step a (.writeToPair now id len stunLike) =
              (wrote a now p.id l.uid len, [.data l.addr rm.addr len, .res s!"ok:{len}"])) ∧
          ((a.localOf p.l = none ∨ a.remoteOf p.r = none) →
            step a (.writeToPair now id len stunLike) = (a, [.res "err:nopairs"]))))) := by
  refine ⟨fun h => writeToPair_closed a now id len stunLike h,
    fun h hs => by subst hs; exact writeToPair_stun a now id len h, fun h hs => ?_⟩
  subst hs
  refine ⟨writeToPair_notfound a now id len h, fun p hp =>
    ⟨writeToPair_notsucceeded a now id len p h hp, fun hs => ⟨?_, ?_⟩⟩⟩
  · intro l rm hl hrm
    rw [writeToPair_routed a now id len p h hp hs, writeVia_ok a now p len l rm hl hrm]
  · intro hu
    rw [writeToPair_routed a now id len p h hp hs, writeVia_err a now p len hu]

example : dataOf (step (run a0 validated) (.writeToPair 2 1 9 false)).2 = [(16, 32, 9)] ∧
    resOf (step (run a0 validated) (.writeToPair 2 5 9 false)).2 = ["err:notfound"] ∧
    resOf (step (run a0 (validated.take 3)) (.writeToPair 2 1 9 false)).2 = ["err:notsucceeded"] := by decide

/-- Along every history from an initial state both write operations have exactly two outcomes: refused
(state unchanged, one `err:…` answer, NO datagram, not answered `ok`), or accepted (exactly one datagram
`data l.addr rm.addr len` on a listed pair whose candidates are both current, answered `ok:len`).  A
STUN-like payload is always refused: one datagram per accepted write, never a STUN-like one. -/
theorem C07_write_outcome (init : Agent) (hist : List Ev) (hi : Initial init) (now len : Nat) (stunLike : Bool) :
    let a := run init hist
    (Refused a len (step a (.write now len stunLike)) ∨
      ∃ p l rm, stunLike = false ∧ route a = some p ∧ Sent a len p l rm (step a (.write now len stunLike)) ∧
        (step a (.write now len stunLike)).1 =
          { wrote a now p.id l.uid len with connBytesSent := a.connBytesSent + len }) ∧
    ∀ id, (Refused a len (step a (.writeToPair now id len stunLike)) ∨
      ∃ p l rm, stunLike = false ∧ a.pairById id = some p ∧ p.state = .succeeded ∧
        Sent a len p l rm (step a (.writeToPair now id len stunLike)) ∧
        (step a (.writeToPair now id len stunLike)).1 = wrote a now p.id l.uid len) := by
  intro a
  have h : Inv a := Inv_run init hist (Inv_init init hi)
  exact ⟨write_outcome a now len stunLike h, fun id => writeToPair_outcome a now id len stunLike h⟩

example : Initial a0 := by decide
example : dataOf (step (run a0 selected) (.write 10 30 true)).2 = [] := by decide

/-! ## Read path -/

/-- Inbound payload in EVERY agent state: nothing is emitted; the payload is queued for the reader (`rx`
grows by exactly `[len]`) iff the independent filter `inboundAccepted` says `some len` — source known AND the
payload fits into the 1 MB receive buffer (`rxFits`: queued bytes + 2 per datagram + 2 + `len` ≤ 1 000 000).
A payload from a known source that does NOT fit (`inboundOverflow`) is dropped: the reader queue, both connection
counters, the whole checklist (hence every pair counter) and the selection are unchanged — only the source check has
acted (liveness timestamp of the remote candidate, cache entry).  Otherwise the whole state is unchanged.  In
particular a STUN-like payload never reaches `rx`. -/
theorem C07_read_filter (a : Agent) (now la src len : Nat) (stunLike : Bool) :
    (step a (.inboundData now la src len stunLike)).2 = [] ∧
    (inboundAccepted a (.inboundData now la src len stunLike) = some len ∨
      inboundAccepted a (.inboundData now la src len stunLike) = none) ∧
    (inboundAccepted a (.inboundData now la src len stunLike) = some len →
      (step a (.inboundData now la src len stunLike)).1.rx = a.rx ++ [len]) ∧
    (inboundAccepted a (.inboundData now la src len stunLike) = none →
      inboundOverflow a (.inboundData now la src len stunLike) = false →
      (step a (.inboundData now la src len stunLike)).1 = a) ∧
    (inboundOverflow a (.inboundData now la src len stunLike) = true →
      inboundAccepted a (.inboundData now la src len stunLike) = none ∧
      (step a (.inboundData now la src len stunLike)).1.rx = a.rx ∧
      (step a (.inboundData now la src len stunLike)).1.checklist = a.checklist ∧
      (step a (.inboundData now la src len stunLike)).1.selected = a.selected ∧
      (step a (.inboundData now la src len stunLike)).1.connBytesRecv = a.connBytesRecv ∧
      (step a (.inboundData now la src len stunLike)).1.connBytesSent = a.connBytesSent) ∧
    (stunLike = true → inboundAccepted a (.inboundData now la src len stunLike) = none) := by
  -- the live case, shared by the clauses below
  have live : ¬ (a.closed = true ∨ a.started = false ∨ stunLike = true ∨ a.localByAddr la = none) →
      a.closed = false ∧ a.started = true ∧ stunLike = false ∧ ∃ l, a.localByAddr la = some l := by
    intro hd
    refine ⟨?_, ?_, ?_, ?_⟩
    · cases h' : a.closed with
      | false => rfl
      | true => exact absurd (Or.inl h') hd
    · cases h' : a.started with
      | true => rfl
      | false => exact absurd (Or.inr (Or.inl h')) hd
    · cases h' : stunLike with
      | false => rfl
      | true => exact absurd (Or.inr (Or.inr (Or.inl h'))) hd
    · cases hl : a.localByAddr la with
      | none => exact absurd (Or.inr (Or.inr (Or.inr hl))) hd
      | some l => exact ⟨l, rfl⟩
  refine ⟨inboundData_outs a now la src len stunLike, ?_, ?_, ?_, ?_, ?_⟩
  · dsimp only [inboundAccepted]
    repeat' split
    all_goals simp
  · intro h
    have s := (StepSum_inboundData a now la src len stunLike).rx
    rw [s]; unfold rxAfter; rw [h]
  · intro h ho
    by_cases hd : a.closed = true ∨ a.started = false ∨ stunLike = true ∨ a.localByAddr la = none
    · rw [step_inboundData_drop a now la src len stunLike hd]
    · obtain ⟨hc, hs, hst, l, hl⟩ := live hd
      subst hst
      rw [inboundAccepted_live a now la src len l hc hs hl] at h
      have hacc : accepts a l src = false := by
        cases h' : accepts a l src with
        | false => rfl
        | true =>
          cases hf : rxFits a.rx len with
          | true => rw [h', hf] at h; cases h
          | false =>
            simp [inboundOverflow, hc, hs, hl, h', hf] at ho
      rw [step_inboundData a now la src len l hc hs hl, inboundData_reject a now l src len hacc]
  · intro ho
    by_cases hd : a.closed = true ∨ a.started = false ∨ stunLike = true ∨ a.localByAddr la = none
    · exfalso
      rcases hd with h | h | h | h <;> simp [inboundOverflow, h] at ho
    · obtain ⟨hc, hs, hst, l, hl⟩ := live hd
      subst hst
      have hacc : accepts a l src = true ∧ rxFits a.rx len = false := by
        simpa [inboundOverflow, hc, hs, hl] using ho
      have d := (inboundData_full a now l src len hacc.1 hacc.2).2
      rw [step_inboundData a now la src len l hc hs hl]
      refine ⟨?_, d.rx, d.checklist, d.sel, d.recv, d.sent⟩
      rw [inboundAccepted_live a now la src len l hc hs hl, hacc.1, hacc.2]; rfl
  · intro hs
    subst hs
    exact inboundAccepted_drop a now la src len true (Or.inr (Or.inr (Or.inl rfl)))

/-- a stalled reader: 123 payloads of 8190 bytes from the known peer while pair 1 is selected — 122 fit
(122 · 8192 = 999 424 bytes with the 2-byte headers), the 123rd would need 1 007 616 > 1 000 000 and is dropped -/
def floodEvs : List Ev := List.replicate 123 (.inboundData 6 16 32 8190 false)

-- overflow (non-vacuity of the drop clauses): the queue, the connection counter and the selected pair's counters stop
-- at the 122 accepted payloads; a payload that still fits (574 bytes fill the buffer exactly) is accepted after it
set_option maxRecDepth 20000 in
example :
    inboundOverflow (run a0 (selected ++ floodEvs.take 122)) (.inboundData 6 16 32 8190 false) = true ∧
    inboundAccepted (run a0 (selected ++ floodEvs.take 122)) (.inboundData 6 16 32 8190 false) = none ∧
    (run a0 (selected ++ floodEvs)).rx = List.replicate 122 8190 ∧
    ((run a0 (selected ++ floodEvs)).pairById 1).map ctr = some (0, 0, 122, 999180) ∧
    inboundAccepted (run a0 (selected ++ floodEvs)) (.inboundData 7 16 32 574 false) = some 574 ∧
    inboundOverflow (run a0 (selected ++ floodEvs)) (.inboundData 7 16 32 575 false) = true ∧
    (run a0 (selected ++ floodEvs ++ [.read 8192, .inboundData 8 16 32 8190 false])).rx.length = 122 := by decide

-- accepted from the known peer, discarded from an unknown source / when STUN-like / on another transport
example : (step (run a0 selected) (.inboundData 6 16 32 50 false)).1.rx = [50] ∧
    (step (run a0 selected) (.inboundData 6 16 48 50 false)).1.rx = [] ∧
    (step (run a0 selected) (.inboundData 6 16 32 50 true)).1.rx = [] := by decide
example : (step (run a0 (selected ++ [.addLocal 3 { L with net := 1, addr := 17 }]))
    (.inboundData 6 17 32 50 false)).1.rx = [] := by decide

/-- The cache invariant holds along every history: every cache entry `(l, s, r)` names a current local
candidate `l` and a CURRENT remote candidate `r` with `r.addr = s` and `r.net = l.net` (prflx supersession
re-points entries, Restart / Failed / Close clear them; uids are distinct). -/
theorem C07_cache_invariant (init : Agent) (hist : List Ev) (hi : Initial init) :
    ∀ e ∈ (run init hist).caches, ∃ l ∈ (run init hist).locals, l.uid = e.1 ∧
      ∃ r ∈ (run init hist).remotes, r.uid = e.2.2 ∧ r.addr = e.2.1 ∧ r.net = l.net :=
  ((InvC_iff _).mp (Inv_run init hist (Inv_init init hi)).1).2.2.2.2

example : (run a0 (selected ++ [.inboundData 6 16 32 50 false])).caches = [(1, 32, 2)] := by decide

/-- Hence, along every history, a non-STUN payload arriving on the local candidate `l` (listening at `la`)
of an open, started agent reaches the reader iff its source is the address of a known (current) remote
candidate on the same transport AND it fits into the receive buffer; from a known source it overflows
(`inboundOverflow`) iff it does not fit. -/
theorem C07_read_filter_known (init : Agent) (hist : List Ev) (hi : Initial init) (now la src len : Nat) (l : Cand) :
    let a := run init hist
    a.closed = false → a.started = true → a.localByAddr la = some l →
    (inboundAccepted a (.inboundData now la src len false) = some len ↔
      (∃ r ∈ a.remotes, r.net = l.net ∧ r.addr = src) ∧ rxFits a.rx len = true) ∧
    (inboundOverflow a (.inboundData now la src len false) = true ↔
      (∃ r ∈ a.remotes, r.net = l.net ∧ r.addr = src) ∧ rxFits a.rx len = false) := by
  intro a hc hs hl
  have h : Inv a := Inv_run init hist (Inv_init init hi)
  rw [inboundAccepted_live a now la src len l hc hs hl,
    ← accepts_iff_known a l src h (List.mem_of_find?_eq_some hl)]
  constructor
  · cases accepts a l src <;> cases rxFits a.rx len <;> simp
  · simp only [inboundOverflow, hc, hs, hl]
    cases accepts a l src <;> cases rxFits a.rx len <;> simp

/-- The reader never yields STUN traffic and is FIFO.  Along every history: (1) the reader queue after
any event is the old queue, minus its head if the event is a `Read` on an open agent (whatever the size of
the caller's buffer: a datagram is consumed whole), plus `[len]` if the event is an inbound payload accepted
by the filter — so the STUN path (`.inbound`, `handleInbound`) and every other event leave it alone and
STUN-like payloads never enter; (2) `Read` into a buffer of `cap` bytes, in EVERY agent state: `err:closed`
when closed, `empty` on an empty queue, both without any change of state; for the head `n`: `read:n` and
`connBytesRecv + n` when the buffer is large enough (`n ≤ cap`), `short:cap` (`io.ErrShortBuffer`) and
`connBytesRecv + cap` when it is shorter — the datagram is gone in both cases; (3) the datagrams handed to
`Read` so far, followed by what is still queued, are exactly the accepted lengths in arrival order. -/
theorem C07_reader (init : Agent) (hist : List Ev) (hi : Initial init) :
    (∀ pre e, pre ++ [e] <+: hist → (run init (pre ++ [e])).rx = rxAfter (run init pre) e) ∧
    (∀ (a : Agent) (cap : Nat), (a.closed = true → step a (.read cap) = (a, [.res "err:closed"])) ∧
      (a.closed = false → a.rx = [] → step a (.read cap) = (a, [.res "empty"])) ∧
      (∀ n rest, a.closed = false → a.rx = n :: rest → n ≤ cap →
        step a (.read cap) = ({ a with rx := rest, connBytesRecv := a.connBytesRecv + n }, [.res s!"read:{n}"])) ∧
      (∀ n rest, a.closed = false → a.rx = n :: rest → cap < n →
        step a (.read cap) = ({ a with rx := rest, connBytesRecv := a.connBytesRecv + cap }, [.res s!"short:{cap}"]))) ∧
    readLog init hist ++ (run init hist).rx = acceptLog init hist := by
  refine ⟨fun pre e _ => ?_, fun a cap => ⟨step_read_closed a cap, step_read_empty a cap, step_read_full a cap,
    step_read_short a cap⟩, ?_⟩
  · rw [run_append]
    exact (StepSum_step _ e (Inv_run init pre (Inv_init init hi))).rx
  · have := fifo_run init hist (Inv_init init hi)
    rw [hi.2.2.2.2.1] at this
    simpa using this

example : readLog a0 (selected ++ traffic) = [50] ∧ (run a0 (selected ++ traffic)).rx = [20] ∧
    acceptLog a0 (selected ++ traffic) = [50, 20] := by decide
-- short buffers: every Read consumes one whole datagram, in order, whatever it returns
example : readLog a0 (selected ++ shortReads) = [50, 10, 10, 0] ∧ (run a0 (selected ++ shortReads)).rx = [] ∧
    acceptLog a0 (selected ++ shortReads) = [50, 10, 10, 0] ∧
    (resOf (step (run a0 (selected ++ shortReads.take 4)) (.read 49)).2 = ["short:49"]) ∧
    (resOf (step (run a0 (selected ++ shortReads.take 5)) (.read 10)).2 = ["read:10"]) ∧
    (resOf (step (run a0 (selected ++ shortReads.take 6)) (.read 0)).2 = ["short:0"]) ∧
    (resOf (step (run a0 (selected ++ shortReads.take 7)) (.read 0)).2 = ["read:0"]) ∧
    (resOf (step (run a0 (selected ++ shortReads.take 8)) (.read 5)).2 = ["empty"]) := by decide
example : (step (run a0 (selected ++ traffic)) (.inbound 20 16 32 { cls := 0, tid := 9 })).1.rx = [20] := by decide

/-! ## Counters -/

/-- One event, in any state reached from an initial state, changes what C07 counts by exactly:
`connBytesSent` += `len` iff it is a `Write` answered `ok:len`; `connBytesRecv` += the length handed out
iff it is a `Read`; the counters `(pktSent, bytesSent, pktRecv, bytesRecv)` of the pair listed under `id`
before and after += `pairDelta` (an accepted `Write` of `len > 0` routed on it / an accepted `WriteToPair`
of `len > 0` naming it: `(1, len, 0, 0)`; an accepted inbound payload of `len > 0` while it is selected:
`(0, 0, 1, len)`; everything else — checks, prflx supersession, renomination, timers — `(0,0,0,0)`). -/
theorem C07_counters_step (init : Agent) (hist : List Ev) (hi : Initial init) (e : Ev) :
    StepSum (run init hist) e (step (run init hist) e).1 :=
  StepSum_step _ e (Inv_run init hist (Inv_init init hi))

/-- Along every history from an initial state the connection counters equal the payload bytes accepted by
`Write` (answered `ok:len`) and the bytes returned by `Read` — `readTally` adds, for every `Read` on an open
agent, the head of the queue cut to the caller's buffer (`readBy`), which is the sum of the per-call byte
counts `retLog` (each the consumed datagram `n` cut to that call's `cap`: `min n cap`). -/
theorem C07_counters_conn (init : Agent) (hist : List Ev) (hi : Initial init) :
    (run init hist).connBytesSent = sentTally init hist ∧ (run init hist).connBytesRecv = readTally init hist ∧
    readTally init hist = (retLog init hist).sum := by
  have := conn_run init hist (Inv_init init hi)
  rw [hi.2.2.2.2.2.1, hi.2.2.2.2.2.2.1] at this
  exact ⟨by simpa using this.1, by simpa using this.2, readTally_eq_sum init hist⟩

example : sentTally a0 (selected ++ traffic) = 100 ∧ readTally a0 (selected ++ traffic) = 50 ∧
    (run a0 (selected ++ traffic)).connBytesSent = 100 ∧ (run a0 (selected ++ traffic)).connBytesRecv = 50 := by decide
-- short reads are counted with what they returned: 49 of 50, 10 of 10, 0 of 10, 0 of 0
example : retLog a0 (selected ++ shortReads) = [49, 10, 0, 0] ∧ readTally a0 (selected ++ shortReads) = 59 ∧
    (run a0 (selected ++ shortReads)).connBytesRecv = 59 := by decide

/-- Bytes counted = bytes returned, for EVERY caller buffer size and in EVERY agent state (no invariant
needed): one `Read` into a buffer of `cap` bytes moves `connBytesRecv` by exactly the byte count `k` that
the call reports — `read:k` (whole datagram) or `short:k` (`io.ErrShortBuffer`: `k = cap` bytes of a longer
datagram were returned) — and by `0` when it reports `empty` / `err:closed`; `k` never exceeds the buffer. -/
theorem C07_read_counts_returned (a : Agent) (cap : Nat) :
    ∃ k, (step a (.read cap)).1.connBytesRecv = a.connBytesRecv + k ∧ k = readBy a (.read cap) ∧ k ≤ cap ∧
      ((step a (.read cap)).2 = [.res s!"read:{k}"] ∨ (step a (.read cap)).2 = [.res s!"short:{k}"] ∨
       (k = 0 ∧ (step a (.read cap)).1 = a ∧
         ((step a (.read cap)).2 = [.res "empty"] ∨ (step a (.read cap)).2 = [.res "err:closed"]))) := by
  cases hc : a.closed with
  | true =>
    refine ⟨0, ?_, by simp [readBy, hc], Nat.zero_le _, Or.inr (Or.inr ⟨rfl, ?_, Or.inr ?_⟩)⟩ <;>
      (rw [step_read_closed a cap hc]) <;> try rfl
  | false =>
    cases hr : a.rx with
    | nil =>
      refine ⟨0, ?_, by simp [readBy, hc, hr], Nat.zero_le _, Or.inr (Or.inr ⟨rfl, ?_, Or.inl ?_⟩)⟩ <;>
        (rw [step_read_empty a cap hc hr]) <;> try rfl
    | cons n rest =>
      by_cases hn : n ≤ cap
      · refine ⟨n, ?_, by simp [readBy, hc, hr, Nat.min_eq_left hn], hn, Or.inl ?_⟩ <;>
          rw [step_read_full a cap n rest hc hr hn]
      · have hn' : cap < n := by omega
        refine ⟨cap, ?_, by simp [readBy, hc, hr, Nat.min_eq_right (Nat.le_of_lt hn')], Nat.le_refl _, Or.inr (Or.inl ?_)⟩ <;>
          rw [step_read_short a cap n rest hc hr hn']

example : (step (run a0 (selected ++ shortReads.take 4)) (.read 49)).1.connBytesRecv = 49 ∧
    resOf (step (run a0 (selected ++ shortReads.take 4)) (.read 49)).2 = ["short:49"] ∧
    (step (run a0 (selected ++ shortReads.take 4)) (.read 49)).1.rx = [10, 10, 0] := by decide

/-- Why the counter theorems start from an initial state: in an UNREACHABLE state whose routed pair names
candidates that do not exist (the Go code holds pointers, so this cannot arise there) the model's `Write`
answers `err:nopairs`, emits nothing, and still adds `len` to `connBytesSent`.  The invariant
(`Inv`, pairs resolvable while open) excludes exactly this. -/
theorem C07_counters_step_unreachable_witness :
    ¬ ∀ (a : Agent) (now len : Nat), (step a (.write now len false)).1.connBytesSent =
        a.connBytesSent + sentBy a (.write now len false) := by
  intro h
  have := h { checklist := [{ id := 1, l := 7, r := 8, state := .succeeded, controlling := true }] } 0 5
  revert this
  decide

/-- While one pair stays selected (and listed) — over any segment `seg` of a history, starting anywhere —
the increase of its `(pktSent, bytesSent, pktRecv, bytesRecv)` is exactly the number / bytes of accepted
`Write`s with `len > 0` (plus accepted `WriteToPair`s naming it) and the number / bytes of accepted inbound
payloads with `len > 0` in the segment (`selTally`). -/
theorem C07_counters_pair (init : Agent) (hist seg : List Ev) (hi : Initial init) (id : Nat) (p q : Pair)
    (hsel : selectedAll id (run init hist) seg = true)
    (hp : (run init hist).pairById id = some p) (hq : (run init (hist ++ seg)).pairById id = some q) :
    ctr q = add4 (ctr p) (selTally id (run init hist) seg) := by
  rw [run_append] at hq
  rw [← pairTally_selected id _ seg hsel]
  exact pair_run _ seg id p q (Inv_run init hist (Inv_init init hi)) (listedAll_of_selectedAll id _ seg hsel) hp hq

/-- The same for any listed pair, selected or not (`pairTally`: writes count on the pair they are routed
on, inbound payloads on the pair selected at that moment). -/
theorem C07_counters_pair_general (init : Agent) (hist seg : List Ev) (hi : Initial init) (id : Nat) (p q : Pair)
    (hl : listedAll id (run init hist) seg = true)
    (hp : (run init hist).pairById id = some p) (hq : (run init (hist ++ seg)).pairById id = some q) :
    ctr q = add4 (ctr p) (pairTally id (run init hist) seg) := by
  rw [run_append] at hq
  exact pair_run _ seg id p q (Inv_run init hist (Inv_init init hi)) hl hp hq

example : selectedAll 1 (run a0 selected) traffic = true ∧ selTally 1 (run a0 selected) traffic = (2, 107, 2, 70) ∧
    ((run a0 selected).pairById 1).map ctr = some (0, 0, 0, 0) ∧
    ((run a0 (selected ++ traffic)).pairById 1).map ctr = some (2, 107, 2, 70) := by decide

/-- counters (and the cache) survive prflx supersession: a peer-reflexive remote discovered from a check is
replaced by the signalled host candidate with the same address; pair 1 is re-pointed, keeps its counters
and stays selected; the cache entry is re-pointed too -/
def prflxSession : List Ev := [.addLocal 0 L, .start 0 false "ru" "rp",
  .inbound 1 16 32 { cls := 0, tid := 77, user := some ":ru", key := some "", useCand := true },
  .inbound 2 16 32 { cls := 2, tid := 2, key := some "rp" }, .write 5 100 false, .inboundData 6 16 32 50 false]

example :
    let a := run a0 prflxSession
    let b := (step a (.addRemote 7 R)).1
    a.remotes.map (fun c => (c.uid, c.ty)) = [(2, 3)] ∧ b.remotes.map (fun c => (c.uid, c.ty)) = [(3, 1)] ∧
    (a.pairById 1).map (fun p => (p.r, ctr p)) = some (2, 1, 100, 1, 50) ∧
    (b.pairById 1).map (fun p => (p.r, ctr p)) = some (3, 1, 100, 1, 50) ∧
    a.caches = [(1, 32, 2)] ∧ b.caches = [(1, 32, 3)] ∧ selectedAll 1 a [.addRemote 7 R] = true := by decide

/-! ## Two agents and the hub -/

/-- An accepted write puts exactly its one datagram in flight (a refused one nothing), in every reachable
system state. -/
theorem C07_write_in_flight (s : Sys) (hr : Reach s) (isB : Bool) (now len : Nat) (stunLike : Bool) :
    let x := s.agent isB
    ((s.agentEv isB (.write now len stunLike)).1.inflight = s.inflight ∧
        Refused x len (step x (.write now len stunLike))) ∨
    ∃ p l rm, Sent x len p l rm (step x (.write now len stunLike)) ∧ route x = some p ∧ stunLike = false ∧
      (s.agentEv isB (.write now len stunLike)).1.inflight =
        s.inflight ++ [{ src := l.addr, dst := rm.addr, p := .data len }] := by
  intro x
  have hx : Inv x := by cases isB <;> simp only [x, Sys.agent] <;> first | exact (Reach_inv s hr).1 | exact (Reach_inv s hr).2
  obtain ⟨_, g2, _, _⟩ := agentEv_spec s isB (.write now len stunLike)
  rcases write_outcome x now len stunLike hx with hf | ⟨p, l, rm, hs, hroute, hsent, _⟩
  · left
    refine ⟨?_, hf⟩
    obtain ⟨e, he, _⟩ := hf
    rw [g2, show (step (s.agent isB) (.write now len stunLike)) = (x, [.res e]) from he, dgramsOf_res]
    simp
  · right
    refine ⟨p, l, rm, hsent, hroute, hs, ?_⟩
    rw [g2, show (step (s.agent isB) (.write now len stunLike)).2 = _ from hsent.2.2.2.2, dgramsOf_sent]

/-- Delivery, in every reachable system state.  `deliver k` (and `dup k`, which keeps the entry) of an
application datagram `⟨f, t, data n⟩`: the in-flight list loses exactly that entry (`dup`: nothing); a
blocked link or a destination nobody open listens on changes no agent; otherwise only the owner `y` of
the (un-NATed) destination moves, nothing new is emitted, and — with `l` its local candidate there — `y`'s
reader queue grows by exactly `[n]` iff `y` is started, knows a current remote candidate at the
NAT-mapped source on `l`'s transport and the payload fits into `y`'s receive buffer; from a known source a
payload that does not fit is dropped (queue, checklist — every pair counter — and connection counters unchanged);
from an unknown source, or when not started, `y` is unchanged.  So each `deliver`/`dup` hands the payload over at
most once, and `drop` never does. -/
theorem C07_delivered_once (s : Sys) (hr : Reach s) (k : Nat) (keep : Bool) (f t n : Nat)
    (hk : s.inflight[k]? = some { src := f, dst := t, p := .data n }) :
    (s.deliver k keep).1.inflight = (if keep then s.inflight else removeAt s.inflight k) ∧
    (match receiver s f t with
     | none => (s.deliver k keep).1.a = s.a ∧ (s.deliver k keep).1.b = s.b
     | some y =>
       (s.deliver k keep).1.agent (!y) = s.agent (!y) ∧
       ∀ l, (s.agent y).localByAddr (s.unmapped t) = some l →
         (((s.agent y).started = true ∧ ∃ r ∈ (s.agent y).remotes, r.net = l.net ∧ r.addr = s.mapped f) →
           (rxFits (s.agent y).rx n = true → ((s.deliver k keep).1.agent y).rx = (s.agent y).rx ++ [n]) ∧
           (rxFits (s.agent y).rx n = false →
             ((s.deliver k keep).1.agent y).rx = (s.agent y).rx ∧
             ((s.deliver k keep).1.agent y).checklist = (s.agent y).checklist ∧
             ((s.deliver k keep).1.agent y).connBytesRecv = (s.agent y).connBytesRecv)) ∧
         (¬((s.agent y).started = true ∧ ∃ r ∈ (s.agent y).remotes, r.net = l.net ∧ r.addr = s.mapped f) →
           (s.deliver k keep).1.agent y = s.agent y)) ∧
    (s.drop k).a = s.a ∧ (s.drop k).b = s.b ∧ (s.drop k).inflight = removeAt s.inflight k := by
  obtain ⟨d1, d2⟩ := deliver_data s k keep f t n hk
  refine ⟨d1, ?_, rfl, rfl, rfl⟩
  cases hrec : receiver s f t with
  | none => rw [hrec] at d2; exact d2
  | some y =>
    rw [hrec] at d2
    dsimp only at d2 ⊢
    refine ⟨d2.2, fun l hl => ?_⟩
    have hy : Inv (s.agent y) := by
      cases y <;> simp only [Sys.agent] <;> first | exact (Reach_inv s hr).1 | exact (Reach_inv s hr).2
    -- the owner is open
    have hopen : (s.agent y).closed = false := by
      unfold receiver at hrec
      split at hrec
      · cases hrec
      · unfold Sys.owner at hrec
        split at hrec
        · rename_i h; cases hrec; simp only [Bool.and_eq_true, Bool.not_eq_true'] at h; exact h.2
        · split at hrec
          · rename_i h; cases hrec; simp only [Bool.and_eq_true, Bool.not_eq_true'] at h; exact h.2
          · cases hrec
    have f5 := C07_read_filter (s.agent y) s.now (s.unmapped t) (s.mapped f) n false
    rw [d2.1]
    cases hst : (s.agent y).started with
    | false =>
      have hnone := inboundAccepted_drop (s.agent y) s.now (s.unmapped t) (s.mapped f) n false (Or.inr (Or.inl hst))
      have hno : inboundOverflow (s.agent y) (.inboundData s.now (s.unmapped t) (s.mapped f) n false) = false := by
        simp [inboundOverflow, hst]
      exact ⟨fun h => (by cases h.1), fun _ => f5.2.2.2.1 hnone hno⟩
    | true =>
      have hlive := inboundAccepted_live (s.agent y) s.now (s.unmapped t) (s.mapped f) n l hopen hst hl
      have hk' := accepts_iff_known (s.agent y) l (s.mapped f) hy (List.mem_of_find?_eq_some hl)
      refine ⟨fun h => ⟨fun hf => f5.2.2.1 ?_, fun hf => ?_⟩, fun h => ?_⟩
      · rw [hlive, hk'.mpr h.2, hf]; rfl
      · have ho : inboundOverflow (s.agent y) (.inboundData s.now (s.unmapped t) (s.mapped f) n false) = true := by
          simp [inboundOverflow, hopen, hst, hl, hk'.mpr h.2, hf]
        obtain ⟨_, o1, o2, _, o4, _⟩ := f5.2.2.2.2.1 ho
        exact ⟨o1, o2, o4⟩
      · have : accepts (s.agent y) l (s.mapped f) = false := by
          cases h' : accepts (s.agent y) l (s.mapped f) with
          | false => rfl
          | true => exact absurd ⟨rfl, hk'.mp h'⟩ h
        refine f5.2.2.2.1 ?_ ?_
        · rw [hlive, this]; rfl
        · simp [inboundOverflow, hopen, hst, hl, this]

/-! two agents: A (16) and B (32) know each other; A writes, the hub delivers, duplicates, drops -/
def sys1 : Sys := ({ hasB := true } : Sys).agentEv false (.addLocal 0 L) |>.1
def sys2 : Sys := sys1.agentEv false (.addRemote 0 R) |>.1
def sys3 : Sys := sys2.agentEv true (.addLocal 0 { L with addr := 32 }) |>.1
def sys4 : Sys := sys3.agentEv true (.addRemote 0 { R with addr := 16 }) |>.1
def sys5 : Sys := sys4.agentEv false (.start 0 true "b" "pb") |>.1
def sys6 : Sys := sys5.agentEv true (.start 0 false "a" "pa") |>.1
def sysAB : Sys := { sys6 with inflight := [] }

example : Reach sysAB :=
  have r0 : Reach ({ hasB := true } : Sys) := Reach.init _ (by decide) (by decide)
  have r1 : Reach sys1 := Reach.agentEv _ _ _ r0
  have r2 : Reach sys2 := Reach.agentEv _ _ _ r1
  have r3 : Reach sys3 := Reach.agentEv _ _ _ r2
  have r4 : Reach sys4 := Reach.agentEv _ _ _ r3
  have r5 : Reach sys5 := Reach.agentEv _ _ _ r4
  have r6 : Reach sys6 := Reach.agentEv _ _ _ r5
  Reach.env sys6 sysAB r6 (Or.inl rfl) (Or.inl rfl)
example : (sysAB.b.localByAddr 32).isSome ∧ sysAB.b.started = true ∧ receiver sysAB 16 32 = some true := by decide
-- delivered once per delivery: `dup` then `deliver` hand the payload over twice, `drop` never
example :
    let s := { sysAB with inflight := [{ src := 16, dst := 32, p := .data 40 }] }
    (s.deliver 0 true).1.b.rx = [40] ∧ ((s.deliver 0 true).1.deliver 0 false).1.b.rx = [40, 40] ∧
    ((s.deliver 0 true).1.deliver 0 false).1.inflight.length = 0 ∧ (s.drop 0).b.rx = [] := by decide
-- unknown source / blocked link: nothing reaches the reader
example :
    let s := { sysAB with inflight := [{ src := 48, dst := 32, p := .data 40 }] }
    (s.deliver 0 false).1.b.rx = [] := by decide
example :
    let s := { sysAB with inflight := [{ src := 16, dst := 32, p := .data 40 }], blocked := [(16, 32)] }
    (s.deliver 0 false).1.b.rx = [] := by decide
-- behind a NAT the mapped source must be the known one
example :
    let s := { sysAB with inflight := [{ src := 20, dst := 32, p := .data 40 }], nat := [(20, 16)] }
    (s.deliver 0 false).1.b.rx = [40] := by decide

/-- `candidateBase.handleInboundPacket` (candidate_base.go, regenerated in effect mode), all arguments: a STUN message goes to the
STUN handler and nothing else; a data packet probes the cache, on a miss asks the agent and is DROPPED when the source is no
remote candidate; otherwise it is queued and — only if the queueing succeeded, with the number of bytes queued, and only when a
pair is selected — credited to the selected pair AFTER it was queued; the model drops a packet from an unknown source the same way -/
theorem C07_code_handleInboundPacket (isSTUN cacheHit valid writeFails : Bool) (n : Int64) (hasSelected : Bool) :
    IceGen.candidateBase_handleInboundPacket isSTUN cacheHit valid writeFails n hasSelected
      = (if isSTUN then [IceTie.Order.c "handleInboundSTUNMessage"]
        else IceTie.Order.c "validateSTUNTrafficCache" ::
          (if cacheHit then [] else IceTie.Order.c "validateNonSTUNTraffic" ::
            (if valid then [IceTie.Order.c "addRemoteCandidateCache"] else []))
          ++ (if cacheHit || valid then
                IceTie.Order.c "buf.Write" :: (if !writeFails && decide (n > 0) && hasSelected
                  then [IceTie.Order.c1 "UpdatePacketReceived" (IceModel.Val.i n.toInt)] else [])
              else [])) ∧
    (∀ e ∈ IceGen.candidateBase_handleInboundPacket false cacheHit valid writeFails n hasSelected,
      e = IceTie.Order.c1 "UpdatePacketReceived" (IceModel.Val.i n.toInt) →
      writeFails = false ∧
      IceTie.Order.pos (IceGen.candidateBase_handleInboundPacket false cacheHit valid writeFails n hasSelected) (IceTie.Order.c "buf.Write")
        < IceTie.Order.pos (IceGen.candidateBase_handleInboundPacket false cacheHit valid writeFails n hasSelected) e) ∧
    (∀ (a : Agent) (now : Nat) (l : Cand) (src len : Nat),
      (a.caches.find? fun (lu, s, _) => lu == l.uid && s == src) = none → a.findRemote l.net src = none →
      a.inboundData now l src len = (a, [])) :=
  ⟨IceTie.Order.handleInboundPacket_tie isSTUN cacheHit valid writeFails n hasSelected,
   (IceTie.Order.handleInboundPacket_order cacheHit valid writeFails n hasSelected).2,
   IceTie.Order.inboundData_shape⟩

example : IceGen.candidateBase_handleInboundPacket false false false false 10 true
      = [IceModel.Eff.call "validateSTUNTrafficCache" [], IceModel.Eff.call "validateNonSTUNTraffic" []] ∧
    IceGen.candidateBase_handleInboundPacket false true false false 10 true
      = [IceModel.Eff.call "validateSTUNTrafficCache" [], IceModel.Eff.call "buf.Write" [],
         IceModel.Eff.call "UpdatePacketReceived" [IceModel.Val.i 10]] ∧
    IceGen.candidateBase_handleInboundPacket false true false true 10 true
      = [IceModel.Eff.call "validateSTUNTrafficCache" [], IceModel.Eff.call "buf.Write" []] := by decide

end IceProps.C07
