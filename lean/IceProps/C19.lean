import IceProofs.Rewrite
import IceProofs.RewriteValid
import IceTie.Rewrite
import IceTie.Rewrite2
/-!
# C19 — address rewrite rules map addresses as documented

Property theorems only.  `documented` (IceSpec/C19.lean) is the precedence of the option's doc
comment written over the rules as the user gave them; `newMapper` / `findExternalIPs` / `applyRes`
(IceModel/Rewrite.lean) model `newAddressRewriteMapper` / `findExternalIPs` / the four appliers of
gather.go and are tied to the code by differential correspondence (component `rewrite`) and, for
`catchAllSpecificity` & co., by translation (`IceTie/Rewrite.lean`).

All theorems quantify over ALL rule lists (any length) and ALL keys.

FULL STATEMENT (false on the unchanged tree, see `C19_lookup_is_documented_witness`):

  theorem C19_lookup_is_documented (rules : List Rule) (m : Mapper) (k : Key)
      (h : newMapper rules = .ok (some m)) :
      findExternalIPs m k.ct (.ok k.ip) k.iface = .ok (documented rules k)

It fails in exactly one way, carved out by an explicit decidable guard:
  * F3  `f3Region rules k`  — the key carries an interface name, no explicit Local match, the best
        documented rank among the matching catch-alls is CIDR-only, and the first matching catch-all
        is a global one (then the code answers with that global rule: `C19_lookup_f3_region_exact`).
The second way (F15, guard `noStarved`: a catch-all without CIDR whose externals are all of a family its
`Networks` exclude was applied as an empty catch-all) was fixed in /repo d6a4f83; the guard is gone from every
theorem below, `C19_starved_not_registered` + the regression examples replace the former witness.
-/
namespace IceProps.C19
open IceModel.Rewrite IceSpec.C19 IceProofs.Rewrite

/-! ## tiny glue -/

theorem compileAll_of_newMapper (rules : List Rule) (m : Mapper) (h : newMapper rules = .ok (some m)) :
    compileAll rules = .ok m := by
  unfold newMapper at h
  cases hc : compileAll rules with
  | error e => rw [hc] at h; cases h
  | ok l =>
    rw [hc] at h
    cases l with
    | nil => cases h
    | cons x xs => simp only [] at h; injection h with h; injection h with h; rw [h]

/-- F3 witness of DESIGN §7: [global → 198.51.100.1, CIDR 10.0.0.0/24 → 203.0.113.1]. -/
def f3Rules : List Rule := [
  { ctype := 1, mode := 0, iface := "", cidr := .none, loc := .none, nets := [], ext := [.ok ⟨true, 3325256705⟩] },
  { ctype := 1, mode := 0, iface := "", cidr := .ok ⟨true, 167772160, 24⟩, loc := .none, nets := [],
    ext := [.ok ⟨true, 3405803777⟩] }]

/-- key (host, 10.0.0.5, "eth0") -/
def f3Key : Key := { ct := 1, ip := ⟨true, 167772165⟩, iface := "eth0" }

def f3Mapper : Mapper := [
  (1, { iface := "", cidr := none, mode := 1, m4 := { valid := true, catchAll := true, sole := [⟨true, 3325256705⟩] }, m6 := {} }),
  (1, { iface := "", cidr := some ⟨true, 167772160, 24⟩, mode := 1,
        m4 := { valid := true, catchAll := true, sole := [⟨true, 3405803777⟩] }, m6 := {} })]

/-- the former F15 witness: one host rule, replace mode, external 2001:db8:ffff::1 only, Networks = [udp4]. -/
def starvedRules : List Rule := [
  { ctype := 1, mode := 1, iface := "", cidr := .none, loc := .none, nets := [1],
    ext := [.ok ⟨false, 42540766490509546445348707916023070721⟩] }]

/-- the starved rule followed by a global IPv4 rule (append) -/
def starvedThenGlobal : List Rule := starvedRules ++ [
  { ctype := 1, mode := 2, iface := "", cidr := .none, loc := .none, nets := [], ext := [.ok ⟨true, 3325256705⟩] }]

/-- key (host, 10.0.0.5, no interface name) -/
def plainKey : Key := { ct := 1, ip := ⟨true, 167772165⟩, iface := "" }

/-! ## lookup precedence -/

/-- For EVERY rule list that `newAddressRewriteMapper` accepts and EVERY key, the lookup equals the
documented precedence read with the one as-coded clause (F3 rank) — no guard. -/
theorem C19_lookup_as_coded (rules : List Rule) (m : Mapper) (k : Key)
    (h : newMapper rules = .ok (some m)) :
    findExternalIPs m k.ct (.ok k.ip) k.iface = .ok (lookupWith asCodedClauses rules k) := by
  show Except.ok (evaluate (rulesFor m k.ct) k.ip k.iface) = _
  rw [evaluate_eq_asCoded rules m (compileAll_of_newMapper rules m h) k]

example : newMapper f3Rules = .ok (some f3Mapper) := by rfl

/-- The documented precedence holds for every rule list and key outside the carved-out defect F3 (the second
guard, `noStarved`, was dropped with the fix of F15). -/
theorem C19_lookup_is_documented_partial (rules : List Rule) (m : Mapper) (k : Key)
    (h : newMapper rules = .ok (some m)) (hf : f3Region rules k = false) :
    findExternalIPs m k.ct (.ok k.ip) k.iface = .ok (documented rules k) := by
  rw [C19_lookup_as_coded rules m k h, asCoded_eq_documented rules k hf]

-- non-vacuity: the guards hold on the F3 rule list itself for the key without interface name,
-- where the CIDR rule wins as documented
example : f3Region f3Rules plainKey = false
    ∧ documented f3Rules plainKey = { ips := [⟨true, 3405803777⟩], matched := true, mode := 1 } := by decide

/-- A rule list compiling to the `nil` mapper has no rule in scope of any key (as coded). -/
theorem C19_nil_mapper (rules : List Rule) (k : Key) (h : newMapper rules = .ok none) :
    lookupWith asCodedClauses rules k = Res.noMatch := by
  have hc : compileAll rules = .ok [] := by
    unfold newMapper at h
    cases hc : compileAll rules with
    | error e => rw [hc] at h; cases h
    | ok l =>
      rw [hc] at h
      cases l with
      | nil => rfl
      | cons x xs => cases h
  have := compileAll_hits rules [] hc k
  rw [lookupWith_eq_decl, ← this]
  rfl

example : newMapper [] = .ok none := by rfl

/-- F3: the full statement is FALSE — witness [global, CIDR-only], key (host, 10.0.0.5, "eth0"):
the code returns 198.51.100.1, the documentation demands 203.0.113.1. -/
theorem C19_lookup_is_documented_witness :
    ¬ (∀ (rules : List Rule) (m : Mapper) (k : Key), newMapper rules = .ok (some m) →
        findExternalIPs m k.ct (.ok k.ip) k.iface = .ok (documented rules k)) := by
  intro hall
  have h := hall f3Rules f3Mapper f3Key (by rfl)
  have h1 : findExternalIPs f3Mapper f3Key.ct (.ok f3Key.ip) f3Key.iface
      = .ok { ips := [⟨true, 3325256705⟩], matched := true, mode := 1 } := by rfl
  have h2 : documented f3Rules f3Key = { ips := [⟨true, 3405803777⟩], matched := true, mode := 1 } := by decide
  rw [h1, h2] at h
  injection h with h
  exact absurd h (by decide)

example : f3Region f3Rules f3Key = true := by decide

/-- Inside the F3 region the code answers with the FIRST matching catch-all, a global rule `g`,
whereas the documentation demands the first matching CIDR-only rule `c` (for all rule lists/keys). -/
theorem C19_lookup_f3_region_exact (rules : List Rule) (m : Mapper) (k : Key)
    (h : newMapper rules = .ok (some m)) (hf : f3Region rules k = true) :
    ∃ g c, g ∈ rules ∧ c ∈ rules ∧ isCatchAll g k = true ∧ isCatchAll c k = true ∧ rank g = 0 ∧ rank c = 1 ∧
      findExternalIPs m k.ct (.ok k.ip) k.iface
        = .ok { ips := (catchAllIPs g k).getD [], matched := true, mode := docMode g } ∧
      documented rules k = { ips := (catchAllIPs c k).getD [], matched := true, mode := docMode c } := by
  obtain ⟨g, c, h1, h2, h3, h4, h5, h6, h7, h8⟩ := f3_region_exact rules k hf
  refine ⟨g, c, h1, h2, h3, h4, h5, h6, ?_, h8⟩
  rw [C19_lookup_as_coded rules m k h, asCoded_eq_f3 rules k, h7]

example : f3Region f3Rules f3Key = true := by decide

/-- (replaces the F15 witness, /repo d6a4f83) A starved rule — a catch-all without CIDR that names externals, all of
a family its `Networks` exclude — is never registered by `newAddressRewriteMapper`: it matches nothing, as documented,
instead of dropping the candidates of the allowed families. For EVERY such rule that compiles. -/
theorem C19_starved_not_registered (r : Rule) (hs : starved r = true) (o : Option (Nat × CRule))
    (h : compileRule r = .ok o) : o = none :=
  compileRule_starved r hs o h

example : starved starvedRules.head! = true := by decide
-- regression for the former F15 witness: the rule alone gives the nil mapper (no lookup can match), and the
-- documentation has no rule in scope of the IPv4 key; followed by a global rule, that rule answers
example : newMapper starvedRules = .ok none := by rfl
example : documented starvedRules plainKey = Res.noMatch := by decide
example : compileRule starvedRules.head! = .ok none := by rfl
example : ∃ m, newMapper starvedThenGlobal = .ok (some m) ∧ f3Region starvedThenGlobal plainKey = false ∧
    findExternalIPs m plainKey.ct (.ok plainKey.ip) plainKey.iface
      = .ok { ips := [⟨true, 3325256705⟩], matched := true, mode := 2 } ∧
    documented starvedThenGlobal plainKey = { ips := [⟨true, 3325256705⟩], matched := true, mode := 2 } :=
  ⟨_, rfl, by decide, rfl, by decide⟩
-- the documented empty rule (External = []) with the same Networks still IS an empty catch-all for IPv4 only
example : (compileRule { ctype := 1, mode := 1, iface := "", cidr := .none, loc := .none, nets := [1], ext := [] })
    = .ok (some (1, { iface := "", cidr := none, mode := 1, m4 := { valid := true, catchAll := true }, m6 := {} })) := by rfl

/-- "explicit Local matches win immediately" holds in the code for EVERY rule list and key: if some
rule in scope is pinned to the key's address, the first such rule's externals and mode are returned. -/
theorem C19_local_first (rules : List Rule) (m : Mapper) (k : Key) (r : Rule)
    (h : newMapper rules = .ok (some m)) (hr : rules.find? (fun r => isExplicit r k) = some r) :
    findExternalIPs m k.ct (.ok k.ip) k.iface = .ok { ips := externals r, matched := true, mode := docMode r } := by
  rw [C19_lookup_as_coded rules m k h]
  unfold lookupWith
  rw [hr]

/-- a host rule pinned to 10.0.0.5 on eth0, append mode -/
def pinRule : Rule :=
  { ctype := 1, mode := 2, iface := "eth0", cidr := .none, loc := .ok ⟨true, 167772165⟩, nets := [], ext := [.ok ⟨false, 5⟩] }

-- non-vacuity: a Local pin declared AFTER two catch-alls still wins
example : (f3Rules ++ [pinRule]).find? (fun r => isExplicit r f3Key) = some pinRule := by decide

/-- The rank the code computes, REGENERATED from external_ip_mapper.go, is the F3 clause for all
rules and keys; it is the documented rank unless the rule has no interface and the key has one. -/
theorem C19_rank_code (r : Rule) (k : Key) :
    (IceGen.catchAllSpecificity r.iface (hasCIDR r) k.iface).toInt = (rankF3 r k : Int)
    ∧ (¬(r.iface = "" ∧ k.iface ≠ "") → rankF3 r k = rank r) := by
  constructor
  · rw [IceTie.Rewrite.catchAllSpecificity_toInt, hasCIDR_eq, spec_eq_rankF3]
  · intro hn
    rw [rankF3_eq]
    simp [hn]

-- non-vacuity: both cases occur (CIDR-only rule: documented rank 1; coded rank 1 without, 0 with an interface key)
example : rank (f3Rules.getD 1 default) = 1 ∧ rankF3 (f3Rules.getD 1 default) plainKey = 1
    ∧ rankF3 (f3Rules.getD 1 default) f3Key = 0 := by decide

/-- F3 in the regenerated Go function itself: with an interface name in the lookup, a CIDR-only rule
gets the rank of a global rule. -/
theorem C19_rank_code_witness :
    ¬ (∀ (ruleIface : String) (hasCIDR : Bool) (iface : String),
        (IceGen.catchAllSpecificity ruleIface hasCIDR iface).toInt
          = (rank { ctype := 1, mode := 0, iface := ruleIface, cidr := if hasCIDR then .ok ⟨true, 0, 0⟩ else .none,
                    loc := .none, nets := [], ext := [] } : Int)) := by
  intro h
  have := h "" true "eth0"
  rw [IceTie.Rewrite.catchAllSpecificity_toInt] at this
  revert this
  decide

/-! ## modes -/

/-- gather.go applies a lookup result as documented: replace substitutes (an empty list drops the
candidate), append adds (an empty list changes nothing); for srflx the appended addresses alone are
emitted (the STUN-derived candidate is the original). All kinds, all results. -/
theorem C19_modes (kind : Kind) (orig : IP) (res : Res) :
    canonApply (applyRes kind orig (.ok res)) = canonApply (docApply kind orig res) :=
  applyRes_eq_doc kind orig res

/-- … spelled out. -/
theorem C19_modes_clauses (kind : Kind) (orig : IP) (ips : List IP) (x : IP) (mode : Nat) :
    -- replace substitutes the local address
    canonApply (applyRes kind orig (.ok ⟨x :: ips, true, 1⟩)) = (x :: ips, true)
    -- replace with an empty list drops the candidate
    ∧ canonApply (applyRes kind orig (.ok ⟨[], true, 1⟩)) = ([], false)
    -- append with an empty list changes nothing
    ∧ (mode ≠ 1 → canonApply (applyRes kind orig (.ok ⟨[], true, mode⟩)) = ([orig], true))
    -- append adds to it
    ∧ (mode ≠ 1 → kind ≠ .srflx → canonApply (applyRes kind orig (.ok ⟨x :: ips, true, mode⟩)) = (orig :: x :: ips, true))
    -- no matching rule changes nothing
    ∧ canonApply (applyRes kind orig (.ok ⟨ips, false, mode⟩)) = ([orig], true) := by
  refine ⟨?_, ?_, ?_, ?_, ?_⟩
  · rw [C19_modes]; simp [docApply, canonApply]
  · rw [C19_modes]; simp [docApply, canonApply]
  · intro hm; rw [C19_modes]; simp [docApply, canonApply, hm]
  · intro hm hk; rw [C19_modes]; simp [docApply, canonApply, hm, hk]
  · rw [C19_modes]; simp [docApply, canonApply]

example : applyRes .host ⟨true, 1⟩ (.ok ⟨[⟨true, 2⟩], true, 2⟩) = ([⟨true, 1⟩, ⟨true, 2⟩], true) := by decide
example : applyRes .srflx ⟨true, 1⟩ (.ok ⟨[⟨true, 2⟩], true, 2⟩) = ([⟨true, 2⟩], true) := by decide

/-! ## families -/

/-- IPv4 and IPv6 never cross: an address of the other family than the key's is returned only from
a rule pinned to the key's address by `Local`, or scoped by a CIDR that contains the key's address
(interpretation note of DESIGN §5). Every accepted rule list, every key. -/
theorem C19_families (rules : List Rule) (m : Mapper) (k : Key) (res : Res) (x : IP)
    (h : newMapper rules = .ok (some m))
    (hres : findExternalIPs m k.ct (.ok k.ip) k.iface = .ok res) (hx : x ∈ res.ips) (hfam : x.v4 ≠ k.ip.v4) :
    ∃ r ∈ rules, IPTok.ok x ∈ r.ext ∧ (r.loc = .ok k.ip ∨ ∃ c, r.cidr = .ok c ∧ c.contains k.ip = true) := by
  rw [C19_lookup_as_coded rules m k h] at hres
  injection hres with hres
  subst hres
  exact asCoded_cross_family rules k x hx hfam

-- non-vacuity: a Local pin does cross families (TestAddressRewriteModeHostReplaceAndAppend)
example :
    (newMapper [{ ctype := 1, mode := 1, iface := "", cidr := .none, loc := .ok ⟨false, 7⟩, nets := [], ext := [.ok ⟨true, 9⟩] }]).toOption.bind
      (fun m => m.bind (fun m => (findExternalIPs m 1 (.ok ⟨false, 7⟩) "").toOption))
      = some { ips := [⟨true, 9⟩], matched := true, mode := 1 } := by rfl

/-- `IPNet.Contains` is the address range of the prefix. -/
theorem C19_cidr_range (c : CIDR) (ip : IP) :
    c.contains ip = true ↔
      c.v4 = ip.v4 ∧ c.base / 2 ^ (c.width - c.bits) * 2 ^ (c.width - c.bits) ≤ ip.val
        ∧ ip.val < c.base / 2 ^ (c.width - c.bits) * 2 ^ (c.width - c.bits) + 2 ^ (c.width - c.bits) :=
  contains_iff_range c ip

example : (CIDR.contains ⟨true, 167772160, 24⟩ ⟨true, 167772165⟩ = true) ∧ (CIDR.contains ⟨true, 167772160, 24⟩ ⟨true, 167772421⟩ = false) := by
  decide

/-! ## validation -/

/-- No external string is whitespace-only (`ParseIP("")`; the documentation is silent on those). -/
def noBlank (rules : List Rule) : Bool := rules.all (fun r => !r.ext.contains .blank)

/-- Invalid rule sets are rejected at construction, and only those: `newAddressRewriteMapper` fails
iff some rule is of an unsupported type (prflx) or — unless limited to no network at all, observation
O1 — has a bad external IP, bad Local, bad CIDR or a Local outside its CIDR. The error is the
unsupported-type error only if a prflx rule is present. -/
theorem C19_validation (rules : List Rule) (hb : noBlank rules = true) :
    ((∃ e, newMapper rules = .error e) ↔ docRejects rules = true)
    ∧ (newMapper rules = .error .unsupported → ∃ r ∈ rules, unsupportedRule r = true) := by
  have hb' : ∀ r ∈ rules, r.ext.contains .blank = false := by
    intro r hr
    have := List.all_eq_true.mp hb r hr
    simpa using this
  constructor
  · rw [← compileAll_error_iff rules hb']
    constructor
    · rintro ⟨e, he⟩; exact ⟨e, (newMapper_error_iff rules e).mp he⟩
    · rintro ⟨e, he⟩; exact ⟨e, (newMapper_error_iff rules e).mpr he⟩
  · intro h
    exact compileAll_unsupported rules ((newMapper_error_iff rules _).mp h)

example : noBlank f3Rules = true ∧ docRejects f3Rules = false := by decide
-- Local outside CIDR; bad external; prflx
example : docRejects [{ ctype := 1, mode := 0, iface := "", cidr := .ok ⟨true, 167772160, 24⟩, loc := .ok ⟨true, 167772421⟩, nets := [], ext := [] }] = true := by decide
example : docRejects [{ ctype := 1, mode := 0, iface := "", cidr := .none, loc := .none, nets := [], ext := [.bad] }] = true := by decide
example : docRejects [{ ctype := 3, mode := 0, iface := "", cidr := .none, loc := .none, nets := [], ext := [] }] = true := by decide

/-- Legacy `NAT1To1IPs`: `validateLegacyNAT1To1IPs` accepts iff every entry is `ext`, `ext/local` or
empty, and no two entries without local part are of the same family (duplicate catch-alls). -/
theorem C19_validation_legacy (es : List Entry) :
    validateLegacy es = .ok () ↔ legacyRejects es = false :=
  validateLegacy_iff es

example : legacyRejects [[.ip ⟨true, 1⟩], [.ip ⟨true, 2⟩]] = true ∧ legacyRejects [[.ip ⟨true, 1⟩], [.ip ⟨false, 2⟩]] = false := by
  decide

/-- The sanitizer of the public option `WithAddressRewriteRules` (`sanitizeAddressRewriteRule`) accepts
EXACTLY the documented rules: no unparsable external string, an External list that is EMPTY (the
documented deny / no-op rule: replace drops the matched candidate, append keeps it) or names at least one
address, a Local that parses (or is absent), mode 0/1/2. What it hands on is the same rule with the
addresses of the External list (blank entries dropped) and the mode default filled in; an empty External
list stays empty. (Was `C19_validation_option_partial` + `_witness` before /repo 446b13f: finding F16.) -/
theorem C19_validation_option (r : Rule) :
    ((∃ r', sanitizeRule r = .ok r') ↔
      (r.ext.contains .bad = false ∧ (r.ext = [] ∨ ∃ ip, IPTok.ok ip ∈ r.ext) ∧ r.loc ≠ .bad ∧ r.mode ≤ 2))
    ∧ (∀ r', sanitizeRule r = .ok r' →
        (∀ t, t ∈ r'.ext ↔ t ∈ r.ext ∧ ∃ ip, t = .ok ip) ∧ (r.ext = [] → r'.ext = [])
        ∧ r'.mode = (if r.mode = 0 then defaultMode r.ctype else r.mode)
        ∧ r'.ctype = r.ctype ∧ r'.iface = r.iface ∧ r'.cidr = r.cidr ∧ r'.loc = r.loc ∧ r'.nets = r.nets) :=
  sanitizeRule_spec r

example : ∃ r', sanitizeRule (f3Rules.head!) = .ok r' := ⟨_, rfl⟩
-- the documented "drop" rule (empty External, replace) and the no-op rule (empty External, append, catch-all with
-- CIDR / Iface / Networks) pass unchanged; a list of blank entries only, an unparsable entry, a bad Local are rejected
example : sanitizeRule { ctype := 1, mode := 1, iface := "", cidr := .none, loc := .ok ⟨true, 167772165⟩, nets := [], ext := [] }
    = .ok { ctype := 1, mode := 1, iface := "", cidr := .none, loc := .ok ⟨true, 167772165⟩, nets := [], ext := [] } := by rfl
example : sanitizeRule { ctype := 2, mode := 0, iface := "eth0", cidr := .ok ⟨true, 167772160, 24⟩, loc := .none, nets := [1], ext := [] }
    = .ok { ctype := 2, mode := 2, iface := "eth0", cidr := .ok ⟨true, 167772160, 24⟩, loc := .none, nets := [1], ext := [] } := by rfl
example : sanitizeRule { ctype := 1, mode := 1, iface := "", cidr := .none, loc := .none, nets := [], ext := [.blank, .blank] } = .error .invalid := by rfl
example : sanitizeRule { ctype := 1, mode := 1, iface := "", cidr := .none, loc := .none, nets := [], ext := [.blank, .ok ⟨true, 1⟩, .blank, .ok ⟨true, 1⟩] }
    = .ok { ctype := 1, mode := 1, iface := "", cidr := .none, loc := .none, nets := [], ext := [.ok ⟨true, 1⟩] } := by rfl
example : sanitizeRule { ctype := 1, mode := 1, iface := "", cidr := .none, loc := .none, nets := [], ext := [.ok ⟨true, 1⟩, .bad] } = .error .invalid := by rfl

/-- "A rule set the documentation calls valid is accepted" holds for the public option (the statement whose
negation was `C19_validation_option_witness` while F16 was open): whatever `docRejects` does not reject
(inside the input domain) passes the sanitizer — in particular every rule with an empty External list. -/
theorem C19_validation_option_accepts_documented (rules : List Rule)
    (hd : docRejects rules = false) (ho : outsideDomain rules = false) :
    ∃ clean, sanitizeAll rules = .ok clean := by
  induction rules with
  | nil => exact ⟨[], rfl⟩
  | cons r rs ih =>
    simp only [docRejects, outsideDomain, List.any_cons, Bool.or_eq_false_iff] at hd ho ih
    obtain ⟨clean, hc⟩ := ih hd.2 ho.2
    have hblank : r.ext.contains .blank = false := ho.1.1.1
    have hmode : r.mode ≤ 2 := by simpa using ho.1.1.2
    have hill : illFormed r = false := by
      cases hi : inert r with
      | true => simpa [hi] using ho.1.2
      | false => simpa [hi] using hd.1.2
    simp only [illFormed, Bool.or_eq_false_iff] at hill
    have hbad : r.ext.contains .bad = false := hill.2
    have hloc : r.loc ≠ .bad := by simpa using hill.1.1.2
    have hext : r.ext = [] ∨ ∃ ip, IPTok.ok ip ∈ r.ext := by
      cases hx : r.ext with
      | nil => exact Or.inl rfl
      | cons t ts =>
        right
        rw [hx] at hblank hbad
        cases t with
        | ok ip => exact ⟨ip, List.mem_cons_self⟩
        | bad => simp at hbad
        | blank => simp at hblank
    obtain ⟨r', hr'⟩ := (C19_validation_option r).1.mpr ⟨hbad, hext, hloc, hmode⟩
    exact ⟨r' :: clean, by simp [sanitizeAll, hr', hc]⟩

/-- regression for the former F16 witness: the documented "drop this host address" rule is configurable
through the option and compiles to the same mapper as on the in-package path -/
example : sanitizeAll [{ ctype := 1, mode := 1, iface := "", cidr := .none, loc := .ok ⟨true, 167772165⟩, nets := [], ext := [] }]
    = .ok [{ ctype := 1, mode := 1, iface := "", cidr := .none, loc := .ok ⟨true, 167772165⟩, nets := [], ext := [] }] := by rfl
example : docRejects [{ ctype := 1, mode := 1, iface := "", cidr := .none, loc := .ok ⟨true, 167772165⟩, nets := [], ext := [] }] = false
    ∧ outsideDomain [{ ctype := 1, mode := 1, iface := "", cidr := .none, loc := .ok ⟨true, 167772165⟩, nets := [], ext := [] }] = false := by decide

example : (newMapper [{ ctype := 1, mode := 1, iface := "", cidr := .none, loc := .ok ⟨true, 167772165⟩, nets := [], ext := [] }]).toOption.isSome = true := by
  rfl

/-- The whole public path (`WithAddressRewriteRules`, then `newAddressRewriteMapper` as `NewAgent` calls it) rejects
EXACTLY what the documentation calls invalid plus the rules whose External list holds blank entries only
(`optionRejects`); every other rule set of the domain — the empty-External rules included — is accepted. This is the
validation monitor of the option path (`newViolation .option`) stated about the model. -/
theorem C19_validation_option_path (rules : List Rule) (ho : outsideDomainOn .option rules = false) :
    (∃ e, optionPath rules = .error e) ↔ optionRejects rules = true := by
  obtain ⟨s1, s2⟩ := sanitizeAll_spec rules ho
  unfold optionPath
  cases h : sanitizeAll rules with
  | error e => exact ⟨fun _ => s1 e h, fun _ => ⟨e, rfl⟩⟩
  | ok clean =>
    obtain ⟨hnb, hab, hdr⟩ := s2 clean h
    simp only [optionRejects, hab, Bool.or_false]
    rw [← hdr]
    exact (C19_validation clean hnb).1

example : outsideDomainOn .option [{ ctype := 1, mode := 1, iface := "", cidr := .none, loc := .none, nets := [], ext := [] }] = false
    ∧ optionRejects [{ ctype := 1, mode := 1, iface := "", cidr := .none, loc := .none, nets := [], ext := [] }] = false := by decide
example : outsideDomainOn .option [{ ctype := 1, mode := 1, iface := "", cidr := .none, loc := .none, nets := [], ext := [.blank, .blank] }] = false
    ∧ optionRejects [{ ctype := 1, mode := 1, iface := "", cidr := .none, loc := .none, nets := [], ext := [.blank, .blank] }] = true := by decide
example : newViolation .option [{ ctype := 1, mode := 1, iface := "", cidr := .none, loc := .none, nets := [], ext := [] }] (some .invalid)
    = some "valid rule set rejected at construction" := by decide
example : newViolation .option [{ ctype := 1, mode := 1, iface := "", cidr := .none, loc := .none, nets := [], ext := [.blank] }] none
    = some "invalid rule set accepted at construction" := by decide

/-! ## more of external_ip_mapper.go REGENERATED and proved equal to the model (`IceTie/Rewrite2.lean`, `IceTie/Rewrite.lean`) -/

/-- `ruleMappingForLookup` ∘ `mappingForFamily`: a rule takes part in a lookup iff the model's `ruleMappingForLookup` returns a
mapping — interface scope, CIDR, validity of the mapping of the local address's family — and that mapping is the one returned -/
theorem C19_code_lookup_gate (r : CRule) (ip : IP) (iface : String) :
    IceGen.ruleMappingForLookup r.iface iface r.cidr.isSome (IceTie.Rewrite2.cidrContains r.cidr ip)
        (if IceGen.ruleMapping_mappingForFamily ip.v4 then r.m4 else r.m6).valid
      = ((ruleMappingForLookup r ip iface).isSome, (ruleMappingForLookup r ip iface).isSome) ∧
    (∀ fm, ruleMappingForLookup r ip iface = some fm →
      fm = if IceGen.ruleMapping_mappingForFamily ip.v4 then r.m4 else r.m6) :=
  IceTie.Rewrite2.ruleMappingForLookup_tie r ip iface

/-- `shouldReplace` and `hasCandidateType` (the loops over the rules stored for a candidate type), the latter composed with the
regenerated `hasMappings`, are the model's, for every mapper and candidate type -/
theorem C19_code_replace_and_has (m : Mapper) (ct : Nat) (h : ∀ r ∈ rulesFor m ct, r.mode < 2 ^ 63) :
    IceGen.mapper_shouldReplace ((rulesFor m ct).map (fun r => Int64.ofNat r.mode)) = shouldReplace m ct ∧
    IceGen.mapper_hasCandidateType ((rulesFor m ct).map (fun r => IceGen.ruleMapping_hasMappings r.m4.valid r.m6.valid))
      = hasCandidateType m ct :=
  ⟨IceTie.Rewrite2.shouldReplace_tie m ct h, IceTie.Rewrite2.hasCandidateType_tie m ct⟩

/-- one iteration of the loop of `addExternalMappings`: the family an external address is filed under is `Local`'s, else the
CIDR's, else its own (`targetFam` for a rule without `Local`), and it is filed in the catch-all list of family `fam` iff
`soleFor`'s predicate holds (target = `fam` and `fam` allowed by the rule's networks) -/
theorem C19_code_external_family (a4 a6 : Bool) (cidr : Option CIDR) (e : IP) (fam : Bool) :
    IceTie.Rewrite2.target false false cidr.isSome ((cidr.map (·.v4)).getD false) e.v4 = targetFam cidr e ∧
    ((IceGen.addExternalMappings_iter false false e.v4 false false cidr.isSome ((cidr.map (·.v4)).getD false) a4 a6).1.contains
        (IceModel.Eff.call "addImplicitMapping" [IceModel.Val.b fam, IceModel.Val.b false])
      = ((targetFam cidr e == fam) && isFamilyAllowed a4 a6 fam)) ∧
    (∀ hasSlash parseErr isExt hasLocal localV4 hasCIDR cidrV4,
      IceGen.addExternalMappings_iter hasSlash parseErr isExt hasLocal localV4 hasCIDR cidrV4 a4 a6
        = if hasSlash then ([IceTie.Rewrite2.eFor], (false, "ErrInvalidNAT1To1IPMapping"))
          else if parseErr then ([IceTie.Rewrite2.eFor], (false, "err"))
          else if isFamilyAllowed a4 a6 (IceTie.Rewrite2.target hasLocal localV4 hasCIDR cidrV4 isExt) then
            ([IceTie.Rewrite2.eFor, IceModel.Eff.call "addImplicitMapping"
                [IceModel.Val.b (IceTie.Rewrite2.target hasLocal localV4 hasCIDR cidrV4 isExt), IceModel.Val.b hasLocal],
              IceTie.Rewrite2.eEnd], (true, "nil"))
          else ([IceTie.Rewrite2.eFor, IceTie.Rewrite2.eEnd], (false, "nil"))) :=
  ⟨(IceTie.Rewrite2.addExternalMappings_iter_model a4 a6 cidr e fam).1,
   (IceTie.Rewrite2.addExternalMappings_iter_model a4 a6 cidr e fam).2,
   fun hs pe ie hl lv hc cv => IceTie.Rewrite2.addExternalMappings_iter_tie hs pe ie hl lv hc cv a4 a6⟩

/-- `maybeMarkEmptyMapping`: a rule without `Local` and with an EMPTY External list (the only case in which it is called since
/repo d6a4f83) ends with the model's `catchAllMap` (every allowed family a valid, empty catch-all); a rule that names externals
of which none was added keeps the untouched mappings, which is the model's `catchAllMap` too; a rule pinned by `Local` gets its
empty entry iff `pinMap` is valid -/
theorem C19_code_empty_mapping (a4 a6 : Bool) (cidr : Option CIDR) (exts : List IP) (l : IP) :
    IceTie.Rewrite2.applyMark (IceGen.maybeMarkEmptyMapping false false false a4 a6) ({}, {})
      = (catchAllMap a4 a6 cidr [] true, catchAllMap a4 a6 cidr [] false) ∧
    (exts ≠ [] → (soleFor a4 a6 cidr exts true).isEmpty = true → (soleFor a4 a6 cidr exts false).isEmpty = true →
      (({}, {}) : FamMap × FamMap) = (catchAllMap a4 a6 cidr exts true, catchAllMap a4 a6 cidr exts false)) ∧
    ((IceGen.maybeMarkEmptyMapping false true l.v4 a4 a6 ≠ []) ↔ (pinMap a4 a6 l [] l.v4).valid = true) ∧
    (∀ hasLocal localV4, IceGen.maybeMarkEmptyMapping true hasLocal localV4 a4 a6 = []) :=
  ⟨IceTie.Rewrite2.maybeMarkEmptyMapping_model a4 a6 cidr, IceTie.Rewrite2.unmarked_model a4 a6 cidr exts,
   IceTie.Rewrite2.maybeMarkEmptyMapping_pin a4 a6 l,
   fun hl lv => by rw [IceTie.Rewrite2.maybeMarkEmptyMapping_tie]; rfl⟩

/-- the small pieces translated earlier, as obligations of this check: mode defaulting, family permission, the network-type
predicates (for every `NetworkType` code, negative ones included) -/
theorem C19_code_defaults :
    (∀ ct : UInt8, IceGen.defaultAddressRewriteMode ct = Int64.ofNat (defaultMode ct.toNat)) ∧
    (∀ a4 a6 isV4, IceGen.ruleMapping_isFamilyAllowed a4 a6 isV4 = isFamilyAllowed a4 a6 isV4) ∧
    (∀ n, n < 2 ^ 63 → IceGen.networkType_IsIPv4 (Int64.ofNat n) = netIsV4 n ∧ IceGen.networkType_IsIPv6 (Int64.ofNat n) = netIsV6 n) ∧
    (∀ t : Int64, t.toInt < 0 → IceGen.networkType_IsIPv4 t = false ∧ IceGen.networkType_IsIPv6 t = false) :=
  ⟨IceTie.Rewrite.defaultMode_tie, IceTie.Rewrite.isFamilyAllowed_tie,
   fun n h => ⟨IceTie.Rewrite.netIsV4_tie n h, IceTie.Rewrite.netIsV6_tie n h⟩, IceTie.Rewrite.netIs_neg⟩

/-- non-vacuity -/
example : IceGen.ruleMappingForLookup "eth0" "eth1" false false true = (false, false) ∧
    IceGen.ruleMappingForLookup "" "eth1" true false true = (false, false) ∧
    IceGen.ruleMappingForLookup "eth1" "eth1" true true true = (true, true) ∧
    IceGen.mapper_shouldReplace [2, 1] = true ∧ IceGen.mapper_shouldReplace [2, 2] = false ∧
    IceGen.mapper_hasCandidateType [false, false] = false := by decide
example : (soleFor true true none [] true).isEmpty = true ∧ (catchAllMap true false none [] true).valid = true ∧
    (catchAllMap true false none [] false).valid = false := by decide
example : (IceGen.addExternalMappings_iter false false false false false true true true false).1
      = [IceModel.Eff.call "for:externals" [], IceModel.Eff.call "addImplicitMapping" [IceModel.Val.b true, IceModel.Val.b false],
         IceModel.Eff.call "end:externals" []] ∧
    (IceGen.addExternalMappings_iter false false false false false false false true false).1
      = [IceModel.Eff.call "for:externals" [], IceModel.Eff.call "end:externals" []] := by decide

end IceProps.C19
