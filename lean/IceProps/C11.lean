import IceProofs.NotifierFuture
import IceProofs.NotifierTrace
import IceProofs.GatherCycleFuture
import IceSpec.C11
import IceProofs.C11View
import IceProofs.C11ForcedView
import IceTie.Order
/-!
# C11 — callbacks are delivered in order, one at a time, exactly once; the nil candidate

Property theorems only.  Notifier theorems are about ONE stream of `handlerNotifier`
(`IceModel.Notifier`; the three streams are instances of the same program text); they hold in EVERY
state reachable by ANY schedule: any number of events, enqueuers, drainer goroutines, closers,
handlers of any duration, handlers that re-enter (`enqueue`, `closeCall false`, `closeBody` by whatever
thread).  Gathering theorems are about `IceModel.GatherCycle`, all interleavings of tasks of any
number of cycles, restarts and gatherers.
-/
namespace IceProps.C11
open IceModel

/-! ## per stream -/
section Notifier
open IceModel.Notifier IceProofs.Notifier

/-- In order and exactly once.  The handler-invocation sequence (`delivered`, in start order) is a prefix
of the accepted sequence (`accepted` = events enqueued while the notifier was open, in lock order) at
all times; precisely `accepted = delivered ++ (popped, handler not yet entered) ++ queue`, so nothing
is lost, duplicated or reordered; whenever something is queued exactly one drainer is there to take it;
at quiescence (queue empty, no drainer goroutine) the two sequences are equal. -/
theorem C11_fifo_exactly_once (s : State) (h : Reachable s) :
    s.delivered <+: s.accepted
    ∧ s.accepted = s.delivered ++ held s.drainers ++ s.queue
    ∧ (s.queue ≠ [] → activeCount s.drainers = 1)
    ∧ (quiescent s = true → s.delivered = s.accepted) := by
  have hi := inv_reachable h
  refine ⟨?_, hi.k3, ?_, ?_⟩
  · rw [hi.k3, List.append_assoc]; exact List.prefix_append _ _
  · intro hq
    have hr : s.running = true := by
      cases hr : s.running
      · exact absurd (hi.idle hr) hq
      · rfl
    simpa [hr] using hi.k2
  · intro hq
    simp only [quiescent, Bool.and_eq_true, List.isEmpty_iff, beq_iff_eq] at hq
    have ha : activeCount s.drainers = 0 := by have := active_le_live s.drainers; omega
    rw [hi.k3, held_of_active_zero _ ha, hq.1]; simp

example : ∃ s, Reachable s ∧ quiescent s = true ∧ s.delivered = [7, 8] :=
  ⟨_, ⟨[.enqueue 7, .enqueue 8, .drainLock 0, .callHandler 0, .handlerReturn 0, .drainLock 0, .callHandler 0,
        .handlerReturn 0, .drainLock 0, .drainDone 0], rfl⟩, by decide, by decide⟩

/-- "accepted" is exactly "enqueued while not closed": the accepted sequence grows only by an `enqueue e`
on an open notifier, by `e` at its end.  (An event enqueued concurrently with `Close` is accepted or
dropped according to which critical section comes first; the property allows both.) -/
theorem C11_accepted_iff_enqueued_open (s s' : State) (a : Action) (h : step s a = some s') :
    s'.accepted = s.accepted ∨ (∃ e, a = .enqueue e ∧ s.closed = false ∧ s'.accepted = s.accepted ++ [e]) :=
  accepted_step a h

example : step { init with closed := true } (.enqueue 3) = some { init with closed := true } := by decide

/-- One at a time: at most one drainer is inside the handler; in fact `running = true` iff exactly one
drainer that can still pop or call the handler exists (drainers past their last unlock only have
`notifiers.Done()` left), and none exists while `running = false`. -/
theorem C11_never_concurrent (s : State) (h : Reachable s) :
    inHandlerCount s.drainers ≤ 1
    ∧ (s.running = true → activeCount s.drainers = 1)
    ∧ (s.running = false → activeCount s.drainers = 0) := by
  have hi := inv_reachable h
  have h1 := inHandler_le_active s.drainers
  have h2 := hi.k2
  refine ⟨?_, ?_, ?_⟩
  · cases hr : s.running <;> simp [hr] at h2 <;> omega
  · intro hr; simpa [hr] using h2
  · intro hr; simpa [hr] using h2

example : ∃ s, Reachable s ∧ inHandlerCount s.drainers = 1 ∧ s.queue = [2] :=
  ⟨_, ⟨[.enqueue 1, .drainLock 0, .callHandler 0, .enqueue 2], rfl⟩, by decide, by decide⟩

/-- The wait-group counter is the number of drainer goroutines that exist (used by `Close(true)`). -/
theorem C11_waitgroup_counts_drainers (s : State) (h : Reachable s) : s.wg = liveCount s.drainers :=
  (inv_reachable h).k4

/-- Graceful close.  Once some `Close(true)` has returned: the notifier is closed, no drainer goroutine
exists, and in EVERY continuation no drainer is created, none moves, and the handler is never invoked
again. -/
theorem C11_graceful (s : State) (h : Reachable s) (hg : s.gracefulReturned = true) :
    s.closed = true ∧ liveCount s.drainers = 0 ∧ inHandlerCount s.drainers = 0
    ∧ ∀ (as : List Action) (s' : State), run s as = some s' →
        liveCount s'.drainers = 0 ∧ s'.drainers = s.drainers ∧ s'.delivered = s.delivered := by
  have hi := inv_reachable h
  have hl : liveCount s.drainers = 0 := by have := (hi.graceful hg).2; have := hi.k4; omega
  have hin : inHandlerCount s.drainers = 0 := by
    have := inHandler_le_active s.drainers; have := active_le_live s.drainers; omega
  refine ⟨(hi.graceful hg).1, hl, hin, ?_⟩
  intro as s' hr
  obtain ⟨_, hd, he⟩ := graceful_run as hi hg hr
  exact ⟨by rw [hd]; exact hl, hd, he⟩

/-- non-vacuity: a graceful close that had to wait for a running handler, then returned -/
example : ∃ s, Reachable s ∧ s.gracefulReturned = true ∧ s.delivered = [1] :=
  ⟨_, ⟨[.enqueue 1, .drainLock 0, .callHandler 0, .closeCall true, .closeBody 0, .enqueue 2, .handlerReturn 0,
        .drainLock 0, .drainDone 0, .closeWait 0], rfl⟩, by decide, by decide⟩

/-- … and while the handler runs the graceful close cannot return (the `closeWait` step is not enabled). -/
example : run init [.enqueue 1, .drainLock 0, .callHandler 0, .closeCall true, .closeBody 0, .closeWait 0] = none := by
  decide

/-- A non-graceful close does not wait: events accepted before it are still delivered after it returned
(the property only constrains GracefulClose). -/
example : ∃ s, Reachable s ∧ s.closers = [CPc.returned false] ∧ s.delivered = [1] :=
  ⟨_, ⟨[.enqueue 1, .closeCall false, .closeBody 0, .drainLock 0, .callHandler 0], rfl⟩, by decide, by decide⟩

/-- Model ⊆ spec monitor.  The observable trace (Enqueue calls and returns, handler enter / exit, Close
calls and returns — `IceProofs.Notifier.trace`) of EVERY schedule of the model passes the stream monitor
`IceSpec.C11.monitorStream`, i.e. clauses S1 (one at a time), S2 (exactly once, nothing invented),
S3 (order, no skipping), S4 (closed notifier drops), S5 (graceful close) of `IceSpec/C11.lean`, which is
the predicate the driver evaluates on the histories recorded from the real code.  Event ids distinct,
as in recorded histories. -/
theorem C11_model_traces_pass_monitor (as : List Action) (s : State) (h : run init as = some s)
    (hn : (enqueued as).Nodup) : IceSpec.C11.monitorStream (trace init 0 as) = none := by
  obtain ⟨m', hm'⟩ := sim_run as sim_init (by simpa using hn) h
  simp [IceSpec.C11.monitorStream, hm']

/-- non-vacuity: a schedule with re-entrant enqueue, a non-graceful and a graceful close; its trace -/
example : trace init 0 [.enqueue 1, .drainLock 0, .callHandler 0, .enqueue 2, .closeCall false, .closeBody 0,
      .closeCall true, .closeBody 1, .enqueue 3, .handlerReturn 0, .drainLock 0, .callHandler 0, .handlerReturn 0,
      .drainLock 0, .drainDone 0, .closeWait 1]
    = [.enqCall 0 1, .enqRet 0, .enter 1, .enqCall 1 2, .enqRet 1, .closeCall 0 false, .closeRet 0, .closeCall 1 true,
       .enqCall 2 3, .enqRet 2, .exit 1, .enter 2, .exit 2, .closeRet 1] := by decide

/-- … and the monitor is not trivially satisfied: the same trace with the two deliveries swapped is rejected -/
example : IceSpec.C11.monitorStream [.enqCall 0 1, .enqRet 0, .enqCall 1 2, .enqRet 1, .enter 2, .exit 2, .enter 1, .exit 1]
    ≠ none := by decide

open IceSpec.C11 IceSpec.C11.View in
/-- **View round trip (history tokens).** Every typed event of a notifier history and every typed event
of a gathering history is read back from its printed token by the reader the driver uses
(`IceSpec/C11View.lean`; no well-formedness hypothesis: all fields are numbers and flags); hence the
string monitors on printed histories are the typed monitors. -/
theorem C11_view_roundtrip :
    (∀ e : HEv, parseTok (printTok e) = some e) ∧ (∀ e : GEv, parseGTok (printGTok e) = some e) ∧
    (∀ evs : List HEv, monitorToks (evs.map printTok) = monitorStream evs) ∧
    (∀ (needCand : Bool) (evs : List GEv), monitorGToks needCand (evs.map printGTok) = monitorGather needCand evs) :=
  ⟨IceProofs.C11View.parseTok_printTok, IceProofs.C11View.parseGTok_printGTok,
   IceProofs.C11View.monitorToks_print, IceProofs.C11View.monitorGToks_print⟩

open IceSpec.C11 IceSpec.C11.View in
-- non-vacuity: the printed tokens are the protocol's tokens
example : [HEv.enqCall 0 1, .enqRet 0, .enter 1, .closeCall 1 true, .exit 1, .closeRet 1, .quiet].map printTok
    = ["E0:1", "R0", "I1", "C1:g", "O1", "D1", "Q"] := by decide
open IceSpec.C11 IceSpec.C11.View in
example : [GEv.gather 0, .state 1 true, .cand 2, .nil, .restart 3, .close].map printGTok = ["G0", "P1", "c2", "n", "R3", "X"] := by decide

open IceSpec.C11.View in
/-- **Model ⊆ STRING monitor.** The printed trace of EVERY schedule of the notifier model is accepted by
`monitorToks`, the monitor the driver runs on the tokens recorded from the real code. -/
theorem C11_model_passes_string_monitor (as : List Action) (s : State) (h : run init as = some s)
    (hn : (enqueued as).Nodup) : monitorToks ((trace init 0 as).map printTok) = none := by
  rw [IceProofs.C11View.monitorToks_print]
  exact C11_model_traces_pass_monitor as s h hn

open IceSpec.C11.View in
-- non-vacuity: a schedule satisfying the hypotheses, with its printed trace
example : run init [.enqueue 1, .drainLock 0, .callHandler 0, .handlerReturn 0] ≠ none ∧
    (trace init 0 [.enqueue 1, .drainLock 0, .callHandler 0, .handlerReturn 0]).map printTok = ["E0:1", "R0", "I1", "O1"] := by
  decide

end Notifier

/-! ## gathering -/
section Gather
open IceModel.GatherCycle IceProofs.GatherCycle

/-- Exactly one nil, last.  For every cycle `i` in every reachable state: the number of nil candidates
it has emitted is 1 if its Complete task was applied (it ran to completion) and 0 otherwise; the nil
comes after all of the cycle's candidates (no candidate of cycle `i` is ever published after `nil i`). -/
theorem C11_nil_once_last (s : State) (h : Reachable s) (i : Nat) (cy : Cycle) (hget : s.cycles[i]? = some cy) :
    s.published.count (Pub.nil i) = (if cy.completed then 1 else 0)
    ∧ (∀ pre post, s.published = pre ++ Pub.nil i :: post → ∀ t, Pub.cand i t ∉ post) := by
  have hi := inv_reachable h
  exact ⟨hi.nil_count i cy hget, fun pre post hl => nilLast_spec i _ pre post (hi.order i) hl⟩

/-- EVERY published candidate carries the ufrag of the cycle that gathered it — the ufrag that was current
when `GatherCandidates` created that cycle — whether the cycle completed, is still running or was
cancelled (full strength; before the in-task context re-check of `addCandidate`, /repo 19c3ca1, finding
F23, this held only for completed and live cycles and the negation was proved on a witness). -/
theorem C11_candidates_carry_cycle_ufrag (s : State) (h : Reachable s) (i : Nat) (cy : Cycle)
    (hget : s.cycles[i]? = some cy) : ∀ t, Pub.cand i t ∈ s.published → t = cy.ufrag :=
  (inv_reachable h).tags i cy hget

/-- … and every publication names an existing cycle, so the statement above covers every candidate. -/
example (s : State) (h : Reachable s) : ∀ p ∈ s.published, ∃ cy, s.cycles[Pub.cycle p]? = some cy := by
  intro p hp
  have := (inv_reachable h).bound p hp
  exact ⟨s.cycles[Pub.cycle p], by simp [this]⟩

/-- non-vacuity, and the former S5 schedule: the gatherer of cycle 0 passed the context check outside the
task, `Restart` to ufrag 1 ran, the hand-off is taken — the task is NOT enabled as a publication any more
(`pubTask` = `none`); the only way on is `pubAbort` (the task's own re-check), which publishes nothing. -/
example : run init [.gatherCall, .cycleStart 0, .pubCheck 0, .restart 1, .pubTask 0] = none := by decide
example : (run init [.gatherCall, .cycleStart 0, .pubCheck 0, .restart 1, .pubAbort 0]).map (·.published) = some [] := by
  decide

/-- A cycle cancelled (by `Restart`, or by a newer `GatherCandidates`, or at any later time) before its
Complete task was applied never emits a nil candidate, in any continuation. -/
theorem C11_cancelled_cycle_no_nil (s : State) (h : Reachable s) (i : Nat) (cy : Cycle)
    (hget : s.cycles[i]? = some cy) (hc : cy.cancelled = true) (hm : cy.completed = false) :
    ∀ (as : List Action) (s' : State), run s as = some s' → Pub.nil i ∉ s'.published := by
  intro as s' hr
  obtain ⟨cy', hget', _, hm'⟩ := cancelled_run as hget hc hm hr
  have hi' : Inv s' := inv_run as (inv_reachable h) hr
  have := hi'.nil_count i cy' hget'
  rw [hm'] at this
  simpa using List.count_eq_zero.mp this

/-- A cancelled cycle publishes NOTHING afterwards, neither a candidate nor a nil: in every continuation
`published` only grows and no appended publication belongs to the cancelled cycle (and the cycle stays
cancelled).  Cancelled by whatever: `Restart`, a newer `GatherCandidates`. -/
theorem C11_cancelled_cycle_publishes_nothing (s : State) (i : Nat) (cy : Cycle)
    (hget : s.cycles[i]? = some cy) (hc : cy.cancelled = true) :
    ∀ (as : List Action) (s' : State), run s as = some s' →
      ∃ ext, s'.published = s.published ++ ext ∧ ∀ p ∈ ext, Pub.cycle p ≠ i := by
  intro as s' hr
  obtain ⟨_, ext, _, _, hp, hn⟩ := silent_run as hget hc hr
  exact ⟨ext, hp, hn⟩

/-- `Restart` cancels every cycle whose context is still live (there is at most one: the current one). -/
theorem C11_restart_cancels_live_cycle (s s' : State) (h : Reachable s) (u : Nat) (hcl : s.closed = false)
    (hs : step s (.restart u) = some s') (i : Nat) (cy' : Cycle) (hget : s'.cycles[i]? = some cy') :
    cy'.cancelled = true := by
  have hi' : Inv s' := inv_step _ (inv_reachable h) hs
  cases hcc : cy'.cancelled
  · -- a live cycle would have to carry the new ufrag AND be the current one, which Restart just cancelled
    simp only [step, hcl] at hs
    cases hs
    simp only [get_cancelCur] at hget
    have hcur := (inv_reachable h).live_cur
    split at hget
    · cases hx : s.cycles[i]? with
      | none => simp [hx] at hget
      | some y => simp [hx] at hget; subst hget; simp [cancelCycle] at hcc
    · rename_i hne; exact absurd (hcur i cy' hget hcc) hne
  · rfl

/-- `Restart` silences every cycle that exists: whatever is published after a `Restart` task, in any
continuation, belongs to a cycle created by a LATER `GatherCandidates` (index ≥ the number of cycles at the
Restart) — and by `C11_candidates_carry_cycle_ufrag` carries that later cycle's ufrag.  In particular no
candidate and no nil of the generation that was restarted is ever published into the new one. -/
theorem C11_restart_silences_old_cycles (s s' : State) (h : Reachable s) (u : Nat) (hcl : s.closed = false)
    (hs : step s (.restart u) = some s') :
    ∀ (as : List Action) (s'' : State), run s' as = some s'' →
      ∃ ext, s''.published = s'.published ++ ext ∧ ∀ p ∈ ext, s'.cycles.length ≤ Pub.cycle p := by
  intro as s'' hr
  exact all_cancelled_run as (fun i cy hget => C11_restart_cancels_live_cycle s s' h u hcl hs i cy hget) hr

/-- non-vacuity: a completed cycle with two candidates and its nil; then Restart, a second cycle cancelled
by the next Restart after one candidate: no nil for it. -/
def demo : List Action :=
  [.gatherCall, .cycleStart 0, .pubCheck 0, .pubTask 0, .pubCheck 0, .pubTask 0, .gatherersDone 0, .cycleFinish 0,
   .restart 1, .gatherCall, .cycleStart 1, .pubCheck 1, .pubTask 1, .restart 2, .gatherersDone 1, .cycleFinish 1]

example : (run init demo).map (·.published) =
    some [Pub.cand 0 0, Pub.cand 0 0, Pub.nil 0, Pub.cand 1 1] := by decide

example : ∃ s, Reachable s ∧ (∃ cy, s.cycles[0]? = some cy ∧ cy.completed = true)
    ∧ (∃ cy, s.cycles[1]? = some cy ∧ cy.cancelled = true ∧ cy.completed = false) :=
  ⟨_, ⟨demo, rfl⟩, by decide, by decide⟩

/-- non-vacuity of the two silence theorems: cycle 1 has an `addCandidate` in flight when `Restart` to ufrag 2
cancels it; the in-flight call can only abort; a third cycle gathered under ufrag 2 publishes `cand 2 2` and
its nil — everything after the Restart belongs to cycle 2 ≥ 2 = number of cycles at the Restart. -/
def demo2 : List Action :=
  [.gatherCall, .cycleStart 0, .pubCheck 0, .pubTask 0, .gatherersDone 0, .cycleFinish 0,
   .restart 1, .gatherCall, .cycleStart 1, .pubCheck 1, .pubTask 1, .pubCheck 1, .restart 2,
   .pubAbort 1, .gatherCall, .gatherersDone 1, .cycleStart 2, .cycleFinish 1, .pubCheck 2, .pubTask 2,
   .gatherersDone 2, .cycleFinish 2]

example : (run init demo2).map (fun s => (s.published, s.cycles.map (fun c => (c.ufrag, c.cancelled, c.completed)))) =
    some ([Pub.cand 0 0, Pub.nil 0, Pub.cand 1 1, Pub.cand 2 2, Pub.nil 2],
          [(0, true, true), (1, true, false), (2, false, true)]) := by decide

/-- … and with the in-flight call of the cancelled cycle taking the hand-off instead of aborting, the run is
not a run of the model (this is the history the unfixed code produced, `c2` from cycle 1). -/
example : run init [.gatherCall, .cycleStart 0, .pubCheck 0, .pubTask 0, .gatherersDone 0, .cycleFinish 0,
   .restart 1, .gatherCall, .cycleStart 1, .pubCheck 1, .pubTask 1, .pubCheck 1, .restart 2, .pubTask 1] = none := by
  decide

/-! ### the three places of `addCandidate`: first check, hand-off, in-task re-check; the local candidate list -/

/-- The state side of "a cancelled cycle publishes nothing into the next generation": in EVERY reachable state every
local candidate of the agent (`a.localCandidates`: started, socket open) belongs to a cycle whose context is NOT
cancelled, carries the agent's CURRENT ufrag — which is that cycle's own — and was announced with exactly this
tag.  So nothing that a cancelled cycle gathered is alive in the agent, whatever `Run`'s `select` chose. -/
theorem C11_local_candidates_of_live_cycle (s : State) (h : Reachable s) (c t : Nat) (hl : (c, t) ∈ s.locals) :
    ∃ cy, s.cycles[c]? = some cy ∧ cy.cancelled = false ∧ t = cy.ufrag ∧ t = s.ufrag
      ∧ Pub.cand c t ∈ s.published := by
  have hi := inv_reachable h
  obtain ⟨cy, hget, hcan, hu, hp⟩ := hi.locals_live (c, t) hl
  exact ⟨cy, hget, hcan, hu.trans (hi.live_ufrag c cy hget hcan).symm, hu, hp⟩

/-- Once a cycle's context is cancelled, in every continuation (any choice of `Run`'s `select`, any number of calls
that had passed the first check before the cancellation) the agent holds no local candidate of that cycle:
those it had were deleted by whatever cancelled it, and no new one is started. -/
theorem C11_cancelled_cycle_leaves_no_local_candidate (s : State) (h : Reachable s) (i : Nat) (cy : Cycle)
    (hget : s.cycles[i]? = some cy) (hc : cy.cancelled = true) :
    ∀ (as : List Action) (s' : State), run s as = some s' → ∀ t, (i, t) ∉ s'.locals := by
  intro as s' hr t hmem
  obtain ⟨cy', _, hget', hc', _, _⟩ := silent_run as hget hc hr
  have hi' : Inv s' := inv_run as (inv_reachable h) hr
  obtain ⟨y, hy, hyc, _, _⟩ := hi'.locals_live (i, t) hmem
  have hy' : s'.cycles[i]? = some y := hy
  rw [hget'] at hy'; cases hy'
  rw [hc'] at hyc; cases hyc

/-- The hand-off of a call whose cycle was cancelled after the first check (`pubRefuse`: `select` took
`l.tasks <- task` although `ctx.Done()` was ready, the task's own re-check failed) and `Run` returning the
context's error (`pubAbort`) are the same transition: the outcome does not depend on which ready case `select`
takes.  (Both are enabled exactly for a call in flight of a cancelled cycle while the loop is open.) -/
theorem C11_handoff_of_cancelled_cycle_is_refused (s : State) (c : Nat) (cy : Cycle) (hget : s.cycles[c]? = some cy)
    (hpc : cy.pc = .gathering) (hin : 0 < cy.checked) (hc : cy.cancelled = true) (hcl : s.closed = false) :
    step s (.pubTask c) = none ∧ step s (.pubSkip c) = none
    ∧ step s (.pubRefuse c) = step s (.pubAbort c)
    ∧ ∃ s', step s (.pubRefuse c) = some s' ∧ s'.published = s.published ∧ s'.locals = s.locals
        ∧ s'.ufrag = s.ufrag ∧ s'.gstate = s.gstate := by
  simp [step, hget, hpc, hin, hc, hcl]

/-- non-vacuity: candidate of cycle 0 is listed; a second call passes the first check; `Restart` empties the list
and cancels the cycle; the hand-off of the second call is refused; the third cycle's candidate is listed alone,
with the new ufrag. -/
example : (run init [.gatherCall, .cycleStart 0, .pubCheck 0, .pubTask 0, .pubCheck 0]).map (·.locals) = some [(0, 0)] := by
  decide
example : (run init [.gatherCall, .cycleStart 0, .pubCheck 0, .pubTask 0, .pubCheck 0, .restart 1, .pubRefuse 0,
    .gatherCall, .cycleStart 1, .pubCheck 1, .pubTask 1]).map (fun s => (s.locals, s.published)) =
    some ([(1, 1)], [Pub.cand 0 0, Pub.cand 1 1]) := by decide
/-- … `pubRefuse` is not a way around the first check or the loop: it needs a call in flight, a cancelled context
and an open loop. -/
example : run init [.gatherCall, .cycleStart 0, .pubCheck 0, .pubRefuse 0] = none := by decide
example : run init [.gatherCall, .cycleStart 0, .restart 1, .pubCheck 0] = none := by decide
example : run init [.gatherCall, .cycleStart 0, .pubCheck 0, .close, .pubRefuse 0] = none := by decide
example : (run init [.gatherCall, .cycleStart 0, .pubCheck 0, .close, .pubAbort 0]).map (·.published) = some [] := by decide

end Gather

/-- `Agent.close` (agent.go, regenerated in effect mode): first the task loop (`CloseWithPreStop(abortStartedCandidateIO)`), then
the THREE notifiers — connection state, candidate, selected pair — each a different one, each exactly once, each with the caller's
`graceful` -/
theorem C11_code_close_notifiers (graceful : Bool) :
    IceGen.agent_close graceful
      = ([IceTie.Order.c "loop.CloseWithPreStop(abortStartedCandidateIO)",
          IceTie.Order.c1 "connectionStateNotifier.Close" (IceModel.Val.b graceful),
          IceTie.Order.c1 "candidateNotifier.Close" (IceModel.Val.b graceful),
          IceTie.Order.c1 "selectedCandidatePairNotifier.Close" (IceModel.Val.b graceful)], "nil") ∧
    ((IceGen.agent_close graceful).1.count (IceTie.Order.c1 "connectionStateNotifier.Close" (IceModel.Val.b graceful)) = 1 ∧
     (IceGen.agent_close graceful).1.count (IceTie.Order.c1 "candidateNotifier.Close" (IceModel.Val.b graceful)) = 1 ∧
     (IceGen.agent_close graceful).1.count (IceTie.Order.c1 "selectedCandidatePairNotifier.Close" (IceModel.Val.b graceful)) = 1 ∧
     (IceGen.agent_close graceful).1.head? = some (IceTie.Order.c "loop.CloseWithPreStop(abortStartedCandidateIO)")) :=
  ⟨IceTie.Order.agentClose_tie graceful, IceTie.Order.agentClose_each_once graceful⟩

example : (IceGen.agent_close true).1.length = 4 := by decide

open IceSpec.C11.Forced IceSpec.C11.Forced.View in
/-- **View round trip (`gatherforce` observations).** Every typed event is read back from its printed
token, and the string monitor on every printed non-empty observation (tokens joined by single spaces) is
the typed monitor `monitorForced` (`IceSpec/C11ForcedView.lean`; no well-formedness hypothesis). -/
theorem C11_forced_view_roundtrip :
    (∀ e : FEv, parseFTok (printFTok e) = some e) ∧
    (∀ evs : List FEv, evs ≠ [] → monitorObs (printObsF evs) = monitorForced evs) :=
  ⟨IceProofs.C11ForcedView.parseFTok_printFTok, IceProofs.C11ForcedView.monitorObs_print⟩

open IceSpec.C11.Forced IceSpec.C11.Forced.View in
-- non-vacuity: a printed observation is the protocol text
example : printObsF [.gather 0, .offer 0 7, .result 7 (some true), .cand 0 7 0, .nil 0, .probe [7] [7, 8], .final []]
    = "G0 a0:7 r7=ok c0:7@0 n@0 Q7/7,8 Z" := by decide

end IceProps.C11
