import IceModel.Eff
import IceModel.Prio
