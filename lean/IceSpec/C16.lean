/-!
# Spec monitors for C16 (candidate / attribute wire formats round-trip; equality is lawful)

Executable statement of the property over OBSERVATIONS of the public API (getters, `Marshal`,
`UnmarshalCandidate`, `Equal`, `DeepEqual`, attribute `AddTo`/`GetFrom`).  Independent of
`IceModel.CandText` / `IceModel.AttrCodec`: nothing is imported.  The same predicates are
(a) proved of the model in `IceProps/C16.lean` and (b) evaluated by the driver on what the real
code returned.  Each monitor returns the first violated clause.  Strings are byte strings.
-/
namespace IceSpec.C16

abbrev Str := List Nat

/-- The public getters of one candidate. `net`: 1 udp4, 2 udp6, 3 tcp4, 4 tcp6; `typ`: 1 host,
2 srflx, 3 prflx, 4 relay; `tcpType`: 0 none, 1 active, 2 passive, 3 so; `exts` = `Extensions()`. -/
structure CandObs where
  foundation : Str
  component : Nat
  net : Nat
  priority : Nat
  address : Str
  port : Nat
  typ : Nat
  related : Option (Str × Nat)
  tcpType : Nat
  exts : List (Str × Str)
  deriving DecidableEq, Repr, Inhabited

/-! ## the quantifier of the property: which candidates must round-trip -/

def iceChar (c : Nat) : Bool :=
  (65 ≤ c && c ≤ 90) || (97 ≤ c && c ≤ 122) || (48 ≤ c && c ≤ 57) || c = 43 || c = 47

/-- RFC 4566 byte-string (any byte except NUL, CR, LF) that is also valid UTF-8 restricted to the
runes the grammar comment of the code names (01-09, 0B-0C, 0E-FF), and has no space. -/
def byteString : Str → Bool
  | [] => true
  | c :: cs =>
    if c < 128 then (c != 0 && c != 10 && c != 13 && c != 32) && byteString cs
    else if c = 194 || c = 195 then
      match cs with
      | d :: ds => (128 ≤ d && d ≤ 191) && byteString ds
      | [] => false
    else false

def noSpace (s : Str) : Bool := !s.contains 32

def sTcptype : Str := [116, 99, 112, 116, 121, 112, 101]

/-- "constructible through the public constructors (all types × transports × TCP types on host
candidates × address forms × related-address forms incl. 0.0.0.0:0 × extension lists whose keys and
values are grammar-valid byte-strings without spaces)", on the getters of the original:
foundation 1*32 ice-char or the empty-foundation marker " "; component 16 bit; port 0..65535; address
a single token without zone; TCP type only on host candidates; a related address is a token with a
port 0..65535 ("none" = empty address, port 0); extension keys non-empty. -/
def inDomain (o : CandObs) : Bool :=
  (o.foundation = [32] || (o.foundation ≠ [] && o.foundation.length ≤ 32 && o.foundation.all iceChar))
  && o.component < 65536 && o.priority < 4294967296 && o.port ≤ 65535
  && o.address ≠ [] && noSpace o.address && !o.address.contains 37
  && (o.tcpType = 0 || o.typ = 1)
  && (match o.related with
      | none => o.typ = 1
      | some (a, p) => o.typ ≠ 1 && noSpace a && p ≤ 65535 && (a ≠ [] || p = 0))
  && (match o.tcpType, o.exts with
      | 0, l => l.all (fun e => e.1 ≠ [] && e.1 ≠ sTcptype && byteString e.1 && byteString e.2)
      | _, [] => false
      | _, t :: l => t.1 = sTcptype && l.all (fun e => e.1 ≠ [] && e.1 ≠ sTcptype && byteString e.1 && byteString e.2))

/-! ## round trip -/

/-- `c' , err := UnmarshalCandidate(c.Marshal())`, and the four comparisons. -/
structure RtObs where
  orig : CandObs
  parsed : Option CandObs
  /-- `c'.Equal(c)`, `c'.DeepEqual(c)`, `c.Equal(c')`, `c.DeepEqual(c')` -/
  equal : Bool
  deep : Bool
  equalRev : Bool
  deepRev : Bool
  deriving Repr

def sameGetters (a b : CandObs) : Option String :=
  if a.foundation ≠ b.foundation then some "foundation differs"
  else if a.component ≠ b.component then some "component differs"
  else if a.net ≠ b.net then some "transport differs"
  else if a.priority ≠ b.priority then some "priority differs"
  else if a.address ≠ b.address then some "address differs"
  else if a.port ≠ b.port then some "port differs"
  else if a.typ ≠ b.typ then some "type differs"
  else if a.related ≠ b.related then some "related address differs"
  else if a.tcpType ≠ b.tcpType then some "TCP type differs"
  else if a.exts ≠ b.exts then some "extensions differ"
  else none

/-- "Parsing the textual form of any candidate yields a candidate that is Equal and DeepEqual to the
original and has the same foundation, …, extensions". -/
def rtViolation (o : RtObs) : Option String :=
  if !inDomain o.orig then none
  else
    match o.parsed with
    | none => some "round-trip: UnmarshalCandidate(Marshal()) returned an error"
    | some p =>
      match sameGetters o.orig p with
      | some why => some ("round-trip: " ++ why)
      | none =>
        if !o.equal || !o.equalRev then some "round-trip: parsed candidate is not Equal to the original"
        else if !o.deep || !o.deepRev then some "round-trip: parsed candidate is not DeepEqual to the original"
        else none

/-! ## "whatever it accepts re-marshals to text that parses to an equal candidate" -/

/-- `c := Unmarshal(raw)` succeeded; `c2, err := Unmarshal(c.Marshal())`. -/
structure ReparseObs where
  first : CandObs
  again : Option CandObs
  /-- `c.Equal(c2)`, `c2.Equal(c)` -/
  equal : Bool
  equalRev : Bool
  deriving Repr

def reparseViolation (o : ReparseObs) : Option String :=
  match o.again with
  | none => some "accepted text re-marshals to text that UnmarshalCandidate rejects"
  | some _ =>
    if !o.equal || !o.equalRev then some "accepted text re-marshals to text that parses to a candidate that is not Equal"
    else none

/-- "parsing arbitrary text never panics" -/
def panicViolation (implPanicked : Bool) : Option String :=
  if implPanicked then some "panic" else none

/-! ## equality laws on a pair (a, b): "Equal and DeepEqual are reflexive and symmetric, and DeepEqual
implies Equal" -/

structure EqObs where
  aEa : Bool
  aDa : Bool
  bEb : Bool
  bDb : Bool
  aEb : Bool
  bEa : Bool
  aDb : Bool
  bDa : Bool
  deriving Repr, DecidableEq

def eqViolation (o : EqObs) : Option String :=
  if !o.aEa || !o.bEb then some "Equal is not reflexive"
  else if !o.aDa || !o.bDb then some "DeepEqual is not reflexive"
  else if o.aEb != o.bEa then some "Equal is not symmetric"
  else if o.aDb != o.bDa then some "DeepEqual is not symmetric"
  else if (o.aDb && !o.aEb) || (o.bDa && !o.bEa) then some "DeepEqual does not imply Equal"
  else none

/-! ## equality laws on a triple (a, b, c): "equality is lawful" includes transitivity -/

/-- `Equal` (`e..`) and `DeepEqual` (`d..`) on the six ordered pairs of three candidates:
`eab` = `a.Equal(b)`, … -/
structure Eq3Obs where
  eab : Bool
  ebc : Bool
  eac : Bool
  eba : Bool
  ecb : Bool
  eca : Bool
  dab : Bool
  dbc : Bool
  dac : Bool
  dba : Bool
  dcb : Bool
  dca : Bool
  deriving Repr, DecidableEq

/-- some chain x~y, y~z without x~z, over the six orders of the three candidates -/
def chainBroken (ab bc ac ba cb ca : Bool) : Bool :=
  (ab && bc && !ac) || (ac && cb && !ab) || (ba && ac && !bc) ||
  (bc && ca && !ba) || (ca && ab && !cb) || (cb && ba && !ca)

def eq3Violation (o : Eq3Obs) : Option String :=
  if o.eab != o.eba || o.ebc != o.ecb || o.eac != o.eca then some "Equal is not symmetric"
  else if o.dab != o.dba || o.dbc != o.dcb || o.dac != o.dca then some "DeepEqual is not symmetric"
  else if (o.dab && !o.eab) || (o.dbc && !o.ebc) || (o.dac && !o.eac) then some "DeepEqual does not imply Equal"
  else if chainBroken o.eab o.ebc o.eac o.eba o.ecb o.eca then some "Equal is not transitive"
  else if chainBroken o.dab o.dbc o.dac o.dba o.dcb o.dca then some "DeepEqual is not transitive"
  else none

/-! ## the assumption about `netip` that `C16_equal_iff` makes (`IceModel.CandText.EnvLaw`), on what
the REAL functions returned for one address string -/

/-- `cls`: 0 = `netip.ParseAddr` error, 4 = `Unmap().Is4()`, 6 = otherwise; `canon`: the key of
`canonicalAddr(ip)` (`none` = parse error; 4 or 16 address bytes, then `%zone` if a zone was kept);
`viaResolved`: the keys of the IP that `addrEqual` compares for a candidate with this address
(`parseAddr` of the `*net.UDPAddr{IP: ip.AsSlice(), Zone: ip.Zone()}` the srflx/relay constructors store,
and of `createAddr(tcp, ip, port)` as the host/prflx constructors call it). -/
structure AddrObs where
  cls : Nat
  canon : Option Str
  viaResolved : List (Option Str)
  deriving Repr, DecidableEq

def envLawViolation (o : AddrObs) : Option String :=
  let want := match o.canon with
    | none => 0
    | some k => if k.length = 4 then 4 else 6
  if o.cls ≠ want then some "assumption: the address class is not the class of the canonical address"
  else if o.viaResolved.any (· ≠ o.canon) then some "assumption: addrEqual's IP of a resolved address is not canonicalAddr(ParseAddr(address))"
  else none

/-! ## attributes -/

inductive AttrKind where
  | priority | controlling | controlled | useCandidate | nomination | dtls | ack
  deriving DecidableEq, Repr, Inhabited

/-- An attribute value: one number (PRIORITY, tie-breaker, nomination), nothing (USE-CANDIDATE),
bytes (DTLS-in-STUN) or a list of numbers (ACK). -/
inductive AttrVal where
  | num (n : Nat)
  | flag
  | bytes (b : List Nat)
  | nums (l : List Nat)
  deriving DecidableEq, Repr, Inhabited

def beVal (bs : List Nat) : Nat := bs.foldl (fun acc b => acc * 256 + b) 0

def words : List Nat → List Nat
  | a :: b :: c :: d :: rest => beVal [a, b, c, d] :: words rest
  | _ => []

/-- The size the value of this attribute must have on the wire. -/
def sizeOK (k : AttrKind) (n : Nat) : Bool :=
  match k with
  | .priority => n = 4
  | .controlling | .controlled => n = 8
  | .useCandidate => n = 0
  | .nomination => n = 4
  | .dtls => true
  | .ack => n ≤ 16 && n % 4 = 0

/-- Is this value one the attribute can carry? (nomination: 24 bit; ACK: at most four 32-bit numbers) -/
def valueOK (k : AttrKind) (v : AttrVal) : Bool :=
  match k, v with
  | .priority, .num n => n < 4294967296
  | .controlling, .num n | .controlled, .num n => n < 18446744073709551616
  | .useCandidate, .flag => true
  | .nomination, .num n => n < 16777216
  | .dtls, .bytes b => b.all (· < 256)
  | .ack, .nums l => l.length ≤ 4 && l.all (· < 4294967296)
  | _, _ => false

/-- `AddTo` then `GetFrom`: `wire` = the attribute's value bytes, `back` = the decoded value
(`none` = `AddTo` or `GetFrom` returned an error). -/
structure AttrRtObs where
  kind : AttrKind
  value : AttrVal
  wire : Option (List Nat)
  back : Option AttrVal
  deriving Repr

/-- "decode to the value that was encoded" (+ the size on the wire). -/
def attrRtViolation (o : AttrRtObs) : Option String :=
  if !valueOK o.kind o.value then
    -- an ACK list that is too long must be refused; nothing is demanded of other out-of-range values
    (match o.kind, o.value, o.wire with
     | .ack, .nums l, some _ => if l.length > 4 then some "ACK with more than 4 values was encoded" else none
     | _, _, _ => none)
  else
    match o.wire, o.back with
    | some w, some b =>
      if !sizeOK o.kind w.length then some "encoded value has the wrong size"
      else if b ≠ o.value then some "decoded value differs from the encoded one"
      else none
    | _, _ => some "encoding or decoding a legal value failed"

/-- `GetFrom` on a message that carries the attribute with these value bytes:
`result = none` = error. -/
structure AttrDecObs where
  kind : AttrKind
  wire : List Nat
  result : Option AttrVal
  deriving Repr

/-- What a correct decoder returns for bytes of the right size. -/
def expectedDecode (k : AttrKind) (w : List Nat) : AttrVal :=
  match k with
  | .priority | .controlling | .controlled => .num (beVal w)
  | .useCandidate => .flag
  | .nomination => .num (beVal (w.drop 1))
  | .dtls => .bytes w
  | .ack => .nums (words w)

/-- "reject wrong sizes" and decode the right ones.  Two points the property text leaves open are
NOT demanded (they are counted and reported as notes): a nomination value LONGER than 4 bytes and a
USE-CANDIDATE with a non-empty value (`IsSet` only tests presence). -/
def attrDecViolation (o : AttrDecObs) : Option String :=
  let n := o.wire.length
  let open_ := (o.kind = .nomination && n > 4) || o.kind = .useCandidate
  if open_ then none
  else if !sizeOK o.kind n then
    (if o.result.isSome then some "value of the wrong size was accepted" else none)
  else
    match o.result with
    | none => some "value of the right size was rejected"
    | some v => if v ≠ expectedDecode o.kind o.wire then some "decoded value is not the big-endian reading of the bytes" else none

end IceSpec.C16
