/-!
# Spec monitor for C15 — "TCP mux routes connections by ufrag and cleans up after itself"

Written from the property text, independently of `IceModel/TcpMux.lean`: it does not know about
goroutines, receive-channel capacity, blocked readers or wait groups.  It follows a session of the
`tcpmux` line protocol (operation + the OBSERVED output line) and keeps only what the text talks about:

* per client: peer address, local IP, when it was accepted, the first complete frame, the complete
  frames it sent, how many of them have been read, which packet connection it was routed to;
* per packet connection (one record per incarnation): key (ufrag, family, local IP), provisional or
  not, alive deadline while unclaimed, number of open handles, open or not;
* per handle: its packet connection, closed or not.

Clauses (returned text = first violated clause):
* **first frame**: a client's first complete frame attaches it iff it arrives before the first-bind
  deadline, is at most 512 bytes and is a STUN Binding with USERNAME; the target is the open packet
  connection for (ufrag before `:`, family of the peer, local IP), or a new provisional one; any other
  first frame gets the connection closed — and closes no other connection;
* **late**: a client with no complete first frame is closed once the first-bind timeout has elapsed;
* **order and source**: a packet read from a packet connection is the next unread frame of a client
  routed to it, carries that client's address; a read that finds nothing means that every frame of
  every still-open client routed there has been read;
* **reply path**: a successful write appears on exactly the TCP connection routed to that packet
  connection whose peer has that address, and nowhere else; it must succeed while that connection is
  open; a failed write appears nowhere; nothing is written to any client by any other operation;
* **provisional expires**: once the alive duration has elapsed without `GetConnByUfrag`, every TCP
  connection routed to the provisional packet connection is closed;
* **delivery**: a TCP connection routed to a packet connection that is still open is not closed by the
  mux unless its client closed, reset, or sent a frame larger than the 8192-byte read buffer;
* **close**: after `Close` was called the listener is closed and every routed TCP connection is closed;
  `Close` has returned only if every accepted TCP connection is closed and no goroutine of the mux is
  left; it cannot return before it was called; it has returned once first-bind timeout + alive
  duration have elapsed since the call.

Before fix F22 the mux's close watcher removed map entries by key in both family maps, so closing
one packet connection also closed the packet connection of the OTHER family with the same ufrag and
local IP (and, under concurrency, a newer connection under the same key). The monitor does not mirror
that: on such a tree the **delivery** clause fires (notes/C15.md, F22 / O1).
-/
namespace IceSpec.C15

structure MFrame where
  fid : Nat
  len : Nat
  deriving Repr, DecidableEq

structure MClient where
  ip : Nat
  port : Nat
  lip : Nat
  accepted : Bool
  deadline : Nat
  /-- a complete first frame has been sent -/
  hasFirst : Bool := false
  /-- packet-connection record it was routed to -/
  target : Option Nat := none
  /-- complete frames sent since (and including) the first -/
  sent : List MFrame := []
  nread : Nat := 0
  /-- the client closed/reset or stopped mid-frame: it sends nothing more -/
  done : Bool := false
  /-- the client closed or reset its side, or sent a later frame larger than the 8192-byte read buffer:
  the mux may (must) drop the connection -/
  gone : Bool := false
  /-- observed closed by the mux -/
  closed : Bool := false
  deriving Repr

structure MPc where
  ufrag : String
  v6 : Bool
  lip : Nat
  provisional : Bool
  /-- alive deadline while nobody has claimed it -/
  expires : Option Nat
  refs : Nat
  isOpen : Bool := true
  deriving Repr

structure MHandle where
  pc : Nat
  closed : Bool := false
  deriving Repr

structure Mon where
  active : Bool := false
  t1 : Nat := 0
  t2 : Nat := 0
  now : Nat := 0
  clients : List MClient := []
  pcs : List MPc := []
  handles : List MHandle := []
  closeCalled : Bool := false
  closeTime : Nat := 0
  returned : Bool := false
  deriving Repr

/-- the observation part of an output line -/
structure Obs where
  res : String
  closed : List Nat
  outs : List (Nat × String)
  g : List Nat
  listenerClosed : Bool
  ret : Bool
  deriving Repr

def parseNatList (s : String) : Option (List Nat) :=
  if s = "" then some [] else (s.splitOn ",").mapM String.toNat?

def parseOuts (s : String) : Option (List (Nat × String)) :=
  if s = "" then some [] else
  (s.splitOn ",").mapM (fun e => match e.splitOn ":" with
    | [k, id] => k.toNat?.map (·, id)
    | _ => none)

def field (pre : String) (s : String) : Option String :=
  if s.startsWith pre then some ((s.drop pre.length).toString) else none

def parseObs (line : String) : Option Obs :=
  match line.splitOn " ; " with
  | [res, c, o, g, l, r] =>
    match (field "c=" c).bind parseNatList, (field "o=" o).bind parseOuts,
          (field "g=" g).bind (fun x => (x.splitOn "/").mapM String.toNat?), field "L=" l, field "ret=" r with
    | some c, some o, some g, some l, some r =>
      some { res := res, closed := c, outs := o, g := g, listenerClosed := l == "1", ret := r == "1" }
    | _, _, _, _, _ => none
  | _ => none

def timeoutOf (t : Nat) : Nat := if t = 0 then 30000 else t

def setAt {α : Type} (l : List α) (i : Nat) (f : α → α) : List α := l.modify i f

/-- close record `p` (and nothing else: a packet connection is closed only for its own reasons) -/
def closeRec (pcs : List MPc) (p : Nat) : List MPc :=
  match pcs[p]? with
  | none => pcs
  | some pc =>
    if !pc.isOpen then pcs else
    pcs.mapIdx (fun i q => if i = p then { q with isOpen := false, expires := none } else q)

def closeWhere (pcs : List MPc) (sel : MPc → Bool) : List MPc :=
  (List.range pcs.length).foldl (fun acc i => match acc[i]? with
    | some pc => if pc.isOpen && sel pc then closeRec acc i else acc
    | none => acc) pcs

def findOpen (pcs : List MPc) (ufrag : String) (v6 : Bool) (lip : Nat) : Option Nat :=
  pcs.findIdx? (fun pc => pc.isOpen && pc.ufrag == ufrag && pc.v6 == v6 && pc.lip == lip)

/-- the ufrag a first frame routes by, as the property describes it -/
def routeUfrag (kind : String) (len : Nat) : Option String :=
  if len > 512 then none else
  match kind.toList with
  | 'u' :: r => some (String.ofList r)
  | 'w' :: r => some (String.ofList r)
  | _ => none

def isOpenPc (m : Mon) (p : Nat) : Bool := match m.pcs[p]? with | some pc => pc.isOpen | none => false

/-- clients routed to record `p` whose TCP connection is not closed -/
def liveOn (m : Mon) (p : Nat) : List (Nat × MClient) :=
  ((List.range m.clients.length).filterMap (fun k => (m.clients[k]?).map (k, ·))).filter
    (fun (_, c) => c.target == some p && !c.closed)

/-- take over the observed facts: which clients are closed -/
def absorb (m : Mon) (o : Obs) : Mon :=
  { m with clients := m.clients.mapIdx (fun k c => if o.closed.contains k then { c with closed := true } else c),
           returned := o.ret }

/-- clauses that are checked after every operation (`me` = `m` after the records whose alive deadline
has passed were closed) -/
def always (m me : Mon) (o : Obs) (allowOut : Bool) : Option String :=
  let n := m.clients.length
  -- a closed connection never reopens; ids are those of accepted clients
  if o.closed.any (fun k => k ≥ n) then some "closed set names an unknown client" else
  if (List.range n).any (fun k => match m.clients[k]? with
      | some c => c.closed && !o.closed.contains k | none => false) then some "a closed TCP connection reopened" else
  -- late: no complete first frame by the first-bind deadline
  if (List.range n).any (fun k => match m.clients[k]? with
      | some c => c.accepted && !c.hasFirst && decide (c.deadline ≤ m.now) && !o.closed.contains k | none => false) then
    some "late: no first frame within the first-bind timeout but the TCP connection is still open" else
  -- provisional expires
  if (List.range n).any (fun k => match m.clients[k]? with
      | some c => (match c.target with
        | some p => (match m.pcs[p]? with
          | some pc => (match pc.expires with
            | some d => decide (d ≤ m.now) && !o.closed.contains k
            | none => false)
          | none => false)
        | none => false)
      | none => false) then
    some "provisional: alive duration elapsed without GetConnByUfrag but a TCP connection routed there is still open" else
  -- delivery: a routed connection stays usable while its packet connection is open and its client behaves
  if (List.range n).any (fun k => match m.clients[k]? with
      | some c => !c.closed && !c.gone && o.closed.contains k && (match c.target with
        | some p => (match me.pcs[p]? with | some pc => pc.isOpen | none => false)
        | none => false)
      | none => false) then
    some "delivery: a TCP connection routed to an open packet connection was closed by the mux" else
  if !allowOut && !o.outs.isEmpty then some "reply path: data written to a client by an operation that is not a write" else
  -- close
  if m.closeCalled && !o.listenerClosed then some "close: Close was called but the listener is open" else
  if o.ret && !m.closeCalled then some "close: returned before it was called" else
  if m.returned && !o.ret then some "close: returned flag went back" else
  if o.ret && (List.range n).any (fun k => match m.clients[k]? with
      | some c => c.accepted && !o.closed.contains k | none => false) then
    some "close: Close returned but a TCP connection is still open" else
  if o.ret && o.g.any (· ≠ 0) then some "close: Close returned but goroutines of the mux are alive" else
  if m.closeCalled && !o.ret && decide (m.closeTime + m.t1 + m.t2 ≤ m.now) then
    some "close: Close has not returned although first-bind timeout + alive duration have elapsed since the call" else
  none

/-- records whose alive deadline has passed are closed (bookkeeping; the check is in `always`) -/
def expire (m : Mon) : Mon :=
  { m with pcs := closeWhere m.pcs (fun pc => match pc.expires with | some d => decide (d ≤ m.now) | none => false) }

def parseH (s : String) : Option Nat :=
  match s.toList with
  | 'h' :: r => (String.ofList r).toNat?
  | _ => none

def parseU (s : String) : Option String :=
  match s.toList with
  | 'U' :: r => some (String.ofList r)
  | _ => none

/-- One step of the monitor: operation tokens (without the component name) and the implementation's
output line.  Returns the new monitor state and the first violated clause, if any. -/
def observe (m : Mon) (toks : List String) (impl : String) : Mon × Option String :=
  match toks with
  | ["new", _cap, _wbuf, t1, t2] =>
    match t1.toNat?, t2.toNat?, parseObs impl with
    | some t1, some t2, some o =>
      let m : Mon := { active := true, t1 := timeoutOf t1, t2 := timeoutOf t2 }
      (m, always m m o false)
    | _, _, _ => ({}, none)
  | ["multi", _, _] => ({}, none)
  | _ =>
  if !m.active then (m, none) else
  if impl = "bad-op" ∨ impl = "no-session" then (m, none) else
  match parseObs impl with
  | none => ({ m with active := false }, some "unparsable implementation output")
  | some o =>
    let fin (m : Mon) (v : Option String) (allowOut : Bool := false) : Mon × Option String :=
      let me := expire m
      let v := match v with | some x => some x | none => always m me o allowOut
      (absorb me o, v)
    match toks with
    | ["accept", _k, ip, port, lip] =>
      match ip.toNat?, port.toNat?, lip.toNat? with
      | some ip, some port, some lip =>
        let acc := o.res == "ok"
        let m := { m with clients := m.clients ++ [{ ip := ip, port := port, lip := lip, accepted := acc,
                                                     deadline := m.now + m.t1, closed := !acc }] }
        fin m (if m.closeCalled && acc then some "close: a connection was accepted after Close" else none)
      | _, _, _ => fin m none
    | ["frame", k, fid, kind, len] =>
      match k.toNat?, fid.toNat?, len.toNat? with
      | some k, some fid, some len =>
        match m.clients[k]? with
        | none => fin m none
        | some c =>
          if c.done || !c.accepted || o.res == "noop" then fin m none else
          if c.hasFirst then
            -- a later frame: remember it if the connection can still carry it
            if c.closed then fin m none else
            fin { m with clients := setAt m.clients k (fun c =>
              { c with sent := c.sent ++ [⟨fid, len⟩], gone := c.gone || decide (8192 < len) }) } none
          else if c.closed then fin { m with clients := setAt m.clients k (fun c => { c with hasFirst := true }) } none
          else
            -- the first complete frame of an open, accepted connection
            let closedNow := o.closed.contains k
            let others := o.closed.filter (fun j => j ≠ k && match m.clients[j]? with | some d => !d.closed | none => true)
            match (if m.now < c.deadline then routeUfrag kind len else none) with
            | none =>
              let m' := { m with clients := setAt m.clients k (fun c => { c with hasFirst := true }) }
              if !closedNow then fin m' (some "first frame: late, oversized, not a STUN Binding or without USERNAME, but the TCP connection stays open")
              else if !others.isEmpty then fin m' (some "first frame: rejecting one connection closed another")
              else fin m' none
            | some u =>
              let v6 := decide (2 ≤ c.ip)
              let (pcs, p) := match findOpen m.pcs u v6 c.lip with
                | some p => (m.pcs, p)
                | none => (m.pcs ++ [{ ufrag := u, v6 := v6, lip := c.lip, provisional := true,
                                        expires := some (m.now + m.t2), refs := 0 }], m.pcs.length)
              let m1 := { m with pcs := pcs }
              let dup := (liveOn m1 p).any (fun (_, d) => d.ip == c.ip && d.port == c.port)
              if dup then
                -- the packet connection already has a TCP connection from this remote address
                let m' := { m1 with clients := setAt m1.clients k (fun c => { c with hasFirst := true }) }
                if !closedNow then fin m' (some "first frame: second connection from the same remote address was kept") else fin m' none
              else
                let m' := { m1 with clients := setAt m1.clients k (fun c =>
                  { c with hasFirst := true, target := some p, sent := [⟨fid, len⟩] }) }
                if closedNow then fin m' (some "first frame: valid STUN Binding with USERNAME in time, but the TCP connection was closed")
                else if !others.isEmpty then fin m' (some "first frame: attaching one connection closed another")
                else fin m' none
      | _, _, _ => fin m none
    | ["partial", k, _, _, _, _] =>
      match k.toNat? with
      | some k => fin { m with clients := setAt m.clients k (fun c => { c with done := true }) } none
      | none => fin m none
    | ["cclose", k] | ["creset", k] =>
      match k.toNat? with
      | some k => fin { m with clients := setAt m.clients k (fun c => { c with done := true, gone := true }) } none
      | none => fin m none
    | ["advance", dt] =>
      match dt.toNat? with
      | some dt => fin { m with now := m.now + dt } none
      | none => fin m none
    | ["getconn", u, v6, lip] =>
      match parseU u, lip.toNat?, parseH o.res with
      | some u, some lip, some h =>
        if h ≠ m.handles.length then fin m (some "getconn: unexpected handle number") else
        if m.closeCalled then fin m (some "close: GetConnByUfrag succeeded after Close") else
        let v6 := v6 == "1"
        match findOpen m.pcs u v6 lip with
        | some p =>
          fin { m with pcs := setAt m.pcs p (fun pc => { pc with expires := none, refs := pc.refs + 1 }),
                       handles := m.handles ++ [{ pc := p }] } none
        | none =>
          fin { m with pcs := m.pcs ++ [{ ufrag := u, v6 := v6, lip := lip, provisional := false, expires := none, refs := 1 }],
                       handles := m.handles ++ [{ pc := m.pcs.length }] } none
      | _, _, _ => fin m none
    | ["remove", u] =>
      match parseU u with
      | some u => fin { m with pcs := closeWhere m.pcs (fun pc => pc.ufrag == u) } none
      | none => fin m none
    | ["closeh", h] =>
      match (parseH h).bind (fun h => (m.handles[h]?).map (h, ·)) with
      | some (h, hd) =>
        if hd.closed then fin m none else
        let m1 := { m with handles := setAt m.handles h (fun hd => { hd with closed := true }) }
        match m1.pcs[hd.pc]? with
        | some pc =>
          let m2 := { m1 with pcs := setAt m1.pcs hd.pc (fun pc => { pc with refs := pc.refs - 1 }) }
          if pc.refs ≤ 1 then fin { m2 with pcs := closeRec m2.pcs hd.pc } none else fin m2 none
        | none => fin m1 none
      | none => fin m none
    | ["closepc", h] =>
      match (parseH h).bind (fun h => m.handles[h]?) with
      | some hd => fin { m with pcs := closeRec m.pcs hd.pc } none
      | none => fin m none
    | ["write", h, ip, port, pid, len] =>
      match (parseH h).bind (fun h => m.handles[h]?), ip.toNat?, port.toNat?, len.toNat? with
      | some hd, some ip, some port, some len =>
        let want := if len < 4 then "-" else pid
        let tgt := if hd.closed then [] else (liveOn m hd.pc).filter (fun (_, c) => c.ip == ip && c.port == port)
        if o.res.startsWith "n=" then
          match tgt, o.outs with
          | [(k, _)], [(k', id)] =>
            if k ≠ k' then fin m (some "reply path: the reply went out on another TCP connection") true
            else if id ≠ want then fin m (some "reply path: the reply's payload is not what was written") true
            else if o.res ≠ s!"n={len}" then fin m (some "reply path: wrong byte count") true
            else fin m none true
          | [], _ => fin m (some "reply path: write succeeded although no open TCP connection with that address is routed to this packet connection") true
          | _, _ => fin m (some "reply path: a successful write must appear on exactly one TCP connection") true
        else
          if !o.outs.isEmpty then fin m (some "reply path: a failed write reached a client") true
          else if !tgt.isEmpty then fin m (some "reply path: write failed although the TCP connection with that address is open and routed to this packet connection") true
          else fin m none true
      | _, _, _, _ => fin m none
    | ["read", h] =>
      match (parseH h).bind (fun h => m.handles[h]?) with
      | none => fin m none
      | some hd =>
        match o.res.splitOn " " with
        | ["pkt", addr, id, len] =>
          if hd.closed then fin m (some "order and source: a closed handle returned a packet") else
          match addr.splitOn ":", len.toNat? with
          | [ip, port], some len =>
            -- a connection routed to this packet connection, with that address, whose NEXT unread frame is
            -- this one (open connections are tried first: frames of a closed one may legitimately be lost)
            let all := ((List.range m.clients.length).filterMap (fun k => (m.clients[k]?).map (k, ·))).filter
              (fun (_, c) => c.target == some hd.pc && toString c.ip == ip && toString c.port == port)
            let isNext (c : MClient) : Bool := match c.sent[c.nread]? with
              | some f => f.len == len && (len < 4 || toString f.fid == id)
              | none => false
            let cands := (all.filter (fun (_, c) => !c.closed && isNext c)) ++ (all.filter (fun (_, c) => c.closed && isNext c))
            match cands with
            | (k, _) :: _ => fin { m with clients := setAt m.clients k (fun c => { c with nread := c.nread + 1 }) } none
            | [] =>
              if all.isEmpty then fin m (some "order and source: packet from an address that no TCP connection routed to this packet connection has")
              else fin m (some "order and source: not the next frame of a connection routed here from that address (out of order, duplicated, altered or lost)")
          | _, _ => fin m (some "order and source: unparsable source address")
        | ["empty"] =>
          if hd.closed then fin m none else
          -- nothing to read: every frame of every open connection routed here has been delivered
          if (liveOn m hd.pc).any (fun (_, c) => c.nread < c.sent.length) && isOpenPc m hd.pc then
            fin m (some "order and source: nothing to read although an open TCP connection routed here has undelivered frames")
          else fin m none
        | _ => fin m none
    | ["closemux"] =>
      if m.closeCalled then fin m none else
      let m := { m with closeCalled := true, closeTime := m.now, pcs := closeWhere m.pcs (fun _ => true) }
      -- Close closes every packet connection, hence every routed TCP connection, before it waits
      if (List.range m.clients.length).any (fun k => match m.clients[k]? with
          | some c => c.target.isSome && !o.closed.contains k | none => false) then
        fin m (some "close: Close was called but a routed TCP connection is still open")
      else fin m none
    | ["end"] =>
      -- teardown performed by the harness: all handles closed, Close called, time advanced past both timeouts
      let m := { m with closeTime := if m.closeCalled then m.closeTime else m.now, closeCalled := true,
                        now := m.now + m.t1 + m.t2 + 1, pcs := closeWhere m.pcs (fun _ => true) }
      let v := if !o.res.startsWith "end ok" then some "close: after Close and both timeouts something is still alive" else always m (expire m) o false
      ({ m with active := false }, v)
    | _ => fin m none

end IceSpec.C15
