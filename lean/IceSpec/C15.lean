import IceSpec.LineProto
/-!
# Spec monitor for C15 — "TCP mux routes connections by ufrag and cleans up after itself"

Written from the property text, independently of `IceModel/TcpMux.lean`: it does not know about
goroutines, receive-channel capacity, blocked readers or wait groups.  It follows a session of the
`tcpmux` line protocol (operation + the OBSERVED output line) and keeps only what the text talks about:

* per client: peer address, local IP, when it was accepted, the first complete frame, the complete
  frames it sent, how many of them have been read, which packet connection it was routed to (and the
  order in which connections were routed);
* per packet connection (one record per incarnation): key (ufrag, family, local IP), provisional or
  not, alive deadline while unclaimed, number of open handles, open or not;
* per handle: its packet connection, closed or not.

The monitor proper is the typed function `observeT` (operation `MOp`, observed line `Line`); `observe`
is `observeT` after parsing the tokens and the output line.  `IceProps/C15.lean` proves that EVERY run
of the model is accepted by `observeT` (`C15_model_passes_monitor`); the driver runs `observe` on the
outputs of the implementation.

Clauses (returned text = first violated clause):
* **first frame**: a client's first complete frame attaches it iff it arrives before the first-bind
  deadline, is at most 512 bytes and is a STUN Binding with USERNAME; the target is the open packet
  connection for (ufrag before `:`, family of the peer, local IP), or a new provisional one; any other
  first frame gets the connection closed — and closes no other connection;
* **late**: a client with no complete first frame is closed once the first-bind timeout has elapsed;
* **order and source**: a packet read from a packet connection is the next unread frame of a client
  routed to it, carries that client's address; a read that finds nothing means that every frame of
  every still-open client routed there has been read;
* **reply path**: a successful write appears on exactly the TCP connection routed to that packet
  connection whose peer has that address, and nowhere else; it must succeed while that connection is
  open; a failed write appears nowhere; nothing is written to any client by any other operation;
* **provisional expires**: once the alive duration has elapsed without `GetConnByUfrag`, every TCP
  connection routed to the provisional packet connection is closed;
* **delivery**: a TCP connection routed to a packet connection that is still open is not closed by the
  mux unless its client closed, reset, or sent a frame larger than the 8192-byte read buffer;
* **close**: after `Close` was called the listener is closed and every routed TCP connection is closed;
  `Close` has returned only if every accepted TCP connection is closed and no goroutine of the mux is
  left; it cannot return before it was called; it has returned once first-bind timeout + alive
  duration have elapsed since the call.

Before fix F22 the mux's close watcher removed map entries by key in both family maps, so closing
one packet connection also closed the packet connection of the OTHER family with the same ufrag and
local IP (and, under concurrency, a newer connection under the same key). The monitor does not mirror
that: on such a tree the **delivery** clause fires (notes/C15.md, F22 / O1).
-/
namespace IceSpec.C15
open IceSpec.LineProto

structure MFrame where
  fid : Nat
  len : Nat
  deriving Repr, DecidableEq

structure MClient where
  ip : Nat
  port : Nat
  lip : Nat
  accepted : Bool
  deadline : Nat
  /-- a complete first frame has been sent -/
  hasFirst : Bool := false
  /-- packet-connection record it was routed to -/
  target : Option Nat := none
  /-- position in the order in which connections were routed (stamp taken when it was routed) -/
  seq : Nat := 0
  /-- complete frames sent since (and including) the first -/
  sent : List MFrame := []
  nread : Nat := 0
  /-- the client closed/reset or stopped mid-frame: it sends nothing more -/
  done : Bool := false
  /-- the client closed or reset its side, or sent a later frame larger than the 8192-byte read buffer:
  the mux may (must) drop the connection -/
  gone : Bool := false
  /-- observed closed by the mux -/
  closed : Bool := false
  deriving Repr, DecidableEq

structure MPc where
  ufrag : String
  v6 : Bool
  lip : Nat
  provisional : Bool
  /-- alive deadline while nobody has claimed it -/
  expires : Option Nat
  refs : Nat
  isOpen : Bool := true
  deriving Repr, DecidableEq

structure MHandle where
  pc : Nat
  closed : Bool := false
  deriving Repr, DecidableEq

structure Mon where
  active : Bool := false
  t1 : Nat := 0
  t2 : Nat := 0
  now : Nat := 0
  clients : List MClient := []
  pcs : List MPc := []
  handles : List MHandle := []
  /-- number of connections routed so far (next `MClient.seq`) -/
  stamp : Nat := 0
  closeCalled : Bool := false
  closeTime : Nat := 0
  returned : Bool := false
  deriving Repr, DecidableEq

/-! ## typed operations and observations -/

/-- the result part of an output line, as far as the clauses look at it -/
inductive ORes where
  | ok
  | noop
  /-- `h<n>`: a handle -/
  | handle (h : Nat)
  /-- `n=<bytes>` (`none`: the count is not a canonical number) -/
  | wrote (n : Option Nat)
  /-- `pkt <ip>:<port> <id> <len>`; `id` is the payload id as printed (`-` when the payload is too short to carry one) -/
  | pkt (ip port : Nat) (id : String) (len : Nat)
  /-- `pkt …` whose address or length cannot be read -/
  | pktBad
  | empty
  /-- `end ok…` -/
  | endOk
  | other
  deriving Repr, DecidableEq

/-- the observation part of an output line -/
structure Obs where
  res : ORes
  /-- TCP connections that are closed (mux side) -/
  closed : List Nat
  /-- replies that arrived at clients during this operation: (client, payload id as printed) -/
  outs : List (Nat × String)
  /-- goroutine census -/
  g : List Nat
  listenerClosed : Bool
  /-- `Close` has returned -/
  ret : Bool
  deriving Repr, DecidableEq

inductive Line where
  /-- `bad-op` / `no-session`: the operation was not performed -/
  | skip
  | garbled
  | obs (o : Obs)
  deriving Repr, DecidableEq

inductive MOp where
  /-- `new cap wbuf t1 t2` (timeouts as configured: 0 = default) -/
  | start (t1 t2 : Nat)
  /-- `multi …`, or a `new` that cannot be read: no session -/
  | reset
  | accept (ip port lip : Nat)
  /-- a complete frame; `user` = the text before the first `:` of the USERNAME if the frame is a STUN
  Binding message with USERNAME -/
  | frame (k fid : Nat) (user : Option String) (len : Nat)
  /-- the client stops in the middle of a frame -/
  | partialFrame (k : Nat)
  /-- the client closes or resets -/
  | cclose (k : Nat)
  | advance (dt : Nat)
  | getconn (ufrag : String) (v6 : Bool) (lip : Nat)
  | remove (ufrag : String)
  | closeh (h : Nat)
  | closepc (h : Nat)
  /-- `pid` = payload id as printed in the operation -/
  | write (h ip port : Nat) (pid : String) (len : Nat)
  | read (h : Nat)
  | closemux
  /-- `end`: teardown performed by the harness -/
  | finish
  | other
  deriving Repr, DecidableEq

/-! ## helpers -/

def timeoutOf (t : Nat) : Nat := if t = 0 then 30000 else t

def setAt {α : Type} (l : List α) (i : Nat) (f : α → α) : List α := l.modify i f

def closeOne (q : MPc) : MPc := if q.isOpen then { q with isOpen := false, expires := none } else q

/-- close record `p` (and nothing else: a packet connection is closed only for its own reasons) -/
def closeRec (pcs : List MPc) (p : Nat) : List MPc := pcs.modify p closeOne

def closeWhere (pcs : List MPc) (sel : MPc → Bool) : List MPc :=
  pcs.map (fun q => if sel q then closeOne q else q)

def findOpen (pcs : List MPc) (ufrag : String) (v6 : Bool) (lip : Nat) : Option Nat :=
  pcs.findIdx? (fun pc => pc.isOpen && pc.ufrag == ufrag && pc.v6 == v6 && pc.lip == lip)

/-- the ufrag a first frame routes by, as the property describes it -/
def routeUfrag (user : Option String) (len : Nat) : Option String :=
  if len > 512 then none else user

def isOpenPc (m : Mon) (p : Nat) : Bool := match m.pcs[p]? with | some pc => pc.isOpen | none => false

/-- the list with its indices -/
def indexed {α : Type} (l : List α) : List (Nat × α) :=
  (List.range l.length).filterMap (fun k => (l[k]?).map (k, ·))

/-- clients routed to record `p` whose TCP connection is not closed -/
def liveOn (m : Mon) (p : Nat) : List (Nat × MClient) :=
  (indexed m.clients).filter (fun x => x.2.target == some p && !x.2.closed)

/-- the next unread frame of `c` is the packet `(id, len)` -/
def isNext (c : MClient) (id : String) (len : Nat) : Bool :=
  match c.sent[c.nread]? with
  | some f => f.len == len && (decide (len < 4) || toString f.fid == id)
  | none => false

/-- take over the observed facts: which clients are closed -/
def absorb (m : Mon) (o : Obs) : Mon :=
  { m with clients := m.clients.mapIdx (fun k c => if o.closed.contains k then { c with closed := true } else c),
           returned := o.ret }

/-! the per-client conditions of the clauses that are checked after every operation (`closed` = the
observed set of closed TCP connections) -/

/-- client `k` was closed and is not closed any more -/
def clReopened (m : Mon) (closed : List Nat) (k : Nat) : Bool :=
  match m.clients[k]? with
  | some c => c.closed && !closed.contains k
  | none => false

/-- no complete first frame by the first-bind deadline, and still open -/
def clLate (m : Mon) (closed : List Nat) (k : Nat) : Bool :=
  match m.clients[k]? with
  | some c => c.accepted && !c.hasFirst && decide (c.deadline ≤ m.now) && !closed.contains k
  | none => false

/-- routed to a record whose alive deadline has passed, and still open -/
def clProvisional (m : Mon) (closed : List Nat) (k : Nat) : Bool :=
  match m.clients[k]? with
  | some c => (match c.target with
    | some p => (match m.pcs[p]? with
      | some pc => (match pc.expires with
        | some d => decide (d ≤ m.now) && !closed.contains k
        | none => false)
      | none => false)
    | none => false)
  | none => false

/-- closed by this operation although its client behaves and its record (in `me`) stays open -/
def clDelivery (m me : Mon) (closed : List Nat) (k : Nat) : Bool :=
  match m.clients[k]? with
  | some c => !c.closed && !c.gone && closed.contains k && (match c.target with
    | some p => (match me.pcs[p]? with | some pc => pc.isOpen | none => false)
    | none => false)
  | none => false

/-- accepted and still open -/
def clStillOpen (m : Mon) (closed : List Nat) (k : Nat) : Bool :=
  match m.clients[k]? with
  | some c => c.accepted && !closed.contains k
  | none => false

/-- clauses that are checked after every operation (`me` = `m` after the records whose alive deadline
has passed were closed) -/
def always (m me : Mon) (o : Obs) (allowOut : Bool) : Option String :=
  let n := m.clients.length
  -- a closed connection never reopens; ids are those of accepted clients
  if o.closed.any (fun k => k ≥ n) then some "closed set names an unknown client" else
  if (List.range n).any (clReopened m o.closed) then some "a closed TCP connection reopened" else
  -- late: no complete first frame by the first-bind deadline
  if (List.range n).any (clLate m o.closed) then
    some "late: no first frame within the first-bind timeout but the TCP connection is still open" else
  -- provisional expires
  if (List.range n).any (clProvisional m o.closed) then
    some "provisional: alive duration elapsed without GetConnByUfrag but a TCP connection routed there is still open" else
  -- delivery: a routed connection stays usable while its packet connection is open and its client behaves
  if (List.range n).any (clDelivery m me o.closed) then
    some "delivery: a TCP connection routed to an open packet connection was closed by the mux" else
  if !allowOut && !o.outs.isEmpty then some "reply path: data written to a client by an operation that is not a write" else
  -- close
  if m.closeCalled && !o.listenerClosed then some "close: Close was called but the listener is open" else
  if o.ret && !m.closeCalled then some "close: returned before it was called" else
  if m.returned && !o.ret then some "close: returned flag went back" else
  if o.ret && (List.range n).any (clStillOpen m o.closed) then
    some "close: Close returned but a TCP connection is still open" else
  if o.ret && o.g.any (· ≠ 0) then some "close: Close returned but goroutines of the mux are alive" else
  if m.closeCalled && !o.ret && decide (m.closeTime + m.t1 + m.t2 ≤ m.now) then
    some "close: Close has not returned although first-bind timeout + alive duration have elapsed since the call" else
  none

/-- the alive deadline of the record has passed -/
def expired (now : Nat) (pc : MPc) : Bool :=
  match pc.expires with
  | some d => decide (d ≤ now)
  | none => false

/-- records whose alive deadline has passed are closed (bookkeeping; the check is in `always`) -/
def expire (m : Mon) : Mon := { m with pcs := closeWhere m.pcs (expired m.now) }

/-- end of every observed operation: the clauses checked always, then the observed closures are taken over -/
def fin (o : Obs) (m : Mon) (v : Option String) (allowOut : Bool) : Mon × Option String :=
  let me := expire m
  let v := match v with | some x => some x | none => always m me o allowOut
  (absorb me o, v)

/-! ## the clauses of the single operations

`book` returns the monitor state after the bookkeeping for the operation, the violated clause of the
operation itself (if any), and whether the operation may write to clients. -/

def bookAccept (m : Mon) (o : Obs) (ip port lip : Nat) : Mon × Option String × Bool :=
  let acc := o.res == .ok
  let m := { m with clients := m.clients ++ [{ ip := ip, port := port, lip := lip, accepted := acc,
                                               deadline := m.now + m.t1, closed := !acc }] }
  (m, if m.closeCalled && acc then some "close: a connection was accepted after Close" else none, false)

/-- client `j` was not closed before this operation -/
def clOpenBefore (m : Mon) (j : Nat) : Bool :=
  match m.clients[j]? with
  | some d => !d.closed
  | none => true

/-- the connections other than `k` that this operation closed -/
def othersClosed (m : Mon) (o : Obs) (k : Nat) : List Nat :=
  o.closed.filter (fun j => j ≠ k && clOpenBefore m j)

/-- the open record for (ufrag, family, local IP), or a new provisional one -/
def ensureRec (m : Mon) (u : String) (v6 : Bool) (lip : Nat) : List MPc × Nat :=
  match findOpen m.pcs u v6 lip with
  | some p => (m.pcs, p)
  | none => (m.pcs ++ [{ ufrag := u, v6 := v6, lip := lip, provisional := true,
                         expires := some (m.now + m.t2), refs := 0 }], m.pcs.length)

/-- first complete frame that must be refused: late, oversized, not a STUN Binding, or without USERNAME -/
def bookReject (m : Mon) (o : Obs) (k : Nat) : Mon × Option String × Bool :=
  let m' := { m with clients := setAt m.clients k (fun c => { c with hasFirst := true }) }
  if !o.closed.contains k then (m', some "first frame: late, oversized, not a STUN Binding or without USERNAME, but the TCP connection stays open", false)
  else if !(othersClosed m o k).isEmpty then (m', some "first frame: rejecting one connection closed another", false)
  else (m', none, false)

/-- first complete frame, in time, of a STUN Binding with USERNAME `u:…` from client `k` (record `c`) -/
def bookRoute (m : Mon) (o : Obs) (k fid len : Nat) (c : MClient) (u : String) : Mon × Option String × Bool :=
  let pp := ensureRec m u (decide (2 ≤ c.ip)) c.lip
  let m1 := { m with pcs := pp.1 }
  let dup := (liveOn m1 pp.2).any (fun x => x.2.ip == c.ip && x.2.port == c.port)
  if dup then
    -- the packet connection already has a TCP connection from this remote address
    let m' := { m1 with clients := setAt m1.clients k (fun c => { c with hasFirst := true }) }
    if !o.closed.contains k then (m', some "first frame: second connection from the same remote address was kept", false) else (m', none, false)
  else
    let m' := { m1 with stamp := m1.stamp + 1, clients := setAt m1.clients k (fun c =>
      { c with hasFirst := true, target := some pp.2, seq := m1.stamp, sent := [⟨fid, len⟩] }) }
    if o.closed.contains k then (m', some "first frame: valid STUN Binding with USERNAME in time, but the TCP connection was closed", false)
    else if !(othersClosed m o k).isEmpty then (m', some "first frame: attaching one connection closed another", false)
    else (m', none, false)

/-- the first complete frame of an open, accepted connection -/
def bookFirst (m : Mon) (o : Obs) (k fid len : Nat) (c : MClient) (route : Option String) : Mon × Option String × Bool :=
  match route with
  | none => bookReject m o k
  | some u => bookRoute m o k fid len c u

def bookFrame (m : Mon) (o : Obs) (k fid : Nat) (user : Option String) (len : Nat) : Mon × Option String × Bool :=
  match m.clients[k]? with
  | none => (m, none, false)
  | some c =>
    if c.done || !c.accepted || o.res == .noop then (m, none, false) else
    if c.hasFirst then
      -- a later frame: remember it if the connection can still carry it
      if c.closed then (m, none, false) else
      ({ m with clients := setAt m.clients k (fun c =>
        { c with sent := c.sent ++ [⟨fid, len⟩], gone := c.gone || decide (8192 < len) }) }, none, false)
    else if c.closed then ({ m with clients := setAt m.clients k (fun c => { c with hasFirst := true }) }, none, false)
    else bookFirst m o k fid len c (if m.now < c.deadline then routeUfrag user len else none)

def bookGetconn (m : Mon) (o : Obs) (u : String) (v6 : Bool) (lip : Nat) : Mon × Option String × Bool :=
  match o.res with
  | .handle h =>
    if h ≠ m.handles.length then (m, some "getconn: unexpected handle number", false) else
    if m.closeCalled then (m, some "close: GetConnByUfrag succeeded after Close", false) else
    match findOpen m.pcs u v6 lip with
    | some p =>
      ({ m with pcs := setAt m.pcs p (fun pc => { pc with expires := none, refs := pc.refs + 1 }),
                handles := m.handles ++ [{ pc := p }] }, none, false)
    | none =>
      ({ m with pcs := m.pcs ++ [{ ufrag := u, v6 := v6, lip := lip, provisional := false, expires := none, refs := 1 }],
                handles := m.handles ++ [{ pc := m.pcs.length }] }, none, false)
  | _ => (m, none, false)

def bookCloseh (m : Mon) (h : Nat) : Mon × Option String × Bool :=
  match m.handles[h]? with
  | some hd =>
    if hd.closed then (m, none, false) else
    let m1 := { m with handles := setAt m.handles h (fun hd => { hd with closed := true }) }
    match m1.pcs[hd.pc]? with
    | some pc =>
      let m2 := { m1 with pcs := setAt m1.pcs hd.pc (fun pc => { pc with refs := pc.refs - 1 }) }
      if pc.refs ≤ 1 then ({ m2 with pcs := closeRec m2.pcs hd.pc }, none, false) else (m2, none, false)
    | none => (m1, none, false)
  | none => (m, none, false)

def bookWrite (m : Mon) (o : Obs) (h ip port : Nat) (pid : String) (len : Nat) : Mon × Option String × Bool :=
  match m.handles[h]? with
  | none => (m, none, false)
  | some hd =>
    let want := if len < 4 then "-" else pid
    let tgt := if hd.closed then [] else (liveOn m hd.pc).filter (fun x => x.2.ip == ip && x.2.port == port)
    match o.res with
    | .wrote n =>
      match tgt, o.outs with
      | [(k, _)], [(k', id)] =>
        if k ≠ k' then (m, some "reply path: the reply went out on another TCP connection", true)
        else if id ≠ want then (m, some "reply path: the reply's payload is not what was written", true)
        else if n ≠ some len then (m, some "reply path: wrong byte count", true)
        else (m, none, true)
      | [], _ => (m, some "reply path: write succeeded although no open TCP connection with that address is routed to this packet connection", true)
      | _, _ => (m, some "reply path: a successful write must appear on exactly one TCP connection", true)
    | _ =>
      if !o.outs.isEmpty then (m, some "reply path: a failed write reached a client", true)
      else if !tgt.isEmpty then (m, some "reply path: write failed although the TCP connection with that address is open and routed to this packet connection", true)
      else (m, none, true)

def bookRead (m : Mon) (o : Obs) (h : Nat) : Mon × Option String × Bool :=
  match m.handles[h]? with
  | none => (m, none, false)
  | some hd =>
    match o.res with
    | .pkt ip port id len =>
      if hd.closed then (m, some "order and source: a closed handle returned a packet", false) else
      -- the connections routed to this packet connection with that address, and among them those whose
      -- NEXT unread frame is this one. Connections from one address are routed to a packet connection one
      -- after the other (a second one is refused while the first is open), so their frames arrive in the
      -- order in which they were routed: the packet belongs to the EARLIEST routed candidate.
      let all := (indexed m.clients).filter (fun x => x.2.target == some hd.pc && x.2.ip == ip && x.2.port == port)
      let cands := all.filter (fun x => isNext x.2 id len)
      match cands.find? (fun x => cands.all (fun y => decide (x.2.seq ≤ y.2.seq))) with
      | some (k, _) => ({ m with clients := setAt m.clients k (fun c => { c with nread := c.nread + 1 }) }, none, false)
      | none =>
        if all.isEmpty then (m, some "order and source: packet from an address that no TCP connection routed to this packet connection has", false)
        else (m, some "order and source: not the next frame of a connection routed here from that address (out of order, duplicated, altered or lost)", false)
    | .pktBad => (m, some "order and source: unparsable source address", false)
    | .empty =>
      if hd.closed then (m, none, false) else
      -- nothing to read: every frame of every open connection routed here has been delivered
      if (liveOn m hd.pc).any (fun x => decide (x.2.nread < x.2.sent.length)) && isOpenPc m hd.pc then
        (m, some "order and source: nothing to read although an open TCP connection routed here has undelivered frames", false)
      else (m, none, false)
    | _ => (m, none, false)

/-- routed and still open -/
def clRoutedOpen (m : Mon) (closed : List Nat) (k : Nat) : Bool :=
  match m.clients[k]? with
  | some c => c.target.isSome && !closed.contains k
  | none => false

def bookClosemux (m : Mon) (o : Obs) : Mon × Option String × Bool :=
  if m.closeCalled then (m, none, false) else
  let m := { m with closeCalled := true, closeTime := m.now, pcs := closeWhere m.pcs (fun _ => true) }
  -- Close closes every packet connection, hence every routed TCP connection, before it waits
  if (List.range m.clients.length).any (clRoutedOpen m o.closed) then
    (m, some "close: Close was called but a routed TCP connection is still open", false)
  else (m, none, false)

def book (m : Mon) (op : MOp) (o : Obs) : Mon × Option String × Bool :=
  match op with
  | .accept ip port lip => bookAccept m o ip port lip
  | .frame k fid user len => bookFrame m o k fid user len
  | .partialFrame k => ({ m with clients := setAt m.clients k (fun c => { c with done := true }) }, none, false)
  | .cclose k => ({ m with clients := setAt m.clients k (fun c => { c with done := true, gone := true }) }, none, false)
  | .advance dt => ({ m with now := m.now + dt }, none, false)
  | .getconn u v6 lip => bookGetconn m o u v6 lip
  | .remove u => ({ m with pcs := closeWhere m.pcs (fun pc => pc.ufrag == u) }, none, false)
  | .closeh h => bookCloseh m h
  | .closepc h =>
    match m.handles[h]? with
    | some hd => ({ m with pcs := closeRec m.pcs hd.pc }, none, false)
    | none => (m, none, false)
  | .write h ip port pid len => bookWrite m o h ip port pid len
  | .read h => bookRead m o h
  | .closemux => bookClosemux m o
  | _ => (m, none, false)

/-- the `end` line: teardown performed by the harness (all handles closed, Close called, time advanced
past both timeouts) -/
def finish (m : Mon) (o : Obs) : Mon × Option String :=
  let m := { m with closeTime := if m.closeCalled then m.closeTime else m.now, closeCalled := true,
                    now := m.now + m.t1 + m.t2 + 1, pcs := closeWhere m.pcs (fun _ => true) }
  let v := if o.res ≠ .endOk then some "close: after Close and both timeouts something is still alive" else always m (expire m) o false
  ({ m with active := false }, v)

/-- One step of the monitor: the operation and the implementation's output line.  Returns the new
monitor state and the first violated clause, if any. -/
def observeT (m : Mon) (op : MOp) (l : Line) : Mon × Option String :=
  match op with
  | .start t1 t2 =>
    match l with
    | .obs o =>
      let m : Mon := { active := true, t1 := timeoutOf t1, t2 := timeoutOf t2 }
      (m, always m m o false)
    | _ => ({}, none)
  | .reset => ({}, none)
  | op =>
    if !m.active then (m, none) else
    match l with
    | .skip => (m, none)
    | .garbled => ({ m with active := false }, some "unparsable implementation output")
    | .obs o =>
      match op with
      | .finish => finish m o
      | op => let b := book m op o; fin o b.1 b.2.1 b.2.2

/-! ## reading and printing the line protocol

An output line is a list of tokens joined by single spaces: the tokens of the result, then
`; c=<closed> ; o=<replies> ; g=<census> ; L=<0|1> ; ret=<0|1>`.  `printObs` is the printer the driver
uses for the model's observations; `IceProps.C15.C15_view_roundtrip` proves that `parseLine` reads every
printed well-formed observation back. -/

/-- a number in its canonical decimal form -/
def canonNat (s : String) : Option Nat :=
  match s.toNat? with
  | some n => if toString n == s then some n else none
  | none => none

def parseNatList (s : String) : Option (List Nat) := parseNats ',' s

def parseOut (e : String) : Option (Nat × String) :=
  match splitC e ':' with
  | [k, id] => k.toNat?.map (·, id)
  | _ => none

def parseOuts (s : String) : Option (List (Nat × String)) :=
  if s = "" then some [] else (splitC s ',').mapM parseOut

def parseH (s : String) : Option Nat :=
  match s.toList with
  | 'h' :: r => (String.ofList r).toNat?
  | _ => none

def parseU (s : String) : Option String :=
  match s.toList with
  | 'U' :: r => some (String.ofList r)
  | _ => none

/-- the ufrag (USERNAME before the first `:`) of a frame built as a STUN Binding with USERNAME -/
def kindUser (kind : String) : Option String :=
  match kind.toList with
  | 'u' :: r => some (String.ofList r)
  | 'w' :: r => some (String.ofList r)
  | _ => none

/-- `pkt <ip>:<port> <id> <len>` -/
def parsePkt (addr id len : String) : ORes :=
  match splitC addr ':', len.toNat? with
  | [ip, port], some len =>
    match canonNat ip, canonNat port with
    | some ip, some port => .pkt ip port id len
    | _, _ => .pktBad
  | _, _ => .pktBad

/-- a result that is a single token -/
def parseRes1 (t : String) : ORes :=
  if t = "ok" then .ok else
  if t = "noop" then .noop else
  if t = "empty" then .empty else
  match tagged "n=" t with
  | some n => .wrote (canonNat n)
  | none =>
    match parseH t with
    | some h => .handle h
    | none => .other

/-- the result tokens of an output line -/
def parseRes (rt : List String) : ORes :=
  if rt.take 2 = ["end", "ok"] then .endOk else
  match rt with
  | [t] => parseRes1 t
  | [p, addr, id, len] => if p = "pkt" then parsePkt addr id len else .other
  | _ => .other

def parseFlag (pre s : String) : Option Bool := (tagged pre s).map (· == "1")

/-- the tokens of an output line, LAST token first -/
def parseObsRev (rev : List String) : Option Obs :=
  match rev with
  | r :: s5 :: l :: s4 :: g :: s3 :: o :: s2 :: c :: s1 :: res =>
    if s1 = ";" ∧ s2 = ";" ∧ s3 = ";" ∧ s4 = ";" ∧ s5 = ";" then
      match (tagged "c=" c).bind parseNatList, (tagged "o=" o).bind parseOuts,
            (tagged "g=" g).bind (fun x => (splitC x '/').mapM String.toNat?),
            parseFlag "L=" l, parseFlag "ret=" r with
      | some c, some o, some g, some l, some r =>
        some { res := parseRes res.reverse, closed := c, outs := o, g := g, listenerClosed := l, ret := r }
      | _, _, _, _, _ => none
    else none
  | _ => none

def parseObs (line : String) : Option Obs := parseObsRev (splitC line ' ').reverse

def parseLine (impl : String) : Line :=
  if impl = "bad-op" ∨ impl = "no-session" then .skip else
  match parseObs impl with
  | some o => .obs o
  | none => .garbled

def printFlag (b : Bool) : String := if b then "1" else "0"

def printOut (e : Nat × String) : String := joinC ':' [toString e.1, e.2]

/-- the tokens after the result -/
def obsToks (o : Obs) : List String :=
  [";", "c=" ++ printNats ',' o.closed, ";", "o=" ++ joinC ',' (o.outs.map printOut), ";", "g=" ++ printNats '/' o.g,
   ";", "L=" ++ printFlag o.listenerClosed, ";", "ret=" ++ printFlag o.ret]

/-- the output line for the observation `o` whose result is printed as the tokens `rt` -/
def printObs (rt : List String) (o : Obs) : String := joinC ' ' (rt ++ obsToks o)

/-- well-formed: what `printObs` can print so that it is read back — a non-empty census (the empty list
and the list `[""]` print alike) and payload ids without the separator characters -/
def Obs.wf (o : Obs) : Bool :=
  !o.g.isEmpty && o.outs.all (fun e => free ' ' e.2 && free ',' e.2 && free ':' e.2)

/-- operation tokens (without the component name) -/
def parseToks (toks : List String) : MOp :=
  match toks with
  | ["new", _cap, _wbuf, t1, t2] =>
    match t1.toNat?, t2.toNat? with
    | some t1, some t2 => .start t1 t2
    | _, _ => .reset
  | ["multi", _, _] => .reset
  | ["accept", _k, ip, port, lip] =>
    match ip.toNat?, port.toNat?, lip.toNat? with
    | some ip, some port, some lip => .accept ip port lip
    | _, _, _ => .other
  | ["frame", k, fid, kind, len] =>
    match k.toNat?, fid.toNat?, len.toNat? with
    | some k, some fid, some len => .frame k fid (kindUser kind) len
    | _, _, _ => .other
  | ["partial", k, _, _, _, _] =>
    match k.toNat? with
    | some k => .partialFrame k
    | none => .other
  | ["cclose", k] | ["creset", k] =>
    match k.toNat? with
    | some k => .cclose k
    | none => .other
  | ["advance", dt] =>
    match dt.toNat? with
    | some dt => .advance dt
    | none => .other
  | ["getconn", u, v6, lip] =>
    match parseU u, lip.toNat? with
    | some u, some lip => .getconn u (v6 == "1") lip
    | _, _ => .other
  | ["remove", u] =>
    match parseU u with
    | some u => .remove u
    | none => .other
  | ["closeh", h] =>
    match parseH h with
    | some h => .closeh h
    | none => .other
  | ["closepc", h] =>
    match parseH h with
    | some h => .closepc h
    | none => .other
  | ["write", h, ip, port, pid, len] =>
    match parseH h, ip.toNat?, port.toNat?, len.toNat? with
    | some h, some ip, some port, some len => .write h ip port pid len
    | _, _, _, _ => .other
  | ["read", h] =>
    match parseH h with
    | some h => .read h
    | none => .other
  | ["closemux"] => .closemux
  | ["end"] => .finish
  | _ => .other

/-- One step of the monitor on the line protocol: operation tokens (without the component name) and
the implementation's output line. -/
def observe (m : Mon) (toks : List String) (impl : String) : Mon × Option String :=
  observeT m (parseToks toks) (parseLine impl)

end IceSpec.C15
