import IceModel.TaskLoop
/-!
# Spec monitor for C10 (task loop: serial execution, exactly-once, close is final)

The property written as an executable monitor over an *observed history*: the sequence of events
seen at the boundary of `taskloop.Loop` (calls, returns, the start and end of every submitted task,
the two callbacks).  It uses only the event vocabulary (`Ev`, `RunRes`) of `IceModel.TaskLoop`, nothing of its
transition system: the same monitor is
(a) proved to accept the event trace of EVERY execution of the model (`IceProps.C10`) and
(b) evaluated by the driver on the histories recorded from the real `Loop` (`Driver.TaskLoop`).

Clauses (property text of C10):
* M1  at most one task executes at a time;
* M2  a `Run` returns nil iff its task started and finished exactly once before the return
      (and it never starts again afterwards);
* M3  a `Run` returns an error iff its task never ran (it never starts later either);
* M4  no task starts after any `Close` has returned;
* M5  `onClose` runs exactly once: after the last task (none is executing, none starts later) and
      before any `Close` returns (it has even finished by then).
Plus sanity clauses about the history itself (an event of a call that was never made, two returns of
one call, a context error without a cancellation, `ErrClosed` without any `Close` call, …).
-/
namespace IceSpec.C10
open IceModel.TaskLoop (Ev RunRes)

/-- Monitor state: what has been seen so far. -/
structure M where
  submitted : Nat → Bool := fun _ => false
  cancelled : Nat → Bool := fun _ => false
  starts : Nat → Nat := fun _ => 0
  ends : Nat → Nat := fun _ => 0
  ret : Nat → Option RunRes := fun _ => none
  running : Option Nat := none
  closeCalled : Nat → Bool := fun _ => false
  closeRet : Nat → Bool := fun _ => false
  anyCloseCalled : Bool := false
  anyCloseRet : Bool := false
  onclose : Nat := 0
  oncloseEnd : Nat := 0
  prestop : Nat := 0

def M.init : M := {}

def setAt {α : Type} (f : Nat → α) (i : Nat) (v : α) : Nat → α := fun x => if x = i then v else f x

/-- One event. `.error why` = the first violated clause. -/
def mstep (m : M) : Ev → Except String M
  | .submit i =>
    if m.submitted i then .error "history: Run call id used twice"
    else .ok { m with submitted := setAt m.submitted i true }
  | .cancel i => .ok { m with cancelled := setAt m.cancelled i true }
  | .taskStart i =>
    if !m.submitted i then .error "history: a task starts whose Run was never called"
    else if m.running.isSome then .error "M1 two tasks execute at the same time"
    else if m.starts i ≠ 0 then .error "M2 a task started twice"
    else if (m.ret i).isSome then .error "M2/M3 a task starts after its Run returned"
    else if m.anyCloseRet then .error "M4 a task starts after a Close returned"
    else if m.onclose ≠ 0 then .error "M5 a task starts after onClose ran"
    else .ok { m with starts := setAt m.starts i (m.starts i + 1), running := some i }
  | .taskEnd i =>
    if m.running ≠ some i then .error "M1 a task ends that is not the one executing"
    else .ok { m with ends := setAt m.ends i (m.ends i + 1), running := none }
  | .runReturn i r =>
    if !m.submitted i then .error "history: a Run returns that was never called"
    else if (m.ret i).isSome then .error "history: a Run returns twice"
    else if r = .nil ∧ ¬ (m.starts i = 1 ∧ m.ends i = 1) then
      .error "M2 Run returned nil but its task did not run to completion exactly once before"
    else if r ≠ .nil ∧ m.starts i ≠ 0 then .error "M3 Run returned an error but its task ran"
    else if r = .ctx ∧ m.cancelled i = false then .error "Run returned the context error of a context nobody cancelled"
    else if r = .closed ∧ m.anyCloseCalled = false then .error "Run returned ErrClosed but Close was never called"
    else .ok { m with ret := setAt m.ret i (some r) }
  | .closeCall j =>
    if m.closeCalled j then .error "history: Close call id used twice"
    else .ok { m with closeCalled := setAt m.closeCalled j true, anyCloseCalled := true }
  | .prestopRun =>
    if m.prestop ≠ 0 then .error "preStop ran twice"
    else if m.anyCloseCalled = false then .error "preStop ran but Close was never called"
    else if m.anyCloseRet then .error "preStop ran after a Close returned"
    else .ok { m with prestop := m.prestop + 1 }
  | .oncloseRun =>
    if m.onclose ≠ 0 then .error "M5 onClose ran twice"
    else if m.running.isSome then .error "M5 onClose ran while a task is executing"
    else if m.anyCloseCalled = false then .error "M5 onClose ran but Close was never called"
    else .ok { m with onclose := m.onclose + 1 }
  | .oncloseEnd =>
    if m.onclose = 0 then .error "history: onClose returns that never started"
    else if m.oncloseEnd ≠ 0 then .error "M5 onClose returned twice"
    else .ok { m with oncloseEnd := m.oncloseEnd + 1 }
  | .closeReturn j =>
    if !m.closeCalled j then .error "history: a Close returns that was never called"
    else if m.closeRet j then .error "history: a Close returns twice"
    else if m.onclose = 0 then .error "M5 Close returned before onClose ran"
    else if m.oncloseEnd = 0 then .error "M5 Close returned before onClose finished"
    else if m.running.isSome then .error "M5 Close returned while a task is executing"
    else .ok { m with closeRet := setAt m.closeRet j true, anyCloseRet := true }

/-- Run the monitor from state `m` over a history. -/
def mrun (m : M) : List Ev → Except String M
  | [] => .ok m
  | e :: es => match mstep m e with
    | .ok m' => mrun m' es
    | .error why => .error why

/-- `none` = the history satisfies C10; `some why` = first violated clause. -/
def monitor (h : List Ev) : Option String :=
  match mrun M.init h with
  | .ok _ => none
  | .error why => some why

/-- End-of-history clauses (only meaningful for a COMPLETE history, i.e. one recorded after every
call has returned): every Run returned, every Close returned, and if a Close returned then `onClose` ran. -/
def completeViolation (h : List Ev) (nSub nClose : Nat) : Option String :=
  match mrun M.init h with
  | .error why => some why
  | .ok m =>
    if (List.range nSub).any (fun i => m.submitted i && (m.ret i).isNone) then some "complete history: a Run never returned"
    else if (List.range nClose).any (fun j => m.closeCalled j && !m.closeRet j) then some "complete history: a Close never returned"
    else if m.running.isSome then some "complete history: a task is still executing"
    else none

-- Sanity: the monitor accepts a plain run and rejects each clause's canonical counterexample.
example : monitor [.submit 0, .taskStart 0, .taskEnd 0, .runReturn 0 .nil,   .closeCall 0, .oncloseRun, .oncloseEnd, .closeReturn 0] = none := by decide
example : (monitor [.submit 0, .submit 1, .taskStart 0, .taskStart 1]).isSome = true := by decide
example : (monitor [.submit 0, .taskStart 0, .runReturn 0 .nil]).isSome = true := by decide
example : (monitor [.submit 0, .runReturn 0 .nil]).isSome = true := by decide
example : (monitor [.submit 0, .cancel 0, .taskStart 0, .taskEnd 0, .runReturn 0 .ctx]).isSome = true := by decide
example : (monitor [.submit 0, .cancel 0, .runReturn 0 .ctx, .taskStart 0]).isSome = true := by decide
example : (monitor [.submit 0, .closeCall 0, .oncloseRun, .oncloseEnd, .closeReturn 0, .taskStart 0]).isSome = true := by decide
example : (monitor [.closeCall 0, .closeReturn 0]).isSome = true := by decide
example : (monitor [.closeCall 0, .oncloseRun, .closeReturn 0]).isSome = true := by decide
example : (monitor [.closeCall 0, .oncloseRun, .oncloseRun]).isSome = true := by decide
example : (monitor [.submit 0, .closeCall 0, .taskStart 0, .oncloseRun]).isSome = true := by decide

end IceSpec.C10
