import IceModel.UniMux
import IceSpec.C12
/-!
# Spec monitor for C12 on the universal mux (`UniversalUDPMuxDefault`)

The property text: "every inbound datagram is handed to at most one connection: the one that most
recently wrote to the datagram's source address, or, for an unseen source, the one registered under the
ufrag …; anything else is dropped … to the right agent and to no other".  The universal layer is one more
consumer on the shared socket (it answers the `GetXORMappedAddr` calls of ALL agents from one per-server
table), so the text is read as follows:

* the layer may take ONLY what is addressed to itself — the success response, carrying a well-formed
  XOR-MAPPED-ADDRESS, whose transaction id is that of a discovery request the layer sent to that source
  and that is still unanswered (`answerOf`).  Taking anything else (`uni_consume`) hands a datagram that
  belongs to a connection — or to nobody — to the agents waiting on the table;
* a datagram is handed to at most one consumer: what the layer takes is not delivered to a connection as
  well (`uni_both`);
* everything the layer does not take is dispatched by THE RULE of `IceSpec.C12` whatever its source
  (`dispatch`, `no_cross_ufrag`, `after_removal`, `faithful` — the base monitor runs unchanged on the
  embedded mux's view of the trace);
* nothing addressed to the layer is lost: the answer is recorded under its source, every call blocked on
  that server returns exactly the address the answer carried, no call returns an address no answer
  carried, none stays blocked past its deadline or times out before it (`uni_answer`).

Two readings, selected by the flag `strict` of the history state:

* `strict = true` (the state `UState.init`; the theorems of `IceProps.C12` are about this one): all clauses above;
* `strict = false` (what `./check C12` runs by default): the LETTER of C12 — the base clauses on EVERY datagram,
  whether the layer took it or not (every datagram reaches the connection THE RULE names, nothing owed is
  dropped) — plus the clauses about the layer doing its job (`uni_answer`: the answer is taken and recorded
  under its source, blocked calls are released with the recorded address, deadlines).  `uni_consume` (what else
  the layer takes) and `uni_both` are not verdicts there: the unchanged code trips them (observations U1/U2,
  counted by the harness as statistics).

Only the vocabulary is shared with the models; the monitor keeps its own history (requests outstanding per
transport address, calls in flight, the last answer per transport address) keyed by the spec's own
`endpoint`.
-/
namespace IceSpec.C12Uni
open IceModel.UdpMux (Name Addr Kind Op Out)
open IceModel.UniMux (Cls TidSel XA XView WRes Fx UMain UOut UOp)
open IceSpec.C12 (SState EP endpoint fupd)

structure UState where
  base : SState
  /-- strict reading (see above) -/
  strict : Bool := true
  now : Nat
  /-- the latest discovery request sent to the transport address is unanswered -/
  outstanding : EP → Bool
  /-- mapped address carried by the latest answer taken from the transport address -/
  lastVal : EP → Option Nat
  /-- `GetXORMappedAddr` calls so far: ids `0 .. nw-1` -/
  nw : Nat
  wsrv : Nat → EP
  wdeadline : Nat → Nat
  wdone : Nat → Bool

def UState.init : UState :=
  { base := SState.init, strict := true, now := 0, outstanding := fun _ => false, lastVal := fun _ => none, nw := 0,
    wsrv := fun _ => endpoint default, wdeadline := fun _ => 0, wdone := fun _ => true }

inductive Verdict where
  | ok
  /-- a clause of the base monitor `IceSpec.C12` -/
  | base (why : String)
  /-- a clause about the universal layer -/
  | uni (why : String)
  deriving DecidableEq, Repr

def Verdict.toOption : Verdict → Option String
  | .ok => none
  | .base w => some w
  | .uni w => some w

def ofBase : Option String → Verdict
  | none => .ok
  | some w => .base w

/-- first verdict that is not `ok` -/
def Verdict.orElse : Verdict → Verdict → Verdict
  | .ok, b => b
  | a, _ => a

def clConsume : String := "uni_consume: "
def clBoth : String := "uni_both: "
def clAnswer : String := "uni_answer: "

def isDecodable : Kind → Bool
  | .stunUser _ => true
  | .stunNoUser => true
  | _ => false

/-- the mapped address, if the datagram is addressed to the universal layer: the success response with a
well-formed XOR-MAPPED-ADDRESS to the layer's own, still unanswered discovery request to that source (a closed
mux reads nothing) -/
def answerOf (s : UState) (src : Addr) (k : Kind) (x : XView) : Option Nat :=
  if s.base.muxClosed = false ∧ isDecodable k ∧ x.cls = .success ∧ x.tid = .own ∧ s.outstanding (endpoint src) = true then
    match x.xa with
    | .value v => some v
    | _ => none
  else none

def whyNot (s : UState) (src : Addr) (k : Kind) (x : XView) : String :=
  if s.base.muxClosed then "the mux is closed"
  else if !isDecodable k then "not a decodable STUN message"
  else if x.cls ≠ .success then "not a success response"
  else if x.tid ≠ .own then "its transaction id is that of no discovery request sent to this source"
  else if !s.outstanding (endpoint src) then "no discovery request to this source is unanswered"
  else "no well-formed XOR-MAPPED-ADDRESS"

def showRes : WRes → String
  | .ok v => "ok:" ++ toString v
  | .timeout => "timeout"
  | .noMap => "nomap"
  | .writeErr => "werr"

def showVal : Option Nat → String
  | some v => toString v
  | none => "none"

/-- the calls that returned during one operation: each is a call in flight; `ok v` carries the address of
the latest answer taken from its server; a timeout is not early -/
def wokeV (s : UState) : List (Nat × WRes) → UState × Verdict
  | [] => (s, .ok)
  | (w, r) :: rest =>
    let v : Verdict :=
      if w ≥ s.nw then .uni (clAnswer ++ "unknown call x" ++ toString w ++ " returned")
      else if s.wdone w then .uni (clAnswer ++ "call x" ++ toString w ++ " returned twice")
      else match r with
        | .ok a =>
          if s.lastVal (s.wsrv w) = some a then .ok
          else .uni (clAnswer ++ "x" ++ toString w ++ " returned mapped address " ++ toString a ++
                     ", the server's answer carried " ++ showVal (s.lastVal (s.wsrv w)))
        | .timeout =>
          if s.wdeadline w ≤ s.now then .ok
          else .uni (clAnswer ++ "x" ++ toString w ++ " timed out before its deadline")
        | _ => .ok
    let (s1, v1) := wokeV { s with wdone := fupd s.wdone w true } rest
    (s1, v.orElse v1)

/-- no call stays blocked past its deadline -/
def overdueV (s : UState) : Verdict :=
  match (List.range s.nw).find? (fun i => !s.wdone i && decide (s.wdeadline i ≤ s.now)) with
  | some i => .uni (clAnswer ++ "x" ++ toString i ++ " is still blocked after its deadline")
  | none => .ok

/-- no call on transport address `e` stays blocked once the answer was taken -/
def unansweredV (s : UState) (e : EP) : Verdict :=
  match (List.range s.nw).find? (fun i => !s.wdone i && decide (s.wsrv i = e)) with
  | some i => .uni (clAnswer ++ "x" ++ toString i ++ " is still blocked although its server's answer was taken")
  | none => .ok

/-- the answer is recorded under its source with its value -/
def recordedV (src : Addr) (v : Nat) (key : Addr) (v' : Nat) : Verdict :=
  if endpoint key ≠ endpoint src then .uni (clConsume ++ "the answer was recorded under another server address")
  else if v' ≠ v then .uni (clAnswer ++ "the recorded mapped address differs from the one in the answer")
  else .ok

/-- verdict on one inbound datagram (before the returned calls are looked at) -/
def inboundV (s : UState) (src : Addr) (k : Kind) (x : XView) (o : Out) (fx : Fx) : Verdict :=
  let consumed := fx.learned.isSome || !fx.woke.isEmpty
  let bv := IceSpec.C12.inboundVerdict s.base src k o
  match answerOf s src k x with
  | none =>
    if s.strict then
      if consumed then
        .uni (clConsume ++ "the universal layer took a datagram that is not the answer to a pending discovery request of its own ("
              ++ whyNot s src k x ++ ")")
      else ofBase bv
    else
      -- the letter of C12: dispatched by THE RULE whatever the layer does with it
      (ofBase bv).orElse
        (match fx.learned with
         | some (key, _) =>
           if endpoint key ≠ endpoint src then .uni (clConsume ++ "a mapped address was recorded under another address than the datagram's source")
           else .ok
         | none => .ok)
  | some v =>
    match fx.learned with
    | none => .uni (clAnswer ++ "the answer to the pending discovery request was not taken")
    | some (key, v') =>
      if s.strict then
        if endpoint key ≠ endpoint src then .uni (clConsume ++ "the answer was recorded under another server address")
        else if v' ≠ v then .uni (clAnswer ++ "the recorded mapped address differs from the one in the answer")
        else match o with
          | .dropped => .ok
          | .delivered c =>
            match bv with
            | some w => .base w
            | none => .uni (clBoth ++ "the answer to the layer's own discovery request was also delivered to c" ++ toString c)
          | _ => ofBase bv
      else (ofBase bv).orElse (recordedV src v key v')

/-- fx of an operation that is not a datagram: the table does not change -/
def noLearnV (fx : Fx) : Verdict :=
  if fx.learned.isSome then .uni (clConsume ++ "a mapped address was recorded without a datagram") else .ok

/-- One observation: next history state and the verdict. -/
def step (s : UState) : UOp → UOut → UState × Verdict
  | .inbound src k x pid, { main := .base o, fx := fx } =>
    let v0 := inboundV s src k x o fx
    let legit : Option Nat :=
      match answerOf s src k x, fx.learned with
      | some v, some (key, v') => if endpoint key = endpoint src ∧ v' = v then some v else none
      | _, _ => none
    -- what the table now holds for this source: strictly only an answer; by the letter whatever was recorded
    let taken : Option Nat :=
      if s.strict then legit
      else match fx.learned with
        | some (key, v') => if endpoint key = endpoint src then some v' else none
        | none => none
    let e := endpoint src
    let s1 : UState := { s with base := (IceSpec.C12.step s.base (.inbound src k pid) o).1 }
    let s2 : UState :=
      match taken with
      | some v => { s1 with outstanding := if legit.isSome then fupd s1.outstanding e false else s1.outstanding,
                            lastVal := fupd s1.lastVal e (some v) }
      | none => s1
    let (s3, v1) := wokeV s2 fx.woke
    let v2 := match taken with
      | some _ => unansweredV s3 e
      | none => .ok
    (s3, v0.orElse (v1.orElse (v2.orElse (overdueV s3))))
  | .base op, { main := .base o, fx := fx } =>
    let (b, bv) := IceSpec.C12.step s.base op o
    let v0 : Verdict :=
      match op with
      | .inbound src k _ =>
        -- a datagram without the attribute: nothing for the layer
        if fx.learned.isSome || !fx.woke.isEmpty then inboundV s src k XView.plain o fx else ofBase bv
      | _ => (ofBase bv).orElse (noLearnV fx)
    let (s1, v1) := wokeV { s with base := b } fx.woke
    (s1, v0.orElse (v1.orElse (overdueV s1)))
  | .getConnForURL u url v6, { main := .base o, fx := fx } =>
    let (b, bv) := IceSpec.C12.step s.base (.getConn (u ++ url) v6) o
    let (s1, v1) := wokeV { s with base := b } fx.woke
    (s1, (ofBase bv).orElse ((noLearnV fx).orElse (v1.orElse (overdueV s1))))
  | .xorStart srv d, { main := .started w sent, fx := fx } =>
    let e := endpoint srv
    let v0 : Verdict := if w ≠ s.nw then .uni (clAnswer ++ "call id is not fresh") else .ok
    let s1 : UState :=
      { s with nw := s.nw + 1, wsrv := fupd s.wsrv s.nw e, wdeadline := fupd s.wdeadline s.nw (s.now + d),
               wdone := fupd s.wdone s.nw false,
               outstanding := if sent then fupd s.outstanding e true else s.outstanding }
    let (s2, v1) := wokeV s1 fx.woke
    (s2, v0.orElse ((noLearnV fx).orElse (v1.orElse (overdueV s2))))
  | .tick dt, { main := .ticked, fx := fx } =>
    let (s1, v1) := wokeV { s with now := s.now + dt } fx.woke
    (s1, (noLearnV fx).orElse (v1.orElse (overdueV s1)))
  | _, _ => (s, .uni (clAnswer ++ "unexpected output"))

def verdicts : UState → List (UOp × UOut) → List Verdict
  | _, [] => []
  | s, (op, o) :: t => let (s1, v) := step s op o; v :: verdicts s1 t

def stateAfter : UState → List (UOp × UOut) → UState
  | s, [] => s
  | s, (op, o) :: t => stateAfter (step s op o).1 t

/-- first violation of a trace, if any -/
def monitor (t : List (UOp × UOut)) : Option String :=
  (verdicts UState.init t).findSome? Verdict.toOption

end IceSpec.C12Uni
