/-!
# C08 — spec monitor over an observed history (independent of the model)

The history of one session is a sequence of events with virtual timestamps (milliseconds):
API call / return (kind, error class), handler enter / exit, release of held handlers, and — at quiescent
points — a digest of the agent (`done` closed, Closed state reached, number of local / remote candidates),
finally the goroutine census of the bubble.

`Mon.event`, `Mon.tick`, `Mon.digest`, `Mon.finish` return the first violated clause of the property
(`some reason`) or `none`.  Clauses:

 (B)  every Close / GracefulClose returns within `bound` of its call (time during which the TEST holds a handler of
      that agent blocked does not count for GracefulClose, which by contract waits for handlers);
 (U)  a call of a blocking kind (read, write, await, dial, accept) pending when the agent's FIRST Close returns
      returns within `bound` of that moment, and with an error (an await / dial / accept of an agent that had already
      been reported Connected may still deliver its success);
 (U') a Write pending when a Close is CALLED and woken while that Close is still in progress (abortIO interrupts the
      socket before Close returns, and a socket's Close may be slow) obeys the same rule for its result: an error,
      never `(0, nil)` / a short count without error — the harness reports that as `other:short_write…` (the sockets
      of the harness fail a write only when Close aborts it);
 (L)  every call made after the first Close has returned returns within `bound`; state-dependent kinds report
      the closed error;
 (E)  … and has no effect: the agent keeps zero local and remote candidates;
 (S)  Closed is the last state handed to the state handler (no state after Closed; at the end Closed was delivered);
 (G)  when a GracefulClose returns no handler of that agent is running, and none is invoked later;
 (C)  census: the bubble ended with no live goroutine, no panic, no watchdog; no call is still pending.
-/
namespace IceSpec.C08

def bound : Nat := 10000

inductive Ev where
  | call (id : Nat) (ag : String) (kind : String) (t : Nat)
  | ret (id : Nat) (err : String) (t : Nat)
  | hEnter (ag : String) (stream : Nat) (ev : String) (mode : String) (t : Nat)
  | hExit (ag : String) (stream : Nat) (ev : String) (t : Nat)
  | release (ag : String) (t : Nat)
  deriving Repr, Inhabited

structure Call where
  id : Nat
  ag : String
  kind : String
  t : Nat
  /-- the agent's first Close had already returned when this call was made -/
  late : Bool
  deriving Repr, Inhabited

structure Ag where
  name : String
  /-- time at which the first Close / GracefulClose on this agent returned -/
  closedAt : Option Nat := none
  /-- a Close / GracefulClose of this agent has been called (from the API or from a handler) -/
  closing : Bool := false
  gclosed : Bool := false
  lastState : Option String := none
  /-- a handler has been told Connected / a selected pair (so AwaitConnect had been satisfied) -/
  connected : Bool := false
  /-- handlers currently running (entered, not exited) -/
  running : Nat := 0
  /-- of which: held by the test in mode `block` -/
  held : Nat := 0
  /-- last time `held` dropped to 0 -/
  unheldAt : Nat := 0
  deriving Repr, Inhabited

structure Mon where
  calls : List Call := []
  ags : List Ag := []
  deriving Repr, Inhabited

def isClose (k : String) : Bool := k == "close" || k == "gclose" || k == "hclose" || k == "hgclose"
def isGraceful (k : String) : Bool := k == "gclose" || k == "hgclose"
def baseKind (k : String) : String := (k.splitOn ":").headD ""
/-- calls that block until something happens: must come back with an error once the agent is closed -/
def isBlockingKind (k : String) : Bool :=
  let b := baseKind k
  b == "read" || b == "write" || b == "await" || b == "dial" || b == "accept"
/-- calls whose result depends on agent state: after Close they report the closed error -/
def isStateKind (k : String) : Bool :=
  let b := baseKind k
  ["read", "write", "await", "dial", "accept", "start", "cand", "getlocal", "getremote", "restart", "gather", "creds",
   "selected", "hgetlocal", "hrestart"].contains b

def Mon.ag (m : Mon) (n : String) : Ag := (m.ags.find? (·.name == n)).getD { name := n }
def Mon.setAg (m : Mon) (a : Ag) : Mon :=
  if m.ags.any (·.name == a.name) then { m with ags := m.ags.map (fun x => if x.name == a.name then a else x) }
  else { m with ags := m.ags ++ [a] }

/-- one event; `(new monitor, violation)`. -/
def Mon.event (m : Mon) : Ev → Mon × Option String
  | .call id ag kind t =>
    let a := m.ag ag
    let m1 : Mon := { m with calls := m.calls ++ [{ id, ag, kind, t, late := a.closedAt.isSome }] }
    (if isClose kind && !a.closing then m1.setAg { a with closing := true } else m1, none)
  | .ret id err t =>
    match m.calls.find? (·.id == id) with
    | none => (m, some s!"return of unknown call {id}")
    | some c =>
      let m1 : Mon := { m with calls := m.calls.filter (·.id != id) }
      let a := m1.ag c.ag
      if isClose c.kind then
        -- (B)
        let start := if isGraceful c.kind then max c.t a.unheldAt else c.t
        if t > start + bound then (m1, some s!"(B) {c.kind} #{id} returned after {t - start} ms > {bound}")
        else if err != "ok" then (m1, some s!"(B) {c.kind} #{id} returned error {err}")
        else if isGraceful c.kind && a.running > (if c.kind == "hgclose" then 1 else 0) then
          (m1, some s!"(G) {c.kind} #{id} returned while {a.running} handler(s) of {c.ag} are running")
        else
          let a' := { a with closedAt := some (a.closedAt.getD t), gclosed := a.gclosed || isGraceful c.kind }
          (m1.setAg a', none)
      else if c.late then
        -- (L)
        if t > c.t + bound then (m1, some s!"(L) {c.kind} #{id} called after Close returned after {t - c.t} ms")
        else if isStateKind c.kind && err != "closed" then
          (m1, some s!"(L) {c.kind} #{id} called after Close returned {err}, expected the closed error")
        else (m1, none)
      else
        match a.closedAt with
        | some t0 =>
          -- (U) pending at the moment the first Close returned
          if t > t0 + bound then (m1, some s!"(U) {c.kind} #{id} returned {t - t0} ms after Close")
          else if isBlockingKind c.kind && err == "ok" && !(a.connected && (baseKind c.kind == "await" || baseKind c.kind == "dial" || baseKind c.kind == "accept")) then
            (m1, some s!"(U) blocked {c.kind} #{id} returned without error after Close had returned")
          else if isBlockingKind c.kind && err.startsWith "other:short_write" then
            (m1, some s!"(U) blocked {c.kind} #{id} returned (0, nil) after Close had returned: {err}")
          else (m1, none)
        | none =>
          -- (U') woken by a Close that has not returned yet
          if a.closing && isBlockingKind c.kind && err.startsWith "other:short_write" then
            (m1, some s!"(U) blocked {c.kind} #{id} returned (0, nil) while Close was in progress: {err}")
          else (m1, none)
  | .hEnter ag stream ev mode t =>
    let a := m.ag ag
    if a.gclosed then (m, some s!"(G) handler {ag}{stream}:{ev} invoked at {t} after GracefulClose had returned")
    else if stream == 0 && a.lastState == some "Closed" then
      (m, some s!"(S) state {ev} notified after Closed")
    else
      let a' := { a with running := a.running + 1, held := a.held + (if mode == "block" then 1 else 0),
                         lastState := if stream == 0 then some ev else a.lastState,
                         connected := a.connected || (stream == 0 && ev == "Connected") || stream == 2 }
      (m.setAg a', none)
  | .hExit ag _ _ _ =>
    let a := m.ag ag
    (m.setAg { a with running := a.running - 1 }, none)
  | .release ag t =>
    let a := m.ag ag
    (m.setAg { a with held := 0, unheldAt := if a.held > 0 then t else a.unheldAt }, none)

/-- virtual time has reached `now`: deadlines of the pending calls. -/
def Mon.tick (m : Mon) (now : Nat) : Option String :=
  m.calls.findSome? fun c =>
    let a := m.ag c.ag
    if isClose c.kind then
      if isGraceful c.kind && a.held > 0 then none
      else
        let start := if isGraceful c.kind then max c.t a.unheldAt else c.t
        if now > start + bound then some s!"(B) {c.kind} #{c.id} of {c.ag} has not returned {now - start} ms after its call" else none
    else if c.late then
      if now > c.t + bound then some s!"(L) {c.kind} #{c.id} called after Close has not returned after {now - c.t} ms" else none
    else match a.closedAt with
      | some t0 =>
        if now > t0 + bound then some s!"(U) {c.kind} #{c.id} of {c.ag} still blocked {now - t0} ms after Close returned" else none
      | none => none

/-- digest of agent `ag` at a quiescent point: `(done, closedState, nLocal, nRemote)`. -/
def Mon.digest (m : Mon) (ag : String) (done closedState : Bool) (nl nr : Nat) : Option String :=
  let a := m.ag ag
  if a.closedAt.isSome && !(done && closedState) then some s!"(E) {ag}: Close returned but done={done} closed-state={closedState}"
  else if a.closedAt.isSome && (nl != 0 || nr != 0) then some s!"(E) {ag}: {nl} local / {nr} remote candidates after Close"
  else none

/-- end of the session. -/
def Mon.finish (m : Mon) (census : String) : Option String :=
  if census != "ok" then some s!"(C) census: {census}"
  else match m.calls.head? with
    | some c => some s!"(C) {c.kind} #{c.id} of {c.ag} never returned"
    | none =>
      m.ags.findSome? fun a =>
        if a.closedAt.isSome && a.lastState != some "Closed" then
          some s!"(S) {a.name}: last notified state is {a.lastState.getD "none"}, not Closed"
        else if a.running != 0 then some s!"(G) {a.name}: {a.running} handler(s) still running at the end"
        else none

end IceSpec.C08
