import IceModel.UdpMux
/-!
# Spec monitor for C12 — "UDP mux delivers each datagram to the right agent and to no other"

Written from the property text, independently of the model's routing tables: the monitor keeps a
HISTORY view — who wrote last to a transport address, which connection `GetConn` handed out for a
(ufrag, family) and whether it has since been removed / closed / reaped — and decides from it, for
every inbound datagram, the one connection that may receive it.  Only the vocabulary (`Addr`, `Kind`,
`Op`, `Out`) is shared with `IceModel.UdpMux`; nothing here reads the model's state or calls its
functions (the transport address of a raw source is computed by MAPPING IPv4 INTO `::ffff:0:0/96`,
the opposite direction of the code's `Unmap`; the ufrag is cut out of the USERNAME by a separate
recursion).

The same `step` is (a) proved to accept every trace of the model (`IceProps/C12.lean`) and (b) run by
the driver on the outputs of the implementation.
-/
namespace IceSpec.C12
open IceModel.UdpMux (Name IP Addr Kind Op Out)

/-! ## transport address of a raw source / destination -/

def pow32 : Nat := 4294967296
def pow48 : Nat := 281474976710656

/-- A transport address: the 128-bit value, the zone where a zone identifies an interface, the port. -/
structure EP where
  hi : Nat
  lo : Nat
  zone : Name
  port : Nat
  deriving DecidableEq, Repr

/-- the 128-bit value a raw IP denotes; a 4-byte address `a.b.c.d` denotes `::ffff:a.b.c.d`. -/
def to16 (ip : IP) : Nat × Nat :=
  if ip.is4 then (0, 65535 * pow32 + ip.lo % pow32) else (ip.hi, ip.lo)

/-- `fe80::/10` or `ffx2::/16`. -/
def linkLocal (hl : Nat × Nat) : Bool :=
  (hl.1 / pow48) &&& 0xffc0 == 0xfe80 || (hl.1 / pow48) &&& 0xff0f == 0xff02

/-- the value lies in `::ffff:0:0/96`, i.e. it is an IPv4 address. -/
def isV4Value (hl : Nat × Nat) : Bool := hl.1 == 0 && hl.2 / pow32 == 65535

def endpoint (a : Addr) : EP :=
  let hl := to16 a.ip
  { hi := hl.1, lo := hl.2, zone := if linkLocal hl then a.ip.zone else [], port := a.port }

/-- IP family of the transport address of a source. -/
def srcIsV6 (a : Addr) : Bool := !isV4Value (to16 a.ip)

/-- the text before the first `:` of a USERNAME. -/
def ufragOf : Name → Name
  | [] => []
  | c :: r => if c = 58 then [] else c :: ufragOf r

/-! ## history state -/

structure SState where
  /-- handles handed out so far: ids `0 .. nh-1` -/
  nh : Nat
  hconn : Nat → Option Nat
  hopen : Nat → Bool
  /-- connections seen so far: ids `0 .. nc-1` -/
  nc : Nat
  /-- (ufrag, isIPv6) the connection was handed out for -/
  ckey : Nat → Name × Bool
  closed : Nat → Bool
  removed : Nat → Bool
  /-- the close watcher of the (closed or removed) connection has run -/
  reaped : Nat → Bool
  /-- connection currently registered for (ufrag, family) -/
  reg : Name → Bool → Option Nat
  /-- the connection that most recently wrote to the transport address -/
  lastW : EP → Option Nat
  /-- datagrams delivered to the connection and not yet read, oldest first: (payload id, raw source) -/
  queue : Nat → List (Nat × Addr)
  muxClosed : Bool

def SState.init : SState :=
  { nh := 0, hconn := fun _ => none, hopen := fun _ => false, nc := 0, ckey := fun _ => ([], false),
    closed := fun _ => false, removed := fun _ => false, reaped := fun _ => false,
    reg := fun _ _ => none, lastW := fun _ => none, queue := fun _ => [], muxClosed := false }

/-- number of open handles on connection `c`. -/
def openHandles (s : SState) (c : Nat) : Nat :=
  (List.range s.nh).countP (fun h => s.hconn h == some c && s.hopen h)

/-- the connection registered under the ufrag of the USERNAME for the family of the source,
if the payload is a decodable STUN message with a USERNAME and that connection is not closed. -/
def byUfrag (s : SState) (src : Addr) : Kind → Option Nat
  | .stunUser n =>
    match s.reg (ufragOf n) (srcIsV6 src) with
    | some c => if s.closed c then none else some c
    | none => none
  | _ => none

/-- THE RULE: the one connection an inbound datagram may be handed to.
* the connection that most recently wrote to the source's transport address, as long as it is
  neither removed nor closed;
* a removed connection, and a closed connection once its watcher has run, own no address binding:
  the source counts as unseen;
* a closed connection whose watcher has not run yet still holds the binding and receives nothing:
  the datagram is dropped;
* unseen source: by ufrag (see `byUfrag`); anything else is dropped. -/
def expected (s : SState) (src : Addr) (k : Kind) : Option Nat :=
  if s.muxClosed then none else
  match s.lastW (endpoint src) with
  | some c =>
    if s.removed c then byUfrag s src k
    else if s.closed c then (if s.reaped c then byUfrag s src k else none)
    else some c
  | none => byUfrag s src k

def showOpt : Option Nat → String
  | some c => "c" ++ toString c
  | none => "nobody"

/-- clause names (prefix of every violation text) -/
def clDispatch : String := "dispatch: "
def clCross : String := "no_cross_ufrag: "
def clAfter : String := "after_removal: "
def clFaithful : String := "faithful: "

/-- verdict on one inbound datagram -/
def inboundVerdict (s : SState) (src : Addr) (k : Kind) (o : Out) : Option String :=
  let e := expected s src k
  match o with
  | .delivered c =>
    if e = some c then none
    else if s.removed c then
      some (clAfter ++ "removed connection c" ++ toString c ++ " received a datagram (owed to " ++ showOpt e ++ ")")
    else if s.closed c then
      some (clAfter ++ "closed connection c" ++ toString c ++ " received a datagram")
    else if s.lastW (endpoint src) = some c then
      some (clDispatch ++ "delivered to c" ++ toString c ++ " but owed to " ++ showOpt e)
    else
      match k with
      | .stunUser n =>
        if (s.ckey c).1 ≠ ufragOf n then
          some (clCross ++ "c" ++ toString c ++ " received traffic for another ufrag from an unseen source (owed to " ++ showOpt e ++ ")")
        else some (clDispatch ++ "delivered to c" ++ toString c ++ " but owed to " ++ showOpt e)
      | _ => some (clDispatch ++ "delivered to c" ++ toString c ++ " but owed to " ++ showOpt e)
  | .dropped =>
    match e with
    | none => none
    | some c => some (clDispatch ++ "dropped although owed to c" ++ toString c)
  | _ => some (clDispatch ++ "inbound datagram: unexpected output")

def setReg (reg : Name → Bool → Option Nat) (u : Name) (f : Bool) (v : Option Nat) : Name → Bool → Option Nat :=
  fun u' f' => if u' = u ∧ f' = f then v else reg u' f'

def fupd {α β : Type} [DecidableEq α] (g : α → β) (i : α) (v : β) : α → β := fun j => if j = i then v else g j

/-- mark the connection registered under (u, f), if any, as removed and forget the registration -/
def removeOne (s : SState) (u : Name) (f : Bool) : SState :=
  match s.reg u f with
  | some c => { s with removed := fupd s.removed c true, reg := setReg s.reg u f none }
  | none => s

/-- registered right now: the registration of its own key still points to it -/
def registeredNow (s : SState) (c : Nat) : Bool := s.reg (s.ckey c).1 (s.ckey c).2 == some c

/-- One observation `(operation, output)`: next history state and the first violated clause. -/
def step (s : SState) : Op → Out → SState × Option String
  | .getConn u v6, .conn h c =>
    let v : Option String :=
      if h ≠ s.nh then some (clDispatch ++ "GetConn: handle id is not fresh")
      else if c > s.nc then some (clDispatch ++ "GetConn: unknown connection id")
      else if c < s.nc ∧ s.reg u v6 ≠ some c then
        some (clCross ++ "GetConn handed out c" ++ toString c ++ ", which is not the connection registered for this ufrag and family")
      else none
    let isNew := decide (c = s.nc)
    let s1 : SState :=
      if isNew then
        { s with nc := s.nc + 1, ckey := fupd s.ckey c (u, v6), closed := fupd s.closed c false,
                 removed := fupd s.removed c false, reaped := fupd s.reaped c false, queue := fupd s.queue c [] }
      else s
    ({ s1 with nh := h + 1, hconn := fupd s1.hconn h (some c), hopen := fupd s1.hopen h true,
               reg := setReg s1.reg u v6 (some c) }, v)
  | .getConn _ _, _ => (s, none)
  | .writeTo h dst, o =>
    if o = .wrote ∨ o = .errSock then
      match s.hconn h with
      | some c => ({ s with lastW := fupd s.lastW (endpoint dst) (some c) }, none)
      | none => (s, some (clDispatch ++ "write through an unknown handle succeeded"))
    else (s, none)
  | .inbound src k pid, o =>
    let v := inboundVerdict s src k o
    match o with
    | .delivered c => ({ s with queue := fupd s.queue c (s.queue c ++ [(pid, src)]) }, v)
    | _ => (s, v)
  | .removeByUfrag u, _ => (removeOne (removeOne s u false) u true, none)
  | .closeHandle h, _ =>
    match s.hconn h with
    | some c =>
      if s.hopen h then
        let s1 : SState := { s with hopen := fupd s.hopen h false }
        if openHandles s1 c = 0 then
          ({ s1 with closed := fupd s1.closed c true, queue := fupd s1.queue c [] }, none)
        else (s1, none)
      else (s, none)
    | none => (s, none)
  | .watcherRun c, _ =>
    if c < s.nc ∧ (s.closed c ∨ s.removed c) then ({ s with reaped := fupd s.reaped c true }, none) else (s, none)
  | .closeMux, _ =>
    if s.muxClosed then (s, none) else
    ({ s with
       closed := fun c => s.closed c || (decide (c < s.nc) && registeredNow s c)
       queue := fun c => if decide (c < s.nc) && registeredNow s c then [] else s.queue c
       reg := fun _ _ => none
       muxClosed := true }, none)
  | .read h, o =>
    match s.hconn h with
    | none => (s, match o with
        | .pkt _ _ => some (clFaithful ++ "read through an unknown handle returned a datagram")
        | _ => none)
    | some c =>
      match o with
      | .pkt pid src =>
        match s.queue c with
        | (pid', src') :: rest =>
          ({ s with queue := fupd s.queue c rest },
            if pid ≠ pid' then some (clFaithful ++ "payload differs from the next delivered datagram (bytes or order)")
            else if src ≠ src' then some (clFaithful ++ "source address differs from the datagram's true source")
            else none)
        | [] => (s, some (clFaithful ++ "read returned a datagram that was not delivered to this connection"))
      | .empty =>
        (s, if s.hopen h ∧ ¬ s.closed c ∧ s.queue c ≠ [] then some (clFaithful ++ "a delivered datagram was lost") else none)
      | _ => (s, none)

/-- Run the monitor over a trace: list of verdicts, one per observation. -/
def verdicts : SState → List (Op × Out) → List (Option String)
  | _, [] => []
  | s, (op, o) :: t => let (s1, v) := step s op o; v :: verdicts s1 t

/-- history state after a trace -/
def stateAfter : SState → List (Op × Out) → SState
  | s, [] => s
  | s, (op, o) :: t => stateAfter (step s op o).1 t

/-- first violation of a trace, if any -/
def monitor (t : List (Op × Out)) : Option String :=
  (verdicts SState.init t).findSome? id

end IceSpec.C12
