import IceSpec.C10
/-!
# The history tokens of the `taskloop` recorder (C10): reader, printer, string monitor

`parseTok` reads one token of a recorded history (`s<i>` submit, `n<p>.<i>` nested submit, `x<i>` cancel,
`b<i>` / `e<i>` task start / end, `r<i>:n|c|k|?` Run returned, `c<j>:0|1` Close call (with preStop),
`p`, `o`, `O` callbacks, `d<j>` Close returned); `printH` is the canonical printed form.
`monitorToks` is the monitor the driver runs on the tokens of the implementation (for a history that
is not marked complete / hung).  `IceProps.C10.C10_view_roundtrip`: every typed event is read back;
`C10_model_passes_string_monitor`: the printed trace of every execution of the model is accepted.
-/
namespace IceSpec.C10.View
open IceModel.TaskLoop IceSpec.C10

/-- Recorded event (as `Ev`, plus who made a nested call). -/
inductive HEv where
  | submit (i : Nat) | nested (p i : Nat) | cancel (i : Nat) | tstart (i : Nat) | tend (i : Nat)
  | ret (i : Nat) (r : Option RunRes) | ccall (j : Nat) (pre : Bool) | prestop | onclose | oncloseEnd | cret (j : Nat)
  deriving Inhabited, DecidableEq, Repr

def natOfChars (cs : List Char) : Option Nat :=
  if cs.isEmpty then none else
  cs.foldl (fun acc c => match acc with
    | none => none
    | some n => if c.isDigit then some (n * 10 + (c.toNat - '0'.toNat)) else none) (some 0)

def splitAt (sep : Char) (cs : List Char) : List Char × List Char :=
  (cs.takeWhile (· != sep), (cs.dropWhile (· != sep)).drop 1)

def parseTok (t : String) : Option HEv :=
  match t.toList with
  | ['p'] => some .prestop
  | ['o'] => some .onclose
  | ['O'] => some .oncloseEnd
  | 's' :: r => (natOfChars r).map .submit
  | 'x' :: r => (natOfChars r).map .cancel
  | 'b' :: r => (natOfChars r).map .tstart
  | 'e' :: r => (natOfChars r).map .tend
  | 'd' :: r => (natOfChars r).map .cret
  | 'n' :: r =>
    let (a, b) := splitAt '.' r
    match natOfChars a, natOfChars b with
    | some p, some i => some (.nested p i)
    | _, _ => none
  | 'r' :: r =>
    let (a, b) := splitAt ':' r
    match natOfChars a, b with
    | some i, ['n'] => some (.ret i (some RunRes.nil))
    | some i, ['c'] => some (.ret i (some RunRes.ctx))
    | some i, ['k'] => some (.ret i (some RunRes.closed))
    | some i, ['?'] => some (.ret i none)
    | _, _ => none
  | 'c' :: r =>
    let (a, b) := splitAt ':' r
    match natOfChars a, b with
    | some j, ['0'] => some (.ccall j false)
    | some j, ['1'] => some (.ccall j true)
    | _, _ => none
  | _ => none

/-- The observable event the spec monitor sees. `none` for a Run that returned an unknown error. -/
def toEv : HEv → Option Ev
  | .submit i => some (.submit i)
  | .nested _ i => some (.submit i)
  | .cancel i => some (.cancel i)
  | .tstart i => some (.taskStart i)
  | .tend i => some (.taskEnd i)
  | .ret i (some r) => some (.runReturn i r)
  | .ret _ none => none
  | .ccall j _ => some (.closeCall j)
  | .prestop => some .prestopRun
  | .onclose => some .oncloseRun
  | .oncloseEnd => some .oncloseEnd
  | .cret j => some (.closeReturn j)


def retNone : HEv → Bool
  | .ret _ none => true
  | _ => false

/-- the monitor on a parsed history (`complete`: the recorder saw every call return) -/
def monitorEvs (complete : Bool) (nSub nClose : Nat) (evs : List HEv) : Option String :=
  if evs.any retNone then some "Run returned an error that is neither ctx.Err() nor ErrClosed"
  else
    let h := evs.filterMap toEv
    if complete then completeViolation h nSub nClose else monitor h

/-- the string monitor on the tokens of a history that is not marked complete -/
def monitorToks (toks : List String) : Option String :=
  match toks.mapM parseTok with
  | none => some "unparsable history token"
  | some evs => monitorEvs false 0 0 evs

def digs (n : Nat) : List Char := Nat.toDigits 10 n

def resChar : Option RunRes → Char
  | some .nil => 'n' | some .ctx => 'c' | some .closed => 'k' | none => '?'

/-- canonical token of a recorded event -/
def printH : HEv → String
  | .submit i => String.ofList ('s' :: digs i)
  | .nested p i => String.ofList ('n' :: digs p ++ '.' :: digs i)
  | .cancel i => String.ofList ('x' :: digs i)
  | .tstart i => String.ofList ('b' :: digs i)
  | .tend i => String.ofList ('e' :: digs i)
  | .ret i r => String.ofList ('r' :: digs i ++ [':', resChar r])
  | .ccall j pre => String.ofList ('c' :: digs j ++ [':', if pre then '1' else '0'])
  | .prestop => "p"
  | .onclose => "o"
  | .oncloseEnd => "O"
  | .cret j => String.ofList ('d' :: digs j)

/-- the recorded event that shows the observable event `e` -/
def hevOf : Ev → HEv
  | .submit i => .submit i
  | .cancel i => .cancel i
  | .taskStart i => .tstart i
  | .taskEnd i => .tend i
  | .runReturn i r => .ret i (some r)
  | .closeCall j => .ccall j false
  | .prestopRun => .prestop
  | .oncloseRun => .onclose
  | .oncloseEnd => .oncloseEnd
  | .closeReturn j => .cret j

end IceSpec.C10.View
