import IceSpec.C12Conc
import IceModel.UniMux
/-!
# C12, tie A for the universal layer — spec monitor of recorded CONCURRENT executions of `UniversalUDPMuxDefault`

The recorder (harness component `udpmuxuniconc`) runs the real universal mux inside one `testing/synctest` bubble and
stamps every call and return from one atomic counter; every event also carries the virtual time (ms).  A history is

* the part the embedded mux is judged on — connections, writes, closes, fed datagrams, reads — exactly the history of
  `IceSpec.C12Conc` (a connection obtained through `GetConnForURL(ufrag, url)` is registered under `ufrag ++ url`), judged by
  `IceSpec.C12Conc.check`: every delivered datagram went to at most one connection, the right one, byte-identical, true
  source, per-connection order, nothing after removal — on EVERY datagram, also the ones the layer looked at;
* the `GetXORMappedAddr` calls (`XCall`), judged by the layer clauses below.  Only types of the model are used
  (`XView`, `WRes`, `canonAddr`, `decodable`), none of its transitions.

Layer clauses (about one completed call `c`, server `c.srv`, deadline `c.d`):

* `uni_deadline`  it returned no later than `c.d` after it was called (virtual time);
* `uni_timeout`   the timeout error is returned AT the deadline, not before;
* `uni_answer`    an address `v` it returned was carried by a decodable STUN datagram with XOR-MAPPED-ADDRESS `v` from ITS
                  server's transport address that arrived before the call returned and either while the call was waiting
                  or no longer than the cache lifetime before the call;
* `uni_no_mapping` `errNoXorAddrMapping` is only returned when ANOTHER call on the same server was made before the return
                  (only such a call retires an expired entry and releases the calls blocked on it);
* `uni_closed`    a call made after `Close` returned neither waits nor sends: it returns at once (virtual time), with the
                  write error or an address (still cached).
-/
namespace IceSpec.C12UniConc
open IceModel.UdpMux (Addr Kind canonAddr)
open IceModel.UniMux (XView XA WRes decodable)

structure XCall where
  w : Nat
  srv : Addr
  d : Nat
  call : Nat
  callVt : Nat
  /-- result, stamp, virtual time of the return -/
  ret : Option (WRes × Nat × Nat) := none

/-- what the layer could see of a fed datagram, and when -/
structure XFeed where
  pid : Nat
  src : Addr
  kind : Kind
  x : XView
  t0 : Nat
  t1 : Nat
  vt : Nat

structure Hist where
  base : IceSpec.C12Conc.Hist := {}
  ttl : Nat := 25000
  calls : List XCall := []
  feeds : List XFeed := []
  /-- call stamp, return stamp, virtual time of `Close` -/
  close : Option (Nat × Nat × Nat) := none
  /-- a result token the recorder could not classify -/
  junk : Option String := none

def carries (f : XFeed) (srv : Addr) (v : Nat) : Bool :=
  decodable f.kind && decide (f.x.xa = .value v) && decide (canonAddr f.src = canonAddr srv)

def checkCall (h : Hist) (c : XCall) : Option String :=
  match c.ret with
  | none => some "uni_deadline: a GetXORMappedAddr call never returned"
  | some (res, ret, retVt) =>
    if retVt > c.callVt + c.d then some "uni_deadline: a GetXORMappedAddr call returned after its deadline"
    else
    let afterClose : Bool := match h.close with
      | some (_, cret, _) => decide (cret < c.call)
      | none => false
    if afterClose && (retVt != c.callVt || res == .timeout || res == .noMap) then
      some "uni_closed: a GetXORMappedAddr call made after Close waited or returned neither the write error nor an address"
    else
    match res with
    | .timeout =>
      if retVt < c.callVt + c.d then some "uni_timeout: the timeout error was returned before the deadline" else none
    | .ok v =>
      if h.feeds.any (fun f => carries f c.srv v && decide (f.t0 < ret) &&
            (decide (f.t1 > c.call) || decide (c.callVt ≤ f.vt + h.ttl))) then none
      else some "uni_answer: a call returned an address no response from its server carried while it waited or within the cache lifetime"
    | .noMap =>
      if h.calls.any (fun c2 => c2.w != c.w && decide (canonAddr c2.srv = canonAddr c.srv) && decide (c2.call < ret)) then none
      else some "uni_no_mapping: errNoXorAddrMapping without another call on the server that could have retired the entry"
    | .writeErr =>
      if retVt ≠ c.callVt then some "uni_closed: the write error was returned by a call that had waited" else none

def showCall (c : XCall) : String := " [call " ++ toString c.w ++ "]"

def checkCalls (h : Hist) : List XCall → Option String
  | [] => none
  | c :: rest =>
    match checkCall h c with
    | some v => some (v ++ showCall c)
    | none => checkCalls h rest

def check (h : Hist) : Option String :=
  match h.junk with
  | some j => some ("uni_answer: unclassified result of GetXORMappedAddr: " ++ j)
  | none =>
    match IceSpec.C12Conc.check h.base with
    | some v => some v
    | none => checkCalls h h.calls

end IceSpec.C12UniConc
