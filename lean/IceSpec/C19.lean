import IceModel.Rewrite
/-!
# Spec for C19 (address rewrite rules map addresses as documented)

The DOCUMENTED behaviour (doc comments of `WithAddressRewriteRules` and `AddressRewriteRule` in
agent_options.go / external_ip_mapper.go), written over the rules AS THE USER WROTE THEM and
independently of the model: no compiled per-family maps, no running "best so far" — a rule either
is in scope for a lookup key or not; the first in-scope rule with an explicit `Local` match wins;
otherwise, among the in-scope catch-alls, the first one of maximal specificity.

Only the data types (`IP`, `CIDR`, `Rule`, `Res`, `Kind`, `Entry`) and the prefix test
`CIDR.contains` are shared with the model.
-/
namespace IceSpec.C19
open IceModel.Rewrite

/-- A lookup: candidate type code, local address, interface name (`""` = none given). -/
structure Key where
  ct : Nat
  ip : IP
  iface : String
  deriving DecidableEq, Repr, Inhabited

/-- "AsCandidateType … Defaults to host when unspecified." -/
def docType (r : Rule) : Nat := if r.ctype = 0 then 1 else r.ctype

/-- "If Mode is zero, the default is: host → replace; srflx, relay → append." -/
def docMode (r : Rule) : Nat :=
  if r.mode ≠ 0 then r.mode else if docType r = 1 then 1 else 2

/-- Family of a network type: udp4/tcp4 → IPv4, udp6/tcp6 → IPv6. -/
def famOfNet? : Nat → Option Bool
  | 1 => some true
  | 3 => some true
  | 2 => some false
  | 4 => some false
  | _ => none

/-- "Networks is the optional networks to limit the rule to, nil/empty = all." -/
def netsAllow (r : Rule) (v4 : Bool) : Bool :=
  r.nets.isEmpty || r.nets.any (fun n => famOfNet? n == some v4)

/-- "Iface is the optional interface name to limit the rule to, empty = any." -/
def ifaceOK (r : Rule) (k : Key) : Bool := r.iface == "" || r.iface == k.iface

/-- "CIDR is the optional CIDR to limit the rule to, empty = any." -/
def cidrOK (r : Rule) (k : Key) : Bool :=
  match r.cidr with
  | .ok c => c.contains k.ip
  | _ => true

/-- The rule's interface, CIDR, network family and candidate type match the key. -/
def inScope (r : Rule) (k : Key) : Bool :=
  docType r == k.ct && ifaceOK r k && cidrOK r k && netsAllow r k.ip.v4

def externals (r : Rule) : List IP :=
  r.ext.filterMap (fun t => match t with
    | .ok ip => some ip
    | _ => none)

/-- "Local optionally pins this rule to a specific local address. When set, external IPs map to
that address regardless of IP family." -/
def isExplicit (r : Rule) (k : Key) : Bool := inScope r k && r.loc == .ok k.ip

def hasCIDR (r : Rule) : Bool :=
  match r.cidr with
  | .ok _ => true
  | _ => false

/-- "When [Local is] empty, External acts as a catch-all for the family implied by the local scope
(CIDR when set, otherwise the external IP family)."  "Empty External rules are intentional."
`none`: the rule is not a catch-all for this key. -/
def catchAllIPs (r : Rule) (k : Key) : Option (List IP) :=
  match r.loc with
  | .none =>
    if r.ext.isEmpty then some []
    else if hasCIDR r then some (externals r)
    else
      let l := (externals r).filter (fun e => e.v4 == k.ip.v4)
      if l.isEmpty then none else some l
  | _ => none

/-- "iface+CIDR > iface-only > CIDR-only > global". -/
def rank (r : Rule) : Nat :=
  match r.iface != "", hasCIDR r with
  | true, true => 3
  | true, false => 2
  | false, true => 1
  | false, false => 0

/-- The two clauses in which the code is allowed to be compared against a variant reading. -/
structure Clauses where
  rank : Rule → Key → Nat
  caIPs : Rule → Key → Option (List IP)

def isCatchAllWith (c : Clauses) (r : Rule) (k : Key) : Bool := inScope r k && (c.caIPs r k).isSome

def topRank (c : Clauses) (k : Key) (cands : List Rule) : Nat :=
  cands.foldl (fun m r => max m (c.rank r k)) 0

/-- "explicit Local matches win immediately. Otherwise, the most specific catch-all is chosen …,
with declaration order breaking ties at the same specificity." -/
def lookupWith (c : Clauses) (rules : List Rule) (k : Key) : Res :=
  match rules.find? (fun r => isExplicit r k) with
  | some r => { ips := externals r, matched := true, mode := docMode r }
  | none =>
    let cands := rules.filter (fun r => isCatchAllWith c r k)
    match cands.find? (fun r => c.rank r k == topRank c k cands) with
    | some r => { ips := (c.caIPs r k).getD [], matched := true, mode := docMode r }
    | none => Res.noMatch

def docClauses : Clauses := { rank := fun r _ => rank r, caIPs := catchAllIPs }

/-- THE documented lookup result. -/
def documented (rules : List Rule) (k : Key) : Res := lookupWith docClauses rules k

def isCatchAll (r : Rule) (k : Key) : Bool := isCatchAllWith docClauses r k

/-! ## The known deviation, as a variant clause (used to NAME a violation, never to accept one) -/

/-- F3: with an interface name in the key, a CIDR-only catch-all is ranked like a global one. -/
def rankF3 (r : Rule) (k : Key) : Nat :=
  if r.iface == "" && k.iface != "" then 0 else rank r

/-- A catch-all without CIDR, with externals, none of which is of a family its `Networks` allow ("starved").
Documented: such a rule is a catch-all for no key (`catchAllIPs` = `none` for every key in scope). Until /repo
d6a4f83 the code applied it as an EMPTY catch-all (finding F15); the predicate is kept for the regression
examples and the generator's vocabulary — no clause, guard or monitor reason depends on it any more. -/
def starved (r : Rule) : Bool :=
  r.loc == .none && !r.ext.isEmpty && !hasCIDR r && (externals r).all (fun e => !netsAllow r e.v4)

def f3Clauses : Clauses := { rank := rankF3, caIPs := catchAllIPs }
/-- the code as it is: the documented clauses with the F3 rank (since /repo d6a4f83 the only as-coded clause) -/
def asCodedClauses : Clauses := f3Clauses

/-- Exactly the keys on which the F3 deviation changes the winning rule: an interface name is
given, no explicit `Local` match, the best documented rank among the matching catch-alls is
"CIDR-only", and the FIRST matching catch-all is a global one. -/
def f3Region (rules : List Rule) (k : Key) : Bool :=
  let cands := rules.filter (fun r => isCatchAll r k)
  k.iface != "" && (rules.find? (fun r => isExplicit r k)).isNone
    && topRank docClauses k cands == 1
    && (match cands.head? with
        | some g => rank g == 0
        | none => false)

def reasonF3 : String := "catch-all CIDR outranked by global with interface key"

def showIP (ip : IP) : String := (if ip.v4 then "4:" else "6:") ++ toString ip.val

def showRes (r : Res) : String :=
  toString r.mode ++ "/" ++ toString r.matched ++ "/[" ++ ",".intercalate (r.ips.map showIP) ++ "]"

/-- Monitor for one observed lookup result. -/
def lookupViolation (rules : List Rule) (k : Key) (impl : Res) : Option String :=
  let doc := documented rules k
  if impl = doc then none
  else
    let why :=
      if f3Region rules k && impl = lookupWith f3Clauses rules k then reasonF3
      else "lookup differs from the documented precedence"
    some (why ++ " (documented " ++ showRes doc ++ ")")

/-! ## Modes -/

/-- What is advertised in place of `orig` (the local address; for relay the relayed address) given
a lookup result. `false` = the candidate is dropped. Replace substitutes (empty list drops), append
adds (empty list changes nothing). For srflx the original candidate is the STUN-derived one, which
the mapped gatherer does not emit: append yields the additional addresses only. -/
def docApply (kind : Kind) (orig : IP) (res : Res) : List IP × Bool :=
  if !res.matched then ([orig], true)
  else if res.mode = 1 then (if res.ips.isEmpty then ([], false) else (res.ips, true))
  else if res.ips.isEmpty then ([orig], true)
  else if kind = .srflx then (res.ips, true)
  else (orig :: res.ips, true)

/-- Dropped candidates have no address list. -/
def canonApply (p : List IP × Bool) : List IP × Bool := if p.2 then p else ([], false)

def applyViolation (kind : Kind) (rules : List Rule) (k : Key) (orig : IP) (impl : List IP × Bool) : Option String :=
  let want := canonApply (docApply kind orig (documented rules k))
  if canonApply impl = want then none
  else
    let via (c : Clauses) : Bool := canonApply impl = canonApply (docApply kind orig (lookupWith c rules k))
    let why :=
      if f3Region rules k && via f3Clauses then reasonF3
      else "advertised addresses differ from the documented mode semantics"
    some (why ++ " (apply)")

/-! ## Validation -/

def unsupportedRule (r : Rule) : Bool := docType r == 3

/-- A non-empty `Networks` list without any IPv4/IPv6 network type limits the rule to nothing. The
code skips such a rule before validating it (observation O1); the documentation is silent. -/
def inert (r : Rule) : Bool := !netsAllow r true && !netsAllow r false

/-- bad IPs, bad CIDR, Local outside CIDR. -/
def illFormed (r : Rule) : Bool :=
  (match r.cidr with
   | .bad => true
   | .ok c => c.bits > (if c.v4 then 32 else 128)
   | .none => false)
  || r.loc == .bad
  || (match r.loc, r.cidr with
      | .ok l, .ok c => !c.contains l
      | _, _ => false)
  || r.ext.contains .bad

def docRejects (rules : List Rule) : Bool :=
  rules.any (fun r => unsupportedRule r || (!inert r && illFormed r))

/-- Legacy `NAT1To1IPs`: an entry is `ext`, `ext/local` or empty. -/
def legacyEntryOK : Entry → Bool
  | [.empty] => true
  | [.ip _] => true
  | [.ip _, .ip _] => true
  | _ => false

def legacySingles (es : List Entry) : List IP :=
  es.filterMap (fun e => match e with
    | [.ip a] => some a
    | _ => none)

/-- "duplicate legacy catch-alls": two entries without local part of the same family. -/
def legacyDuplicate (es : List Entry) : Bool :=
  ((legacySingles es).filter (fun a => a.v4)).length > 1
  || ((legacySingles es).filter (fun a => !a.v4)).length > 1

def legacyRejects (es : List Entry) : Bool := es.any (fun e => !legacyEntryOK e) || legacyDuplicate es

/-- How the rule list reaches `newAddressRewriteMapper`. -/
inductive Path where
  | direct                      -- in-package: newAddressRewriteMapper(rules)
  | option                      -- public: WithAddressRewriteRules(rules...)
  | legacy (es : List Entry)    -- public: AgentConfig.NAT1To1IPs
  deriving DecidableEq, Repr

/-- Inputs on which the documentation makes no statement: whitespace-only external strings, mode
values other than 0/1/2, ill-formed rules limited to no network at all (observation O1). -/
def outsideDomain (rules : List Rule) : Bool :=
  rules.any (fun r => r.ext.contains .blank || r.mode > 2 || (inert r && illFormed r))

/-- An `External` list that was written (not empty) but names no address at all: every entry is
blank. The public option treats such a list as a mistake (it is NOT the documented empty list). -/
def allBlank (r : Rule) : Bool := !r.ext.isEmpty && r.ext.all (fun t => t == .blank)

/-- `outsideDomain` per entry point. On the public option a list of blank entries only is inside the
domain (it must be rejected, `optionRejects`); blank entries mixed with addresses stay outside (they
are dropped silently), as do all blank entries on the in-package path. -/
def outsideDomainOn (path : Path) (rules : List Rule) : Bool :=
  rules.any (fun r => (r.ext.contains .blank && !(path = .option && allBlank r)) || r.mode > 2 || (inert r && illFormed r))

/-- What the public option `WithAddressRewriteRules` must reject: whatever the rule compiler rejects,
and a rule whose `External` list holds blank entries only. A rule with an EMPTY `External` list is a
documented rule (replace: drop the matched candidate, append: keep it unchanged) and is NOT rejected. -/
def optionRejects (rules : List Rule) : Bool := docRejects rules || rules.any allBlank

/-- Monitor for a construction outcome: `implErr = none` accepted, `some e` rejected with `e`. -/
def newViolation (path : Path) (rules : List Rule) (implErr : Option Err) : Option String :=
  let mustReject := match path with
    | .legacy es => legacyRejects es || docRejects rules
    | .option => optionRejects rules
    | .direct => docRejects rules
  if outsideDomainOn path rules then none
  else match implErr with
  | none => if mustReject then some "invalid rule set accepted at construction" else none
  | some e =>
    if !mustReject then some "valid rule set rejected at construction"
    else if e = .unsupported && !rules.any unsupportedRule then some "unsupported-type error without a prflx rule"
    else none

end IceSpec.C19
