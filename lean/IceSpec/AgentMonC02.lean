import IceSpec.AgentMonState
/-!
# C02 (unauthenticated / mismatched STUN has no effect) and C05 (role conflict) clauses

Evaluated on every op that hands a STUN message to an agent (`inject`, and `deliver`/`dup` of a datagram
the monitor has in its own copy of the in-flight list).  `p` / `c` are the receiver's digests before and
after the op, `out` everything emitted during the op.
-/
namespace IceSpec.AgentMon

/-- what differs between two digests, callbacks aside (empty = identical) -/
def diffOf (p c : AgD) : List String :=
  (if p.st != c.st then [s!"state {p.st}->{c.st}"] else []) ++
  (if p.ctl != c.ctl then ["role"] else []) ++
  (if p.sel != c.sel then ["selected pair"] else []) ++
  (if p.pRaw != c.pRaw then ["pairs"] else []) ++
  (if p.rRaw != c.rRaw then ["remote candidates"] else []) ++
  (if p.lRaw != c.lRaw then ["local candidates"] else []) ++
  (if p.bs != c.bs || p.br != c.br then ["byte counters"] else []) ++
  (if p.pend != c.pend then ["outstanding transactions"] else [])

def callbacksOf (c : AgD) : List String :=
  (if c.cs.isEmpty then [] else ["connection-state callback"]) ++
  (if c.sp.isEmpty then [] else ["selected-pair callback"]) ++
  (if c.ca.isEmpty then [] else ["candidate callback"])

def join (l : List String) : String := ", ".intercalate l

/-- the message must have no observable effect at all -/
def mustBeNoop (what : String) (p c : AgD) (out : List Dg) : Verdicts :=
  let d := diffOf p c ++ callbacksOf c ++ (if out.isEmpty then [] else [s!"{out.length} datagram(s) sent"])
  if d.isEmpty then [] else [("C02", s!"{what} was not dropped: {join d}")]

/-- remote lists equal except for the liveness timestamp of the remote at `src` -/
def remotesSameButLiveness (p c : AgD) (src : Nat) : Bool :=
  p.rems.length == c.rems.length &&
  (p.rems.zip c.rems).all fun (a, b) =>
    a.ty == b.ty && a.net == b.net && a.addr == b.addr && a.prio == b.prio && a.rel == b.rel && (a.lr == b.lr || a.addr == src)

/-- at most the liveness timestamp of the known remote at `src` (and, when allowed, expiry of pending entries) may change -/
def onlyLiveness (what : String) (p c : AgD) (out : List Dg) (src : Nat) (pendMayDrop : Bool) : Verdicts :=
  let d :=
    (if p.st != c.st then [s!"state {p.st}->{c.st}"] else []) ++
    (if p.ctl != c.ctl then ["role"] else []) ++
    (if p.sel != c.sel then ["selected pair"] else []) ++
    (if p.pRaw != c.pRaw then ["pairs"] else []) ++
    (if !remotesSameButLiveness p c src then ["remote candidates"] else []) ++
    (if p.lRaw != c.lRaw then ["local candidates"] else []) ++
    (if p.bs != c.bs || p.br != c.br then ["byte counters"] else []) ++
    (if p.pend == c.pend || (pendMayDrop && c.pend < p.pend) then [] else ["outstanding transactions"]) ++
    callbacksOf c ++ (if out.isEmpty then [] else [s!"{out.length} datagram(s) sent"])
  if d.isEmpty then [] else [("C02", s!"{what} changed more than a liveness timestamp: {join d}")]

def maxBindingRequestTimeoutMs : Nat := 4000

/-- the receiver certainly has no outstanding request with this transaction id towards `src` -/
def notOutstanding (x : AgInfo) (now : Nat) (tid : String) (src : Nat) : Bool :=
  x.answered.contains tid ||
  !(x.emitted.any fun e => e.tid == tid && e.gen == x.gen && e.dst == src && now - e.t1 < maxBindingRequestTimeoutMs)

def roleKeeps (ctl : Bool) (own theirs : Nat) : Bool := (ctl && own ≥ theirs) || (!ctl && own < theirs)

def showDgShort (d : Dg) : String :=
  let k := match d.kind with | .req => "REQ" | .suc => "SUC" | .err => "ERR" | .ind => "IND" | .data => "DATA" | .other => "OTHER"
  s!"{d.src}>{d.dst}:{k}:{d.tid}"

/-- C05 on an authenticated request that carries the receiver's own role -/
def c05 (x : AgInfo) (inc : Inc) (p c : AgD) (out : List Dg) : Verdicts :=
  let d := inc.d
  let theirs := match d.role with | some (_, tb) => tb | none => 0
  let keep := roleKeeps p.ctl x.tb theirs
  let known := knownRemote p inc.src
  let errs := out.filter (·.kind == .err)
  let answered := out.any fun o => o.kind == .suc && o.tid == d.tid
  let v0 : Verdicts := if answered then [("C05", "a role-conflicting request was answered with a success response (treated as a connectivity check)")] else []
  let roleName := if p.ctl then "controlling" else "controlled"
  let v1 : Verdicts :=
    if keep then
      (if c.ctl != p.ctl then [("C05", s!"{roleName} receiver with tie-breaker {x.tb} switched role on a conflicting request with tie-breaker {theirs} (RFC 8445 7.3.1.1: keep and answer 487)")] else []) ++
      (match errs with
       | [e] =>
         if e.ecode == some 487 && e.tid == d.tid && e.src == inc.la && e.dst == inc.src && (!x.credsKnown || e.key == some x.lp) then []
         else [("C05", s!"role conflict kept, but the answer {showDgShort e} is not a 487 for this transaction from the receiving address to the source, signed with the local password")]
       | [] => [("C05", s!"{roleName} receiver with tie-breaker {x.tb} kept its role against {theirs} but sent no 487 Role Conflict")]
       | _ => [("C05", "more than one error response to one conflicting request")]) ++
      (if known && out.length != 1 then [("C05", s!"role conflict kept: expected exactly the 487, but {out.length} datagrams were sent")] else [])
    else
      (if c.ctl == p.ctl then [("C05", s!"{roleName} receiver with tie-breaker {x.tb} kept its role on a conflicting request with tie-breaker {theirs} (RFC 8445 7.3.1.1: switch)")] else []) ++
      (if errs.isEmpty then [] else [("C05", "the tie-breaker rule says switch and stay silent, yet an error response was sent")]) ++
      (if known && !out.isEmpty then [("C05", s!"the tie-breaker rule says switch and stay silent, but {out.length} datagram(s) were sent")] else [])
  let v2 : Verdicts :=
    if known then
      -- no forced tick can run in this op: nothing about pairs, selection or state may move
      (if p.pRaw != c.pRaw then [("C05", "a role-conflicting request changed pair state/nomination/statistics (it must not be treated as a check)")] else []) ++
      (if p.sel != c.sel then [("C05", "a role-conflicting request changed the selected pair")] else []) ++
      (if p.st != c.st || !c.cs.isEmpty || !c.sp.isEmpty then [("C05", "a role-conflicting request changed the connection state or fired a callback")] else [])
    else
      -- a peer-reflexive candidate was discovered first: pairs are added and a forced tick runs
      (if c.sel != p.sel && c.sel.isSome then [("C05", "a role-conflicting request changed the selected pair")] else []) ++
      (if c.pairs.any fun q => q.la == inc.la && q.ra == inc.src && (q.defr || q.reqRecv != 0 || q.respSent != 0)
       then [("C05", "a role-conflicting request was counted or nominated on the pair created for its source")] else [])
  v0 ++ v1 ++ v2

/-- all C02 / C05 clauses for one inbound STUN message -/
def c02c05 (now : Nat) (x : AgInfo) (inc : Inc) (p c : AgD) (out : List Dg) : Verdicts :=
  let d := inc.d
  if d.kind == .data then []
  else if !d.binding then
    if d.tid.isEmpty then [] else mustBeNoop "a non-Binding STUN message" p c out
  else match d.kind with
  | .err => mustBeNoop "a Binding error response" p c out
  | .ind => onlyLiveness "a Binding indication" p c out inc.src false
  | .req =>
    if !x.credsKnown then []
    else if d.user != some [x.lu, x.ru] then mustBeNoop s!"a Binding request whose USERNAME is not {x.lu}:{x.ru}" p c out
    else if d.key != some x.lp then mustBeNoop "a Binding request whose MESSAGE-INTEGRITY does not verify under the local password" p c out
    else if conflicting p.ctl d && srcAcceptable x p inc.src then c05 x inc p c out
    else []
  | .suc =>
    if !respAuth x d then mustBeNoop "a Binding success response whose MESSAGE-INTEGRITY does not verify under the remote password" p c out
    else if notOutstanding x now d.tid inc.src then
      onlyLiveness s!"a success response for {d.tid}, which is not an outstanding request to {inc.src}," p c out inc.src true
    else []
  | _ => []

end IceSpec.AgentMon
