import IceSpec.C11
import IceSpec.LineProto
/-!
# The history tokens of the `notifier` and `gathercycle` recorders (C11): reader, printer, string monitors

A recorded history arrives as one token per event.  `parseTok` / `parseGTok` read a token,
`printTok` / `printGTok` are the canonical printed forms; `monitorToks` / `monitorGToks` are the
monitors the driver runs on the token lists of the implementation.
`IceProps.C11.C11_view_roundtrip` proves that every typed event is read back from its printed token,
`C11_model_passes_string_monitor` that the printed trace of every schedule of the notifier model is
accepted by `monitorToks`.

notifier tokens, in stamp order: `E<k>:<e>` Enqueue call k with event e starts, `R<k>` it returns,
`I<e>` handler entered with e, `O<e>` handler returns, `C<j>:g|n` Close(graceful|not) call j starts,
`D<j>` it returns, `Q` quiet, `T` stuck, `L<n>` leak, `!` crash.
gathercycle tokens: `G<res>`, `R<u>`, `S<g>` / `P<g>` (state, frozen), `c<tag>`, `n`, `W`, `X`.
-/
namespace IceSpec.C11.View
open IceSpec.C11 IceSpec.LineProto

def natTok (r : List Char) : Option Nat := (String.ofList r).toNat?

/-- parse one notifier token -/
def parseTok (t : String) : Option HEv :=
  match t.toList with
  | 'E' :: b => match splitC (String.ofList b) ':' with
    | [k, e] => match k.toNat?, e.toNat? with
      | some k, some e => some (.enqCall k e)
      | _, _ => none
    | _ => none
  | 'R' :: b => (natTok b).map .enqRet
  | 'I' :: b => (natTok b).map .enter
  | 'O' :: b => (natTok b).map .exit
  | 'C' :: b => match splitC (String.ofList b) ':' with
    | [j, g] =>
      if g = "g" then j.toNat?.map (.closeCall · true)
      else if g = "n" then j.toNat?.map (.closeCall · false)
      else none
    | _ => none
  | 'D' :: b => (natTok b).map .closeRet
  | ['Q'] => some .quiet
  | ['T'] => some .stuck
  | 'L' :: b => (natTok b).map .leak
  | ['!'] => some .crash
  | _ => none

def printTok : HEv → String
  | .enqCall k e => "E" ++ joinC ':' [toString k, toString e]
  | .enqRet k => "R" ++ toString k
  | .enter e => "I" ++ toString e
  | .exit e => "O" ++ toString e
  | .closeCall j g => "C" ++ joinC ':' [toString j, if g then "g" else "n"]
  | .closeRet j => "D" ++ toString j
  | .quiet => "Q"
  | .stuck => "T"
  | .leak n => "L" ++ toString n
  | .crash => "!"

/-- the stream monitor on the recorded tokens -/
def monitorToks (toks : List String) : Option String :=
  match toks.mapM parseTok with
  | none => some "unparsable history"
  | some evs => monitorStream evs

/-- parse one gathercycle token -/
def parseGTok (t : String) : Option GEv :=
  match t.toList with
  | 'G' :: b => (natTok b).map .gather
  | 'R' :: b => (natTok b).map .restart
  | 'S' :: b => (natTok b).map (.state · false)
  | 'P' :: b => (natTok b).map (.state · true)
  | 'c' :: b => (natTok b).map .cand
  | ['n'] => some .nil
  | ['W'] => some .settle
  | ['X'] => some .close
  | _ => none

def printGTok : GEv → String
  | .gather r => "G" ++ toString r
  | .restart u => "R" ++ toString u
  | .state g false => "S" ++ toString g
  | .state g true => "P" ++ toString g
  | .cand t => "c" ++ toString t
  | .nil => "n"
  | .settle => "W"
  | .close => "X"

/-- the gathering monitor on the recorded tokens -/
def monitorGToks (needCand : Bool) (toks : List String) : Option String :=
  match toks.mapM parseGTok with
  | none => some "unparsable history"
  | some evs => monitorGather needCand evs

end IceSpec.C11.View
