/-!
# Spec monitors for C11 (callbacks in order, one at a time, exactly once; the nil candidate)

Executable predicates over OBSERVED histories, written independently of the models.  A history is a
list of events in the order of their stamps (one atomic counter in the recorder).  `none` = no clause
violated, `some reason` = the first violated clause.

## Stream history (`HEv`)
Per callback stream.  Every event id `e` is enqueued at most once in a history; call ids are unique.
"accepted" is not directly observable (the decision is taken under the notifier's mutex), so the
clauses are phrased with real-time order:

* S1 one at a time: `enter` only when no handler invocation is in progress; `exit e` ends the
  invocation of `e`.
* S2 exactly once, nothing invented: an event is handed to the handler at most once and only after its
  `Enqueue…` call started.
* S3 order / no skipping: when `b` is handed to the handler, every event whose `Enqueue…` had RETURNED
  before `b`'s `Enqueue…` was CALLED has already been handed to the handler.  (If `b` was accepted the
  notifier was open when `b` was appended, hence also when the earlier event was, which therefore sits
  before `b` in the queue.)  For a single enqueuer this is exact FIFO.
* S4 closed notifier drops: an event whose `Enqueue…` was called after some `Close` had returned is never
  handed to the handler.
* S5 graceful close: when `Close(true)` returns no invocation is in progress, and none starts afterwards.
* S6 at quiescence (`quiet`: the recorder saw the queue empty and the stream idle) every event whose
  `Enqueue…` returned before the first `Close` call has been handed to the handler, and nothing is in
  progress; the stream does become idle once every handler has returned (`stuck` otherwise).
-/
namespace IceSpec.C11

inductive HEv where
  | enqCall (k : Nat) (e : Nat)
  | enqRet (k : Nat)
  | enter (e : Nat)
  | exit (e : Nat)
  | closeCall (j : Nat) (graceful : Bool)
  | closeRet (j : Nat)
  | quiet
  /-- the recorder waited long after every handler had returned and the stream still was not idle -/
  | stuck
  /-- `n` goroutines started by the notifier/agent are still alive after the final GracefulClose returned -/
  | leak (n : Nat)
  /-- an `Enqueue…` or `Close` call of the code under test panicked -/
  | crash
  deriving DecidableEq, Repr, Inhabited

structure Call where
  k : Nat
  e : Nat
  /-- events whose enqueue had returned when this call started -/
  preds : List Nat
  /-- some Close had returned when this call started -/
  afterClose : Bool
  deriving DecidableEq, Repr, Inhabited

structure MSt where
  calls : List Call := []
  returned : List Nat := []
  must : List Nat := []
  delivered : List Nat := []
  cur : Option Nat := none
  closeCalled : Bool := false
  closeReturned : Bool := false
  closers : List (Nat × Bool) := []
  gracefulReturned : Bool := false
  deriving Repr, Inhabited

def subset (a b : List Nat) : Bool := a.all (fun x => b.contains x)

/-- one event; `Except.error reason` on the first violated clause -/
def mstep (m : MSt) : HEv → Except String MSt
  | .enqCall k e =>
    if m.calls.any (fun c => c.e == e || c.k == k) then .error "recorder: event or call id reused"
    else .ok { m with calls := m.calls ++ [{ k := k, e := e, preds := m.returned, afterClose := m.closeReturned }] }
  | .enqRet k =>
    match m.calls.find? (fun c => c.k == k) with
    | none => .error "recorder: return of an unknown enqueue call"
    | some c =>
      .ok { m with returned := m.returned ++ [c.e],
                   must := if m.closeCalled then m.must else m.must ++ [c.e] }
  | .enter e =>
    if m.gracefulReturned then .error s!"S5 handler invoked (event {e}) after GracefulClose returned"
    else if m.cur.isSome then .error s!"S1 handler invoked (event {e}) while another invocation is in progress"
    else match m.calls.find? (fun c => c.e == e) with
      | none => .error s!"S2 handler invoked for event {e} that was never enqueued"
      | some c =>
        if m.delivered.contains e then .error s!"S2 event {e} handed to the handler twice"
        else if c.afterClose then .error s!"S4 event {e} enqueued after Close returned was delivered"
        else if !subset c.preds m.delivered then
          .error s!"S3 event {e} handed to the handler before an earlier event (order / skipped)"
        else .ok { m with delivered := m.delivered ++ [e], cur := some e }
  | .exit e =>
    if m.cur == some e then .ok { m with cur := none }
    else .error s!"S1 handler exit for event {e} without matching invocation"
  | .closeCall j g => .ok { m with closeCalled := true, closers := m.closers ++ [(j, g)] }
  | .closeRet j =>
    match m.closers.find? (fun c => c.1 == j) with
    | none => .error "recorder: return of an unknown Close call"
    | some (_, g) =>
      if g && m.cur.isSome then .error "S5 GracefulClose returned while a handler invocation is in progress"
      else .ok { m with closeReturned := true, gracefulReturned := m.gracefulReturned || g }
  | .quiet =>
    if m.cur.isSome then .error "S6 quiescent but a handler invocation is in progress"
    else if !subset m.must m.delivered then .error "S6 quiescent but an accepted event was never handed to the handler"
    else .ok m
  | .stuck => .error "S6 stream not idle long after every handler returned (event stuck in the queue or drainer lost)"
  | .leak n => .error s!"S5 {n} goroutine(s) still alive after GracefulClose returned"
  | .crash => .error "S0 Enqueue/Close panicked"

def mrun (m : MSt) : List HEv → Except String MSt
  | [] => .ok m
  | ev :: rest => match mstep m ev with
    | .ok m' => mrun m' rest
    | .error why => .error why

/-- the stream monitor -/
def monitorStream (h : List HEv) : Option String :=
  match mrun {} h with
  | .ok _ => none
  | .error why => some why

/-!
## Gathering history (`GEv`)
One agent, gather-once policy; the API calls (`gather`, `restart`, `state`, `close`, `settle`) are made by ONE
thread, callbacks (`cand`, `nil`) come from the candidate stream.  Generations are numbered: the
initial ufrag is 0, the k-th `Restart` sets ufrag k; a candidate's `tag` is the number of the ufrag it
carries.  `state g true` is `GetGatheringState` taken when every goroutine of the agent is blocked and followed
immediately by `restart` (which therefore cancels the cycle in the polled state); `settle` = the recorder
waited until everything was idle.

* G1 candidates carry their generation's ufrag: tags never go backwards, never name a ufrag that has
  not been set, and a tagged generation has had a successful `GatherCandidates`.
* G2 nil once and last: a nil is preceded (since the previous nil) by at least one candidate when every
  cycle has candidates to publish (`needCand`); its cycle is that of the last candidate before it; no
  second nil for that generation and no candidate of that generation after it.  (Without candidates the
  nils are only counted: never more than successful `GatherCandidates` calls.)
* G3 a cycle cancelled by Restart (polled not-Complete immediately before the `restart`) emits no nil.
* G4 a generation polled Complete has exactly one nil once settled.
-/
inductive GEv where
  /-- `GatherCandidates()` returned: 0 = nil error, 1 = ErrMultipleGatherAttempted, 2 = other error -/
  | gather (res : Nat)
  /-- `Restart(ufrag u, …)` returned nil -/
  | restart (u : Nat)
  /-- `GetGatheringState()`: 0 new, 1 gathering, 2 complete; `frozen` = taken while every goroutine of the
  agent was blocked AND the next event (a `restart`) is issued immediately, with no time passing -/
  | state (g : Nat) (frozen : Bool)
  | cand (tag : Nat)
  | nil
  | settle
  | close
  deriving DecidableEq, Repr, Inhabited

structure GSt where
  epoch : Nat := 0
  gatherOk : List Nat := []
  lastTag : Option Nat := none
  sinceNil : Bool := false
  nilEpochs : List Nat := []
  /-- nils that could not be attributed to a generation (no candidate since the previous nil) -/
  floating : Nat := 0
  cancelled : List Nat := []
  completed : List Nat := []
  /-- the immediately preceding event was a poll with this state -/
  justPolled : Option Nat := none
  closed : Bool := false
  deriving Repr, Inhabited

def gstep (needCand : Bool) (m : GSt) : GEv → Except String GSt
  | .gather res =>
    .ok { m with gatherOk := if res == 0 then m.gatherOk ++ [m.epoch] else m.gatherOk, justPolled := none }
  | .restart u =>
    if u != m.epoch + 1 then .error "recorder: restart ufrags must be numbered consecutively"
    else
      let cancelled := match m.justPolled with
        | some g => if g != 2 then m.cancelled ++ [m.epoch] else m.cancelled
        | none => m.cancelled
      if cancelled.contains m.epoch && m.nilEpochs.contains m.epoch then
        .error s!"G3 nil emitted by the cycle of generation {m.epoch}, polled not complete before Restart"
      else .ok { m with epoch := u, cancelled := cancelled, justPolled := none }
  | .state g frozen =>
    .ok { m with justPolled := if frozen then some g else none,
                 completed := if g == 2 && !m.completed.contains m.epoch then m.completed ++ [m.epoch] else m.completed }
  | .cand t =>
    if t > m.epoch then .error s!"G1 candidate carries ufrag {t} that has not been set yet"
    else if !m.gatherOk.contains t then
      .error s!"G1 candidate with ufrag {t}: no successful GatherCandidates in that generation (candidate of a cancelled cycle published into the new generation)"
    else if (match m.lastTag with | some t' => decide (t < t') | none => false) then
      .error s!"G1 candidate with stale ufrag {t} after a candidate of a newer generation"
    else if m.nilEpochs.contains t then .error s!"G2 candidate of generation {t} after that cycle's nil"
    else .ok { m with lastTag := some t, sinceNil := true, justPolled := none }
  | .nil =>
    if needCand && !m.sinceNil then .error "G2 nil without a preceding candidate (second nil of a cycle?)"
    else if !m.sinceNil then
      -- no candidate since the previous nil (cycles without candidates): the nil cannot be attributed to
      -- a generation from the callbacks alone; only counted
      if m.nilEpochs.length + m.floating + 1 > m.gatherOk.length then
        .error "G2 more nil candidates than gathering cycles"
      else .ok { m with floating := m.floating + 1, justPolled := none }
    else
      match m.lastTag with
      | none => .error "G2 more nil candidates than gathering cycles"
      | some e =>
        if m.nilEpochs.contains e then .error s!"G2 second nil for the cycle of generation {e}"
        else if m.cancelled.contains e then .error s!"G3 nil emitted by the cancelled cycle of generation {e}"
        else .ok { m with nilEpochs := m.nilEpochs ++ [e], sinceNil := false, justPolled := none }
  | .settle =>
    if m.closed then .ok { m with justPolled := none }
    else
      let missing := m.completed.filter (fun e => !m.nilEpochs.contains e)
      if missing.length > m.floating then
        .error s!"G4 generation {missing.headD 0} reached Complete but no nil candidate was delivered"
      else .ok { m with justPolled := none }
  | .close => .ok { m with closed := true, justPolled := none }

def grun (needCand : Bool) (m : GSt) : List GEv → Except String GSt
  | [] => .ok m
  | ev :: rest => match gstep needCand m ev with
    | .ok m' => grun needCand m' rest
    | .error why => .error why

/-- the gathering monitor -/
def monitorGather (needCand : Bool) (h : List GEv) : Option String :=
  match grun needCand {} h with
  | .ok _ => none
  | .error why => some why

end IceSpec.C11
