import IceModel.Gather
/-!
# Spec monitor for C09 — every socket the agent opens is closed when its candidate goes away

Observations: the open/close tallies of the counting fake `transport.Net`, fake muxes and fake TURN
client, grouped by the generation a resource is attributable to (`Obs.led`), the cumulative
`opens`/`closes`, and the requests still in flight (`Obs.pend`).  A generation has *wound down* when
none of its requests is in flight any more.

"Released exactly once" is read on the resource: it goes from open to closed once and is never
reopened; a redundant `Close()` on an already closed Go object (e.g. two relay candidates sharing one
allocation) is counted by the harness (`redundant_close` statistic) but is not a violation.
-/
namespace IceSpec.C09
open IceModel.Gather

structure MonSt where
  prev : Obs := {}
  closed : Bool := false
  deriving Inhabited

def MonSt.init : MonSt := {}

def openOf (o : Obs) (g : Nat) : Nat :=
  ((o.led.filter (fun q => q.1.2 == some g)).map (·.2)).foldl (· + ·) 0

def openTotal (o : Obs) : Nat := (o.led.map (·.2)).foldl (· + ·) 0

def inFlight (o : Obs) (g : Nat) : Bool := o.pend.any (fun q => q.2.1 == g)

def firstSome (l : List (Option String)) : Option String := l.findSome? id

def check (m : MonSt) (op r : String) (o : Obs) : Option String × MonSt :=
  let closedNow := m.closed || ((op == "close" || op == "end") && r != "blocked")
  let v := firstSome [
    (if o.closes > o.opens then some "more closes than opens" else none),
    (if o.opens - o.closes != openTotal o then some "open/close tallies do not add up to the open resources" else none),
    (if o.led.any (fun q => q.1.2.isNone) then some "resource attributable to no generation (unknown ufrag)" else none),
    (if o.led.any (fun q => match q.1.2 with | some g => g > o.gen | none => false) then some "resource attributed to a future generation" else none),
    -- a generation ended by Restart owns nothing once its gathering has wound down
    (match (o.led.filter (fun q => q.2 > 0)).find? (fun q => match q.1.2 with
        | some g => g < o.gen && !inFlight o g | none => false) with
      | some q => some ("resources of an ended generation still open after its gathering wound down: " ++ q.1.1.tok)
      | none => none),
    -- after Close has returned the ended (current) generation owns nothing
    (if closedNow && openOf o o.gen > 0 && !(op == "close" && r == "blocked") then some "resources of the closed generation still open after Close returned" else none),
    -- … and neither does a generation that a Restart ended earlier, wound down or not: Close waits for the gatherers
    -- of every cycle (C09-G12; with C08: no goroutine started by the agent keeps running after Close)
    (if closedNow && openTotal o > 0 && !(op == "close" && r == "blocked") then some "resources of a superseded generation still open after Close returned (its gatherer is still running)" else none),
    (if closedNow && o.held == 0 && o.pend.isEmpty && openTotal o > 0 then some "resources open after Close with nothing in flight" else none),
    -- a generation that has not gathered yet owns nothing
    (if o.st == some .new && o.held == 0 && !inFlight o o.gen && openOf o o.gen > 0 then
      some "resources open in a generation whose gathering has not started" else none),
    -- rejected / superseded candidates and cancelled gatherers release at once: with no candidate
    -- (listed or location-tracked), no request in flight and no gatherer parked, nothing is open
    (if o.st.isSome && o.st != some .gathering && o.cands.isEmpty && o.hidden == 0 && o.pend.isEmpty && o.held == 0
        && openTotal o > 0 then
      some "resources open although no candidate and no request is left" else none),
    (if op == "end" && openTotal o > 0 then some "resources still open at the end of the session" else none)
  ]
  (v, { prev := o, closed := closedNow })

end IceSpec.C09
