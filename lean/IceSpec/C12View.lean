import IceModel.UdpMux
import IceSpec.C12
import IceSpec.LineProto
/-!
# C12: the output line of the `udpmux` component in token form (core Lean only)

ONE printer (`printWire`, through `toWire` for the model's typed `Out`) and ONE parser (`parseWire`) for the
output line of the component.  The driver (`Driver/UdpMux.lean`) prints the model's outputs with
`printOut` and reads the implementation's output line with `parseWire`; it uses no other string function
on outputs.  `IceProofs/UdpMuxView.lean` proves that `parseWire` reads back everything `printWire`
prints.

The line does not carry everything a typed `Out` holds (`wrote` and `done` are both `ok`; a connection is
named by socket index and connection id, a handle by the session-wide handle id), so the line has its
own type `Wire`; `toWire i g` is the projection the driver applies to an output of mux `i` when the
session-wide handle id is `g`.
-/
namespace IceSpec.C12View
open IceModel.UdpMux (Name IP Addr Out)
open IceSpec.LineProto

/-! ## names and addresses -/

def nameOf (s : String) : Name := s.toList.map Char.toNat

def showName (n : Name) : String := String.ofList (n.map Char.ofNat)

/-- `4,<addr>,<port>` or `6,<hi>,<lo>,<zone or ->,<port>` -/
def showAddr (a : Addr) : String :=
  if a.ip.is4 then joinC ',' ["4", toString a.ip.lo, toString a.port]
  else joinC ',' ["6", toString a.ip.hi, toString a.ip.lo,
    if a.ip.zone.isEmpty then "-" else showName a.ip.zone, toString a.port]

def parseAddr (tok : String) : Option Addr :=
  match splitC tok ',' with
  | [f, a, p] =>
    if f = "4" then
      match a.toNat?, p.toNat? with
      | some a, some p => some { ip := { is4 := true, hi := 0, lo := a, zone := [] }, port := p }
      | _, _ => none
    else none
  | [f, hi, lo, z, p] =>
    if f = "6" then
      match hi.toNat?, lo.toNat?, p.toNat? with
      | some hi, some lo, some p =>
        some { ip := { is4 := false, hi := hi, lo := lo, zone := if z = "-" then [] else nameOf z }, port := p }
      | _, _, _ => none
    else none
  | _ => none

/-! ## tokens -/

/-- `h<g>` -/
def handleTok (g : Nat) : String := "h" ++ toString g

def parseHandle (tok : String) : Option Nat := (tagged "h" tok).bind String.toNat?

/-- `m<i>c<k>` -/
def connTok (i k : Nat) : String := "m" ++ joinC 'c' [toString i, toString k]

def parseConn (tok : String) : Option (Nat × Nat) :=
  match tagged "m" tok with
  | some r =>
    match splitC r 'c' with
    | [i, k] => match i.toNat?, k.toNat? with
      | some i, some k => some (i, k)
      | _, _ => none
    | _ => none
  | none => none

/-- `p<pid>` -/
def pidTok (pid : Nat) : String := "p" ++ toString pid

def parsePid (tok : String) : Option Nat := (tagged "p" tok).bind String.toNat?

/-! ## the line -/

/-- what an output line of the component says -/
inductive Wire where
  /-- `h<g> m<i>c<k>`: handle `g` on connection `k` of socket `i` -/
  | conn (g i k : Nat)
  | errClosed
  | errAddr
  | ok
  | errSock
  | bad
  /-- `none`: the datagram was handed to nobody -/
  | dropped
  | empty
  | eof
  /-- `m<i>c<k>` -/
  | delivered (i k : Nat)
  /-- `p<pid> <addr>` -/
  | pkt (pid : Nat) (src : Addr)
  /-- `ok w|q none|m<i>c<k>`: close + datagram; `w` = the datagram met the window before the watcher ran -/
  | closeIn (window : Bool) (to : Option (Nat × Nat))
  deriving DecidableEq, Repr

def flagTok (w : Bool) : String := if w then "w" else "q"

def toTok : Option (Nat × Nat) → String
  | none => "none"
  | some (i, k) => connTok i k

def printWire : Wire → String
  | .conn g i k => joinC ' ' [handleTok g, connTok i k]
  | .errClosed => "err:closed"
  | .errAddr => "err:addr"
  | .ok => "ok"
  | .errSock => "err:sock"
  | .bad => "bad"
  | .dropped => "none"
  | .empty => "empty"
  | .eof => "eof"
  | .delivered i k => connTok i k
  | .pkt pid src => joinC ' ' [pidTok pid, showAddr src]
  | .closeIn w to => joinC ' ' ["ok", flagTok w, toTok to]

def parseWord (t : String) : Option Wire :=
  if t = "ok" then some .ok else if t = "err:closed" then some .errClosed
  else if t = "err:addr" then some .errAddr else if t = "err:sock" then some .errSock
  else if t = "bad" then some .bad else if t = "none" then some .dropped
  else if t = "empty" then some .empty else if t = "eof" then some .eof
  else (parseConn t).map (fun p => .delivered p.1 p.2)

def parseTo (t : String) : Option (Option (Nat × Nat)) :=
  if t = "none" then some none else (parseConn t).map some

def parseWire (s : String) : Option Wire :=
  match splitC s ' ' with
  | [t] => parseWord t
  | [a, b] =>
    match parseHandle a with
    | some g => (parseConn b).map (fun p => .conn g p.1 p.2)
    | none =>
      match parsePid a, parseAddr b with
      | some pid, some src => some (.pkt pid src)
      | _, _ => none
  | [a, f, r] =>
    if a = "ok" then
      if f = "w" then (parseTo r).map (.closeIn true)
      else if f = "q" then (parseTo r).map (.closeIn false)
      else none
    else none
  | _ => none

/-- number of space-separated tokens of a line (the driver tells an unreadable `GetConn` answer, two tokens, from
an error word the vocabulary does not know, which is left to the comparison with the model) -/
def tokenCount (s : String) : Nat := (splitC s ' ').length

/-- the line of a typed output of mux `i` (`g`: session-wide id of the handle the operation names or creates) -/
def toWire (i g : Nat) : Out → Wire
  | .conn _ c => .conn g i c
  | .errClosed => .errClosed
  | .errAddr => .errAddr
  | .wrote => .ok
  | .errSock => .errSock
  | .delivered c => .delivered i c
  | .dropped => .dropped
  | .done => .ok
  | .pkt pid src => .pkt pid src
  | .empty => .empty
  | .eof => .eof
  | .bad => .bad

/-- THE printer of the driver -/
def printOut (i g : Nat) (o : Out) : String := printWire (toWire i g o)

/-- the line of `closein` (close of a handle, then a datagram on mux `i` with output `o`; `w`: the datagram
met the window before the watcher ran); for the two outputs `inbound` has it is `printWire (.closeIn …)`
(`IceProofs.UdpMuxView.printCloseIn_eq`) -/
def printCloseIn (w : Bool) (i : Nat) (o : Out) : String := joinC ' ' ["ok", flagTok w, printOut i 0 o]

def closeInWire (w : Bool) (i : Nat) : Out → Option Wire
  | .delivered c => some (.closeIn w (some (i, c)))
  | .dropped => some (.closeIn w none)
  | _ => none

/-- the typed output a line stands for when it answers an operation whose success is `okIs`
(`wrote` for `WriteTo`, `done` otherwise) and whose new mux-local handle id is `h` -/
def ofWire (okIs : Out) (h : Nat) : Wire → Option Out
  | .conn _ _ k => some (.conn h k)
  | .errClosed => some .errClosed
  | .errAddr => some .errAddr
  | .ok => some okIs
  | .errSock => some .errSock
  | .bad => some .bad
  | .dropped => some .dropped
  | .empty => some .empty
  | .eof => some .eof
  | .delivered _ k => some (.delivered k)
  | .pkt pid src => some (.pkt pid src)
  | .closeIn _ _ => none

/-- what the plain success of an operation is called in the typed vocabulary -/
def okOf : IceModel.UdpMux.Op → Out
  | .writeTo _ _ => .wrote
  | _ => .done

/-- the typed output an output line stands for, as the answer to `op` when the next mux-local handle id is `nh` -/
def decode (op : IceModel.UdpMux.Op) (nh : Nat) (line : String) : Option Out :=
  (parseWire line).bind (ofWire (okOf op) nh)

/-- The spec monitor of C12 on OUTPUT LINES (one mux): every line is read with `parseWire`, turned into the
typed output with `ofWire` and judged by `IceSpec.C12.step`; a line that cannot be read is a violation. -/
def lineVerdicts : IceSpec.C12.SState → List (IceModel.UdpMux.Op × String) → List (Option String)
  | _, [] => []
  | s, (op, line) :: t =>
    match decode op s.nh line with
    | some o => let (s1, v) := IceSpec.C12.step s op o; v :: lineVerdicts s1 t
    | none => [some "dispatch: unparsable output line"]

def lineMonitor (t : List (IceModel.UdpMux.Op × String)) : Option String :=
  (lineVerdicts IceSpec.C12.SState.init t).findSome? id

/-! ## well-formedness: what the line can carry -/

/-- a zone survives printing: its codes are characters, none is the separator `,` or a space, and it is
not the text `-` that stands for "no zone" -/
def okZone (z : Name) : Bool :=
  z.all (fun n => (Char.ofNat n).toNat == n && n != 44 && n != 32) && z != [45]

/-- a 4-byte address is printed without `hi` and zone -/
def wfAddr (a : Addr) : Bool :=
  if a.ip.is4 then a.ip.hi == 0 && a.ip.zone == [] else okZone a.ip.zone

def Wire.wf : Wire → Bool
  | .pkt _ src => wfAddr src
  | _ => true

def wfOut : Out → Bool
  | .pkt _ src => wfAddr src
  | _ => true

end IceSpec.C12View
