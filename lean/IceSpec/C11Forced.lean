/-!
# C11, gathering clause — spec monitor for FORCED-interleaving scenarios (component `gatherforce`)

Independent of `IceModel`: the property text evaluated on what the harness saw.

A scenario is a script run on one real agent; after EVERY step the recorder waits until every goroutine is blocked,
so at the end of a step everything that was published has been delivered, and whatever is delivered during a step
was published during that step.  Cycles are numbered by successful `GatherCandidates` calls; the generation of a
cycle is the number of successful `Restart`s before its `GatherCandidates` (its ufrag number).  Every candidate has
an identity (its port) and a known cycle: it is either offered by a scripted gatherer (`offer c id`, the call
`addCandidate(ctx of cycle c, …)`; its first context check may run a hook that restarts / closes the agent or starts
a further scripted gatherer — those events are recorded between `offer` and `result`), or its socket is obtained
from the net by the cycle's real gatherer while it is released (`release k`, `listen id`).

Clauses (the first violated one is reported):
* F0 recorder sanity (consecutive restart numbers, offers name existing cycles, callbacks stamped with the current generation).
* F1 every announced candidate carries ITS CYCLE's ufrag, and is announced while the agent is still in that
  generation: nothing of a cycle cancelled by `Restart` is published into the next generation.
* F2 a candidate is announced at most once; nothing unknown is announced; nothing is announced after `Close` was called
  (every step ends quiescent, `Close` ends the task loop: nothing can be published afterwards).
* F3 `addCandidate` returned nil ⇒ the candidate was announced (once) in that step; it returned an error ⇒ the
  candidate is never announced; the only errors are the context's and the loop's; a candidate offered after its cycle
  was cancelled (or the agent closed) is refused.
* F4 at every probe `GetLocalCandidates` is exactly the set of candidates announced in the CURRENT generation
  (Restart deletes the others), and the sockets that are not closed are exactly theirs (a refused candidate's socket,
  a deleted candidate's socket are closed).
* F5 nil once, last, and only for a cycle that completes: a nil is delivered only while a cycle's real gatherer is
  released, the cycle is of the current generation and the agent open, at most once per cycle, after it no candidate
  of the cycle; a cycle of the current generation that is released on an open agent DOES deliver its nil in that step,
  after all candidates whose sockets its gatherer obtained.
* F6 `GetGatheringState` / `GatherCandidates` results: New ⇔ no successful GatherCandidates in this generation,
  Complete ⇔ that cycle delivered its nil, else Gathering; GatherCandidates succeeds ⇔ New (and open).
* F7 after `Close` returned no socket is left open, and `Close` does return once every gatherer was released.
-/
namespace IceSpec.C11.Forced

inductive FEv where
  /-- `GatherCandidates()`: 0 nil, 1 ErrMultipleGatherAttempted, 2 other error -/
  | gather (res : Nat)
  /-- `Restart` to ufrag number `u` returned nil / `none`: returned an error -/
  | restart (u : Option Nat)
  /-- `GetGatheringState()` 0 new, 1 gathering, 2 complete / `none`: error -/
  | state (g : Option Nat)
  /-- `Close` (`GracefulClose`) CALLED (on another goroutine) -/
  | close (graceful : Bool)
  /-- `Close` asked for again by the script: no call made -/
  | closeAgain
  /-- the parked real gatherer of cycle `k` is released / there is none -/
  | release (k : Option Nat)
  /-- the released gatherer obtained socket `id` from the net -/
  | listen (id : Nat)
  /-- a scripted gatherer of cycle `c` calls `addCandidate` with candidate / socket `id` -/
  | offer (c id : Nat)
  /-- that call returned: `some true` nil, `some false` context / loop error, `none` another error -/
  | result (id : Nat) (ok : Option Bool)
  /-- `OnCandidate(candidate id)` with ufrag number `tag`, while the recorder had seen `epoch` successful Restarts -/
  | cand (tag id epoch : Nat)
  /-- `OnCandidate(nil)` -/
  | nil (epoch : Nat)
  /-- end of a step, everything blocked: `GetLocalCandidates` (ports) and the sockets not closed -/
  | probe (locals opened : List Nat)
  /-- end of a step after `Close` was called (no API left to ask) -/
  | probeClosed
  /-- `GetLocalCandidates` failed although `Close` was not called -/
  | probeErr
  /-- `Close` has returned, everything blocked: sockets not closed -/
  | final (opened : List Nat)
  /-- `Close` did not return -/
  | finalStuck
  deriving DecidableEq, Repr, Inhabited

structure CyS where
  /-- generation = number of successful Restarts before its GatherCandidates -/
  gen : Nat
  /-- its nil candidate was delivered -/
  nilSeen : Bool := false
  released : Bool := false
  deriving Repr, Inhabited

structure CaS where
  id : Nat
  cycle : Nat
  /-- offered by a scripted gatherer (else obtained by the real one) -/
  offered : Bool
  /-- its cycle was already cancelled (Restart since / Close called) when it was offered / its socket obtained -/
  late : Bool
  result : Option Bool := none
  announced : Bool := false
  deriving Repr, Inhabited

structure FSt where
  epoch : Nat := 0
  closed : Bool := false
  cycles : List CyS := []
  cands : List CaS := []
  /-- the cycle whose real gatherer is released in the current step -/
  cur : Option Nat := none
  /-- candidates whose `addCandidate` returned nil in the current step (must be announced by its end) -/
  due : List Nat := []
  /-- sockets obtained by the released gatherer in the current step -/
  got : List Nat := []
  deriving Repr, Inhabited

def sortNat (l : List Nat) : List Nat := l.foldl (fun acc x => (acc.filter (· < x)) ++ [x] ++ (acc.filter (fun y => ¬ y < x))) []

def genOf (m : FSt) (c : Nat) : Option Nat := (m.cycles[c]?).map (·.gen)

/-- the cycle of generation `m.epoch`, if `GatherCandidates` succeeded in this generation -/
def curCycle (m : FSt) : Option Nat :=
  (List.range m.cycles.length).find? fun i => genOf m i == some m.epoch

def findCand (m : FSt) (id : Nat) : Option CaS := m.cands.find? (·.id == id)

def updCand (m : FSt) (id : Nat) (f : CaS → CaS) : FSt :=
  { m with cands := m.cands.map fun c => if c.id == id then f c else c }

def updCycle (m : FSt) (k : Nat) (f : CyS → CyS) : FSt :=
  { m with cycles := (List.range m.cycles.length).filterMap fun i => (m.cycles[i]?).map fun c => if i == k then f c else c }

/-- cycle `c` can no longer publish: the agent was restarted since its creation, or closed -/
def cancelledNow (m : FSt) (c : Nat) : Bool := m.closed || genOf m c != some m.epoch

/-- end-of-step obligations (before the probe itself is looked at) -/
def endStep (m : FSt) : Except String FSt :=
  match m.due.find? (fun id => match findCand m id with | some c => !c.announced | none => true) with
  | some id => .error s!"F3 addCandidate returned nil for candidate {id} but it was not announced"
  | none =>
    match m.cur with
    | none => .ok { m with due := [], got := [] }
    | some k =>
      if cancelledNow m k then .ok { m with cur := none, due := [], got := [] }
      else
        match m.got.find? (fun id => match findCand m id with | some c => !c.announced | none => true) with
        | some id => .error s!"F5 cycle {k} ran to completion but its candidate {id} was not announced"
        | none =>
          if (m.cycles[k]?).any (·.nilSeen) then .ok { m with cur := none, due := [], got := [] }
          else .error s!"F5 cycle {k} ran to completion but delivered no nil candidate"

def fstep (m : FSt) : FEv → Except String FSt
  | .gather res =>
    let expect := if m.closed then 2 else if (curCycle m).isSome then 1 else 0
    if res != expect then .error s!"F6 GatherCandidates returned code {res}, expected {expect}"
    else if res == 0 then .ok { m with cycles := m.cycles ++ [{ gen := m.epoch }] }
    else .ok m
  | .restart none =>
    if m.closed then .ok m else .error "F6 Restart failed on an open agent"
  | .restart (some u) =>
    if m.closed then .error "F6 Restart succeeded after Close"
    else if u != m.epoch + 1 then .error "F0 recorder: restart ufrags must be numbered consecutively"
    else .ok { m with epoch := u }
  | .state none =>
    if m.closed then .ok m else .error "F6 GetGatheringState failed on an open agent"
  | .state (some g) =>
    if m.closed then .error "F6 GetGatheringState succeeded after Close"
    else
      let expect := match curCycle m with
        | none => 0
        | some k => if (m.cycles[k]?).any (·.nilSeen) then 2 else 1
      if g != expect then .error s!"F6 gathering state {g}, expected {expect}" else .ok m
  | .close _ => if m.closed then .error "F0 recorder: Close called twice" else .ok { m with closed := true }
  | .closeAgain => if m.closed then .ok m else .error "F0 recorder: X- without a previous Close"
  | .release none => .ok m
  | .release (some k) =>
    match m.cycles[k]? with
    | none => .error s!"F0 recorder: release of unknown cycle {k}"
    | some cy =>
      if cy.released then .error s!"F0 recorder: cycle {k} released twice"
      else .ok { updCycle m k (fun c => { c with released := true }) with cur := some k }
  | .listen id =>
    match m.cur with
    | none => .error s!"F0 recorder: socket {id} obtained outside a release step"
    | some k =>
      if (findCand m id).isSome then .error s!"F0 recorder: socket id {id} used twice"
      else .ok { m with cands := m.cands ++ [{ id := id, cycle := k, offered := false, late := cancelledNow m k }],
                        got := m.got ++ [id] }
  | .offer c id =>
    if (m.cycles[c]?).isNone then .error s!"F0 recorder: offer to unknown cycle {c}"
    else if (findCand m id).isSome then .error s!"F0 recorder: candidate id {id} used twice"
    else .ok { m with cands := m.cands ++ [{ id := id, cycle := c, offered := true, late := cancelledNow m c }] }
  | .result id r =>
    match findCand m id with
    | none => .error s!"F0 recorder: result for unknown candidate {id}"
    | some ca =>
      match r with
      | none => .error s!"F3 addCandidate of candidate {id} returned an unexpected error"
      | some true =>
        if ca.late then
          .error s!"F3 candidate {id} was accepted although its cycle {ca.cycle} was cancelled before it was offered"
        else .ok { updCand m id (fun c => { c with result := some true }) with due := m.due ++ [id] }
      | some false => .ok (updCand m id (fun c => { c with result := some false }))
  | .cand tag id e =>
    if e != m.epoch then .error "F0 recorder: callback stamped with a generation that is not the current one"
    else if m.closed then .error s!"F2 candidate {id} announced after Close was called"
    else
      match findCand m id with
      | none => .error s!"F2 unknown candidate {id} announced"
      | some ca =>
        match genOf m ca.cycle with
        | none => .error s!"F0 recorder: candidate {id} of unknown cycle"
        | some g =>
          if tag != g then
            .error s!"F1 candidate {id} of cycle {ca.cycle} (generation {g}) announced with ufrag {tag}"
          else if g != m.epoch then
            .error s!"F1 candidate {id} of cycle {ca.cycle} (generation {g}, cancelled by Restart) announced in generation {m.epoch}"
          else if ca.announced then .error s!"F2 candidate {id} announced twice"
          else if ca.result == some false then .error s!"F3 candidate {id} announced although addCandidate returned an error"
          else if (m.cycles[ca.cycle]?).any (·.nilSeen) then
            .error s!"F5 candidate {id} of cycle {ca.cycle} announced after that cycle's nil"
          else .ok (updCand m id (fun c => { c with announced := true }))
  | .nil e =>
    if e != m.epoch then .error "F0 recorder: callback stamped with a generation that is not the current one"
    else if m.closed then .error "F2 nil candidate delivered after Close was called"
    else
      match m.cur with
      | none => .error "F5 nil candidate delivered although no cycle's gatherers have returned"
      | some k =>
        match m.cycles[k]? with
        | none => .error "F0 recorder: unknown cycle"
        | some cy =>
          if cy.gen != m.epoch then
            .error s!"F5 nil candidate of cycle {k} (generation {cy.gen}) cancelled by Restart"
          else if cy.nilSeen then .error s!"F5 second nil candidate for cycle {k}"
          else
            match m.got.find? (fun id => match findCand m id with | some c => !c.announced | none => true) with
            | some id => .error s!"F5 nil of cycle {k} delivered before its candidate {id}"
            | none => .ok (updCycle m k (fun c => { c with nilSeen := true }))
  | .probe locals opened =>
    match endStep m with
    | .error e => .error e
    | .ok m =>
      if m.closed then .error "F0 recorder: probe answered after Close"
      else
        let expect := sortNat ((m.cands.filter fun c => c.announced && genOf m c.cycle == some m.epoch).map (·.id))
        if sortNat locals != expect then
          .error s!"F4 local candidates {locals}, expected {expect} (the candidates announced in generation {m.epoch})"
        else if sortNat opened != expect then
          .error s!"F4 open sockets {opened}, expected {expect} (those of the local candidates)"
        else .ok m
  | .probeClosed =>
    match endStep m with
    | .error e => .error e
    | .ok m => if m.closed then .ok m else .error "F0 recorder: closed probe on an open agent"
  | .probeErr => .error "F4 GetLocalCandidates failed on an open agent"
  | .final opened =>
    if !m.closed then .error "F0 recorder: final without Close"
    else if opened != [] then .error s!"F7 sockets {opened} still open after Close returned"
    else .ok m
  | .finalStuck => .error "F7 Close did not return although every gatherer was released"

def frun (m : FSt) : List FEv → Except String FSt
  | [] => .ok m
  | ev :: rest => match fstep m ev with
    | .ok m' => frun m' rest
    | .error why => .error why

/-- the forced-scenario monitor: `none` = the observation satisfies every clause -/
def monitorForced (h : List FEv) : Option String :=
  match frun {} h with
  | .ok _ => none
  | .error why => some why

end IceSpec.C11.Forced
