/-!
# Spec monitors for C13 (users of a shared mux cannot disturb each other)

Executable statements of the property over *observations*, independent of the models:

* `sharedViolation` — reference-counted handles: the underlying connection's `Close` is called exactly
  once, at the close of the last distinct handle; closing a handle fails that handle's parked and later
  I/O; I/O of a sibling whose handle is open does not fail — neither as closed, nor with a deadline error
  under a write deadline whose arming handle has been CLOSED / aborted (the `SetDeadline(now)` of
  `candidateBase.abortIO` must not outlive the handle).  The write deadline of the connection is shared by
  design between the LIVE handles: a timeout under a deadline that a still-open handle holds is no violation.
  Read deadlines are per handle: a read times out only under the handle's own read deadline.
* `histViolation` / `quiescentViolation` — write abort: whenever no write and no abort is in flight,
  `writeState` is 0, the last value written to the socket's write-deadline register is zero (the
  deadline is not armed) and a write issued then succeeds.

The same predicates are (a) proved of every behaviour of the models (`IceProps/C13.lean`) and
(b) evaluated by the driver on the outputs / recorded histories of the implementation.
-/
namespace IceSpec.C13

/-! ## Reference-counted handles -/

inductive IOKind where
  | read | write
  deriving DecidableEq, Repr

inductive IORes where
  | ok | errClosed | data | pending | errTimeout | other
  deriving DecidableEq, Repr

/-- One observation of the handle protocol (what the harness prints after each operation). -/
inductive SObs where
  | opened (id : Nat)
  /-- `Close` of handle `h` returned; `u` = `Close` calls seen by the underlying connection so far,
      `rel` = parked reads of this handle that returned with a closed error -/
  | closed (h : Nat) (u : Nat) (rel : Nat)
  /-- the same, but `Close` returned an error (not a closed error) -/
  | closedErr (h : Nat) (u : Nat) (rel : Nat)
  /-- a read / a write through handle `h`; a write goes to connection `c` of the ufrag (`c` is meaningless for reads) -/
  | io (h : Nat) (k : IOKind) (c : Nat) (r : IORes)
  /-- fault injection: connection `c` starts (`on`) / stops refusing `SetWriteDeadline` and `SetDeadline` -/
  | fault (c : Nat) (on : Bool)
  /-- a deadline setter was called on handle `h`: `rd`/`wr` = it sets the read / the write deadline
      (`SetReadDeadline` = rd, `SetWriteDeadline` = wr, `SetDeadline` = both); `past` = to a time in the past -/
  | dl (h : Nat) (rd wr : Bool) (past : Bool) (r : IORes)
  /-- the `abortIO` sequence on handle `h` (`SetDeadline(now)`, `abortWrite`, `Close`) returned `r` (first
      error, else ok); `u`, `rel` as for `closed` -/
  | aborted (h : Nat) (r : IORes) (u : Nat) (rel : Nat)
  /-- a datagram was delivered; `rel = some h`: it completed the parked read of handle `h` -/
  | fed (rel : Option Nat)
  | skip
  deriving DecidableEq, Repr

structure SMon where
  /-- per handle: still open -/
  isOpen : List Bool := []
  /-- per handle: parked reads -/
  parked : List Nat := []
  /-- `Close` calls of the underlying connection seen so far -/
  u : Nat := 0
  /-- per handle: the handle ITSELF last set its read deadline to a time in the past -/
  ownRd : List Bool := []
  /-- per handle: the handle is open and ITSELF last set its write deadline to a time in the past (it *holds* a
      write deadline on the shared connection); reset when the handle is closed / aborted -/
  ownWd : List Bool := []
  /-- per connection of the ufrag: it refuses deadline calls right now (injected fault) -/
  refusing : List Bool := []
  /-- per connection: it has refused deadline calls at some time (its own writes may fail: it is not *healthy*) -/
  everRef : List Bool := []
  deriving DecidableEq, Repr

/-- the monitor for an underlying connection with `k` scripted connections -/
def SMon.initK (k : Nat) : SMon := { refusing := List.replicate k false, everRef := List.replicate k false }

/-- some connection refuses deadline calls: a call that forwards a write deadline may report its error -/
def SMon.faulty (m : SMon) : Bool := m.refusing.any id

def disturbedWrite : String :=
  "write of an open handle timed out under a write deadline that outlived the closed handle that armed it"
def disturbedRead : String :=
  "read of an open handle timed out under a read deadline it did not set"

/-- some open handle holds a past write deadline -/
def SMon.held (m : SMon) : Bool := m.ownWd.any id

def SMon.nOpen (m : SMon) : Nat := m.isOpen.countP id

/-- the clauses for `Close` of handle `h` (also the last step of `abortIO`) -/
def closeClause (m : SMon) (h u rel : Nat) : SMon × Option String :=
  let last := m.nOpen = 1
  let want := if last then m.u + 1 else m.u
  let m' := { m with isOpen := m.isOpen.set h false, parked := m.parked.set h 0, u := u, ownWd := m.ownWd.set h false }
  (m',
   if u > want then
     (if last then some "underlying connection closed more than once"
      else some "underlying connection closed while sibling handles are open")
   else if u < want then some "underlying connection not closed at the close of the last handle"
   else if rel ≠ m.parked.getD h 0 then some "close did not release exactly this handle's parked reads"
   else none)


/-- What C13 demands of one observation; returns the updated monitor and the first failed clause. -/
def sharedViolation (m : SMon) : SObs → SMon × Option String
  | .opened id =>
    ({ m with isOpen := m.isOpen ++ [true], parked := m.parked ++ [0], ownRd := m.ownRd ++ [false], ownWd := m.ownWd ++ [false] },
     if id ≠ m.isOpen.length then some "handle ids are not consecutive" else none)
  | .closed h u rel =>
    match m.isOpen[h]? with
    | none => (m, some "close of an unknown handle")
    | some false =>
      -- repeated Close of one handle: nothing may change
      (m, if u ≠ m.u then some "repeated Close of one handle closed the underlying connection again"
          else if rel ≠ 0 then some "repeated Close released reads" else none)
    | some true => closeClause m h u rel
  | .closedErr h u rel =>
    match m.isOpen[h]? with
    | none => (m, some "close of an unknown handle")
    | some false => (m, some "repeated Close of one handle returned an error")
    | some true =>
      let (m', why) := closeClause m h u rel
      (m', if m.faulty = false then some "Close returned an error although no connection refuses deadline calls" else why)
  | .fault c on =>
    ({ m with refusing := m.refusing.set c on, everRef := m.everRef.set c (m.everRef.getD c false || on) }, none)
  | .aborted h r u rel =>
    match m.isOpen[h]? with
    | none => (m, some "abort of an unknown handle")
    | some false =>
      (m, if r ≠ .errClosed then some "I/O on a closed handle did not fail"
          else if u ≠ m.u then some "repeated Close of one handle closed the underlying connection again"
          else if rel ≠ 0 then some "repeated Close released reads" else none)
    | some true =>
      -- the handle armed its OWN deadlines (SetDeadline(now)) and is closed: it holds nothing any more
      let (m', why) := closeClause { m with ownRd := m.ownRd.set h true } h u rel
      (m', if r ≠ .ok ∧ ¬ (r = .other ∧ m.faulty = true) then some "abortIO of an open handle failed" else why)
  | .dl h rd wr past r =>
    match m.isOpen[h]? with
    | none => (m, some "I/O on an unknown handle")
    | some false =>
      (m, if r ≠ .errClosed then some "I/O on a closed handle did not fail" else none)
    | some true =>
      ({ m with ownRd := if rd then m.ownRd.set h past else m.ownRd, ownWd := if wr then m.ownWd.set h past else m.ownWd },
       if r = .errClosed then some "I/O of an open handle failed as closed (disturbed by a sibling)"
       else if r ≠ .ok ∧ ¬ (r = .other ∧ wr = true ∧ m.faulty = true) then some "write/deadline call on an open handle did not succeed"
       else none)
  | .io h k c r =>
    match m.isOpen[h]? with
    | none => (m, some "I/O on an unknown handle")
    | some false =>
      (m, if r ≠ .errClosed then some "I/O on a closed handle did not fail" else none)
    | some true =>
      let m' := if r = .pending then { m with parked := m.parked.set h (m.parked.getD h 0 + 1) } else m
      (m',
       if r = .errClosed then some "I/O of an open handle failed as closed (disturbed by a sibling)"
       else if r = .other then some "unexpected I/O result"
       else match k with
         | .write =>
           -- a timeout is legitimate under a deadline an OPEN handle holds; a connection that has refused deadline
           -- calls is not healthy and may fail; on every healthy connection the deadline must not outlive its handle
           if r = .errTimeout then (if m.held || m.everRef.getD c false then none else some disturbedWrite)
           else if r ≠ .ok then some "write/deadline call on an open handle did not succeed" else none
         | .read =>
           if r = .ok then some "unexpected read result"
           else if r = .errTimeout ∧ m.ownRd.getD h false = false then some disturbedRead else none)
  | .fed none => (m, none)
  | .fed (some h) =>
    match m.isOpen[h]?, m.parked[h]? with
    | some true, some (n + 1) => ({ m with parked := m.parked.set h n }, none)
    | _, _ => (m, some "datagram completed a read that was not parked on an open handle")
  | .skip => (m, none)

/-- Run the monitor over a whole history; first violation with its position. -/
def sharedHistViolation (m : SMon) : List SObs → Option String
  | [] => none
  | o :: rest =>
    match sharedViolation m o with
    | (_, some why) => some why
    | (m', none) => sharedHistViolation m' rest

/-! ## Write abort: quiescent observation -/

/-- What is observed when no write and no abort is in flight. -/
structure QObs where
  /-- the `writeState` word -/
  word : Nat
  /-- the socket's write deadline is set to a time in the past -/
  armed : Bool
  /-- a `SetWriteDeadline(now)` has failed earlier in this history -/
  failedArm : Bool := false
  deriving DecidableEq, Repr

def armedText (failedArm : Bool) : String :=
  if failedArm then "write deadline left armed at quiescence after failed SetWriteDeadline(now)"
  else "write deadline left armed at quiescence"

def quiescentViolation (o : QObs) : Option String :=
  if o.armed then some (armedText o.failedArm)
  else if o.word ≠ 0 then some "writeState not zero at quiescence"
  else none

/-- Result class of a `writeToContext` call. -/
inductive WResult where
  | ok | timeout | canceled | other
  deriving DecidableEq, Repr

/-- Outcome of one socket write: completed, failed with the deadline error, failed with another error. -/
inductive SockRes where
  | ok | timeout | err
  deriving DecidableEq, Repr

/-- External events of one run of the real mux over the scripted socket (total order of recording). -/
inductive Ev where
  /-- a write called by writer `i`: `writeToContext` / a handle's `WriteTo` (`ctx`: with a cancellable context), or
      `writeToUDPAddrPort` / a handle's `WriteToAddrPort` (always `ctx = false`; the monitor treats both paths alike);
      `probe`: issued alone at quiescence -/
  | wcall (i : Nat) (ctx : Bool) (probe : Bool)
  | wret (i : Nat) (r : WResult) (probe : Bool)
  /-- the context of writer `i` is cancelled -/
  | cancel (i : Nat)
  /-- the socket's `WriteTo` (`ap = false`) or `WriteToAddrPort` (`ap = true`) is entered by writer `i` -/
  | sockCall (i : Nat) (ap : Bool)
  /-- … and its outcome is decided -/
  | sockRet (i : Nat) (r : SockRes)
  /-- `abortWrite` called / returned (`ok = false`: returned the `SetWriteDeadline` error) -/
  | acall (j : Nat)
  | aret (j : Nat) (ok : Bool)
  /-- the socket saw `SetWriteDeadline` (`now = false`: zero time) and answered (`ok = false`: failed, register untouched) -/
  | setDl (now : Bool) (ok : Bool)
  /-- quiescent observation: `writeState`, and whether the socket's write deadline is in the past -/
  | quiet (word : Nat) (armed : Bool)
  /-- the run did not become quiescent (calls did not return) -/
  | stuck
  deriving DecidableEq, Repr

structure HMon where
  writes : Nat := 0
  aborts : Nat := 0
  failedArm : Bool := false
  /-- last value written to the deadline register, as seen in the `setDl` events -/
  lastArmed : Bool := false
  /-- writers called while NO abort was in progress and no context had been cancelled since the last quiescent
      observation (a cancelled context may still bring its helper abort), and with no abort called since: such a
      write is an innocent bystander — an abort deadline must never hit it -/
  clean : List Nat := []
  cancelSeen : Bool := false
  deriving DecidableEq, Repr

def bystanderText (failedArm : Bool) : String :=
  "write called while no abort was in progress timed out under an abort deadline" ++
    (if failedArm then " after failed SetWriteDeadline(now)" else "")

/-- The strict monitor over a recorded history. -/
def histViolation (m : HMon) : List Ev → Option String
  | [] => none
  | e :: rest =>
    match e with
    | .wcall i _ _ =>
      histViolation { m with writes := m.writes + 1,
                             clean := if m.aborts = 0 ∧ m.cancelSeen = false then i :: m.clean else m.clean } rest
    | .cancel _ => histViolation { m with cancelSeen := true, clean := [] } rest
    | .sockRet i .timeout =>
      if m.clean.contains i then some (bystanderText m.failedArm) else histViolation m rest
    | .wret _ r probe =>
      if probe ∧ r ≠ .ok then
        some ("write issued at quiescence failed" ++ (if m.failedArm then " after failed SetWriteDeadline(now)" else ""))
      else histViolation { m with writes := m.writes - 1 } rest
    | .acall _ => histViolation { m with aborts := m.aborts + 1, clean := [] } rest
    | .aret _ _ => histViolation { m with aborts := m.aborts - 1 } rest
    | .setDl true true => histViolation { m with lastArmed := true } rest
    | .setDl true false => histViolation { m with failedArm := true } rest
    | .setDl false true => histViolation { m with lastArmed := false } rest
    | .setDl false false => histViolation m rest
    | .quiet word armed =>
      if m.writes ≠ 0 ∨ m.aborts ≠ 0 then some "malformed history: quiescent observation with calls in flight"
      else
        match quiescentViolation { word := word, armed := armed || m.lastArmed, failedArm := m.failedArm } with
        | some why => some why
        | none => histViolation { m with cancelSeen := false } rest
    | .stuck => some "no progress: calls on the shared socket did not return"
    | _ => histViolation m rest

end IceSpec.C13
