import IceSpec.AgentMonState
/-!
# C07 (data plane) clauses
-/
namespace IceSpec.AgentMon

def isDataTo (d : Dg) (len la ra : Nat) : Bool := d.kind == .data && d.len == len && d.src == la && d.dst == ra

/-- `write X len stunlike` -/
def c07Write (x : AgInfo) (p c : AgD) (res : String) (out : List Dg) (len : Nat) (sl : Bool) : Verdicts :=
  let okRes := s!"ok:{len}"
  if x.closed then
    (if res.startsWith "ok" then [("C07", "Write on a closed agent was accepted")] else []) ++
    (if out.isEmpty then [] else [("C07", "Write on a closed agent sent a datagram")])
  else if sl then
    (if res != "err:stun" then [("C07", s!"a payload that parses as STUN was not refused by Write (result {res})")] else []) ++
    (if out.isEmpty then [] else [("C07", "a refused STUN-like payload was sent")]) ++
    (if c.bs != p.bs then [("C07", "a refused write moved the sent-bytes counter")] else [])
  else
    let route : Option (List (Nat × Nat)) :=     -- acceptable (local, remote) routes; none = write must fail
      match p.sel with
      | some id =>
        match findPairId p id with
        | some q => some [(q.la, q.ra)]
        | none => some []      -- digest inconsistent (C06 reports it): judge nothing
      | none =>
        let succ := p.pairs.filter (·.st == "s")
        match succ with
        | [] => none
        | _ =>
          let best := succ.foldl (fun m q => if q.prio > m then q.prio else m) 0
          some ((succ.filter (·.prio == best)).map fun q => (q.la, q.ra))
    match route with
    | some [] => []
    | none =>
      (if res != "err:nopairs" then [("C07", s!"Write without a selected or validated pair did not fail with no-candidate-pairs (result {res})")] else []) ++
      (if out.isEmpty then [] else [("C07", "Write without a validated pair sent a datagram")]) ++
      (if c.bs != p.bs then [("C07", "a failed write moved the sent-bytes counter")] else [])
    | some routes =>
      (if res != okRes then [("C07", s!"Write of {len} bytes over an available pair returned {res}")] else []) ++
      (match out with
       | [d] =>
         if d.kind == .data && d.len == len && routes.contains (d.src, d.dst) then []
         else if p.sel.isSome then [("C07", s!"written data left as {showKind d} {d.src}>{d.dst} len {d.len}, not unmodified over the selected pair {routes.map fun r => s!"{r.1}>{r.2}"}")]
         else [("C07", s!"written data left as {showKind d} {d.src}>{d.dst} len {d.len}, not over the best validated pair {routes.map fun r => s!"{r.1}>{r.2}"}")]
       | [] => [("C07", "an accepted write sent no datagram")]
       | _ => [("C07", s!"one write produced {out.length} datagrams")]) ++
      (if c.bs != p.bs + len then [("C07", s!"sent-bytes counter moved by {c.bs - p.bs} for an accepted write of {len} bytes")] else [])
where
  showKind (d : Dg) : String := match d.kind with | .data => "DATA" | .req => "REQ" | .suc => "SUC" | .err => "ERR" | .ind => "IND" | .other => "OTHER"

/-- `writepair X id len stunlike` -/
def c07WritePair (x : AgInfo) (p : AgD) (res : String) (out : List Dg) (id len : Nat) (sl : Bool) : Verdicts :=
  if x.closed then [] else
  if sl then
    (if res.startsWith "ok" || !out.isEmpty then [("C07", "a payload that parses as STUN was not refused by WriteToPair")] else [])
  else if res.startsWith "ok:" then
    match findPairId p id with
    | none => [("C06", s!"WriteToPair accepted id {id}, which is not a listed pair")]
    | some q =>
      (if q.st != "s" then [("C07", s!"WriteToPair sent application data over pair {id}, which is not validated (state {q.st})")] else []) ++
      (match out with
       | [d] => if isDataTo d len q.la q.ra then [] else [("C06", s!"WriteToPair({id}) sent to {d.src}>{d.dst}, but id {id} addresses {q.la}>{q.ra}")]
       | _ => [("C07", s!"an accepted WriteToPair produced {out.length} datagrams")])
  else if out.isEmpty then [] else [("C07", "a failed WriteToPair sent a datagram")]

/-- would a non-STUN datagram arriving on local address `la` from `src` be accepted (state before the op)? -/
def dataAccepted (p : AgD) (la src : Nat) : Bool :=
  p.locs.any fun l => l.addr == la && p.rems.any fun r => r.addr == src && r.net == l.net

/-- the byte count a `Read` answer reports: `read:k` (a whole datagram of `k` bytes) or `short:k`
(`io.ErrShortBuffer`: `k` bytes of a longer datagram were copied into the caller's buffer) -/
def readReturned (res : String) : Option Nat :=
  if res.startsWith "read:" then (res.drop 5).toString.toNat?
  else if res.startsWith "short:" then (res.drop 6).toString.toNat?
  else none

/-- `read X [cap]` (caller buffer of `cap` bytes).  Two independent judgements:
(a) from the implementation's own answer alone — the received-bytes counter moves by exactly the byte count
the call returned (short reads included), by nothing when it returned no data, and never more than `cap`
bytes are returned; (b) against the queue of accepted datagrams the monitor keeps — the answer is the next
accepted datagram, whole (`read:n`) or cut to the buffer (`short:cap`), and the datagram is consumed either way. -/
def c07Read (x : AgInfo) (p c : AgD) (res : String) (cap : Nat) : Verdicts × List Nat :=
  let vCount : Verdicts :=
    match readReturned res with
    | some k =>
      (if c.br != p.br + k then [("C07", s!"received-bytes counter moved by {c.br - p.br} for a Read that returned {k} bytes ({res}, buffer {cap})")] else []) ++
      (if k > cap then [("C07", s!"Read into a buffer of {cap} bytes returned {k} bytes")] else [])
    | none => if c.br != p.br then [("C07", s!"received-bytes counter moved by {c.br - p.br} for a Read that returned no data ({res})")] else []
  if x.closed || !x.rxOk then (vCount, x.rxq.drop 1) else
  match x.rxq with
  | [] =>
    ((if res != "empty" then [("C07", s!"Read returned {res} although no accepted datagram is waiting")] else []) ++ vCount, [])
  | n :: rest =>
    let want := if cap < n then s!"short:{cap}" else s!"read:{n}"
    ((if res != want then [("C07", s!"Read into a buffer of {cap} bytes returned {res}; the next accepted datagram has {n} bytes (expected {want})")] else []) ++
     vCount, rest)

/-- the receive buffer of an agent holds at most this many bytes, 2 per datagram included (`maxBufferSize`) -/
def rxLimitBytes : Nat := 1000000

/-- per-pair counters of the pair that stays selected across the op.
`sent` / `recv`: (packets, payload bytes) with len > 0 accepted for sending over that pair / accepted inbound in this
op; `none` = not judged -/
def c07Counters (p c : AgD) (sent : Option (Option Nat)) (recv : Option (Nat × Nat)) : Verdicts :=
  match p.sel, c.sel with
  | some i, some j =>
    if i != j then [] else
    match findPairId p i, findPairId c i with
    | some o, some q =>
      (match sent with
       | none => []
       | some s =>
         let (dp, db) := match s with | some n => (1, n) | none => (0, 0)
         if q.pktSent == o.pktSent + dp && q.bytesSent == o.bytesSent + db then []
         else [("C07", s!"selected pair {i}: sent counters moved by {q.pktSent - o.pktSent} packets / {q.bytesSent - o.bytesSent} bytes, accepted for sending: {dp} / {db}")]) ++
      (match recv with
       | none => []
       | some (dp, db) =>
         if q.pktRecv == o.pktRecv + dp && q.bytesRecv == o.bytesRecv + db then []
         else [("C07", s!"selected pair {i}: receive counters moved by {q.pktRecv - o.pktRecv} packets / {q.bytesRecv - o.bytesRecv} bytes, accepted inbound: {dp} / {db}")])
    | _, _ => []
  | _, _ => []

/-- The drain epoch (judged from the implementation's outputs alone — what the reads return — plus the documented
size of the receive buffer).  While one pair stays selected since a moment at which the reader queue was empty:
(bound, every line) its received counters have not moved by more than what `Read` has consumed since plus what the
buffer can still hold; (drain, when a `read` answers `empty`) they have moved by EXACTLY the datagrams / payload bytes
the reads consumed — a datagram dropped because the buffer was full is counted nowhere.
Returns the verdicts; `rdPk`/`rdBy` are the epoch's read tallies including this op's read. -/
def c07Epoch (x : AgInfo) (c : AgD) (drained : Bool) (rdPk rdBy : Nat) : Verdicts :=
  if !x.epOk || x.closed then [] else
  if c.sel != some x.epSel then [] else
  match findPairId c x.epSel with
  | none => []
  | some q =>
    let dPk := q.pktRecv - x.epPkt0
    let dBy := q.bytesRecv - x.epByte0
    if drained then
      if dPk == rdPk && dBy == rdBy && q.pktRecv ≥ x.epPkt0 && q.bytesRecv ≥ x.epByte0 then []
      else [("C07", s!"selected pair {x.epSel}: since the reader queue was last empty its receive counters moved by {dPk} packets / {dBy} bytes, but the reads that drained the queue returned {rdPk} datagrams / {rdBy} bytes (a datagram that never reached the reader was counted on the pair, or one that did was not)")]
    else if dBy > rdBy + rxLimitBytes || dPk > rdPk + rxLimitBytes / 2 then
      [("C07", s!"selected pair {x.epSel}: since the reader queue was last empty its receive counters moved by {dPk} packets / {dBy} bytes, more than the {rdBy} bytes Read has returned plus the {rxLimitBytes} bytes the receive buffer can hold")]
    else []

end IceSpec.AgentMon
