/-!
# Parsing layer of the agent spec monitors

A tolerant parser of the canonical digest printed by harness/inpkg/zz_verif_agent_test.go
(`render` / `digest` / `describe`) into plain structures.  Nothing here knows about the model.
A line that does not have the digest shape yields `none`; the monitor then stops judging the session
(it can no longer follow the hub's in-flight list) until the next `new`.
-/
namespace IceSpec.AgentMon

structure PairD where
  id : Nat
  la : Nat
  ra : Nat
  rty : Nat
  st : String            -- w | i | f | s
  nom : Bool
  defr : Bool
  dval : Option Nat
  cnt : Nat
  prio : Nat
  reqSent : Nat
  reqRecv : Nat
  respSent : Nat
  respRecv : Nat
  pktSent : Nat
  pktRecv : Nat
  bytesSent : Nat
  bytesRecv : Nat
  /-- current round-trip time (ns) and time of the last matched response (ms), `t<rtt>/<ms|->` -/
  rtt : Nat := 0
  lastResp : Option Nat := none
  deriving Repr, Inhabited, BEq

structure RemD where
  ty : Nat
  net : Nat
  addr : Nat
  prio : Nat
  rel : String
  lr : String
  /-- 0 = the candidate's `Address()` is the canonical literal of its address; else the digest's `~n` mark
  (IPv4-mapped / expanded literal).  The transport address `(net, addr)` is the same either way. -/
  form : Nat := 0
  /-- tcptype of the candidate: 0 none, 1 active, 2 passive, 3 simultaneous-open (the digest's `^a` `^p` `^s`) -/
  tt : Nat := 0
  deriving Repr, Inhabited, BEq

structure LocD where
  ty : Nat
  net : Nat
  addr : Nat
  prio : Nat
  ls : String
  tt : Nat := 0
  deriving Repr, Inhabited, BEq

structure AgD where
  /-- the whole digest text of this agent (used to skip re-parsing an unchanged agent) -/
  raw : String := ""
  st : String := "New"
  ctl : Bool := false
  sel : Option Nat := none
  pRaw : String := ""
  rRaw : String := ""
  lRaw : String := ""
  pairs : List PairD := []
  rems : List RemD := []
  locs : List LocD := []
  cs : List String := []
  sp : List String := []
  ca : List String := []
  bs : Nat := 0
  br : Nat := 0
  pend : Nat := 0
  /-- `ar=<ms|->/<n>`: time of the last automatic renomination, number of values drawn from the counter generator -/
  lastAuto : Option Nat := none
  nomDrawn : Nat := 0
  deriving Repr, Inhabited

inductive DgKind where
  | req | suc | err | ind | data | other
  deriving Repr, Inhabited, BEq, DecidableEq

structure Dg where
  src : Nat := 0
  dst : Nat := 0
  kind : DgKind := .other
  tid : String := ""
  /-- USERNAME as token list (`_`/empty normalised to ""), `none` = attribute absent -/
  user : Option (List String) := none
  /-- password token the MESSAGE-INTEGRITY verifies under ("" = the empty password), `none` = no
  integrity attribute or an unknown key -/
  key : Option String := none
  uc : Bool := false
  /-- (ICE-CONTROLLING?, tie-breaker) -/
  role : Option (Bool × Nat) := none
  nom : Option Nat := none
  ecode : Option Nat := none
  len : Nat := 0
  /-- method is Binding -/
  binding : Bool := true
  deriving Repr, Inhabited

structure LineD where
  res : String
  a : AgD
  b : Option AgD
  out : List Dg
  deriving Repr, Inhabited

def tokN (s : String) : String := if s == "_" then "" else s

def optNat? (s : String) : Option (Option Nat) :=
  if s == "-" then some none else s.toNat?.map some

/-- `<a>/<b>/<c>/<d>` after a one-letter prefix -/
def quad? (s : String) : Option (Nat × Nat × Nat × Nat) :=
  match ((s.drop 1).toString.splitOn "/").map String.toNat? with
  | [some a, some b, some c, some d] => some (a, b, c, d)
  | _ => none

def bit? (c : Char) : Option Bool := if c == '1' then some true else if c == '0' then some false else none

/-- `n<0|1>d<0|1>v<value|->` -/
def flags? (s : String) : Option (Bool × Bool × Option Nat) :=
  match s.toList with
  | 'n' :: n :: 'd' :: d :: 'v' :: rest =>
    match bit? n, bit? d, optNat? (String.ofList rest) with
    | some n, some d, some v => some (n, d, v)
    | _, _, _ => none
  | _ => none

/-- `t<rtt ns>/<last response ms|->` -/
def rttField? (s : String) : Option (Nat × Option Nat) :=
  if !s.startsWith "t" then none else
  match (s.drop 1).toString.splitOn "/" with
  | [r, l] =>
    match r.toNat?, optNat? l with
    | some r, some l => some (r, l)
    | _, _ => none
  | _ => none

def parsePair (s : String) : Option PairD :=
  match s.splitOn ":" with
  | [id, ends, rty, st, fl, c, p, q, k, t] =>
    match id.toNat?, (ends.splitOn ">").map String.toNat?, rty.toNat?, flags? fl,
          (c.drop 1).toString.toNat?, (p.drop 1).toString.toNat?, quad? q, quad? k, rttField? t with
    | some id, [some la, some ra], some rty, some (n, d, v), some c, some p, some (q1, q2, q3, q4), some (k1, k2, k3, k4), some (rtt, lr) =>
      if st == "w" || st == "i" || st == "f" || st == "s" then
        some { id := id, la := la, ra := ra, rty := rty, st := st, nom := n, defr := d, dval := v, cnt := c, prio := p,
               reqSent := q1, reqRecv := q2, respSent := q3, respRecv := q4,
               pktSent := k1, pktRecv := k2, bytesSent := k3, bytesRecv := k4, rtt := rtt, lastResp := lr }
      else none
    | _, _, _, _, _, _, _, _, _ => none
  | _ => none

/-- tcptype mark: `a` active, `p` passive, `s` simultaneous-open → 1, 2, 3 -/
def ttOf (s : String) : Option Nat :=
  if s == "a" then some 1 else if s == "p" then some 2 else if s == "s" then some 3 else none

/-- `<ty>@<net>.<addr>[~<form>][^<tcptype>]` → (type, net, addr, form, tcptype) -/
def candHeadFT? (s : String) : Option (Nat × Nat × Nat × Nat × Nat) :=
  match s.splitOn "@" with
  | [ty, na] =>
    match na.splitOn "." with
    | [n, aft] =>
      let (af, t) : String × Option Nat := match aft.splitOn "^" with
        | [af, t] => (af, ttOf t)
        | _ => (aft, some 0)
      let (a, f) : String × Option Nat := match af.splitOn "~" with
        | [a, f] => (a, f.toNat?)
        | _ => (af, some 0)
      match ty.toNat?, n.toNat?, a.toNat?, f, t with
      | some ty, some n, some a, some f, some t => some (ty, n, a, f, t)
      | _, _, _, _, _ => none
    | _ => none
  | _ => none

def parseRem (s : String) : Option RemD :=
  match s.splitOn ":" with
  | [h, p, r, lr] =>
    match candHeadFT? h, (p.drop 1).toString.toNat? with
    | some (ty, n, a, f, t), some p =>
      if r.startsWith "r" && lr.startsWith "lr" then
        some { ty := ty, net := n, addr := a, prio := p, rel := (r.drop 1).toString, lr := (lr.drop 2).toString, form := f, tt := t }
      else none
    | _, _ => none
  | _ => none

def parseLoc (s : String) : Option LocD :=
  match s.splitOn ":" with
  | [h, p, ls] =>
    match candHeadFT? h, (p.drop 1).toString.toNat? with
    | some (ty, n, a, 0, t), some p =>
      if ls.startsWith "ls" then some { ty := ty, net := n, addr := a, prio := p, ls := (ls.drop 2).toString, tt := t } else none
    | _, _ => none
  | _ => none

/-- body of `X[...]` given the field text `X[...]` and the prefix length -/
def bracket? (s : String) (pre : String) : Option String :=
  if s.startsWith pre && s.endsWith "]" then some ((s.drop pre.length).dropEnd 1).toString else none

def listOf (s : String) : List String := if s.isEmpty then [] else s.splitOn ","

def kvVal? (s : String) (pre : String) : Option String :=
  if s.startsWith pre then some (s.drop pre.length).toString else none

/-- `<ms|->/<n>` -/
def autoField? (s : String) : Option (Option Nat × Nat) :=
  match s.splitOn "/" with
  | [t, n] =>
    match optNat? t, n.toNat? with
    | some t, some n => some (t, n)
    | _, _ => none
  | _ => none

def parseAgent (raw : String) : Option AgD :=
  match raw.splitOn ";" with
  | [st, ctl, sel, p, r, l, cs, sp, ca, bs, br, pend, ar] =>
    match kvVal? st "st=", kvVal? ctl "ctl=", (kvVal? sel "sel=").bind optNat?, bracket? p "P[", bracket? r "R[", bracket? l "L[",
          bracket? cs "cs[", bracket? sp "sp[", bracket? ca "ca[",
          (kvVal? bs "bs=").bind String.toNat?, (kvVal? br "br=").bind String.toNat?, (kvVal? pend "pend=").bind String.toNat?,
          (kvVal? ar "ar=").bind autoField? with
    | some st, some ctl, some sel, some p, some r, some l, some cs, some sp, some ca, some bs, some br, some pend, some (la, nd) =>
      match (listOf p).mapM parsePair, (listOf r).mapM parseRem, (listOf l).mapM parseLoc with
      | some ps, some rs, some ls =>
        if ctl == "0" || ctl == "1" then
          some { raw := raw, st := st, ctl := ctl == "1", sel := sel, pRaw := p, rRaw := r, lRaw := l, pairs := ps, rems := rs, locs := ls,
                 cs := listOf cs, sp := listOf sp, ca := listOf ca, bs := bs, br := br, pend := pend, lastAuto := la, nomDrawn := nd }
        else none
      | _, _, _ => none
    | _, _, _, _, _, _, _, _, _, _, _, _, _ => none
  | _ => none

def parseKey (s : String) : Option String :=
  if s == "-" || s == "?" then none else some (tokN s)

def parseRole (s : String) : Option (Option (Bool × Nat)) :=
  if s == "-" then some none
  else if s.startsWith "c" then (s.drop 1).toString.toNat?.map fun n => some (true, n)
  else if s.startsWith "d" then (s.drop 1).toString.toNat?.map fun n => some (false, n)
  else none

/-- fields after the user part of a REQ: `k= p= uc= role= nom=` -/
def parseReqTail (d : Dg) (userParts : List String) (tail : List String) : Option Dg :=
  match tail with
  | [k, _p, uc, role, nom] =>
    match kvVal? k "k=", kvVal? uc "uc=", (kvVal? role "role=").bind parseRole, (kvVal? nom "nom=").bind optNat? with
    | some k, some uc, some role, some nom =>
      let user : Option (List String) := match userParts with
        | ["-"] => none
        | l => some (l.map tokN)
      some { d with kind := .req, user := user, key := parseKey k, uc := uc == "1", role := role, nom := nom }
    | _, _, _, _ => none
  | _ => none

def parseDg (s : String) : Option Dg :=
  match s.splitOn ":" with
  | ends :: kind :: rest =>
    match (ends.splitOn ">").map String.toNat? with
    | [some src, some dst] =>
      let d : Dg := { src := src, dst := dst }
      if kind == "DATA" then
        match rest with
        | [n] => n.toNat?.map fun n => { d with kind := .data, len := n }
        | _ => none
      else if kind == "REQ" then
        match rest with
        | tid :: u :: more =>
          match kvVal? u "u=" with
          | some u0 =>
            -- the user name may itself contain ':'; it ends where the `k=` field starts
            let userMore := more.takeWhile fun x => !x.startsWith "k="
            let tail := more.dropWhile fun x => !x.startsWith "k="
            parseReqTail { d with tid := tid } (u0 :: userMore) tail
          | none => none
        | _ => none
      else if kind == "SUC" then
        match rest with
        | [tid, k] => (kvVal? k "k=").map fun k => { d with kind := .suc, tid := tid, key := parseKey k }
        | _ => none
      else if kind == "ERR" then
        match rest with
        | [tid, k, e] =>
          match kvVal? k "k=", (kvVal? e "e=").bind optNat? with
          | some k, some e => some { d with kind := .err, tid := tid, key := parseKey k, ecode := e }
          | _, _ => none
        | _ => none
      else if kind == "IND" then
        match rest with
        | [tid] => some { d with kind := .ind, tid := tid }
        | _ => none
      else if kind == "OTHER" then
        match rest with
        | [tid] => some { d with kind := .other, tid := tid, binding := false }
        | _ => none
      else if kind == "UNDECODABLE" then some { d with kind := .other, binding := false }
      else none
    | _ => none
  | _ => none

/-- split `a<sep>b` at the FIRST occurrence of `sep` -/
def cut? (s : String) (sep : String) : Option (String × String) :=
  match s.splitOn sep with
  | [a, b] => some (a, b)
  | a :: b :: rest => some (a, sep.intercalate (b :: rest))
  | _ => none

/-- parse a whole output line; `pa`/`pb` are the previously parsed digests (re-used when the text is unchanged). -/
def parseLine (impl : String) (pa : AgD) (pb : Option AgD) : Option LineD :=
  match cut? impl ";A{" with
  | none => none
  | some (res, rest) =>
    match cut? rest "};B{" with
    | none => none
    | some (atxt, rest) =>
      match cut? rest "};out[" with
      | none => none
      | some (btxt, otxt) =>
        if !(res.startsWith "res=" && otxt.endsWith "]") then none else
        let res := (res.drop 4).toString
        let otxt := (otxt.dropEnd 1).toString
        let a := if atxt == pa.raw then some pa else parseAgent atxt
        let b : Option (Option AgD) :=
          if btxt == "-" then some none
          else match pb with
            | some p => if btxt == p.raw then some (some p) else (parseAgent btxt).map some
            | none => (parseAgent btxt).map some
        let outs := if otxt.isEmpty then some [] else (otxt.splitOn "|").mapM parseDg
        match a, b, outs with
        | some a, some b, some outs => some { res := res, a := a, b := b, out := outs }
        | _, _, _ => none

/-- `k=v,…` config / message spec -/
def kvs (s : String) : List (String × String) :=
  (s.splitOn ",").filterMap fun kv =>
    match kv.splitOn "=" with
    | [k, v] => some (k, v)
    | k :: v :: rest => some (k, "=".intercalate (v :: rest))
    | _ => none

def look (l : List (String × String)) (k : String) : Option String := (l.find? (·.1 == k)).map (·.2)

end IceSpec.AgentMon
