import IceSpec.AgentMonC01
/-!
# C20, sentence 2: quiescent agreement of a renomination exchange

Evaluated at a `mark` (the generator writes `mark fairend` after its fair loss-free suffix).  Everything is read off
the operations and the IMPLEMENTATION's output lines:

* the nominations the controlling agent issued = the Binding requests with a nomination value it emitted (`emitted`);
* a nomination's exchange completed = the success response with its transaction id was delivered to the issuer and
  accepted (`answered`: a pair's response counter grew on that delivery);
* quiesced = no datagram with a nomination value is in flight, and the controlled agent has no pair that still carries
  the highest value as a deferred nomination.

Clause: in a session in scope (two agents, started before the first renomination, fixed and opposite roles, the
controlled agent full, nobody Failed, no restart / close, no forged traffic, fixed topology, every inbound datagram
attributable), if the exchange has quiesced and the exchange of THE nomination with the highest value issued completed,
then the controlling agent's selected pair is the pair that nomination was issued on and the controlled agent's
selected pair is its mirror image modulo NAT.  A lost highest nomination (request or response dropped) is outside the
premise: the implementation does not retransmit nominations.
-/
namespace IceSpec.AgentMon

def c20Scope (s : MonState) : Bool :=
  s.hasB && !s.forged && !s.anyRestart && !s.anyClose && !s.roleMoved && !s.renomEarly && !s.mixedNets &&
  !s.uncertainFlag && !s.topoLate && s.a.started && s.b.started && !s.a.everFailed && !s.b.everFailed

def c20Agreement (s : MonState) (ca cb : AgD) : Verdicts :=
  if !c20Scope s || ca.ctl == cb.ctl then [] else
  -- C = the controlling agent, D = the controlled one
  let (xc, cc, cd, nc, nd) := if ca.ctl then (s.a, ca, cb, "A", "B") else (s.b, cb, ca, "B", "A")
  let xd := if ca.ctl then s.b else s.a
  if xd.lite || ca.st == "Failed" || cb.st == "Failed" then [] else
  let issued := xc.emitted.filter fun e => e.nom.isSome && e.gen == xc.gen
  match issued.foldl (fun m e => max m (e.nom.getD 0)) 0 with
  | 0 => []
  | v =>
    let top := issued.filter fun e => e.nom == some v
    match top with
    | [] => []
    | e0 :: _ =>
      -- the highest value was issued on one pair only, and its exchange completed
      if !(top.all fun e => e.src == e0.src && e.dst == e0.dst) then []
      else if !(top.any fun e => xc.answered.contains e.tid) then []
      -- quiesced
      else if s.infl.any (·.nom.isSome) then []
      else if cd.pairs.any (fun q => q.defr && q.dval == some v) then []
      else
        let vc : Verdicts := match selPair cc with
          | some x =>
            if x.la == e0.src && x.ra == e0.dst then []
            else [("C20", s!"quiescent agreement: the exchange of the highest nomination {v} ({e0.src}>{e0.dst}) completed, but the controlling agent {nc} is on {x.la}>{x.ra}")]
          | none => [("C20", s!"quiescent agreement: the exchange of the highest nomination {v} ({e0.src}>{e0.dst}) completed, but the controlling agent {nc} has no selected pair")]
        let want : PairD := { (default : PairD) with la := e0.src, ra := e0.dst }
        let vd : Verdicts := match selPair cd with
          | some y =>
            if (if ca.ctl then s.mirror want y else s.mirror y want) then []
            else [("C20", s!"quiescent agreement: the exchange of the highest nomination {v} ({e0.src}>{e0.dst}) completed, but the controlled agent {nd} is on {y.la}>{y.ra}, not on the mirror image")]
          | none => [("C20", s!"quiescent agreement: the exchange of the highest nomination {v} ({e0.src}>{e0.dst}) completed, but the controlled agent {nd} has no selected pair")]
        vc ++ vd

end IceSpec.AgentMon
