import IceSpec.AgentMonC01
/-!
# C20, sentence 2: quiescent agreement of a renomination exchange

Evaluated at a `mark` (the generator writes `mark fairend` / `mark quiesced` after its fair loss-free suffixes).
Everything is read off the operations and the IMPLEMENTATION's output lines:

* the nominations the controlling agent issued = the Binding requests with a nomination value it emitted (`emitted`);
* a nomination's exchange completed = the success response with its transaction id was delivered to the issuer and
  accepted (`answered`: a pair's response counter grew on that delivery);
* quiesced = no datagram with a nomination value is in flight, and the controlled agent has no pair that still carries
  the highest value as a deferred nomination.

Scope (`c20Scope`): two agents, started before the first renomination, fixed and opposite roles, nobody Failed, no
restart / close, no forged traffic, fixed topology, every inbound datagram attributable.  The controlled agent may be
full or lite.

`c20Agreement`: if the exchange has quiesced and the exchange of THE nomination with the highest value issued
completed, then the controlling agent's selected pair is the pair that nomination was issued on and the controlled
agent's selected pair is its mirror image modulo NAT (C20; when both have a selection and the two are not mirror
images, also C01: "the pairs they select are mirror images").  A lost highest nomination (request or response
dropped) is outside the premise: the implementation does not retransmit nominations.

`c20Settled` (the controlled side validates the renominated pair): if that exchange completed, nothing was dropped
since the nomination was issued, nothing is blocked, the hub is empty and the fair loss-free run before the mark had
at least 3 rounds and lasted at least the controlling agent's keepalive interval + 1 s (so a keepalive of the
controlling agent on its new pair has reached the controlled agent), then the controlled agent no longer holds the
highest value as a DEFERRED nomination: a Binding request on a pair the controlled agent has not validated itself
makes it send its own (triggered) check, whose answer completes the nomination.
-/
namespace IceSpec.AgentMon

def c20Scope (s : MonState) : Bool :=
  s.hasB && !s.forged && !s.anyRestart && !s.anyClose && !s.roleMoved && !s.renomEarly && !s.mixedNets &&
  !s.uncertainFlag && !s.topoLate && s.a.started && s.b.started && !s.a.everFailed && !s.b.everFailed

/-- the nomination with the highest value the controlling agent issued, when it was issued on one pair only and its
exchange completed: (value, first emission, all emissions) -/
def c20Top (xc : AgInfo) : Option (Nat × Emit × List Emit) :=
  let issued := xc.emitted.filter fun e => e.nom.isSome && e.gen == xc.gen
  match issued.foldl (fun m e => max m (e.nom.getD 0)) 0 with
  | 0 => none
  | v =>
    let top := issued.filter fun e => e.nom == some v
    match top with
    | [] => none
    | e0 :: _ =>
      if !(top.all fun e => e.src == e0.src && e.dst == e0.dst) then none
      else if !(top.any fun e => xc.answered.contains e.tid) then none
      else some (v, e0, top)

def c20Agreement (s : MonState) (ca cb : AgD) : Verdicts :=
  if !c20Scope s || ca.ctl == cb.ctl then [] else
  -- C = the controlling agent, D = the controlled one
  let (xc, cc, cd, nc, nd) := if ca.ctl then (s.a, ca, cb, "A", "B") else (s.b, cb, ca, "B", "A")
  if ca.st == "Failed" || cb.st == "Failed" then [] else
  match c20Top xc with
  | none => []
  | some (v, e0, _) =>
      -- quiesced
      if s.infl.any (·.nom.isSome) then []
      else if cd.pairs.any (fun q => q.defr && q.dval == some v) then []
      else
        let vc : Verdicts := match selPair cc with
          | some x =>
            if x.la == e0.src && x.ra == e0.dst then []
            else [("C20", s!"quiescent agreement: the exchange of the highest nomination {v} ({e0.src}>{e0.dst}) completed, but the controlling agent {nc} is on {x.la}>{x.ra}")]
          | none => [("C20", s!"quiescent agreement: the exchange of the highest nomination {v} ({e0.src}>{e0.dst}) completed, but the controlling agent {nc} has no selected pair")]
        let want : PairD := { (default : PairD) with la := e0.src, ra := e0.dst }
        let vd : Verdicts := match selPair cd with
          | some y =>
            if (if ca.ctl then s.mirror want y else s.mirror y want) then []
            else [("C20", s!"quiescent agreement: the exchange of the highest nomination {v} ({e0.src}>{e0.dst}) completed, but the controlled agent {nd} is on {y.la}>{y.ra}, not on the mirror image")]
          | none => [("C20", s!"quiescent agreement: the exchange of the highest nomination {v} ({e0.src}>{e0.dst}) completed, but the controlled agent {nd} has no selected pair")]
        let vm : Verdicts := match selPair ca, selPair cb with
          | some x, some y =>
            if s.mirror x y then []
            else [("C01", s!"the renomination exchange has quiesced (the exchange of the highest nomination {v} completed) but the selected pairs are not mirror images: A {x.la}>{x.ra}, B {y.la}>{y.ra}")]
          | _, _ => []
        vc ++ vd ++ vm

def c20Settled (s : MonState) (ca cb : AgD) : Verdicts :=
  if !c20Scope s || ca.ctl == cb.ctl then [] else
  let (xc, cd, nd) := if ca.ctl then (s.a, cb, "B") else (s.b, ca, "A")
  if ca.st == "Failed" || cb.st == "Failed" then [] else
  match c20Top xc with
  | none => []
  | some (v, e0, top) =>
    let noLoss := s.blocked.isEmpty && (match s.lastDrop with | none => true | some l => top.all fun e => l < e.ln)
    let fair := s.infl.isEmpty && s.fairRounds ≥ 3 && xc.ka > 0 && s.fairTime ≥ xc.ka + 1000
    if !(noLoss && fair) then [] else
    match cd.pairs.find? (fun q => q.defr && q.dval == some v && q.st != "f") with
    | none => []
    | some q =>
      [("C20", s!"the exchange of the highest nomination {v} ({e0.src}>{e0.dst}) completed and a fair loss-free run of {s.fairRounds} rounds / {s.fairTime} ms is over, but the controlled agent {nd} still holds it as a deferred nomination on pair {q.id} ({q.la}>{q.ra}, state {q.st}): its own check of that pair never completed")] ++
      (match selPair ca, selPair cb with
       | some x, some y =>
         if s.mirror x y then []
         else [("C01", s!"the renomination has not converged after a fair loss-free run of {s.fairRounds} rounds / {s.fairTime} ms: the controlled agent {nd} never validated the renominated pair {q.la}>{q.ra}; the selected pairs are not mirror images: A {x.la}>{x.ra}, B {y.la}>{y.ra}")]
       | _, _ => [])

end IceSpec.AgentMon
