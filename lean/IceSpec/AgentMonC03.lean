import IceSpec.AgentMonState
/-!
# C03 (only validated and nominated pairs are selected) and C20 (renomination) clauses
-/
namespace IceSpec.AgentMon

def emittedOn (x : AgInfo) (tid : String) (la ra : Nat) (needUC : Bool) : Bool :=
  x.emitted.any fun e => e.tid == tid && e.src == la && e.dst == ra && e.gen == x.gen && (!needUC || e.uc)

def emitOf (x : AgInfo) (tid : String) : Option Emit := x.emitted.find? fun e => e.tid == tid && e.gen == x.gen

def prioOf (p c : AgD) (id : Nat) : Option Nat :=
  match findPairId p id with
  | some q => some q.prio
  | none => (findPairId c id).map (·.prio)

/-- the selection of agent `isB` moved to a pair that was not selected before the op -/
def c03Select (isB : Bool) (x : AgInfo) (p c : AgD) (tgt : Tgt) : Verdicts :=
  match c.sel with
  | none => []
  | some q =>
    if p.sel == some q || x.closed then [] else
    match findPairId c q with
    | none => []
    | some pr =>
      let v0 : Verdicts :=
        (if pr.st != "s" then [("C03", s!"selected pair {q} is not in the valid list (state {pr.st})")] else []) ++
        (if !pr.nom then [("C03", s!"selected pair {q} is not nominated")] else []) ++
        (if !x.lite && pr.respRecv == 0 then [("C03", s!"selected pair {q} was never validated (no matched success response)")] else [])
      let v1 : Verdicts :=
        match tgt with
        | .unknown => []
        | .nobody => [("C03", s!"pair {q} became selected by an operation that handed no message to the agent")]
        | .to inc =>
          if inc.toB != isB then [("C03", s!"pair {q} became selected by an operation that handed no message to the agent")] else
          let d := inc.d
          let onPair := inc.la == pr.la && inc.src == pr.ra
          let sucOk (needUC : Bool) : Bool := d.binding && respAuth x d && onPair && emittedOn x d.tid pr.la pr.ra needUC
          let reqOk : Bool := d.binding && onPair && (d.uc || d.nom.isSome) && !conflicting p.ctl d && (!x.credsKnown || reqAuth x d)
          -- F14 wording: the response is authentic and matches a request of this agent to the same remote
          -- address, but that request left from ANOTHER local candidate (it is another pair's check)
          let otherLocal : Option Emit :=
            if d.kind == .suc && d.binding && respAuth x d && onPair then
              x.emitted.find? fun e => e.tid == d.tid && e.gen == x.gen && e.dst == pr.ra && e.src != pr.la
            else none
          let f14 (e : Emit) : Verdicts :=
            [("C03", s!"pair {q} ({pr.la}>{pr.ra}) was validated and selected by a success response to a request sent from another local candidate ({e.tid} on {e.src}>{e.dst}): not a check of its own")]
          let vWhy : Verdicts :=
            if p.ctl then
              if d.kind == .suc && sucOk true then []
              else match otherLocal with
                | some e => f14 e
                | none => [("C03", s!"controlling agent selected pair {q} ({pr.la}>{pr.ra}) without an authenticated success response to a USE-CANDIDATE request it sent on that pair")]
            else if x.lite then
              if d.kind == .req && reqOk then []
              else [("C03", s!"lite controlled agent selected pair {q} ({pr.la}>{pr.ra}) without an authenticated nomination received on that pair")]
            else
              if d.kind == .req && reqOk then []
              else if d.kind == .suc && sucOk false && x.nomReq.contains (pr.la, pr.ra) then []
              else match otherLocal with
                | some e => if x.nomReq.contains (pr.la, pr.ra) then f14 e else
                    [("C03", s!"controlled agent selected pair {q} ({pr.la}>{pr.ra}) without an authenticated USE-CANDIDATE/nomination received on that pair and a validating response")]
                | none => [("C03", s!"controlled agent selected pair {q} ({pr.la}>{pr.ra}) without an authenticated USE-CANDIDATE/nomination received on that pair and a validating response")]
          -- no downward switch by a plain USE-CANDIDATE
          let vDown : Verdicts :=
            match p.sel with
            | none => []
            | some o =>
              if x.lite && !x.ucp then [] else
              let plain : Bool :=
                if d.kind == .req then d.uc && d.nom.isNone
                else if d.kind == .suc then
                  if p.ctl then (match emitOf x d.tid with | some e => e.uc && e.nom.isNone | none => false)
                  else (match findPairId p q with | some b => b.defr && b.dval.isNone | none => false)
                else false
              match plain, prioOf p c o, prioOf p c q with
              | true, some po, some pq =>
                if pq < po then [("C03", s!"a plain USE-CANDIDATE moved the selection from pair {o} (priority {po}) down to pair {q} (priority {pq})")] else []
              | _, _, _ => []
          (if x.credsKnown then vWhy else []) ++ vDown
      v0 ++ v1

/-- every request an agent emits -/
def c03Emitted (a b : AgInfo) (out : List Dg) : Verdicts :=
  out.foldl (fun (acc : Verdicts) d =>
    if d.kind != .req then acc else
    let x := if d.tid.startsWith "B#" then some b else if d.tid.startsWith "A#" then some a else none
    let ctld := match d.role with | some (false, _) => true | _ => false
    acc ++ (if d.uc && ctld then [("C03", s!"a controlled agent sent USE-CANDIDATE ({d.src}>{d.dst} {d.tid})")] else []) ++
    (match x with
     | some x => if x.lite && ctld then [("C03", s!"a lite agent in the controlled role originated a Binding request ({d.src}>{d.dst} {d.tid})")] else []
     | none => [])) []

/-! ## C20 -/

/-- C20, "only a controlling agent with the feature enabled can renominate" — judged on the wire, whoever caused the
request (`RenominateCandidate` or the automatic check): no Binding request carrying a nomination VALUE leaves an agent that
is in the controlled role or was built without `WithRenomination`; and (C03) no USE-CANDIDATE leaves an agent in the
controlled role.  The role is the agent's own (`ctl` of its digest before and after the operation: an operation that
changes the role is not judged), not the role attribute of the message — `sendNominationRequest` always writes
ICE-CONTROLLING.  `pa`/`ca` (`pb`/`cb`): digests of A (B) before / after the operation. -/
def c20Issuer (a b : AgInfo) (pa ca : AgD) (pb cb : Option AgD) (out : List Dg) : Verdicts :=
  out.foldl (fun (acc : Verdicts) d =>
    if d.kind != .req || !d.binding then acc else
    let who : Option (String × AgInfo × Bool × Bool) :=
      if d.tid.startsWith "A#" then some ("A", a, pa.ctl, ca.ctl)
      else if d.tid.startsWith "B#" then
        match pb, cb with
        | some pb, some cb => some ("B", b, pb.ctl, cb.ctl)
        | _, _ => none
      else none
    match who with
    | none => acc
    | some (w, x, ctl0, ctl1) =>
      let controlled := !ctl0 && !ctl1
      acc ++
      (match d.nom with
       | some v =>
         (if controlled then [("C20", s!"agent {w} is in the controlled role and sent a nomination with value {v} ({d.src}>{d.dst} {d.tid}): only a controlling agent can renominate")] else []) ++
         (if !x.renom then [("C20", s!"agent {w} was built without renomination and sent a nomination with value {v} ({d.src}>{d.dst} {d.tid})")] else [])
       | none => []) ++
      (if d.uc && controlled then [("C03", s!"agent {w} is in the controlled role and sent USE-CANDIDATE ({d.src}>{d.dst} {d.tid})")] else [])) []

def flagsChanged (p c : AgD) : Bool :=
  c.pairs.any fun q =>
    match findPairId p q.id with
    | some o => o.defr != q.defr || o.dval != q.dval
    | none => q.defr

/-- a valued nomination handed to a controlled agent; returns verdicts and the new greatest accepted value -/
def c20Request (x : AgInfo) (inc : Inc) (p c : AgD) : Verdicts × Option Nat :=
  let d := inc.d
  match d.nom with
  | none => ([], x.maxAcc)
  | some v =>
    if !(d.kind == .req && d.binding && x.credsKnown && reqAuth x d && !p.ctl && !conflicting p.ctl d && srcAcceptable x p inc.src) then ([], x.maxAcc) else
    let wiped := c.st == "Failed"
    let stale : Bool := match x.maxAcc with | some m => decide (v ≤ m) | none => false
    if stale then
      let m := x.maxAcc.getD 0
      ((if c.sel != p.sel && !wiped then [("C20", s!"nomination value {v} is not greater than the accepted {m}, yet the selection changed")] else []) ++
       (if flagsChanged p c && !wiped then [("C20", s!"nomination value {v} is not greater than the accepted {m}, yet it was recorded as a deferred nomination")] else []),
       x.maxAcc)
    else
      let before := findPairAddr p inc.la inc.src
      let after := findPairAddr c inc.la inc.src
      let v1 : Verdicts :=
        if wiped || after.isEmpty then []
        else if x.lite || before.any (·.st == "s") then
          if after.any fun q => c.sel == some q.id then []
          else [("C20", s!"nomination value {v} exceeds every accepted value and its pair {inc.la}>{inc.src} is valid, but the selection did not move to it")]
        else
          if after.any fun q => (q.defr && q.dval == some v) || c.sel == some q.id then []
          else [("C20", s!"nomination value {v} exceeds every accepted value but was neither applied nor remembered for pair {inc.la}>{inc.src}")]
      (v1, some v)

/-- a success response validated a pair carrying a deferred valued nomination -/
def c20Response (x : AgInfo) (inc : Inc) (p c : AgD) : Verdicts :=
  if !(inc.d.kind == .suc && !p.ctl && !c.ctl) then [] else
  p.pairs.foldl (fun (acc : Verdicts) o =>
    match o.defr, o.dval, findPairId c o.id with
    | true, some v, some q =>
      if q.respRecv > o.respRecv then
        if some v == x.maxAcc then
          (if c.sel == some o.id then acc else acc ++ [("C20", s!"pair {o.id} carrying the latest accepted nomination {v} became valid but was not selected")])
        else
          (if c.sel == p.sel then acc else acc ++ [("C20", s!"deferred nomination {v} on pair {o.id} was superseded by a greater accepted value, yet the selection changed when the pair became valid")])
      else acc
    | _, _, _ => acc) []

end IceSpec.AgentMon
