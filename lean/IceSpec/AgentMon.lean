import IceSpec.AgentMonParse
import IceSpec.AgentMonState
import IceSpec.AgentMonC06
import IceSpec.AgentMonC02
import IceSpec.AgentMonC03
import IceSpec.AgentMonC07
import IceSpec.AgentMonC01
import IceSpec.AgentMonC20
/-!
# Spec monitors over the IMPLEMENTATION's observable trace of the `agent` component

`observe` is fed every (operation, implementation output) line of a session and returns the clauses of
C01–C07 / C20 that the implementation's own outputs violate.  It parses the canonical digest printed by
the harness (see harness/inpkg/zz_verif_agent_test.go) and never looks at the model.

Layout: `AgentMonParse` (digest parser), `AgentMonState` (what is remembered, hub rules),
`AgentMonC06` (C06 + C04), `AgentMonC02` (C02 + C05), `AgentMonC03` (C03 + C20), `AgentMonC07`,
`AgentMonC01`, `AgentMonC20` (quiescent agreement, at a `mark`); this file wires them to the operations.  See notes/AgentMon.md for the clause list.
-/
namespace IceSpec.AgentMon

def cfgInfo (cfg : String) : AgInfo :=
  let l := kvs cfg
  let u := (look l "u").getD "_"
  let p := (look l "p").getD "_"
  let lite := look l "lite" == some "1"
  let disc := ((look l "disc").bind String.toNat?).getD (if lite then 10000 else 5000)
  let fail := ((look l "fail").bind String.toNat?).getD 25000
  { disc := disc, fail := fail,
    checkDeadline := if fail == 0 then 0 else (if lite && (look l "disc").isNone then 5000 else disc) + fail,
    lite := lite, ucp := look l "ucp" == some "1", renom := look l "renom" == some "1",
    disc0 := look l "disc" == some "0",
    tb := ((look l "tb").bind String.toNat?).getD 0,
    ka := ((look l "ka").bind String.toNat?).getD 2000,
    waits := [((look l "hw").bind String.toNat?).getD 0, ((look l "sw").bind String.toNat?).getD 500,
              ((look l "pw").bind String.toNat?).getD 1000, ((look l "rw").bind String.toNat?).getD 2000],
    blk := match look l "blk" with | some v => (v.splitOn "+").filterMap String.toNat? | none => [],
    credsKnown := u != "_" && p != "_" && u != "" && p != "",
    lu := tokN u, lp := tokN p }

def c08Of (impl : String) : Verdicts :=
  if impl.startsWith "PANIC" then [("C08", "the operation panicked: " ++ (impl.take 200).toString)]
  else if impl.startsWith "SESSION-DIED" then [("C08", "the session died: " ++ (impl.take 200).toString)]
  else if impl.startsWith "ended " then [("C08", "the session did not end cleanly (leaked or deadlocked goroutines): " ++ impl)]
  else []

/-- inbound application data of this op: (receiver, local addr, source as seen, length, stun-like) -/
structure DataIn where
  toB : Bool
  la : Nat
  src : Nat
  len : Nat
  stunLike : Bool
  /-- number of such datagrams in this op (`flood`) -/
  count : Nat := 1

structure OpCtx where
  tgt : Tgt := .nobody
  dataIn : Option DataIn := none
  /-- the target of an inbound op could not be decided -/
  unknownTgt : Bool := false

def isOk (res : String) : Bool := res == "ok"

/-- per-agent part of one step; returns verdicts and the updated info -/
def agentStep (s : MonState) (toks : List String) (isB : Bool) (x : AgInfo) (p c : AgD) (line : LineD) (ctx : OpCtx) (t1 : Nat)
    (uncertain : Bool) : Verdicts × AgInfo :=
  let w := if isB then "B" else "A"
  let res := line.res
  let out := line.out
  let opIs (name : String) : Bool := match toks with | n :: who :: _ => n == name && who == w | _ => false
  let isRestart := opIs "restart" && isOk res
  -- the digest of a closed agent hides its pairs: from the `close` op on it is judged as closed
  let x := if opIs "close" then { x with closed := true } else x
  let changedP := p.pRaw != c.pRaw
  let changedAny := changedP || p.rRaw != c.rRaw || p.lRaw != c.lRaw || p.sel != c.sel
  let inc? : Option Inc := match ctx.tgt with | .to i => if i.toB == isB then some i else none | _ => none
  -- C06
  let v06 := (if changedAny then c06StaticNew x p c else []) ++ (if changedP then c06Dyn x p c else []) ++ (if isRestart then c06Restart c else []) ++
    (if p.rRaw != c.rRaw then c06Supersede x w p c toks ++ c06NoDupPrflx x p c toks else [])
  -- C04
  let (v04, lastCb) := if c.cs.isEmpty && c.st == x.lastCb && c.st == p.st && c.sel == p.sel then ([], x.lastCb) else c04 x isRestart c
  let xt := { x with checkEnter := if c.cs.contains "Checking" then some (s.now, t1) else x.checkEnter,
                     firstCheckEnter := if x.firstCheckEnter.isNone && c.cs.contains "Checking" then some s.now else x.firstCheckEnter }
  let v04t := if x.closed then [] else c04Timing xt p c s.now t1
  -- C02 / C05
  let v02 := match inc? with | some i => c02c05 s.now x i p c out | none => []
  -- C03 / C20
  let v03 := if uncertain then (if c.sel != p.sel then c03Select isB x p c .unknown else []) else (if c.sel != p.sel then c03Select isB x p c ctx.tgt else [])
  let (v20, maxAcc) : Verdicts × Option Nat := match inc? with
    | some i => if uncertain then ([], x.maxAcc) else
      let (v, m) := c20Request x i p c
      (v ++ (if x.credsKnown then c20Response x i p c else []), m)
    | none => ([], x.maxAcc)
  -- C07
  let len3 : Nat := match toks with | _ :: _ :: l :: _ => (l.toNat?).getD 0 | _ => 0
  let v07op : Verdicts × List Nat :=
    match toks with
    | ["write", _, _, sl] => if opIs "write" then (c07Write x p c res out len3 (sl == "1"), x.rxq) else ([], x.rxq)
    | ["writepair", _, id, l, sl] =>
      if opIs "writepair" then (c07WritePair x p res out ((id.toNat?).getD 0) ((l.toNat?).getD 0) (sl == "1"), x.rxq) else ([], x.rxq)
    | ["read", _] => if opIs "read" then c07Read x p c res 8192 else ([], x.rxq)
    | ["read", _, cap] => if opIs "read" then c07Read x p c res ((cap.toNat?).getD 8192) else ([], x.rxq)
    | _ => ([], x.rxq)
  let (v07a, rxq) := v07op
  let isStart := opIs "start"
  let v07b : Verdicts :=
    if x.closed || isStart then [] else
    let wlen : Nat := match toks with | ["writepair", _, _, l, _] => (l.toNat?).getD 0 | _ => 0
    (if opIs "write" then []
     else if opIs "writepair" then (if c.bs == p.bs || c.bs == p.bs + wlen then [] else [("C07", "sent-bytes counter moved by more than the payload of WriteToPair")])
     else if c.bs != p.bs then [("C07", s!"sent-bytes counter moved from {p.bs} to {c.bs} without a Write")] else []) ++
    (if opIs "read" then [] else if c.br != p.br then [("C07", s!"received-bytes counter moved from {p.br} to {c.br} without a Read")] else [])
  let offered : Option (Nat × Nat) :=     -- (length, count) of the payloads of this op that pass the source filter
    match ctx.dataIn with
    | some d => if d.toB == isB && !d.stunLike && dataAccepted p d.la d.src then some (d.len, d.count) else none
    | none => none
  -- do they surely fit into the receive buffer?  (`x.rxBytes` bounds what it holds from above)
  let fitsSure : Bool := match offered with
    | some (n, k) => x.rxOk && n ≤ 8192 && x.rxBytes + k * (n + 2) ≤ rxLimitBytes
    | none => true
  let accepted : Option (Nat × Nat) := if fitsSure then offered else none
  let sentExp : Option (Option Nat) :=
    match toks with
    | ["write", _, _, sl] =>
      if !opIs "write" then some none
      else if sl == "1" || !res.startsWith "ok:" then some none
      else if len3 == 0 then none else some (some len3)
    | ["writepair", _, id, l, sl] =>
      if !opIs "writepair" then some none
      else if sl == "1" || !res.startsWith "ok:" || id.toNat? != p.sel then some none
      else match l.toNat? with | some 0 => none | some n => some (some n) | none => none
    | _ => some none
  let recvExp : Option (Nat × Nat) :=
    if ctx.unknownTgt || !fitsSure || !x.rxOk then none
    else match accepted with | some (0, _) => none | some (n, k) => some (k, k * n) | none => some (0, 0)
  let expectNone (e : Option (Option Nat)) : Bool := match e with | some (some _) => false | _ => true
  let expectNoneR (e : Option (Nat × Nat)) : Bool := match e with | some (0, 0) => true | none => true | _ => false
  let v07c := if x.closed || (p.pRaw == c.pRaw && expectNone sentExp && expectNoneR recvExp) then [] else c07Counters p c sentExp recvExp
  -- the drain epoch
  let readRes : Option String := if opIs "read" && !x.closed then some res else none
  let rdFull : Option (Option Nat) :=     -- some (some n): this read consumed a datagram of n bytes; some none: size unknown
    match readRes with
    | some r =>
      if r.startsWith "read:" then some ((r.drop 5).toString.toNat?)
      else if r.startsWith "short:" then some (if x.epLensBad then none else match x.epLens with | [l] => some l | _ => none)
      else none
    | none => none
  let epRdPk := match rdFull with | some (some n) => x.epRdPk + (if n > 0 then 1 else 0) | _ => x.epRdPk
  let epRdBy := match rdFull with | some (some n) => x.epRdBy + n | _ => x.epRdBy
  let epSized := match rdFull with | some none => false | _ => true
  let drained := readRes == some "empty"
  let v07d := if p.pRaw == c.pRaw && !drained then [] else c07Epoch { x with epOk := x.epOk && epSized } c drained epRdPk epRdBy
  -- C01 safety
  let v01 := c01Safety s isB p c
  -- ---- update ----
  let x := { x with lastCb := lastCb, maxAcc := if c.ctl != p.ctl then none else maxAcc,
                    checkEnter := xt.checkEnter, firstCheckEnter := xt.firstCheckEnter }
  let x := if c.cs.isEmpty then x else
    { x with everFailed := x.everFailed || c.cs.contains "Failed", everConnected := x.everConnected || c.cs.contains "Connected",
             addLocalWhileFailed := if c.cs.contains "Failed" then false else x.addLocalWhileFailed }
  let x := if opIs "addlocal" && p.st == "Failed" then { x with addLocalWhileFailed := true } else x
  let x := if changedP then
      { x with everIds := c.pairs.foldl (fun l q => if l.contains q.id then l else q.id :: l) x.everIds,
               failedPairs := c.pairs.foldl (fun l q => if q.st == "f" && !l.contains (q.la, q.ra) then (q.la, q.ra) :: l else l) x.failedPairs }
    else x
  let x := if p.lRaw != c.lRaw then { x with everLocal := c.locs.foldl (fun l q => if l.contains q.addr then l else q.addr :: l) x.everLocal } else x
  let mine := out.filter fun d => d.kind == .req && d.tid.startsWith (w ++ "#")
  let x := if mine.isEmpty then x else
    { x with emitted := mine.foldl (fun l d => { tid := d.tid, src := d.src, dst := d.dst, uc := d.uc, nom := d.nom, t0 := s.now, t1 := t1, gen := x.gen, ln := s.lines } :: l) x.emitted }
  let x := match inc? with
    | some i =>
      let d := i.d
      let x := if d.kind == DgKind.suc && changedP && (c.pairs.any fun q => match findPairId p q.id with | some o => q.respRecv > o.respRecv | none => q.respRecv > 0)
        then { x with answered := d.tid :: x.answered } else x
      if d.kind == DgKind.req && d.binding && x.credsKnown && reqAuth x d && (d.uc || d.nom.isSome) && !conflicting p.ctl d && srcAcceptable x p i.src
         && !x.nomReq.contains (i.la, i.src)
      then { x with nomReq := (i.la, i.src) :: x.nomReq } else x
    | none => x
  let rxq := match accepted with | some (n, k) => rxq ++ List.replicate k n | none => rxq
  let x := { x with rxq := rxq, rxOk := x.rxOk && fitsSure,
                    -- exact while the expected queue is exact, else an upper bound that only grows
                    rxBytes := if x.rxOk && fitsSure then rxq.foldl (fun acc n => acc + n + 2) 0
                               else match offered with | some (n, k) => x.rxBytes + k * (n + 2) | none => x.rxBytes }
  let x := if ctx.unknownTgt then { x with rxOk := false } else x
  -- drain epoch bookkeeping
  let x := { x with epRdPk := epRdPk, epRdBy := epRdBy, epOk := x.epOk && epSized && c.sel == some x.epSel && !x.closed,
                    epLens := match offered with | some (n, _) => if x.epLens.contains n then x.epLens else n :: x.epLens | none => x.epLens,
                    epLensBad := x.epLensBad || ctx.unknownTgt,
                    qEmpty := x.qEmpty && offered.isNone && !ctx.unknownTgt }
  -- a `read` that answers `empty`: nothing is queued — the expected queue and the byte bound start afresh
  let x := if drained then { x with rxq := [], rxBytes := 0, rxOk := true, qEmpty := true } else x
  -- while nothing can be queued and a pair is selected, (re)start the epoch at this line
  let x := if x.qEmpty && !x.closed then
      match c.sel.bind (findPairId c) with
      | some q => { x with epOk := true, epSel := q.id, epPkt0 := q.pktRecv, epByte0 := q.bytesRecv, epRdPk := 0, epRdBy := 0,
                           epLens := [], epLensBad := false }
      | none => { x with epOk := false }
    else x
  -- ops that change what the monitor knows about the agent
  let x := match toks with
    | ["start", _, ctl, ru, rp] =>
      if opIs "start" && isOk res then { x with started := true, ru := tokN ru, rp := tokN rp, startRole := some (ctl == "1"), maxAcc := none } else x
    | ["creds", _, ru, rp] => if opIs "creds" && isOk res then { x with ru := tokN ru, rp := tokN rp } else x
    | ["restart", _, u, pw] =>
      if isRestart then
        { x with lu := tokN u, lp := tokN pw, ru := "", rp := "", credsKnown := u != "_" && pw != "_", gen := x.gen + 1,
                 nomReq := [], maxAcc := none, addLocalWhileFailed := false, everConnected := false, everFailed := false, failedPairs := [] }
      else x
    | ["close", _] => if opIs "close" then { x with closed := true } else x
    | _ => x
  (v06 ++ v04 ++ v04t ++ v02 ++ v03 ++ v20 ++ v07a ++ v07b ++ v07c ++ v07d ++ v01, x)

def netsOf (s : MonState) (p c : AgD) : MonState :=
  if p.lRaw == c.lRaw && p.rRaw == c.rRaw then s else
  let n0 := s.seenNet0 || c.locs.any (·.net == 0) || c.rems.any (·.net == 0)
  let n1 := s.seenNet1 || c.locs.any (·.net != 0) || c.rems.any (·.net != 0)
  { s with seenNet0 := n0, seenNet1 := n1, mixedNets := n0 && n1 }

def stepActive (s : MonState) (toks : List String) (line : LineD) : MonState × Verdicts :=
  let p := s.prev
  -- the op, the hub and who receives what
  let d? : Option Dg := match toks with
    | ["deliver", k] | ["dup", k] => k.toNat?.bind fun k => s.infl[k]?
    | _ => none
  let infl := match toks with
    | ["deliver", k] | ["drop", k] => (match k.toNat? with | some k => removeAt s.infl k | none => s.infl)
    | _ => s.infl
  let tgt : Tgt := match toks with
    | ["deliver", _] | ["dup", _] => (match d? with | some d => s.resolveDeliver d | none => .nobody)
    | ["inject", w, la, src, spec] => s.resolveInject w la src (dgOfSpec spec)
    | ["data", w, la, src, _, _] => s.resolveInject w la src (some { kind := .data })
    | ["flood", w, la, src, _, _] => s.resolveInject w la src (some { kind := .data })
    | _ => .nobody
  let dataIn : Option DataIn := match toks, tgt with
    | ["data", _, _, _, len, sl], .to i => some { toB := i.toB, la := i.la, src := i.src, len := (len.toNat?).getD 0, stunLike := sl == "1" }
    | ["flood", _, _, _, len, count], .to i =>
      some { toB := i.toB, la := i.la, src := i.src, len := (len.toNat?).getD 0, stunLike := false, count := min ((count.toNat?).getD 0) 4000 }
    | _, .to i => if i.d.kind == .data then some { toB := i.toB, la := i.la, src := i.src, len := i.d.len, stunLike := false } else none
    | _, _ => none
  -- for a `data` op the Inc carries no STUN message: hide it from the STUN clauses
  let tgtStun : Tgt := match toks with | "data" :: _ | "flood" :: _ => (match tgt with | .to _ => .nobody | t => t) | _ => tgt
  let unknownTgt := match tgt with | .unknown => true | _ => false
  let ctx : OpCtx := { tgt := tgtStun, dataIn := dataIn, unknownTgt := unknownTgt }
  let dt : Nat := match toks with | ["adv", d] => (d.toNat?).getD 0 | _ => 0
  let t1 := s.now + dt
  let uncertain := s.uncertainFlag || unknownTgt
  -- agents
  let (va, ia) := agentStep s toks false s.a p.a line.a line ctx t1 uncertain
  let (vb, ib) := match p.b, line.b with
    | some pb, some cb => agentStep s toks true s.b pb cb line ctx t1 uncertain
    | _, _ => ([], s.b)
  -- cross-agent clauses
  let vEm := if line.out.isEmpty then [] else c03Emitted s.a s.b line.out ++ c20Issuer s.a s.b p.a line.a p.b line.b line.out
  let vMirror := match p.b, line.b with
    | some pb, some cb => c01Mirror s p.a line.a pb cb
    | _, _ => []
  let s1 : MonState := { s with a := ia, b := ib }
  let vMark := match toks, line.b with
    | ["mark", "fairend"], some cb => c01Converged s1 line.a cb ++ c20Agreement s1 line.a cb ++ c20Settled s1 line.a cb
    | "mark" :: _, some cb => c20Agreement s1 line.a cb ++ c20Settled s1 line.a cb
    | _, _ => []
  -- session-level bookkeeping
  let s1 := netsOf s1 p.a line.a
  let s1 := match p.b, line.b with | some pb, some cb => netsOf s1 pb cb | _, _ => s1
  let peerCreds (w : String) : String × String := if w == "A" then (s.b.lu, s.b.lp) else (s.a.lu, s.a.lp)
  let s1 : MonState := match toks with
    | ["nat", a, m] =>
      (match a.toNat?, m.toNat? with
       | some a, some m => { s1 with nat := s1.nat ++ [(a, m)], topoLate := s1.topoLate || s1.topoFrozen }
       | _, _ => s1)
    | ["block", a, b] =>
      (match a.toNat?, b.toNat? with
       | some a, some b => { s1 with blocked := s1.blocked ++ [(a, b)], topoLate := s1.topoLate || s1.topoFrozen }
       | _, _ => s1)
    | "addlocal" :: _ | "addremote" :: _ => { s1 with topoFrozen := true }
    | ["start", w, _, ru, rp] => { s1 with topoFrozen := true, badCreds := s1.badCreds || (s.hasB && (tokN ru, tokN rp) != peerCreds w) }
    | ["creds", w, ru, rp] => { s1 with anyCreds := true, badCreds := s1.badCreds || (s.hasB && (tokN ru, tokN rp) != peerCreds w) }
    | "inject" :: _ | "data" :: _ | "flood" :: _ => { s1 with forged := true }
    | "drop" :: _ => { s1 with lastDrop := some s.lines }
    | "restart" :: _ => { s1 with anyRestart := true }
    | "close" :: _ => { s1 with anyClose := true }
    | "renom" :: _ =>
      if line.res == "ok" then { s1 with anyRenom := true, renomEarly := s1.renomEarly || !(s.a.started && s.b.started) } else s1
    | _ => s1
  -- a nomination VALUE on the wire, whoever caused it (`renom` op or the automatic check of the controlling agent)
  let s1 : MonState :=
    if line.out.any (fun d => d.kind == .req && d.nom.isSome && (d.tid.startsWith "A#" || d.tid.startsWith "B#")) then
      { s1 with anyRenom := true, renomEarly := s1.renomEarly || !(s.a.started && s.b.started) }
    else s1
  let roleMovedNow : Bool :=
    let moved (w : String) (p c : AgD) : Bool :=
      p.ctl != c.ctl && !(match toks with | "start" :: who :: _ => who == w | _ => false)
    moved "A" p.a line.a || (match p.b, line.b with | some pb, some cb => moved "B" pb cb | _, _ => false)
  let s1 : MonState := if roleMovedNow then { s1 with roleMoved := true } else s1
  let s1 : MonState := match toks with
    | ["adv", _] => if s.infl.isEmpty then { s1 with fairRounds := s.fairRounds + 1, fairTime := s.fairTime + dt } else { s1 with fairRounds := 0, fairTime := 0 }
    | ["deliver", _] | ["mark", _] => s1
    | _ => { s1 with fairRounds := 0, fairTime := 0 }
  ({ s1 with prev := line, infl := infl ++ line.out, now := t1, uncertainFlag := uncertain, lines := s.lines + 1 },
   va ++ vb ++ vEm ++ vMirror ++ vMark)

def observe (s : MonState) (toks : List String) (impl : String) : MonState × List (String × String) :=
  match toks with
  | "new" :: cfgA :: rest =>
    let cfgB := match rest with | b :: _ => b | [] => "-"
    match parseLine impl {} none with
    | none => ({}, c08Of impl)
    | some line =>
      let s : MonState := { active := true, prev := line, hasB := cfgB != "-" && line.b.isSome, a := cfgInfo cfgA,
                            b := if cfgB == "-" then {} else cfgInfo cfgB, infl := line.out }
      (s, [])
  | ["end"] => ({}, c08Of impl)
  | _ =>
    if !s.active then (s, c08Of impl)
    else match parseLine impl s.prev.a s.prev.b with
      | none => ({}, c08Of impl)
      | some line =>
        if line.b.isSome != s.prev.b.isSome then ({}, []) else stepActive s toks line

end IceSpec.AgentMon
