/-!
# Spec monitors over the IMPLEMENTATION's observable trace of the `agent` component

`observe` is fed every (operation, implementation output) line of a session and returns the clauses of
C01–C07 / C20 that the implementation's own outputs violate.  It parses the canonical digest printed by
the harness (see harness/inpkg/zz_verif_agent_test.go) and never looks at the model.
-/
namespace IceSpec.AgentMon

structure MonState where
  lines : Nat := 0
  deriving Inhabited

def observe (s : MonState) (_toks : List String) (_impl : String) : MonState × List (String × String) :=
  ({ s with lines := s.lines + 1 }, [])

end IceSpec.AgentMon
