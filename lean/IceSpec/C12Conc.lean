import IceSpec.C12
/-!
# C12, tie A — acceptance check for recorded CONCURRENT executions of the real UDP mux

The recorder (harness component `udpmuxconc`) stamps every call and return from one atomic counter.
A recorded history lists the connections (`GetConn` results), the successful writes (call / return
stamps), the points at which a connection was observed closed, the datagrams fed to the socket (stamps
around the worker's processing of each one) and everything the per-connection readers received.
`check` accepts a history iff every received datagram is explained by SOME linearisation consistent
with the stamps (deliberately coarse, sound for violations):

* faithful: a fed payload, the true source, each datagram at most once, per-connection arrival order;
* after removal/close: the receiver was not already observed closed when the datagram arrived;
* dispatch / no cross-ufrag: some write of the receiver to the source's transport address was called
  before the delivery ended and no OTHER connection's write to it lies entirely between that write
  and the start of the delivery — or the datagram is STUN with USERNAME and the receiver was handed out for the ufrag
  before `:` and the family of the source.
-/
namespace IceSpec.C12Conc
open IceModel.UdpMux (Name Addr Kind)
open IceSpec.C12 (EP endpoint srcIsV6 ufragOf)

structure CConn where
  cid : Nat
  ufrag : Name
  v6 : Bool

structure CWrite where
  cid : Nat
  ep : EP
  call : Nat
  ret : Nat

structure CFeed where
  pid : Nat
  src : Addr
  kind : Kind
  t0 : Nat
  t1 : Nat

structure CRead where
  cid : Nat
  pid : Option Nat
  src : Addr
  stamp : Nat

structure Hist where
  conns : List CConn := []
  writes : List CWrite := []
  closed : List (Nat × Nat) := []
  feeds : List CFeed := []
  /-- in the order they were recorded -/
  reads : List CRead := []
  quiesce : Option String := none

/-- evidence that connection `cid` was still open after stamp `t`: it was never seen closed, or a later
call of a successful write on it exists (a write racing with the removal of its connection returns
success without registering anything, so a write alone proves nothing about its own effect) -/
def aliveAfter (h : List (Nat × Nat)) (ws : List CWrite) (cid t : Nat) : Bool :=
  !(h.any (fun cs => cs.1 == cid)) || ws.any (fun w => w.cid == cid && decide (w.call > t))

/-- some write of the receiver to `ep`, called before the delivery ended, is not followed by a complete
write of ANOTHER connection (provably still open afterwards) to `ep` that returned before the delivery
began -/
def ownsByWrite (cl : List (Nat × Nat)) (ws : List CWrite) (cid : Nat) (ep : EP) (t0 t1 : Nat) : Bool :=
  ws.any (fun w => w.cid == cid && decide (w.ep = ep) && decide (w.call < t1) &&
    !(ws.any (fun w2 => w2.cid != cid && decide (w2.ep = ep) && decide (w2.call > w.ret) && decide (w2.ret < t0)
        && aliveAfter cl ws w2.cid w2.ret)))

def wroteBefore (ws : List CWrite) (cid : Nat) (ep : EP) (t1 : Nat) : Bool :=
  ws.any (fun w => w.cid == cid && decide (w.ep = ep) && decide (w.call < t1))

def checkRead (h : Hist) (earlier : List CRead) (r : CRead) : Option String :=
  match r.pid with
  | none => some "faithful: a connection received bytes that were never fed to the socket"
  | some pid =>
    match h.feeds.find? (fun f => f.pid == pid) with
    | none => some "faithful: a connection received a datagram that was never fed to the socket"
    | some f =>
      if r.src ≠ f.src then some "faithful: source address differs from the datagram's true source"
      else if earlier.any (fun e => e.pid == some pid) then
        some "dispatch: one datagram was handed to more than one connection (or twice)"
      else if earlier.any (fun e => e.cid == r.cid && (match e.pid with | some p => decide (p > pid) | none => false)) then
        some "faithful: arrival order not kept within a connection"
      else if h.closed.any (fun cs => cs.1 == r.cid && decide (cs.2 < f.t0)) then
        some "after_removal: a connection observed closed before the datagram arrived received it"
      else
        let ep := endpoint f.src
        let okW : Bool := ownsByWrite h.closed h.writes r.cid ep f.t0 f.t1
        let okU : Bool :=
          match f.kind with
          | .stunUser n => h.conns.any (fun c => c.cid == r.cid && decide (c.ufrag = ufragOf n) && c.v6 == srcIsV6 f.src)
          | _ => false
        if okW || okU then none
        else if !wroteBefore h.writes r.cid ep f.t1 then
          some "no_cross_ufrag: a connection that never wrote to the source received traffic that does not carry its ufrag"
        else some "dispatch: the address had been taken over by another connection before the datagram arrived"

def showRead (r : CRead) : String :=
  " [connection " ++ toString r.cid ++ ", datagram " ++ (match r.pid with | some p => toString p | none => "?") ++ "]"

def checkReads (h : Hist) : List CRead → List CRead → Option String
  | _, [] => none
  | earlier, r :: rest =>
    match checkRead h earlier r with
    | some v => some (v ++ showRead r)
    | none => checkReads h (earlier ++ [r]) rest

def check (h : Hist) : Option String :=
  match h.quiesce with
  | some q => some ("after_removal: routing tables inconsistent at quiescence: " ++ q)
  | none => checkReads h [] h.reads

end IceSpec.C12Conc
