import IceSpec.AgentMonState
/-!
# C01 (two agents converge on the same, working pair) clauses

Judged only in sessions with two full agents and no forged traffic (`inject` / `data`), no `creds` op
handing over anything but the peer's current credentials, and a topology fixed before the first
candidate.  Safety clauses are evaluated whenever a selection changes, convergence at `mark fairend`.
-/
namespace IceSpec.AgentMon

def c01Applicable (s : MonState) : Bool :=
  s.hasB && !s.forged && !s.badCreds && !s.a.lite && !s.b.lite && !s.topoLate && !s.mixedNets

/-- can a check of agent `isB` on its pair `l>r` be answered in this topology?  Request `l → r` must reach
an address the peer has owned; the answer from there to `l` as the peer sees it must come back to `l` and
carry the source `r`. -/
def MonState.reachable (s : MonState) (isB : Bool) (l r : Nat) : Bool :=
  let peer := s.info (!isB)
  let pl := s.unmapped r
  let seen := s.mapped l
  !s.blocked.contains (l, r) && peer.everLocal.contains pl &&
  !s.blocked.contains (pl, seen) && s.unmapped seen == l && s.mapped pl == r

def selPair (a : AgD) : Option PairD := a.sel.bind (findPairId a)

def MonState.mirror (s : MonState) (pa pb : PairD) : Bool := s.mapped pa.la == pb.ra && s.mapped pb.la == pa.ra

/-- safety, evaluated when the selection of agent `isB` changed -/
def c01Safety (s : MonState) (isB : Bool) (p c : AgD) : Verdicts :=
  if !c01Applicable s || (s.info isB).closed || c.sel == p.sel then [] else
  match selPair c with
  | none => []
  | some q =>
    if s.reachable isB q.la q.ra then []
    else [("C01", s!"agent {if isB then "B" else "A"} selected pair {q.la}>{q.ra}, which is not reachable in both directions in the topology")]

/-- mirror images at every line where both agents have a selection of the current generation -/
def c01Mirror (s : MonState) (pa ca : AgD) (pb cb : AgD) : Verdicts :=
  if !c01Applicable s || s.anyRenom || s.a.gen != s.b.gen || s.a.closed || s.b.closed then []
  else if ca.sel == pa.sel && cb.sel == pb.sel then []
  else match selPair ca, selPair cb with
    | some x, some y =>
      if s.mirror x y then []
      else [("C01", s!"the selected pairs are not mirror images: A {x.la}>{x.ra}, B {y.la}>{y.ra}")]
    | _, _ => []

def fairRoundsNeeded : Nat := 6

/-- virtual time the fair suffix must at least have lasted: the longest acceptance min-wait of a candidate
type in play (the controlling side may only nominate after it, counted from its last role change), the
longest keepalive interval (a selected controlling agent is heard only that often) and a second for the
ticks and round trips around them -/
def fairTimeNeeded (s : MonState) (ca cb : AgD) : Nat :=
  let tys := (ca.rems.map (·.ty)) ++ (cb.rems.map (·.ty)) ++ (ca.locs.map (·.ty)) ++ (cb.locs.map (·.ty))
  let w (x : AgInfo) : Nat := tys.foldl (fun m ty => max m ((x.waits[ty - 1]?).getD 2000)) 0
  max (w s.a) (w s.b) + max s.a.ka s.b.ka + 1000

/-- a listed pair that is reachable in both directions shows state `f`: an answerable check was lost more
often than the retry budget allows (the implementation never retries such a pair on its own) -/
def MonState.budgetExceeded (s : MonState) (isB : Bool) (c : AgD) : Bool :=
  c.pairs.any fun p => p.st == "f" && s.reachable isB p.la p.ra

/-- convergence, evaluated at `mark fairend`.  Premises (all checked on the trace): two full agents, no
forged traffic, fixed topology, each holds the other's current credentials, restarts only two-sided, the agents are in
opposite roles or have distinct tie-breakers (then opposite roles at the mark are demanded: C05), no agent Failed in this generation, no pair that is reachable in both
directions is out of retry budget, the fair loss-free run before the mark was long enough, and some
mirror pair of pairs listed on both sides is reachable in both directions. -/
def c01Converged (s : MonState) (ca cb : AgD) : Verdicts :=
  let clean := c01Applicable s && !s.anyClose && s.a.gen == s.b.gen && s.a.started && s.b.started &&
    s.a.ru == s.b.lu && s.a.rp == s.b.lp && s.b.ru == s.a.lu && s.b.rp == s.a.lp &&
    (ca.ctl != cb.ctl || s.a.tb != s.b.tb) && !s.a.everFailed && !s.b.everFailed &&
    !s.budgetExceeded false ca && !s.budgetExceeded true cb &&
    s.fairRounds ≥ fairRoundsNeeded && s.fairTime ≥ fairTimeNeeded s ca cb
  if !clean then [] else
  let good := ca.pairs.any fun x => cb.pairs.any fun y =>
    s.mirror x y && s.reachable false x.la x.ra && s.reachable true y.la y.ra
  if !good then [] else
  -- C05: with distinct tie-breakers every fair schedule ends in opposite roles
  if ca.ctl == cb.ctl then
    [("C05", s!"both agents are still {if ca.ctl then "controlling" else "controlled"} after the fair suffix although their tie-breakers differ ({s.a.tb} / {s.b.tb}) and checks can flow")]
  else
  (if s.a.everConnected then [] else [("C01", "a pair is reachable in both directions and the fair loss-free suffix is over, but agent A never reported Connected")]) ++
  (if s.b.everConnected then [] else [("C01", "a pair is reachable in both directions and the fair loss-free suffix is over, but agent B never reported Connected")]) ++
  (if s.anyRenom then [] else
   match selPair ca, selPair cb with
   | some x, some y => if s.mirror x y then [] else [("C01", s!"after the fair suffix the selected pairs are not mirror images: A {x.la}>{x.ra}, B {y.la}>{y.ra}")]
   | _, _ => if s.a.everConnected && s.b.everConnected then [("C01", "after the fair suffix an agent has no selected pair")] else [])

end IceSpec.AgentMon
