import IceModel.ActiveTcp
/-!
# Spec monitor for C18 on the active ICE-TCP path

C18: "Every local candidate the agent publishes belongs to an enabled candidate type and network type …, exposes the
mDNS name instead of the IP in mDNS gather mode".  Written over the observation (configuration, published candidates),
independent of `IceModel.ActiveTcp.publish`.
-/
namespace IceSpec.C18Active
open IceModel.ActiveTcp

/-- first violated clause for one published candidate -/
def pubViolation (c : Cfg) (p : Pub) : Option String :=
  if p.isHost && !c.host then some "host candidate published although the host candidate type is not enabled (active ICE-TCP)"
  else if !p.isHost then some "active ICE-TCP candidate of a type other than host"
  else if !c.netEnabled then some "candidate of a network type that is not enabled (active ICE-TCP)"
  else if c.mdnsGather && !p.named then some "interface address exposed in mDNS gather mode (active ICE-TCP candidate)"
  else if !c.mdnsGather && p.named then some "mDNS name published outside mDNS gather mode (active ICE-TCP candidate)"
  else none

def violation (c : Cfg) (ps : List Pub) : Option String := ps.findSome? (pubViolation c)

end IceSpec.C18Active
