import IceModel.Framing
/-!
# Spec monitors for C14 (ICE-TCP framing preserves packet boundaries)

The property, written independently of the reader's loop structure, over the FLAT byte stream
(the concatenation of whatever segments the transport delivered):

* `parse`    — RFC 4571: what a reader with buffer capacity `cap` must return, call after call, on
               a connection that carries the bytes `s` and then fails with `e`
               (packets in order; then exactly one error: short buffer for an oversized frame, the
               connection's error for a stream that ends between or inside frames);
* `units`    — the consecutive header/body pieces the reader has to collect; `checkReads` demands
               that every `Read` asks for at least one byte and for no more than what is still
               missing of the current piece (the "bounded read" clause), and that no `Read` is made
               after the call that had to fail;
* `writeViolation` — what `writeStreamingPacket` must do, STRICT about packets longer than 65535.

Only the result/record types are shared with the model (`IceModel.Framing.Res`, `IoErr`, `WriteOut`).
-/
namespace IceSpec.C14
open IceModel.Framing

/-- The frames of a flat stream, as results of successive reads with capacity `cap`. -/
def parseN (cap : Nat) (e : IoErr) : Nat → List UInt8 → List Res
  | 0, _ => []
  | fuel + 1, hi :: lo :: rest =>
    let len := hi.toNat * 256 + lo.toNat
    if len > cap then [.shortBuffer len]
    else if rest.length < len then [.err e]
    else .pkt (rest.take len) :: parseN cap e fuel (rest.drop len)
  | _ + 1, _ => [.err e]

def parse (cap : Nat) (e : IoErr) (s : List UInt8) : List Res := parseN cap e (s.length + 1) s

/-- Sizes of the pieces (header 2, body `len`, header 2, …) a reader must collect from `s`; the
last piece is the one during which the stream ends (or the header of an oversized frame). -/
def unitsN (cap : Nat) : Nat → List UInt8 → List Nat
  | 0, _ => []
  | fuel + 1, hi :: lo :: rest =>
    let len := hi.toNat * 256 + lo.toNat
    if len > cap then [2]
    else if rest.length < len then [2, len]
    else 2 :: len :: unitsN cap fuel (rest.drop len)
  | _ + 1, _ => [2]

def units (cap : Nat) (s : List UInt8) : List Nat := unitsN cap (s.length + 1) s

def msgAfterEnd : String := "unbounded read: a Read was issued after the call that had to fail"
def msgZero : String := "a Read for zero bytes was issued"
def msgTooMuch : String := "unbounded read: a Read asks for more than the missing part of the current header/body"
def msgConn : String := "the connection returned more bytes than were asked for"

/-- `us` = missing bytes of the current piece :: sizes of the following pieces; the log is the
sequence of `(want, got)` of the `Read` calls. -/
def checkReads : List Nat → ReadLog → Option String
  | _, [] => none
  | us, (w, g) :: l =>
    match us.dropWhile (· == 0) with
    | [] => some msgAfterEnd
    | m :: us' =>
      if w = 0 then some msgZero
      else if w > m then some msgTooMuch
      else if g > w then some msgConn
      else checkReads ((m - g) :: us') l

/-- bounded-read clause for a reader of capacity `cap` on the flat stream `s` -/
def readsViolation (cap : Nat) (s : List UInt8) (log : ReadLog) : Option String :=
  checkReads (units cap s) log

/-- Coarse form used when only the largest request is known. -/
def maxWantViolation (cap maxWant : Nat) : Option String :=
  if maxWant > max 2 (min cap 65535) then some msgTooMuch else none

/-! ## Observations

Long packets travel over the line protocol as `(length, digest)`; the monitor compares
observations.  (`digest` is part of the canonicaliser: 32-bit FNV-1a, full hex up to 8 bytes.) -/

def hexDigit (n : Nat) : Char := if n < 10 then Char.ofNat (48 + n) else Char.ofNat (87 + n)

def hexByte (b : UInt8) : String := String.ofList [hexDigit (b.toNat / 16), hexDigit (b.toNat % 16)]

def hexOf (d : List UInt8) : String := String.join (d.map hexByte)

def fnv1a (d : List UInt8) : UInt32 :=
  d.foldl (fun h b => (h ^^^ b.toUInt32) * 16777619) 2166136261

def hex32 (v : UInt32) : String :=
  String.ofList ((List.range 8).map fun i => hexDigit ((v.toNat / 16 ^ (7 - i)) % 16))

def digest (d : List UInt8) : String :=
  if d.length ≤ 8 then "x" ++ hexOf d else "h" ++ hex32 (fnv1a d)

inductive Obs where
  | pkt (len : Nat) (dig : String)
  | shortBuffer (n : Nat)
  | err (e : IoErr)
  /-- anything else the implementation printed (a panic, an unknown error) -/
  | junk (s : String)
  deriving DecidableEq, Repr, Inhabited

def obsOf : Res → Obs
  | .pkt d => .pkt d.length (digest d)
  | .shortBuffer n => .shortBuffer n
  | .err e => .err e

def msgMissing : String := "results end early: the reader stopped without reporting the error of the stream"
def msgExtra : String := "results continue after the call that had to fail"

/-- Explains the first position where the implementation's results differ from what the stream
holds. -/
def explain (i : Nat) (exp got : Obs) : String :=
  let pre := "result " ++ toString i ++ ": "
  match exp, got with
  | _, .junk s => pre ++ "unexpected outcome (" ++ s ++ ")"
  | .pkt a _, .pkt b _ =>
    if a = b then pre ++ "packet with the right length but wrong contents"
    else pre ++ "packet boundary moved (merged, split or fabricated packet): expected " ++ toString a
      ++ " bytes, got " ++ toString b
  | .pkt _ _, _ => pre ++ "a complete frame was not delivered"
  | .shortBuffer _, .pkt _ _ => pre ++ "a frame larger than the buffer was delivered as a packet"
  | .shortBuffer _, _ => pre ++ "a frame larger than the buffer must yield ErrShortBuffer with the declared length"
  | .err _, .pkt _ _ => pre ++ "fabricated packet: the stream ends inside this frame"
  | _, _ => pre ++ "a truncated stream must yield the connection's error"

/-- The read clause: the implementation's results must be exactly the frames of the stream. -/
def resultsViolationFrom : Nat → List Obs → List Obs → Option String
  | _, [], [] => none
  | _, _ :: _, [] => some msgMissing
  | _, [], _ :: _ => some msgExtra
  | i, x :: xs, y :: ys => if x = y then resultsViolationFrom (i + 1) xs ys else some (explain i x y)

def readViolation (cap : Nat) (e : IoErr) (s : List UInt8) (impl : List Obs) : Option String :=
  resultsViolationFrom 0 ((parse cap e s).map obsOf) impl

def msgTooLong : String :=
  "packet too long for the 16-bit length field was not rejected (truncated length header on the wire)"

/-- What the harness observes of one `writeStreamingPacket` call. -/
structure WriteObs where
  n : Nat
  /-- `none`, `some .io` (the connection's own error came back), `some .tooLong` (rejected by the
  function itself, before/without the connection) -/
  err : Option WErr
  /-- number of `conn.Write` calls -/
  writes : Nat
  /-- first two bytes of everything written -/
  hdr : List UInt8
  bodyLen : Nat
  bodyDig : String
  deriving DecidableEq, Repr, Inhabited

def obsOfWrite (o : WriteOut) : WriteObs :=
  let all := o.wire.flatten
  { n := o.n, err := o.err, writes := o.wire.length, hdr := all.take 2,
    bodyLen := (all.drop 2).length, bodyDig := digest (all.drop 2) }

/-- The write clause.  `p` the packet, `connFails` whether the connection refused the write.
STRICT: a packet that does not fit the 16-bit length field must be rejected with nothing written. -/
def writeViolation (connFails : Bool) (p : List UInt8) (o : WriteObs) : Option String :=
  if p.length > 65535 then
    (if o.err.isNone ∨ o.writes ≠ 0 then some msgTooLong else none)
  else if o.writes ≠ 1 then some "a packet must go out in exactly one Write (header and body together)"
  else if o.hdr ≠ [UInt8.ofNat (p.length / 256), UInt8.ofNat (p.length % 256)] then
    some "length header differs from the 2-byte big-endian packet length"
  else if o.bodyLen ≠ p.length ∨ o.bodyDig ≠ digest p then some "bytes after the header differ from the packet"
  else if connFails then
    (if o.err.isNone then some "error of the connection not reported"
     else if o.n ≠ 0 then some "failed write must report 0 bytes" else none)
  else if o.err.isSome then some "write of a packet that fits was rejected"
  else if o.n ≠ p.length then some "write must report the packet's length"
  else none

end IceSpec.C14
