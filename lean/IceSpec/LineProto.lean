/-!
# Token form of the line protocol (core Lean only)

Output lines of the components are lists of tokens joined by ONE separator character; lists inside a
token are joined by another character.  `splitC`/`joinC` are the only splitting/joining functions the
parsers and printers use, so that reading back what was printed is a theorem
(`IceProofs/LineProto.lean`: `splitC_joinC`, `parseNats_printNats`, …) and not a per-line check.
-/
namespace IceSpec.LineProto

/-- split at every occurrence of the character `c` -/
def splitC (s : String) (c : Char) : List String := (s.toList.splitOn c).map String.ofList

/-- join with the single character `c` -/
def joinC (c : Char) (l : List String) : String := String.intercalate (String.singleton c) l

/-- `s` without its prefix `p` -/
def dropPre : List Char → List Char → Option (List Char)
  | [], s => some s
  | _ :: _, [] => none
  | p :: ps, c :: cs => if p = c then dropPre ps cs else none

/-- the text after the tag `pre` -/
def tagged (pre : String) (s : String) : Option String := (dropPre pre.toList s.toList).map String.ofList

/-- numbers joined by `c` (`""` for the empty list) -/
def printNats (c : Char) (l : List Nat) : String := joinC c (l.map toString)

/-- numbers separated by `c`; the empty text is the empty list -/
def parseNats (c : Char) (s : String) : Option (List Nat) :=
  if s = "" then some [] else (splitC s c).mapM String.toNat?

/-- the separator does not occur in the text -/
def free (c : Char) (s : String) : Bool := !s.toList.contains c

end IceSpec.LineProto
