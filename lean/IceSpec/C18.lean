import IceModel.Gather
/-!
# Spec monitor for C18 — gathering produces exactly the candidates the configuration allows

The property written as executable predicates over OBSERVATIONS (`IceModel.Gather.Obs`: published
candidate list, callbacks, gathering state, parked requests) plus configuration and interface table.
Nothing here looks at the model's gatherers: the clauses are restated from the property text.

Interpretation notes (see notes/C18.md):
* "link-local, site-local or IPv4-compatible IPv6 address": all three are IPv6 classes
  (RFC 8445 §5.1.1.1); IPv4 link-local addresses are not excluded by the text.
* an IPv6 link-local address may back a candidate only when the mDNS name is exposed instead.
* `::1` and `::` lie in `::/96`, the "IPv4-compatible" block the text excludes.
* a host candidate that only carries an mDNS name and no resolved IP (UDP mux in mDNS gather mode;
  class `nm`) reports the placeholder family IPv4: for it only the transport is compared.
* with a UDP mux the UDP listeners are the mux's listen addresses: completeness for UDP is stated
  over them, and the filter / port-range clauses do not apply to borrowed sockets.
-/
namespace IceSpec.C18
open IceModel.Gather

/-- the candidate types the configuration enables (the code's default for an empty list) -/
def typesEnabled (cfg : Config) : List CandType :=
  if cfg.candTypes.isEmpty then [.host, .srflx, .relay] else cfg.candTypes

def netEnabled (cfg : Config) (n : NetType) : Bool := cfg.netTypes.isEmpty || cfg.netTypes.contains n

/-- never publishable as an IP: site-local, IPv4-compatible (`::/96`, which contains `::` and `::1`) -/
def excludedClass (c : AddrClass) : Bool := c == .s6 || c == .c6 || c == .l6 || c == .u6

/-- `a` sits on an interface and address accepted by the filters and the loopback setting -/
def onAcceptedIface (cfg : Config) (ifs : List Iface) (a : Addr) : Bool :=
  ifs.any fun i =>
    i.up && (!i.loopback || cfg.includeLoopback)
    && (match cfg.ifFilter with | some rej => !rej.contains i.name | none => true)
    && i.addrs.contains a
    && (!a.cls.isLoopback || cfg.includeLoopback)
    && (match cfg.ipFilter with | some rej => !rej.contains a | none => true)

def rangeConfigured (cfg : Config) : Bool := cfg.portMin != 0 || cfg.portMax != 0

/-- port clause for a socket the agent opened itself -/
def portOk (cfg : Config) (p : PFlag) : Bool := if rangeConfigured cfg then p == .r else p == .e

def filtersInstalled (cfg : Config) : Bool := cfg.ifFilter.isSome || cfg.ipFilter.isSome

/-- base (related address) of a candidate whose socket the agent opened: an accepted interface
address when filters are installed, otherwise the wildcard of the family -/
def baseOk (cfg : Config) (ifs : List Iface) (b : Addr) : Bool :=
  if filtersInstalled cfg then onAcceptedIface cfg ifs b else b.cls.isUnspecified

/-- soundness of ONE published candidate; first violated clause -/
def candViolation (cfg : Config) (ifs : List Iface) (c : CandD) : Option String :=
  if !(typesEnabled cfg).contains c.ty then some "candidate type not enabled"
  else if (if c.addr.cls == .nm then !(netEnabled cfg (NetType.ofTransport c.net.isTCP false) || netEnabled cfg (NetType.ofTransport c.net.isTCP true))
           else !netEnabled cfg c.net) then
    some (match c.ty with
      | .host => if c.pflag == .M && !c.net.isTCP then "network type not enabled: host candidate borrowed from the UDP mux"
                 else "network type not enabled: host candidate gathered from the interface table"
      | .srflx => "network type not enabled: server reflexive candidate"
      | .relay => "network type not enabled: relay candidate")
  else if excludedClass c.addr.cls && c.addr.cls != .u6 && c.addr.cls != .l6 then some "site-local or IPv4-compatible IPv6 address published"
  else if c.ty == .host && excludedClass c.addr.cls then some "host candidate on an excluded IPv6 address (::/96)"
  else if c.addr.cls.isLinkLocal6 && !c.mdns then some "IPv6 link-local address published"
  else if c.ty == .host && c.mdns != cfg.mdnsGather then some "mDNS gather mode: host candidate must expose the mDNS name (and only then)"
  else if c.ty != .host && c.mdns then some "non-host candidate with an mDNS name"
  else
    match c.ty with
    | .host =>
      if c.pflag == .M then
        (if cfg.udpMux.isSome || cfg.tcpMux.isSome then none else some "mux port without a mux")
      else if c.net.isTCP then some "TCP host candidate without the TCP mux port"
      else if cfg.udpMux.isSome then some "UDP host candidate on an own socket although a UDP mux is configured"
      else if !onAcceptedIface cfg ifs c.addr then some "host candidate on an interface/address the filters or the loopback setting reject"
      else if !portOk cfg c.pflag then some "host candidate port outside the configured range"
      else none
    | .srflx =>
      match c.base with
      | none => some "server reflexive candidate without a base"
      | some b =>
        if c.pflag == .M then (if cfg.srflxMux.isSome then none else some "mux port without a srflx mux")
        else if !baseOk cfg ifs b then
          some (if b.cls.isUnspecified then "server reflexive candidate on a wildcard socket although filters are installed"
                else "base of the server reflexive candidate rejected by the filters")
        else if !portOk cfg c.pflag then some "base port of the server reflexive candidate outside the configured range"
        else none
    | .relay =>
      match c.base with
      | none => some "relay candidate without a related address"
      | some b => if !baseOk cfg ifs b then some "relay candidate's local socket rejected by the filters" else none

/-- number of ports of the configured range that nobody else has taken on `a` -/
def staticFree (cfg : Config) (a : Addr) : Nat :=
  let lo := if cfg.portMin == 0 then 1024 else cfg.portMin
  let hi := if cfg.portMax == 0 then 65535 else cfg.portMax
  (hi + 1 - lo) - (cfg.busy.filter (fun (b, p) => b == a && lo ≤ p && p ≤ hi)).length

/-- an interface address that must yield a host candidate (before looking at transports) -/
def eligibleAddr (cfg : Config) (ifs : List Iface) (a : Addr) : Bool :=
  onAcceptedIface cfg ifs a && !excludedClass a.cls && (!a.cls.isLinkLocal6 || cfg.mdnsGather)

/-- completeness, checked right after an accepted `GatherCandidates` whose host gatherer has run:
`ownSockets` = upper bound of the ports this agent itself may occupy (so that "a port is free" is
decidable from outside) -/
def completeViolation (cfg : Config) (ifs : List Iface) (ownSockets : Nat) (cands : List CandO) : Option String :=
  if !(typesEnabled cfg).contains .host then none else
  let has (p : CandD → Bool) : Bool := cands.any (fun c => c.1.ty == .host && p c.1)
  let addrs := (ifs.flatMap (·.addrs)).filter (eligibleAddr cfg ifs)
  let udpMissing := addrs.find? fun a =>
    cfg.udpMux.isNone && netEnabled cfg (NetType.ofTransport false a.cls.is6)
    && (!rangeConfigured cfg || staticFree cfg a > ownSockets)
    && !has (fun c => !c.net.isTCP && c.addr == a && c.pflag != .M)
  let tcpMissing := addrs.find? fun a =>
    netEnabled cfg (NetType.ofTransport true a.cls.is6)
    && (match cfg.tcpMux with | none => false | some none => true | some (some m) => m.cls.isUnspecified || m == a)
    && !has (fun c => c.net.isTCP && c.addr == a && c.pflag == .M)
  let muxAddrs := (cfg.udpMux.getD []).filter fun a =>
    netEnabled cfg (NetType.ofTransport false a.cls.is6) && !excludedClass a.cls
  let muxMissing :=
    if cfg.mdnsGather then (if muxAddrs.isEmpty || has (fun c => c.mdns && c.pflag == .M) then none else muxAddrs.head?)
    else muxAddrs.find? fun a => !a.cls.isLinkLocal6 && !has (fun c => !c.net.isTCP && c.addr == a && c.pflag == .M)
  match udpMissing, tcpMissing, muxMissing with
  | some a, _, _ => some ("eligible interface address without a UDP host candidate: " ++ a.tok)
  | _, some a, _ => some ("eligible interface address without a TCP host candidate: " ++ a.tok)
  | _, _, some a => some ("UDP mux listen address without a host candidate: " ++ a.tok)
  | _, _, _ => none

/-! ### the cycle clauses (stateful: the monitor remembers the previous observation) -/

structure MonSt where
  prev : Obs := {}
  /-- generations in which a `GatherCandidates` call was accepted -/
  gathered : List Nat := []
  started : Bool := false
  deriving Inhabited

def MonSt.init : MonSt := {}

def gsRank : Option Cycle.GS → Nat
  | some .new => 0 | some .gathering => 1 | some .complete => 2 | none => 3

def firstSome (l : List (Option String)) : Option String := l.findSome? id

def sameCands (a b : List CandO) : Bool := a.all b.contains && b.all a.contains

/-- did this operation get a `GatherCandidates` call accepted (in the generation of the observation)?
`gather2` = two calls queued back to back behind a held task loop, `grg` = call, Restart, call -/
def acceptedGather (op r : String) : Bool :=
  (op == "gather" && r == "ok") || (op == "gather2" && r == "ok+ok")
  || (op == "grg" && (r == "ok+ok+ok" || r == "err:multiple+ok+ok"))

/-- cycles never overlap, seen from outside: one cycle opens one socket per (interface address,
transport), so an address never backs more own-socket host candidates of one network type than there
are interfaces carrying it; and no two requests with the same key are in flight -/
def overlapViolation (ifs : List Iface) (o : Obs) : Option String :=
  let own := o.cands.filter (fun c => c.1.ty == .host && c.1.pflag != .M && c.1.addr.cls != .nm)
  match own.find? (fun c => (own.filter (fun d => d.1.net == c.1.net && d.1.addr == c.1.addr)).length
                              > ((ifs.flatMap (·.addrs)).filter (· == c.1.addr)).length) with
  | some c => some ("more host candidates on " ++ c.1.addr.tok ++ " than interfaces carrying it (overlapping cycles)")
  | none =>
    let keys := o.pend.map (·.2.2)
    if keys.any (fun k => (keys.filter (· == k)).length > 1) then
      some "two requests with the same key in flight (overlapping cycles)" else none

def cycleViolation (m : MonSt) (op r : String) (o : Obs) : Option String :=
  let p := m.prev
  firstSome [
    -- two calls back to back while the state is still New: both are accepted, the first cycle is cancelled
    -- before it marks Gathering; outside New both are refused and nothing changes
    (if op == "gather2" && p.st == some .new && r != "ok+ok" then some "back-to-back GatherCandidates in state New: a call was refused" else none),
    (if op == "gather2" && p.st.isSome && p.st != some .new && r != "err:multiple+err:multiple" then
      some "GatherCandidates outside New was not refused" else none),
    (if op == "gather2" && r != "ok+ok" && m.started && !(o.st == p.st && o.gen == p.gen && sameCands o.cands p.cands && o.evs.isEmpty
        && o.nilOp == 0 && o.opens == p.opens) then
      some "refused GatherCandidates changed the agent (second cycle or second nil)" else none),
    (if op == "grg" && p.st == some .new && r != "ok+ok+ok" then some "GatherCandidates / Restart / GatherCandidates from New: a call was refused" else none),
    (if op == "grg" && p.st.isSome && p.st != some .new && r != "err:multiple+ok+ok" then
      some "GatherCandidates outside New was not refused, or the call after Restart was" else none),
    (if op == "grg" && p.st.isSome && !(o.gen == p.gen + 1) then some "queued Restart did not start the next generation" else none),
    (if acceptedGather op r && !(o.st == some .gathering || o.st == some .complete) then
      some "accepted GatherCandidates did not leave New" else none),
    -- refusal outside New; acceptance in New
    (if op == "gather" && p.st.isSome && p.st != some .new && r != "err:multiple" then
      some "GatherCandidates outside New was not refused" else none),
    (if op == "gather" && p.st == some .new && r != "ok" then some "GatherCandidates in state New was refused" else none),
    (if op == "gather" && r != "ok" && m.started && !(o.st == p.st && o.gen == p.gen && sameCands o.cands p.cands && o.evs.isEmpty && o.nilOp == 0
        && o.opens == p.opens) then
      some "refused GatherCandidates changed the agent (second cycle or second nil)" else none),
    -- once per cycle: within a generation the state only moves forward; generations change by Restart only
    (if m.started && o.gen == p.gen && gsRank o.st < gsRank p.st then some "gathering state moved backwards within a generation" else none),
    (if m.started && o.gen != p.gen && !((op == "restart" && r == "ok" || op == "grg") && o.gen == p.gen + 1) then some "generation changed without Restart" else none),
    (if op == "restart" && r == "ok" && !(o.st == some .new && o.cands.isEmpty) then some "Restart did not return to New with an empty candidate list" else none),
    -- the nil candidate: exactly once per completed cycle, never otherwise
    (if o.nils > 1 then some "second nil candidate in one generation" else none),
    (if o.nilOp > 0 && o.st != some .complete && o.st.isSome then some "nil candidate before the cycle completed" else none),
    (if o.st == some .complete && o.nils != 1 then some "cycle Complete without exactly one nil candidate" else none),
    (if o.late > 0 then some "candidate delivered after the nil candidate of its generation" else none),
    -- nothing of a cancelled cycle reaches the new generation
    (if o.st == some .new && !(o.cands.isEmpty && o.evs.isEmpty && o.nils == 0) then
      some "candidates or nil published in a generation whose gathering has not started (stale cycle)" else none),
    (if (o.cands ++ o.evs).any (fun c => c.2 != some o.gen) then some "published candidate carries the ufrag of another generation" else none),
    (if o.st == some .complete && o.pend.any (fun q => q.2.1 == o.gen) then some "cycle Complete while one of its requests is still in flight" else none),
    (if o.muxGets.any (fun q => match q.1.2 with | some g => !(m.gathered ++ (if acceptedGather op r then [o.gen] else [])).contains g | none => true) then
      some "mux connection requested under the ufrag of a generation that never started gathering (stale cycle, F12)" else none)
  ]

/-- the whole monitor: soundness of every published candidate, completeness after an accepted
gather, the cycle clauses -/
def check (cfg : Config) (ifs : List Iface) (m : MonSt) (op r : String) (o : Obs) : Option String × MonSt :=
  let m' : MonSt := { prev := o, started := true,
                      gathered := if acceptedGather op r then m.gathered ++ [o.gen] else m.gathered }
  let sound := (o.cands ++ o.evs).findSome? fun c => candViolation cfg ifs c.1
  let ownSockets := ((m.prev.led.filter (fun q => q.1.1 == .sock)).map (·.2)).foldl (· + ·) 0
  -- "yields a host candidate" = published by this gather: listed now or delivered to OnCandidate during the
  -- operation (entering Failed inside the operation removes the candidate from the list again)
  let compl := if acceptedGather op r && o.held == 0 then completeViolation cfg ifs ownSockets (o.cands ++ o.evs) else none
  (firstSome [sound, compl, overlapViolation ifs o, cycleViolation m op r o], m')

end IceSpec.C18
