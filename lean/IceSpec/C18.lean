import IceModel.Gather
/-!
# Spec monitor for C18 — gathering produces exactly the candidates the configuration allows

The property written as executable predicates over OBSERVATIONS (`IceModel.Gather.Obs`: published
candidate list, callbacks, gathering state, parked requests) plus configuration and interface table.
Nothing here looks at the model's gatherers: the clauses are restated from the property text.

Interpretation notes (see notes/C18.md):
* "link-local, site-local or IPv4-compatible IPv6 address": all three are IPv6 classes
  (RFC 8445 §5.1.1.1); IPv4 link-local addresses are not excluded by the text.
* an IPv6 link-local address may back a candidate only when the mDNS name is exposed instead.
* `::1` and `::` lie in `::/96`, the "IPv4-compatible" block the text excludes.
* every candidate is judged on the network type it reports, which must be the one of its real family. (Before the fix
  of F34 a UDP-mux host candidate in mDNS gather mode carried no address — class `nm` — and reported the placeholder
  udp4 whatever its listen address; the monitor used to compare only the transport for it. It no longer does: such a
  candidate must have udp4 enabled, and `IceSpec.C03Gather` rejects a candidate without an address altogether.)
* with a UDP mux the UDP listeners are the mux's listen addresses: completeness for UDP is stated
  over them, and the filter / port-range clauses do not apply to borrowed sockets.
* HOST REWRITE RULES. A host candidate then has two addresses: the one its SOCKET is bound to (printed as
  the candidate's base when it differs) and the one it PUBLISHES. The clauses of the property are split
  accordingly: "sits on an interface and address accepted by the filters … with a port inside the range"
  speaks about the socket; "enabled network type", "never link-local, site-local or IPv4-compatible" and
  the mDNS clause speak about what is published, whichever rule it came from. A published address that
  differs from the socket's must be an external address of the configured host rule (the configuration
  allows nothing else). Completeness ("every eligible interface address yields a host candidate for each
  enabled transport that has a listener") is read in two parts: (i) for the addresses the rule LEAVES IN
  PLACE (no rule, append mode, or a replace rule that does not apply to the address: other interface,
  other pinned local address, no external address of the family) the address itself must be published as
  before (its port range must have room for every socket the address needs, one per published address); (ii) an address a replace/append rule applies to must yield, per enabled transport with a listener
  on that address, a candidate for every external address of the rule that may be published at all (not
  excluded, not link-local, network type of the external address enabled, and — a rule pinned to a local
  address may cross families — the network type of the socket's own address enabled as well). (ii) does not name the socket:
  two interface addresses mapped to one external address on one port (TCP mux, single-port range) yield
  ONE candidate, the second being a duplicate. Which rule applies when (precedence among several rules) is
  C19's subject; here there is one rule and `ruleExts` restates its documented reach.
* CONTINUAL GATHERING (`GatherContinually` + monitor interval I; the interface table changes during the session).
  (a) Soundness speaks about the moment a candidate is published: "sits on an interface and address accepted by
  the filters" is judged against the interface table AT THE TIME of the (re-)gather pass that produced the
  candidate. A host candidate is produced in no time, so a host candidate delivered to `OnCandidate` during an
  operation is judged against the table in force during that operation; a reflexive or relay candidate may come
  from a request sent under an earlier table, and a candidate merely LISTED was judged when it was delivered: for
  those, some table the session has had must accept them. (b) "Conversely every eligible interface address yields
  a host candidate" is read, for an address that appears later, as: once the address has been in the table for a
  full monitor interval during which the cycle was live and idle at every observation (state Gathering, same
  generation, no request of the generation in flight, no gatherer parked, no Failed transition in the
  generation), a host candidate for it exists, per enabled transport with a listener, as for the first pass.
  (c) The state clause: the text's New→Gathering→Complete and the nil candidate belong to a cycle "that runs to
  completion (gather-once policy)" (C11); a continual cycle never completes, so it must stay Gathering and deliver
  no nil candidate. (d) Candidates of addresses that disappeared are not owed a removal by the text. (e) "Cycles
  never overlap" seen from outside: every change of the table can start at most one further pass of the same
  cycle, and a pass opens one more socket per address, so the bound on own-socket host candidates per address is
  multiplied by 1 + the number of table changes so far.
-/
namespace IceSpec.C18
open IceModel.Gather

/-- the candidate types the configuration enables (the code's default for an empty list) -/
def typesEnabled (cfg : Config) : List CandType :=
  if cfg.candTypes.isEmpty then [.host, .srflx, .relay] else cfg.candTypes

def netEnabled (cfg : Config) (n : NetType) : Bool := cfg.netTypes.isEmpty || cfg.netTypes.contains n

/-- never publishable as an IP: site-local, IPv4-compatible (`::/96`, which contains `::` and `::1`) -/
def excludedClass (c : AddrClass) : Bool := c == .s6 || c == .c6 || c == .l6 || c == .u6

/-- `a` sits on an interface and address accepted by the filters and the loopback setting -/
def onAcceptedIface (cfg : Config) (ifs : List Iface) (a : Addr) : Bool :=
  ifs.any fun i =>
    i.up && (!i.loopback || cfg.includeLoopback)
    && (match cfg.ifFilter with | some rej => !rej.contains i.name | none => true)
    && i.addrs.contains a
    && (!a.cls.isLoopback || cfg.includeLoopback)
    && (match cfg.ipFilter with | some rej => !rej.contains a | none => true)

/-- external addresses of the host rule -/
def hostExts (cfg : Config) : List Addr := (cfg.hostRule.map (·.exts)).getD []

/-- does the host rule apply to local address `a` seen on interface `ifc` (`none` = a lookup without
interface name, as for mux listen addresses)? Restated from the documentation of `AddressRewriteRule`: an
`Iface` restricts the rule to that interface; with `Local` the rule applies to exactly that address;
without, it applies to the local addresses of the families of its external addresses. No rewriting in
mDNS gather mode. -/
def ruleApplies (cfg : Config) (a : Addr) (ifc : Option Nat) : Bool :=
  match cfg.hostRule with
  | none => false
  | some r =>
    !cfg.mdnsGather
    && (match r.iface with | some i => ifc == some i | none => true)
    && (match r.pin with | some p => p == a | none => r.exts.any (fun e => e.cls.is6 == a.cls.is6))

/-- the external addresses the host rule assigns to `a` (`[]` if it does not apply): all of them for a rule
with `Local`; otherwise IPv4 externals serve IPv4 locals and IPv6 externals IPv6 locals -/
def ruleExts (cfg : Config) (a : Addr) (ifc : Option Nat) : List Addr :=
  if ruleApplies cfg a ifc then
    match cfg.hostRule with
    | none => []
    | some r => if r.pin.isSome then r.exts else r.exts.filter (fun e => e.cls.is6 == a.cls.is6)
  else []

/-- does the rule take `a` itself away (replace mode and the rule applies; an empty external list then drops
the address)? -/
def ruleReplaces (cfg : Config) (a : Addr) (ifc : Option Nat) : Bool :=
  ((cfg.hostRule.map (·.replace)).getD false) && ruleApplies cfg a ifc

/-- the accepted interfaces carrying `a` -/
def acceptedIfacesOf (cfg : Config) (ifs : List Iface) (a : Addr) : List Nat :=
  (ifs.filter fun i =>
    i.up && (!i.loopback || cfg.includeLoopback)
    && (match cfg.ifFilter with | some rej => !rej.contains i.name | none => true)
    && i.addrs.contains a).map (·.name)

def rangeConfigured (cfg : Config) : Bool := cfg.portMin != 0 || cfg.portMax != 0

/-- port clause for a socket the agent opened itself -/
def portOk (cfg : Config) (p : PFlag) : Bool := if rangeConfigured cfg then p == .r else p == .e

def filtersInstalled (cfg : Config) : Bool := cfg.ifFilter.isSome || cfg.ipFilter.isSome

/-- base (related address) of a candidate whose socket the agent opened: an accepted interface
address when filters are installed, otherwise the wildcard of the family -/
def baseOk (cfg : Config) (ifs : List Iface) (b : Addr) : Bool :=
  if filtersInstalled cfg then onAcceptedIface cfg ifs b else b.cls.isUnspecified

/-- soundness of ONE published candidate; first violated clause -/
def candViolation (cfg : Config) (ifs : List Iface) (c : CandD) : Option String :=
  if !(typesEnabled cfg).contains c.ty then some "candidate type not enabled"
  else if !netEnabled cfg c.net then
    some (match c.ty with
      | .host => if c.pflag == .M && !c.net.isTCP then "network type not enabled: host candidate borrowed from the UDP mux"
                 else "network type not enabled: host candidate gathered from the interface table"
      | .srflx => "network type not enabled: server reflexive candidate"
      | .relay => "network type not enabled: relay candidate")
  else if excludedClass c.addr.cls && c.addr.cls != .u6 && c.addr.cls != .l6 then some "site-local or IPv4-compatible IPv6 address published"
  else if c.ty == .host && excludedClass c.addr.cls then some "host candidate on an excluded IPv6 address (::/96)"
  else if c.addr.cls.isLinkLocal6 && !c.mdns then some "IPv6 link-local address published"
  else if c.ty == .host && c.mdns != cfg.mdnsGather then some "mDNS gather mode: host candidate must expose the mDNS name (and only then)"
  else if c.ty != .host && c.mdns then some "non-host candidate with an mDNS name"
  else
    match c.ty with
    | .host =>
      -- the socket's address: the base when the candidate publishes a rewritten address
      let sock := c.base.getD c.addr
      if c.base.isSome && !(hostExts cfg).contains c.addr then
        some "host candidate publishes an address that is neither its socket's nor an external address of the host rewrite rule"
      else if c.base.isSome && c.mdns then some "rewritten host candidate in mDNS gather mode"
      else if c.addr.cls != .nm && c.net.is6 != c.addr.cls.is6 then some "host candidate's network type is not the family of the address it publishes"
      else if c.pflag == .M then
        (if cfg.udpMux.isSome || cfg.tcpMux.isSome then none else some "mux port without a mux")
      else if c.net.isTCP then some "TCP host candidate without the TCP mux port"
      else if cfg.udpMux.isSome then some "UDP host candidate on an own socket although a UDP mux is configured"
      else if !onAcceptedIface cfg ifs sock then
        some (if c.base.isSome then "socket of the rewritten host candidate on an interface/address the filters or the loopback setting reject"
              else "host candidate on an interface/address the filters or the loopback setting reject")
      else if !portOk cfg c.pflag then some "host candidate port outside the configured range"
      else none
    | .srflx =>
      match c.base with
      | none => some "server reflexive candidate without a base"
      | some b =>
        if c.pflag == .M then (if cfg.srflxMux.isSome then none else some "mux port without a srflx mux")
        else if !baseOk cfg ifs b then
          some (if b.cls.isUnspecified then "server reflexive candidate on a wildcard socket although filters are installed"
                else "base of the server reflexive candidate rejected by the filters")
        else if !portOk cfg c.pflag then some "base port of the server reflexive candidate outside the configured range"
        else none
    | .relay =>
      match c.base with
      | none => some "relay candidate without a related address"
      | some b => if !baseOk cfg ifs b then some "relay candidate's local socket rejected by the filters" else none

/-- number of ports of the configured range that nobody else has taken on `a` -/
def staticFree (cfg : Config) (a : Addr) : Nat :=
  let lo := if cfg.portMin == 0 then 1024 else cfg.portMin
  let hi := if cfg.portMax == 0 then 65535 else cfg.portMax
  (hi + 1 - lo) - (cfg.busy.filter (fun (b, p) => b == a && lo ≤ p && p ≤ hi)).length

/-- an interface address that must yield a host candidate (before looking at transports) -/
def eligibleAddr (cfg : Config) (ifs : List Iface) (a : Addr) : Bool :=
  onAcceptedIface cfg ifs a && !excludedClass a.cls && (!a.cls.isLinkLocal6 || cfg.mdnsGather)

/-- completeness, checked right after an accepted `GatherCandidates` whose host gatherer has run:
`ownSockets` = upper bound of the ports this agent itself may occupy (so that "a port is free" is
decidable from outside) -/
def completeViolation (cfg : Config) (ifs : List Iface) (ownSockets : Nat) (cands : List CandO)
    (only : Addr → Bool := fun _ => true) : Option String :=
  if !(typesEnabled cfg).contains .host then none else
  let has (p : CandD → Bool) : Bool := cands.any (fun c => c.1.ty == .host && p c.1)
  let addrs := (ifs.flatMap (·.addrs)).filter (fun a => eligibleAddr cfg ifs a && only a)
  -- what `a` is to be published as, for transport `tcp`: itself where some accepted interface carrying it
  -- leaves it in place (i), and every publishable external address the rule assigns to it (ii)
  let pubs (tcp : Bool) (a : Addr) (ifcs : List (Option Nat)) : List Addr :=
    ((if ifcs.any (fun i => !ruleReplaces cfg a i) then [a] else [])
      ++ (ifcs.flatMap (ruleExts cfg a)).filter (fun e => !excludedClass e.cls && !e.cls.isLinkLocal6 && e.cls != .nm)).filter
      -- the network type of the published address AND the one of the socket's own address are enabled
      fun e => netEnabled cfg (NetType.ofTransport tcp e.cls.is6) && netEnabled cfg (NetType.ofTransport tcp a.cls.is6)
  -- sockets `a` needs in one cycle: one per address it is published as (publishable or not)
  let need (a : Addr) (ifcs : List (Option Nat)) : Nat := ifcs.length + (ifcs.flatMap (ruleExts cfg a)).length
  let ifcsOf (a : Addr) : List (Option Nat) := (acceptedIfacesOf cfg ifs a).map some
  let udpMissing := addrs.findSome? fun a =>
    if cfg.udpMux.isNone && (!rangeConfigured cfg || staticFree cfg a ≥ ownSockets + need a (ifcsOf a)) then
      ((pubs false a (ifcsOf a)).find? fun e => !has (fun c => !c.net.isTCP && c.addr == e && c.pflag != .M)).map (fun e => (a, e))
    else none
  let tcpMissing := addrs.findSome? fun a =>
    if (match cfg.tcpMux with | none => false | some none => true | some (some m) => m.cls.isUnspecified || m == a) then
      ((pubs true a (ifcsOf a)).find? fun e => !has (fun c => c.net.isTCP && c.addr == e && c.pflag == .M)).map (fun e => (a, e))
    else none
  let muxAddrs := (cfg.udpMux.getD []).filter fun a => !excludedClass a.cls || !(ruleExts cfg a none).isEmpty
  let muxMissing :=
    if cfg.mdnsGather then
      (let l := muxAddrs.filter (fun a => netEnabled cfg (NetType.ofTransport false a.cls.is6) && !excludedClass a.cls)
       if l.isEmpty || has (fun c => c.mdns && c.pflag == .M) then none else l.head?.map (fun a => (a, a)))
    else muxAddrs.findSome? fun a =>
      ((pubs false a [none]).find? fun e => !(e == a && (excludedClass a.cls || a.cls.isLinkLocal6))
        && !has (fun c => !c.net.isTCP && c.addr == e && c.pflag == .M)).map (fun e => (a, e))
  let via (p : Addr × Addr) : String := if p.1 == p.2 then p.1.tok else p.1.tok ++ " (to be published as " ++ p.2.tok ++ ")"
  match udpMissing, tcpMissing, muxMissing with
  | some p, _, _ => some ("eligible interface address without a UDP host candidate: " ++ via p)
  | _, some p, _ => some ("eligible interface address without a TCP host candidate: " ++ via p)
  | _, _, some p => some ("UDP mux listen address without a host candidate: " ++ via p)
  | _, _, _ => none

/-! ### the cycle clauses (stateful: the monitor remembers the previous observation) -/

structure MonSt where
  prev : Obs := {}
  /-- generations in which a `GatherCandidates` call was accepted -/
  gathered : List Nat := []
  started : Bool := false
  /-- every interface table the session has had, newest (= current) first -/
  tabs : List (List Iface) := []
  /-- number of `ifaces` operations so far -/
  changes : Nat := 0
  /-- continual gathering: since when (virtual ms) each address of the current table has been eligible with the
  cycle live and idle at every observation -/
  since : List (Addr × Nat) := []
  /-- Failed count when the current generation began -/
  failedBase : Nat := 0
  deriving Inhabited

def MonSt.init : MonSt := {}

def gsRank : Option Cycle.GS → Nat
  | some .new => 0 | some .gathering => 1 | some .complete => 2 | none => 3

def firstSome (l : List (Option String)) : Option String := l.findSome? id

def sameCands (a b : List CandO) : Bool := a.all b.contains && b.all a.contains

/-- did this operation get a `GatherCandidates` call accepted (in the generation of the observation)?
`gather2` = two calls queued back to back behind a held task loop, `grg` = call, Restart, call -/
def acceptedGather (op r : String) : Bool :=
  (op == "gather" && r == "ok") || (op == "gather2" && r == "ok+ok")
  || (op == "grg" && (r == "ok+ok+ok" || r == "err:multiple+ok+ok"))

/-- cycles never overlap, seen from outside: one cycle opens one socket per (interface address,
transport), so an address never backs more own-socket host candidates of one network type than there
are interfaces carrying it; and no two requests with the same key are in flight -/
def overlapViolation (exts : List Addr) (tabs : List (List Iface)) (passes : Nat) (o : Obs) : Option String :=
  let own := o.cands.filter (fun c => c.1.ty == .host && c.1.pflag != .M && c.1.addr.cls != .nm)
  -- with a host rewrite rule: per socket address and published address (a rule may list an external address
  -- more than once, and may list the local address itself)
  let sockOf (c : CandO) : Addr := c.1.base.getD c.1.addr
  match own.find? (fun c => (own.filter (fun d => d.1.net == c.1.net && d.1.addr == c.1.addr && sockOf d == sockOf c)).length
                              > ((tabs.map fun ifs => ((ifs.flatMap (·.addrs)).filter (· == sockOf c)).length).foldl max 0) * passes
                                * ((if c.1.base.isNone then 1 else 0) + (exts.filter (· == c.1.addr)).length)) with
  | some c => some ("more host candidates on " ++ (sockOf c).tok ++ " than interfaces carrying it (overlapping cycles)")
  | none =>
    let keys := o.pend.map (·.2.2)
    if keys.any (fun k => (keys.filter (· == k)).length > 1) then
      some "two requests with the same key in flight (overlapping cycles)" else none

def cycleViolation (m : MonSt) (op r : String) (o : Obs) (continual : Bool := false) : Option String :=
  let p := m.prev
  firstSome [
    -- continual gathering: the cycle never completes, no end-of-candidates is ever delivered
    (if continual && o.st == some .complete then some "continual gathering: gathering state Complete" else none),
    (if continual && (o.nilOp > 0 || o.nils > 0) then some "continual gathering: nil candidate delivered" else none),
    -- two calls back to back while the state is still New: both are accepted, the first cycle is cancelled
    -- before it marks Gathering; outside New both are refused and nothing changes
    (if op == "gather2" && p.st == some .new && r != "ok+ok" then some "back-to-back GatherCandidates in state New: a call was refused" else none),
    (if op == "gather2" && p.st.isSome && p.st != some .new && r != "err:multiple+err:multiple" then
      some "GatherCandidates outside New was not refused" else none),
    (if op == "gather2" && r != "ok+ok" && m.started && !(o.st == p.st && o.gen == p.gen && sameCands o.cands p.cands && o.evs.isEmpty
        && o.nilOp == 0 && o.opens == p.opens) then
      some "refused GatherCandidates changed the agent (second cycle or second nil)" else none),
    (if op == "grg" && p.st == some .new && r != "ok+ok+ok" then some "GatherCandidates / Restart / GatherCandidates from New: a call was refused" else none),
    (if op == "grg" && p.st.isSome && p.st != some .new && r != "err:multiple+ok+ok" then
      some "GatherCandidates outside New was not refused, or the call after Restart was" else none),
    (if op == "grg" && p.st.isSome && !(o.gen == p.gen + 1) then some "queued Restart did not start the next generation" else none),
    (if acceptedGather op r && !(o.st == some .gathering || o.st == some .complete) then
      some "accepted GatherCandidates did not leave New" else none),
    -- refusal outside New; acceptance in New
    (if op == "gather" && p.st.isSome && p.st != some .new && r != "err:multiple" then
      some "GatherCandidates outside New was not refused" else none),
    (if op == "gather" && p.st == some .new && r != "ok" then some "GatherCandidates in state New was refused" else none),
    (if op == "gather" && r != "ok" && m.started && !(o.st == p.st && o.gen == p.gen && sameCands o.cands p.cands && o.evs.isEmpty && o.nilOp == 0
        && o.opens == p.opens) then
      some "refused GatherCandidates changed the agent (second cycle or second nil)" else none),
    -- once per cycle: within a generation the state only moves forward; generations change by Restart only
    (if m.started && o.gen == p.gen && gsRank o.st < gsRank p.st then some "gathering state moved backwards within a generation" else none),
    (if m.started && o.gen != p.gen && !((op == "restart" && r == "ok" || op == "grg") && o.gen == p.gen + 1) then some "generation changed without Restart" else none),
    (if op == "restart" && r == "ok" && !(o.st == some .new && o.cands.isEmpty) then some "Restart did not return to New with an empty candidate list" else none),
    -- the nil candidate: exactly once per completed cycle, never otherwise
    (if o.nils > 1 then some "second nil candidate in one generation" else none),
    (if o.nilOp > 0 && o.st != some .complete && o.st.isSome then some "nil candidate before the cycle completed" else none),
    (if o.st == some .complete && o.nils != 1 then some "cycle Complete without exactly one nil candidate" else none),
    (if o.late > 0 then some "candidate delivered after the nil candidate of its generation" else none),
    -- nothing of a cancelled cycle reaches the new generation
    (if o.st == some .new && !(o.cands.isEmpty && o.evs.isEmpty && o.nils == 0) then
      some "candidates or nil published in a generation whose gathering has not started (stale cycle)" else none),
    (if (o.cands ++ o.evs).any (fun c => c.2 != some o.gen) then some "published candidate carries the ufrag of another generation" else none),
    (if o.st == some .complete && o.pend.any (fun q => q.2.1 == o.gen) then some "cycle Complete while one of its requests is still in flight" else none),
    (if o.muxGets.any (fun q => match q.1.2 with | some g => !(m.gathered ++ (if acceptedGather op r then [o.gen] else [])).contains g | none => true) then
      some "mux connection requested under the ufrag of a generation that never started gathering (stale cycle, F12)" else none)
  ]

/-- soundness of a published candidate when the interface table changes during the session: a host candidate
DELIVERED during this operation is judged against the table in force now; anything else against the tables the
session has had (`tabs`, the current one first) -/
def soundViolation (cfg : Config) (tabs : List (List Iface)) (ifs : List Iface) (o : Obs) : Option String :=
  let some1 (c : CandD) : Option String :=
    if tabs.any (fun t => (candViolation cfg t c).isNone) then none else candViolation cfg ifs c
  match o.cands.findSome? (fun c => some1 c.1) with
  | some v => some v
  | none => o.evs.findSome? fun c => if c.1.ty == .host then candViolation cfg ifs c.1 else some1 c.1

/-- is the live continual cycle idle at this observation? -/
def idleNow (cfg : Config) (m : MonSt) (o : Obs) : Bool :=
  cfg.continual && o.st == some .gathering && o.held == 0 && !o.pend.any (fun q => q.2.1 == o.gen)
    && o.failed == (if o.gen == m.prev.gen then m.failedBase else o.failed)

/-- the whole monitor: soundness of every published candidate, completeness after an accepted
gather (and, with continual gathering, for every address that has been there for a monitor interval), the cycle
clauses. `ifs` = the interface table in force during the operation (after an `ifaces` operation: the new one) -/
def check (cfg : Config) (ifs : List Iface) (m : MonSt) (op r : String) (o : Obs) : Option String × MonSt :=
  let tabs := if op == "ifaces" || m.tabs.isEmpty then ifs :: m.tabs else m.tabs
  let changes := if op == "ifaces" then m.changes + 1 else m.changes
  let idle := idleNow cfg m o
  let sameGen := m.started && o.gen == m.prev.gen
  -- the addresses the table makes eligible now (an address on a down interface is in the table but not eligible)
  -- (an address carried by several accepted interfaces is left out: whether "the address appeared" when it shows up on
  -- a further interface is not something the text decides — observation O7 in notes/C18.md)
  let present := ((ifs.flatMap (·.addrs)).filter (fun a => eligibleAddr cfg ifs a && (acceptedIfacesOf cfg ifs a).length ≤ 1)).eraseDups
  let since : List (Addr × Nat) :=
    if !idle then [] else
    present.map fun a => (a, if sameGen then ((m.since.find? (·.1 == a)).map (·.2)).getD o.now else o.now)
  let m' : MonSt := { prev := o, started := true, tabs := tabs, changes := changes, since := since,
                      failedBase := if sameGen then m.failedBase else o.failed,
                      gathered := if acceptedGather op r then m.gathered ++ [o.gen] else m.gathered }
  let sound := soundViolation cfg tabs ifs o
  let ownSockets := ((m.prev.led.filter (fun q => q.1.1 == .sock)).map (·.2)).foldl (· + ·) 0
  -- "yields a host candidate" = published by this gather: listed now or delivered to OnCandidate during the
  -- operation (entering Failed inside the operation removes the candidate from the list again)
  let compl := if acceptedGather op r && o.held == 0 then completeViolation cfg ifs ownSockets (o.cands ++ o.evs) else none
  -- continual gathering: the addresses that have been in the table for a whole monitor interval of an idle cycle
  let ripe (a : Addr) : Bool := since.any (fun p => p.1 == a && p.2 + cfg.monInterval ≤ o.now)
  let complC := if idle && sameGen && since.any (fun p => p.2 + cfg.monInterval ≤ o.now) then
      (completeViolation cfg ifs ownSockets (o.cands ++ o.evs) ripe).map
        (fun v => "continual gathering, address in the table for a whole monitor interval of an idle cycle: " ++ v)
    else none
  (firstSome [sound, compl, complC, overlapViolation (hostExts cfg) tabs (1 + changes) o,
              cycleViolation m op r o cfg.continual], m')

end IceSpec.C18
