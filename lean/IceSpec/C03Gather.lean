import IceModel.Gather
/-!
# C03 on the observations of the `gather` component — every started local candidate knows its own transport address

C03: a selected pair must have been validated by a connectivity check OF ITS OWN. The agent can only tell whose
check a response answers if the request recorded the local candidate it left from, i.e. its transport address
(`responseSymmetric` compares the address the response arrived on with the recorded source; a request sent from a
candidate without a resolved address is recorded without a source and the test is skipped — F34: a success response
arriving on ANOTHER local candidate then validates that candidate's pair). Hence, for every local candidate the agent
has started, of every kind (host from the interface table, host on a UDP / TCP mux, server reflexive, relay), with or
without the mDNS name: `addrPort().IsValid()`.
-/
namespace IceSpec.C03Gather
open IceModel.Gather

def kindTok (c : CandD) : String :=
  c.ty.tok ++ ":" ++ c.net.tok ++ ":" ++ c.addr.tok ++ (if c.mdns then " (mDNS name)" else "") ++ (if c.pflag == .M then " on a mux port" else "")

def addrViolation (o : Obs) : Option String :=
  match (o.cands ++ o.evs).find? (fun c => !c.1.resolved) with
  | some c => some ("local candidate without a resolved transport address (its checks cannot be matched to it): " ++ kindTok c.1)
  | none =>
    if o.unresolved > 0 then some "started local candidate without a resolved transport address (its checks cannot be matched to it)"
    else none

end IceSpec.C03Gather
