import IceModel.TcpMux
import IceSpec.C15
/-!
# What a run of the TCP-mux model shows to the spec monitor of C15

`IceSpec/C15.lean` (the monitor) knows nothing of the model; this file is the other direction: the
typed operation (`mopOf`) and the typed output line (`lineOf`) that one step of `IceModel.TcpMux`
presents to the monitor, and the whole observable trace of a session (`traceOf`).  The driver
(`Driver/TcpMux.lean`) prints exactly these observations (`digest`), re-reads what it printed and
reports any difference between the two; `IceProps.C15.C15_model_passes_monitor` proves that the
monitor accepts `traceOf cfg ops withEnd` for every configuration and every operation sequence.
-/
namespace IceSpec.C15.View
open IceModel.TcpMux IceSpec.C15

/-- indices of the elements satisfying `f` -/
def idxWhere {α : Type} (l : List α) (f : α → Bool) : List Nat :=
  (List.range l.length).filter (fun i => match l[i]? with | some a => f a | none => false)

/-- payload id as printed: a payload shorter than 4 bytes cannot carry one -/
def showId (id len : Nat) : String := if len < 4 then "-" else toString id

/-- replies that appeared in this operation: per client, the suffix of `out` beyond the old length -/
def newReplies (old new : List Tcp) : List (Nat × String) :=
  (List.range new.length).flatMap (fun k =>
    match new[k]? with
    | some t =>
      let seen := match old[k]? with | some o => o.out.length | none => 0
      (t.out.drop seen).map (fun pl => (k, showId pl.1 pl.2))
    | none => [])

/-- the USERNAME ufrag of a frame that is a STUN Binding with USERNAME -/
def userOf : FKind → Option String
  | .user u => some u
  | _ => none

/-- the operation as the monitor reads it -/
def mopOf : Op → MOp
  | .accept peer lip => .accept peer.ip peer.port lip
  | .frame k f => .frame k f.fid (userOf f.kind) f.len
  | .partialFrame k => .partialFrame k
  | .clientClose k _ => .cclose k
  | .advance dt => .advance dt
  | .getConn key => .getconn key.ufrag key.v6 key.lip
  | .removeByUfrag u => .remove u
  | .closeHandle h => .closeh h
  | .closePacketConn h => .closepc h
  | .write h dst pid len => .write h dst.ip dst.port (toString pid) len
  | .read h => .read h
  | .closeMux => .closemux

/-- the result as the monitor reads it -/
def oresOf (op : Op) (r : Res) : ORes :=
  match r with
  | .ok => (match op with | .partialFrame _ => .other | _ => .ok)
  | .noop => .noop
  | .handle h => .handle h
  | .wrote n => .wrote (some n)
  | .pkt p => (match p.err with
    | none => .pkt p.src.ip p.src.port (showId p.fid p.len) p.len
    | some _ => .other)
  | .empty => .empty
  | _ => .other

def ledgerList (s : State) : List Nat :=
  let g := ledger s
  [g.acceptor, g.handlers, g.watchers, g.readers, g.writers, 0]

/-- the observation part of the output line after a step from a state with connections `old` to `s'` -/
def obsOf (old : List Tcp) (s' : State) (res : ORes) : Obs :=
  { res := res, closed := idxWhere s'.tcps (·.isClosed), outs := newReplies old s'.tcps, g := ledgerList s',
    listenerClosed := !s'.listenerOpen, ret := closeReturned s' }

/-- the output line of one model step (`bad-op` when the operation does not apply) -/
def lineOf (s : State) (op : Op) : Line :=
  match (step s op).2 with
  | .bad => .skip
  | r => .obs (obsOf s.tcps (step s op).1 (oresOf op r))

/-- the teardown the harness performs for `end` -/
def endOps (s : State) : List Op :=
  (List.range s.handles.length).map .closeHandle ++ [.closeMux, .advance (effTimeout s.cfg.t1 + effTimeout s.cfg.t2 + 1)]

def allDown (s : State) : Bool :=
  closeReturned s && s.tcps.all (·.isClosed) && decide (ledger s = ⟨0, 0, 0, 0, 0⟩)

/-- the `end` line -/
def endLine (s : State) : Line :=
  let s' := run s (endOps s)
  .obs (obsOf s.tcps s' (if allDown s' then .endOk else .other))

/-- the lines of the operations `ops` performed from state `s` -/
def linesFrom (s : State) : List Op → List (MOp × Line)
  | [] => []
  | op :: ops => (mopOf op, lineOf s op) :: linesFrom (step s op).1 ops

/-- The observable trace of a session of the model: the `new` line, one line per operation, and —
if `withEnd` — the `end` line. -/
def traceOf (cfg : Config) (ops : List Op) (withEnd : Bool) : List (MOp × Line) :=
  (.start cfg.t1 cfg.t2, .obs (obsOf [] (init cfg) .ok)) :: linesFrom (init cfg) ops ++
    (if withEnd then [(.finish, endLine (run (init cfg) ops))] else [])

/-! ## the printed form of the lines (what the driver prints for the model) -/

def fmtAddr (a : Addr) : String := IceSpec.LineProto.joinC ':' [toString a.ip, toString a.port]

def fmtErr : ErrKind → String
  | .eof => "err:eof" | .reset => "err:reset" | .short => "err:short"

/-- the result as tokens (joined by single spaces in the output line) -/
def fmtRes : Res → List String
  | .ok => ["ok"] | .refused => ["refused"] | .noop => ["noop"] | .bad => ["bad-op"] | .already => ["already"]
  | .sent n => ["sent", toString n]
  | .handle h => ["h" ++ toString h]
  | .errClosed => ["err:closed"]
  | .wrote n => ["n=" ++ toString n]
  | .pkt p => match p.err with
    | none => ["pkt", fmtAddr p.src, showId p.fid p.len, toString p.len]
    | some e => [fmtErr e, fmtAddr p.src]
  | .empty => ["empty"]

/-- the result tokens of one model step -/
def resToks (op : Op) (r : Res) : List String :=
  match op, r with
  | .partialFrame _, .ok => ["sent"]
  | _, _ => fmtRes r

/-- the printed `new` line -/
def printedStart (cfg : Config) : String := printObs ["ok"] (obsOf [] (init cfg) .other)

/-- the printed output line of one model step -/
def printedLine (s : State) (op : Op) : String :=
  match (step s op).2 with
  | .bad => "bad-op"
  | r => printObs (resToks op r) (obsOf s.tcps (step s op).1 .other)

/-- the printed `end` line -/
def printedEnd (s : State) : String :=
  let s' := run s (endOps s)
  printObs (if allDown s' then ["end", "ok"] else ["end", "LEAK"]) (obsOf s.tcps s' .other)

def printedFrom (s : State) : List Op → List (MOp × String)
  | [] => []
  | op :: ops => (mopOf op, printedLine s op) :: printedFrom (step s op).1 ops

/-- The printed trace of a session of the model: typed operation, output line as text. -/
def printedTrace (cfg : Config) (ops : List Op) (withEnd : Bool) : List (MOp × String) :=
  (.start cfg.t1 cfg.t2, printedStart cfg) :: printedFrom (init cfg) ops ++
    (if withEnd then [(.finish, printedEnd (run (init cfg) ops))] else [])

/-! ## the operation tokens as the driver reads them for the model -/

def parseKind (s : String) : Option FKind :=
  match s.toList with
  | 'u' :: r => some (.user (String.ofList r))
  | 'w' :: r => some (.user (String.ofList r))
  | ['n'] => some .noUser
  | ['o'] => some .otherMethod
  | ['g'] => some .notStun
  | ['d'] => some .notStun
  | _ => none

/-- one harness operation → model operation; `none` = malformed (the driver answers `bad-op`).  The
payload id of `write` must be a canonical decimal (`007` is refused): the monitor compares it as text. -/
def parseOp (s : State) (toks : List String) : Option Op :=
  match toks with
  | ["accept", k, ip, port, lip] =>
    match k.toNat?, ip.toNat?, port.toNat?, lip.toNat? with
    | some k, some ip, some port, some lip =>
      if k = s.tcps.length ∧ ip < 4 ∧ lip < 4 then some (.accept ⟨ip, port⟩ lip) else none
    | _, _, _, _ => none
  | ["frame", k, fid, kind, len] =>
    match k.toNat?, fid.toNat?, parseKind kind, len.toNat? with
    | some k, some fid, some kind, some len => some (.frame k ⟨fid, kind, len⟩)
    | _, _, _, _ => none
  | ["partial", k, _fid, _kind, _len, _cut] => k.toNat?.map .partialFrame
  | ["cclose", k] => k.toNat?.map (.clientClose · false)
  | ["creset", k] => k.toNat?.map (.clientClose · true)
  | ["advance", dt] => dt.toNat?.map .advance
  | ["getconn", u, v6, lip] =>
    match parseU u, lip.toNat? with
    | some u, some lip => if lip < 4 then some (.getConn ⟨u, v6 == "1", lip⟩) else none
    | _, _ => none
  | ["remove", u] => (parseU u).map .removeByUfrag
  | ["closeh", h] => (parseH h).map .closeHandle
  | ["closepc", h] => (parseH h).map .closePacketConn
  | ["write", h, ip, port, pid, len] =>
    match parseH h, ip.toNat?, port.toNat?, canonNat pid, len.toNat? with
    | some h, some ip, some port, some pid, some len => if ip < 4 then some (.write h ⟨ip, port⟩ pid len) else none
    | _, _, _, _, _ => none
  | ["read", h] => (parseH h).map .read
  | ["closemux"] => some .closeMux
  | _ => none

def kindTok : FKind → String
  | .user u => "u" ++ u
  | .noUser => "n"
  | .otherMethod => "o"
  | .notStun => "g"

def flagTok (b : Bool) : String := if b then "1" else "0"

/-- the canonical tokens of a model operation in state `s` (what the generator side prints) -/
def opToks (s : State) : Op → List String
  | .accept peer lip => ["accept", toString s.tcps.length, toString peer.ip, toString peer.port, toString lip]
  | .frame k f => ["frame", toString k, toString f.fid, kindTok f.kind, toString f.len]
  | .partialFrame k => ["partial", toString k, "0", "n", "0", "0"]
  | .clientClose k reset => [if reset then "creset" else "cclose", toString k]
  | .advance dt => ["advance", toString dt]
  | .getConn key => ["getconn", "U" ++ key.ufrag, flagTok key.v6, toString key.lip]
  | .removeByUfrag u => ["remove", "U" ++ u]
  | .closeHandle h => ["closeh", "h" ++ toString h]
  | .closePacketConn h => ["closepc", "h" ++ toString h]
  | .write h dst pid len => ["write", "h" ++ toString h, toString dst.ip, toString dst.port, toString pid, toString len]
  | .read h => ["read", "h" ++ toString h]
  | .closeMux => ["closemux"]

/-- the operation is one the line protocol can carry: fake addresses are 0…3 -/
def opWF : Op → Bool
  | .accept peer lip => decide (peer.ip < 4) && decide (lip < 4)
  | .getConn key => decide (key.lip < 4)
  | .write _ dst _ _ => decide (dst.ip < 4)
  | _ => true

def startToks (cfg : Config) : List String :=
  ["new", toString cfg.cap, if cfg.wbuf then "1" else "0", toString cfg.t1, toString cfg.t2]

def tokensFrom (s : State) : List Op → List (List String × String)
  | [] => []
  | op :: ops => (opToks s op, printedLine s op) :: tokensFrom (step s op).1 ops

/-- The session of the model as TEXT on both sides: operation tokens and output line. -/
def tokenTrace (cfg : Config) (ops : List Op) (withEnd : Bool) : List (List String × String) :=
  (startToks cfg, printedStart cfg) :: tokensFrom (init cfg) ops ++
    (if withEnd then [(["end"], printedEnd (run (init cfg) ops))] else [])

/-- run the string monitor `observe` over a textual session; the verdict of every line -/
def verdictsS (m : Mon) : List (List String × String) → List (Option String)
  | [] => []
  | (toks, l) :: tr => (observe m toks l).2 :: verdictsS (observe m toks l).1 tr

/-! S2: `MultiTCPMuxDefault.GetAllConns` — the first failing mux aborts the loop, nothing is released -/
def multiGetAll : List State → Key → List State × Bool
  | [], _ => ([], true)
  | m :: ms, key =>
    match step m (.getConn key) with
    | (m', .handle _) => let (ms', ok) := multiGetAll ms key; (m' :: ms', ok)
    | (m', _) => (m' :: ms, false)

def multiLine (n bad : Nat) (hasBad : Bool) : String :=
  let key : Key := ⟨"a", false, 0⟩
  let muxes := (List.range n).map (fun i =>
    let m := init ⟨0, false, 0, 0⟩
    if hasBad ∧ i = bad then (step m .closeMux).1 else m)
  if n = 0 then "err:nomux ;  ; afterRemove=0 ; g=0" else
  let (ms, ok) := multiGetAll muxes key
  let res := if ok then s!"n={n}" else "err:closed"
  let per := ms.map (fun m => match findPc m.pcs key with
    | some p => (match m.pcs[p]? with | some pc => s!"reg:{pc.refs}" | none => "none")
    | none => "none")
  let ms2 := ms.map (fun m => (step m (.removeByUfrag "a")).1)
  let after := (ms2.filter (fun m => (findPc m.pcs key).isSome)).length
  let ms3 := ms2.map (fun m => (step m .closeMux).1)
  let g := ms3.foldl (fun acc m => let l := ledger m; acc + l.acceptor + l.handlers + l.watchers + l.readers + l.writers) 0
  s!"{res} ; {",".intercalate per} ; afterRemove={after} ; g={g}"


/-- The MODEL SIDE of the driver: the next model state (`none` = no session) and the printed output
line for one input line `toks` (tokens without the component name). -/
def modelStep (ms : Option State) (toks : List String) : Option State × String :=
  match toks with
  | ["new", cap, wbuf, t1, t2] =>
    match cap.toNat?, wbuf.toNat?, t1.toNat?, t2.toNat? with
    | some cap, some wbuf, some t1, some t2 =>
      (some (init ⟨cap, wbuf > 0, t1, t2⟩), printedStart ⟨cap, wbuf > 0, t1, t2⟩)
    | _, _, _, _ => (none, "bad-op")
  | ["multi", n, bad] =>
    match n.toNat?, bad.toInt? with
    | some n, some bad =>
      if n ≤ 4 ∧ bad < (n : Int) then (none, multiLine n bad.toNat (bad ≥ 0)) else (none, "bad-op")
    | _, _ => (none, "bad-op")
  | ["end"] =>
    match ms with
    | none => (none, "end ok (no mux)")
    | some s => (none, printedEnd s)
  | _ =>
    match ms with
    | none => (none, "no-session")
    | some s =>
      match parseOp s toks with
      | none => (some s, "bad-op")
      | some op =>
        match (step s op).2 with
        | .bad => (some s, "bad-op")
        | _ => (some (step s op).1, printedLine s op)

/-- The driver's model side over a whole input (any lines): the verdicts of the monitor copy that is fed
with the model's own printed output (`Driver.TcpMux.step`: `MODEL-REJECTED-BY-MONITOR` iff `some`). -/
def driverRun (ms : Option State) (m : Mon) : List (List String) → List (Option String)
  | [] => []
  | toks :: rest =>
    (observe m toks (modelStep ms toks).2).2 ::
      driverRun (modelStep ms toks).1 (observe m toks (modelStep ms toks).2).1 rest

/-- the STRING monitor on an output line: `observe m toks impl = observeL m (parseToks toks) impl` -/
def observeL (m : Mon) (op : MOp) (impl : String) : Mon × Option String := observeT m op (parseLine impl)

/-- run the string monitor over printed lines; the verdict of every line -/
def verdictsL (m : Mon) : List (MOp × String) → List (Option String)
  | [] => []
  | (op, l) :: tr => (observeL m op l).2 :: verdictsL (observeL m op l).1 tr

/-- run the monitor over a trace; the verdict of every line -/
def verdicts (m : Mon) : List (MOp × Line) → List (Option String)
  | [] => []
  | (op, l) :: tr => (observeT m op l).2 :: verdicts (observeT m op l).1 tr

/-- first violated clause of a whole session, if any -/
def firstViolation (tr : List (MOp × Line)) : Option String :=
  (verdicts {} tr).findSome? (fun v => v)

end IceSpec.C15.View
