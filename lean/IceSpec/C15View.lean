import IceModel.TcpMux
import IceSpec.C15
/-!
# What a run of the TCP-mux model shows to the spec monitor of C15

`IceSpec/C15.lean` (the monitor) knows nothing of the model; this file is the other direction: the
typed operation (`mopOf`) and the typed output line (`lineOf`) that one step of `IceModel.TcpMux`
presents to the monitor, and the whole observable trace of a session (`traceOf`).  The driver
(`Driver/TcpMux.lean`) prints exactly these observations (`digest`), re-reads what it printed and
reports any difference between the two; `IceProps.C15.C15_model_passes_monitor` proves that the
monitor accepts `traceOf cfg ops withEnd` for every configuration and every operation sequence.
-/
namespace IceSpec.C15.View
open IceModel.TcpMux IceSpec.C15

/-- indices of the elements satisfying `f` -/
def idxWhere {α : Type} (l : List α) (f : α → Bool) : List Nat :=
  (List.range l.length).filter (fun i => match l[i]? with | some a => f a | none => false)

/-- payload id as printed: a payload shorter than 4 bytes cannot carry one -/
def showId (id len : Nat) : String := if len < 4 then "-" else toString id

/-- replies that appeared in this operation: per client, the suffix of `out` beyond the old length -/
def newReplies (old new : List Tcp) : List (Nat × String) :=
  (List.range new.length).flatMap (fun k =>
    match new[k]? with
    | some t =>
      let seen := match old[k]? with | some o => o.out.length | none => 0
      (t.out.drop seen).map (fun pl => (k, showId pl.1 pl.2))
    | none => [])

/-- the USERNAME ufrag of a frame that is a STUN Binding with USERNAME -/
def userOf : FKind → Option String
  | .user u => some u
  | _ => none

/-- the operation as the monitor reads it -/
def mopOf : Op → MOp
  | .accept peer lip => .accept peer.ip peer.port lip
  | .frame k f => .frame k f.fid (userOf f.kind) f.len
  | .partialFrame k => .partialFrame k
  | .clientClose k _ => .cclose k
  | .advance dt => .advance dt
  | .getConn key => .getconn key.ufrag key.v6 key.lip
  | .removeByUfrag u => .remove u
  | .closeHandle h => .closeh h
  | .closePacketConn h => .closepc h
  | .write h dst pid len => .write h dst.ip dst.port (toString pid) len
  | .read h => .read h
  | .closeMux => .closemux

/-- the result as the monitor reads it -/
def oresOf (op : Op) (r : Res) : ORes :=
  match r with
  | .ok => (match op with | .partialFrame _ => .other | _ => .ok)
  | .noop => .noop
  | .handle h => .handle h
  | .wrote n => .wrote (some n)
  | .pkt p => (match p.err with
    | none => .pkt p.src.ip p.src.port (showId p.fid p.len) p.len
    | some _ => .other)
  | .empty => .empty
  | _ => .other

def ledgerList (s : State) : List Nat :=
  let g := ledger s
  [g.acceptor, g.handlers, g.watchers, g.readers, g.writers, 0]

/-- the observation part of the output line after a step from a state with connections `old` to `s'` -/
def obsOf (old : List Tcp) (s' : State) (res : ORes) : Obs :=
  { res := res, closed := idxWhere s'.tcps (·.isClosed), outs := newReplies old s'.tcps, g := ledgerList s',
    listenerClosed := !s'.listenerOpen, ret := closeReturned s' }

/-- the output line of one model step (`bad-op` when the operation does not apply) -/
def lineOf (s : State) (op : Op) : Line :=
  match (step s op).2 with
  | .bad => .skip
  | r => .obs (obsOf s.tcps (step s op).1 (oresOf op r))

/-- the teardown the harness performs for `end` -/
def endOps (s : State) : List Op :=
  (List.range s.handles.length).map .closeHandle ++ [.closeMux, .advance (effTimeout s.cfg.t1 + effTimeout s.cfg.t2 + 1)]

def allDown (s : State) : Bool :=
  closeReturned s && s.tcps.all (·.isClosed) && decide (ledger s = ⟨0, 0, 0, 0, 0⟩)

/-- the `end` line -/
def endLine (s : State) : Line :=
  let s' := run s (endOps s)
  .obs (obsOf s.tcps s' (if allDown s' then .endOk else .other))

/-- the lines of the operations `ops` performed from state `s` -/
def linesFrom (s : State) : List Op → List (MOp × Line)
  | [] => []
  | op :: ops => (mopOf op, lineOf s op) :: linesFrom (step s op).1 ops

/-- The observable trace of a session of the model: the `new` line, one line per operation, and —
if `withEnd` — the `end` line. -/
def traceOf (cfg : Config) (ops : List Op) (withEnd : Bool) : List (MOp × Line) :=
  (.start cfg.t1 cfg.t2, .obs (obsOf [] (init cfg) .ok)) :: linesFrom (init cfg) ops ++
    (if withEnd then [(.finish, endLine (run (init cfg) ops))] else [])

/-- run the monitor over a trace; the verdict of every line -/
def verdicts (m : Mon) : List (MOp × Line) → List (Option String)
  | [] => []
  | (op, l) :: tr => (observeT m op l).2 :: verdicts (observeT m op l).1 tr

/-- first violated clause of a whole session, if any -/
def firstViolation (tr : List (MOp × Line)) : Option String :=
  (verdicts {} tr).findSome? (fun v => v)

end IceSpec.C15.View
