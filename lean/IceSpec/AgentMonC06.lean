import IceSpec.AgentMonState
/-!
# C06 (bookkeeping) and C04 (lifecycle) clauses, per agent and line
-/
namespace IceSpec.AgentMon

def firstDup (l : List Nat) : Option Nat :=
  match l with
  | [] => none
  | x :: xs => if xs.contains x then some x else firstDup xs

def ttSuffix (tt : Nat) : String := if tt == 0 then "" else s!"^{tt}"

def isEmptyAgent (c : AgD) : Bool := c.pairs.isEmpty && c.rems.isEmpty && c.locs.isEmpty && c.sel.isNone && c.pend == 0

/-- clauses that speak about one snapshot -/
def c06Static (x : AgInfo) (c : AgD) : Verdicts :=
  if x.closed then [] else
  let ids := c.pairs.map (·.id)
  let v1 : Verdicts := match firstDup ids with
    | some i => [("C06", s!"pair id {i} is listed twice")]
    | none => []
  let v2 : Verdicts := (c.pairs.foldl (fun (acc : List (Nat × Nat × Nat) × Verdicts) p =>
    let key := (p.la, p.ra, p.rty)
    if acc.1.contains key then acc else
    let n := (c.pairs.filter fun q => q.la == p.la && q.ra == p.ra && q.rty == p.rty).length
    let cap (net : Nat) : Nat :=
      (c.locs.filter fun l => l.addr == p.la && l.net == net).length *
      (c.rems.filter fun r => r.addr == p.ra && r.ty == p.rty && r.net == net).length
    let total := cap 0 + cap 1 + cap 2 + cap 3
    let v : Verdicts :=
      if total == 0 then [("C06", s!"pair {p.id} ({p.la}>{p.ra} type {p.rty}) is not formed from a current local and a current remote candidate of one network type")]
      else if n > total then [("C06", s!"the pair ({p.la}>{p.ra} type {p.rty}) is listed {n} times for {total} candidate combination(s)")]
      else []
    (key :: acc.1, acc.2 ++ v)) ([], [])).2
  let v3 : Verdicts := match c.sel with
    | some i => if ids.contains i then [] else [("C06", s!"selected pair {i} is not one of the listed pairs")]
    | none => []
  -- a remote candidate is its type, transport address (network type + canonical address: the literal it was
  -- signalled with does not matter) and related address
  -- (the tcptype is part of the candidate: a passive and a simultaneous-open candidate on one address are two)
  let keys := c.rems.map fun r => (r.ty, r.net, r.addr, r.rel ++ ttSuffix r.tt)
  let rec dupKey (l : List (Nat × Nat × Nat × String)) : Option (Nat × Nat × Nat × String) :=
    match l with
    | [] => none
    | k :: ks => if ks.contains k then some k else dupKey ks
  let v4 : Verdicts := match dupKey keys with
    | some (ty, net, addr, rel) =>
      let forms := (c.rems.filter fun r => r.ty == ty && r.net == net && r.addr == addr && r.rel ++ ttSuffix r.tt == rel).map (·.form)
      let mixed := match forms with | f :: fs => fs.any (· != f) | [] => false
      [("C06", s!"remote candidate {ty}@{net}.{addr} is listed twice (not deduplicated)" ++
        (if mixed then ": the same transport address was signalled through different address literals (canonical and IPv4-mapped / expanded form)" else ""))]
    | none => []
  let v5 : Verdicts := c.rems.filterMap fun r =>
    if x.blk.contains ((r.addr % 1048576) / 16) then some ("C06", s!"remote candidate {r.ty}@{r.net}.{r.addr} has an address rejected by the remote IP filter") else none
  -- "Remote candidates … never include TCP-active candidates": whatever the network type and the candidate type
  -- (a peer-reflexive discovery included)
  let v6 : Verdicts := c.rems.filterMap fun r =>
    if r.tt == 1 then some ("C06", s!"remote candidate {r.ty}@{r.net}.{r.addr} with tcptype active is listed") else none
  v1 ++ v2 ++ v3 ++ v4 ++ v5 ++ v6

/-- clauses that relate a snapshot to the one before the op -/
def c06Dyn (x : AgInfo) (p c : AgD) : Verdicts :=
  if x.closed then [] else
  c.pairs.foldl (fun (acc : Verdicts) q =>
    match findPairId p q.id with
    | none => if x.everIds.contains q.id then acc ++ [("C06", s!"pair id {q.id} is reused for a new pair")] else acc
    | some o =>
      if o.la != q.la || o.ra != q.ra then
        acc ++ [("C06", s!"pair id {q.id} moved from {o.la}>{o.ra} to {q.la}>{q.ra}")]
      else if o.rty == 3 && q.rty != 3 then
        -- a signalled candidate superseded the peer-reflexive one; the same op runs a forced tick, which may
        -- send a check (reqSent, count), move w→i / i→f and, on the controlling side, nominate
        let keepState := (o.st != "s" || q.st == "s") && (o.st != "f" || q.st == "f")
        let ok := keepState && (!o.nom || q.nom) && o.defr == q.defr && o.dval == q.dval && o.prio == q.prio &&
          q.reqSent ≥ o.reqSent && q.reqRecv == o.reqRecv && q.respSent == o.respSent && q.respRecv == o.respRecv &&
          q.pktSent == o.pktSent && q.pktRecv == o.pktRecv && q.bytesSent == o.bytesSent && q.bytesRecv == o.bytesRecv && q.cnt ≥ o.cnt
        let selOk := p.sel != some q.id || c.sel == some q.id
        (if ok then acc else acc ++ [("C06", s!"pair {q.id} lost state, priority or statistics when its peer-reflexive remote was superseded")]) ++
        (if selOk then [] else [("C06", s!"pair {q.id} lost the selection when its peer-reflexive remote was superseded")])
      else acc) []

/-- `addremote X ty net addr prio rel [form [tt]]` accepted as a NEW signalled (not peer-reflexive) candidate: no
peer-reflexive candidate with its transport address stays listed (RFC 8838 §11.4 supersession).  The transport
address is taken as the implementation defines it (candidate.go: "IP, Port, NetworkType, TCPType"): a
peer-reflexive candidate without a tcptype at the address of a signalled TCP candidate that has one is NOT judged
(observation TCP-1, notes/C06-tcp.md). -/
def c06Supersede (x : AgInfo) (w : String) (p c : AgD) (toks : List String) : Verdicts :=
  if x.closed then [] else
  match toks with
  | "addremote" :: who :: ty :: net :: addr :: rest =>
    match ty.toNat?, net.toNat?, addr.toNat? with
    | some ty, some net, some addr =>
      if who != w || ty == 3 then [] else
      -- on tcp4/tcp6 the implementation never equates a server-reflexive / relay candidate (resolved to a
      -- *net.UDPAddr) with a peer-reflexive one (*net.TCPAddr): not judged (observation TCP-1)
      if net ≥ 2 && (ty == 2 || ty == 4) then [] else
      -- address ids are tagged with the transport of the network they are used on
      let addr := (if net ≥ 2 then 1048576 else 0) + addr % 1048576
      let form : Nat := match rest with | _ :: _ :: f :: _ => (f.toNat?).getD 0 | _ => 0
      let tt : Nat := match rest with | [_, _, _, t] => ((ttOf t)).getD 0 | _ => 0
      let cnt (a : AgD) : Nat := (a.rems.filter fun r => r.ty == ty && r.net == net && r.addr == addr && r.form == form && r.tt == tt).length
      if cnt c ≤ cnt p then [] else
      match c.rems.find? fun r => r.ty == 3 && r.net == net && r.addr == addr && r.tt == tt &&
          (p.rems.any fun o => o.ty == 3 && o.net == net && o.addr == addr && o.rel == r.rel && o.form == r.form) with
      | some r =>
        [("C06", s!"peer-reflexive remote candidate 3@{net}.{addr} is still listed after the signalled candidate {ty}@{net}.{addr} with the same transport address was added (not superseded)" ++
          (if r.form != form then ": their address literals differ (canonical vs IPv4-mapped / expanded form of the same address)" else ""))]
      | none => []
    | _, _, _ => []
  | _ => []

/-- an inbound datagram (`inject` / `deliver` / `dup`) from the transport address of a remote candidate that is
already listed never creates a (duplicate) peer-reflexive candidate for that address. -/
def c06NoDupPrflx (x : AgInfo) (p c : AgD) (toks : List String) : Verdicts :=
  if x.closed then [] else
  match toks with
  | "inject" :: _ | "deliver" :: _ | "dup" :: _ =>
    let cnt (a : AgD) (net addr : Nat) : Nat := (a.rems.filter fun r => r.ty == 3 && r.net == net && r.addr == addr).length
    match c.rems.find? fun r => r.ty == 3 && cnt c r.net r.addr > cnt p r.net r.addr &&
        (p.rems.any fun o => o.net == r.net && o.addr == r.addr) with
    | some r =>
      let known := p.rems.filter fun o => o.net == r.net && o.addr == r.addr
      [("C06", s!"an inbound check from {r.net}.{r.addr}, the transport address of the listed remote candidate " ++
        ", ".intercalate (known.map fun o => s!"{o.ty}@{o.net}.{o.addr}" ++ (if o.form != 0 then s!"~{o.form}" else "")) ++
        ", created a duplicate peer-reflexive candidate")]
    | none => []
  | _ => []

/-- how many pairs on (local addr, remote addr, remote type) exceed the number of candidate combinations -/
def dupExcess (c : AgD) (la ra rty : Nat) : Nat :=
  let n := (c.pairs.filter fun q => q.la == la && q.ra == ra && q.rty == rty).length
  let cap (net : Nat) : Nat :=
    (c.locs.filter fun l => l.addr == la && l.net == net).length *
    (c.rems.filter fun r => r.addr == ra && r.ty == rty && r.net == net).length
  n - (cap 0 + cap 1 + cap 2 + cap 3)

/-- static clauses, reported on the line where a violation appears (not again while it persists).  When two
pairs were merged by a peer-reflexive supersession the reason says so (known-finding wording). -/
def c06StaticNew (x : AgInfo) (p c : AgD) : Verdicts :=
  let vs := c06Static x c
  if vs.isEmpty then [] else
  let old := c06Static x p
  -- a duplicate that already existed before the op (same excess of pairs over candidate combinations on
  -- the same addresses) is not a new violation even if further candidates changed the counts in its text
  let persists (why : String) : Bool := c.pairs.any fun q =>
    (why.startsWith s!"the pair ({q.la}>{q.ra} type {q.rty}) is listed") &&
    dupExcess c q.la q.ra q.rty ≤ dupExcess p q.la q.ra q.rty
  (vs.filter fun v => !old.contains v && !persists v.2).map fun (pr, why) =>
    -- the known-finding wording applies when the duplicate comes from MERGING existing pairs through a
    -- peer-reflexive supersession: some pair on these addresses had a prflx remote before the op, has a
    -- signalled one now, and the number of pairs on these addresses did not grow (a pair added twice is
    -- a different defect and keeps the plain wording)
    let merged := c.pairs.any fun q => q.rty != 3 && (why.startsWith s!"the pair ({q.la}>{q.ra} type {q.rty}) is listed") &&
      (p.pairs.any fun o => o.la == q.la && o.ra == q.ra && o.rty == 3 && (c.pairs.any fun n => n.id == o.id && n.rty != 3)) &&
      (p.pairs.filter fun o => o.la == q.la && o.ra == q.ra).length ≥ (c.pairs.filter fun o => o.la == q.la && o.ra == q.ra).length &&
      (p.pairs.filter fun o => o.la == q.la && o.ra == q.ra).length ≥ 2
    (pr, if merged then why ++ ": pairs of two peer-reflexive candidates with one transport address were re-pointed to the same signalled candidate" else why)

def c06Restart (c : AgD) : Verdicts :=
  if isEmptyAgent c then [] else [("C06", "Restart left pairs, candidates, a selection or outstanding transactions of the previous generation behind")]

/-! ## C04 -/

def edgeOk (disc0 isRestart : Bool) (f t : String) : Bool :=
  if f == "Closed" then false
  else if t == "Closed" then true
  else if f == t then false
  else if f == "New" then t == "Checking"
  else if f == "Checking" then t == "Connected" || t == "Failed"
  else if f == "Connected" then t == "Disconnected" || (t == "Failed" && disc0) || (t == "Checking" && isRestart)
  else if f == "Disconnected" then t == "Connected" || t == "Failed" || (t == "Checking" && isRestart)
  else if f == "Failed" then t == "Checking" && isRestart
  else false

def f13Text : String := "Failed->Connected after a local candidate was added while Failed"

/-- returns the verdicts and the new last-notified state -/
def c04 (x : AgInfo) (isRestart : Bool) (c : AgD) : Verdicts × String :=
  let (v, last) := c.cs.foldl (fun (acc : Verdicts × String) t =>
    let (v, f) := acc
    if edgeOk x.disc0 isRestart f t then (v, t)
    else
      let why :=
        if f == "Failed" && (t == "Connected" || t == "Disconnected") && x.addLocalWhileFailed then
          s!"{f13Text} (callback {t} follows Failed without Restart)"
        else if f == t then s!"connection-state callback repeats {t}"
        else if f == "Closed" then s!"connection-state callback {t} after Closed"
        else s!"connection-state callbacks {f} then {t}: not an edge of the lifecycle graph" ++
             (if t == "Checking" then " (only Restart leads back to Checking)" else "") ++
             (if f == "Connected" && t == "Failed" then " (disconnected timeout is enabled)" else "")
      (v ++ [("C04", why)], t)) ([], x.lastCb)
  let v := if last != c.st then v ++ [("C04", s!"state is {c.st} but the last connection-state callback was {last}")] else v
  let v := if !x.closed && (c.st == "Connected" || c.st == "Disconnected") && c.sel.isNone then
      v ++ [("C04", s!"state {c.st} without a selected pair")] else v
  let v := if c.st == "Failed" && c.sel.isSome then v ++ [("C04", "state Failed with a selected pair")] else v
  let v := if c.st == "Failed" && c.cs.contains "Failed" && !isEmptyAgent c then
      v ++ [("C04", "Failed was notified before pairs, candidates, selection and transactions were released"),
            ("C06", "the Failed state left pairs, candidates, a selection or outstanding transactions behind")] else v
  (v, last)

/-! ## C04 timing rule

Only bounds that hold whatever the tick phase is: a tick sees the selected remote's silence, ticks are at
most `maxTick` apart (the interval is the minimum of 2 s and the non-zero configured intervals), and all
ticks of an op happen between its start `t0` and end `t1` (virtual ms). -/

def maxTick : Nat := 2000

/-- liveness timestamp (ms) of the remote of pair `q`; `none` = never heard or ambiguous -/
def lrOf (a : AgD) (q : PairD) : Option (Option Nat) :=
  match a.rems.filter fun r => r.addr == q.ra && r.ty == q.rty with
  | [r] => if r.lr == "-" then some none else r.lr.toNat?.map some
  | _ => none

def c04Timing (x : AgInfo) (p c : AgD) (t0 t1 : Nat) : Verdicts :=
  -- (a) Disconnected / Failed are reported only after the thresholds were really exceeded
  let selBefore := p.sel.bind (findPairId p)
  let silenceMax : Option Nat :=      -- upper bound of the silence any tick of this op can have seen
    match selBefore with
    | some q => (match lrOf p q with | some (some lr) => some (t1 - lr) | _ => none)
    | none => none
  let va : Verdicts :=
    if c.cs.isEmpty then [] else
    (if c.cs.contains "Disconnected" then
      (if x.disc == 0 then [("C04", "Disconnected was reported although the disconnected timeout is disabled")]
       else match silenceMax with
         | some sil => if sil < x.disc then [("C04", s!"Disconnected was reported after at most {sil} ms of silence; the disconnected timeout is {x.disc} ms")] else []
         | none => [])
     else []) ++
    (if c.cs.contains "Failed" && (p.st == "Connected" || p.st == "Disconnected") && p.sel.isSome then
      (if x.fail == 0 then [("C04", "Failed was reported although the failed timeout is disabled")]
       else match silenceMax with
         | some sil => if sil < x.disc + x.fail then [("C04", s!"Failed was reported after at most {sil} ms of silence; disconnected + failed timeout is {x.disc + x.fail} ms")] else []
         | none => [])
     else []) ++
    (if c.cs.contains "Failed" && p.st == "Checking" && p.sel.isNone then
      (if x.checkDeadline == 0 then [("C04", "a checking agent failed although the failed timeout is disabled")]
       else match x.firstCheckEnter with
         -- the implementation re-arms the deadline only at a tick that saw another state before; the one sound
         -- lower bound is the first entry into Checking of the whole session (see notes, observation O1)
         | some e0 => if t1 - e0 < x.checkDeadline then [("C04", s!"a checking agent failed {t1 - e0} ms after first entering Checking; the initial checking deadline is {x.checkDeadline} ms")] else []
         | none => [])
     else [])
  -- (b) the state does not lag behind the thresholds by more than the tick distance (checked when time moved)
  let vb : Verdicts :=
    if t1 == t0 || !x.started then [] else
    match c.sel.bind (findPairId c) with
    | some q =>
      (match lrOf c q with
       | some (some lr) =>
         let sil := t1 - lr
         (if c.st == "Connected" && x.disc != 0 && sil > x.disc + maxTick then
            [("C04", s!"still Connected after {sil} ms of silence; the disconnected timeout is {x.disc} ms")] else []) ++
         (if (c.st == "Connected" || c.st == "Disconnected") && x.fail != 0 && sil > x.disc + x.fail + 2 * maxTick then
            [("C04", s!"still {c.st} after {sil} ms of silence; disconnected + failed timeout is {x.disc + x.fail} ms")] else [])
       | _ => [])
    | none =>
      if c.st == "Checking" && x.checkDeadline != 0 then
        match x.checkEnter with
        | some (_, e1) => if t1 > e1 + x.checkDeadline + 2 * maxTick then
            [("C04", s!"still Checking without a selected pair {t1 - e1} ms after entering Checking; the initial checking deadline is {x.checkDeadline} ms")] else []
        | none => []
      else []
  va ++ vb

end IceSpec.AgentMon
