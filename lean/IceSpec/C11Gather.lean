import IceModel.Gather
/-!
# C11 on the observations of the `gather` component — the nil candidate of a gathering cycle

"A gathering cycle that runs to completion (gather-once policy) emits exactly one nil candidate event, after all of
its candidates, each of which carries that cycle's ufrag, while a cycle cancelled by Restart emits none."  Restated
over `IceModel.Gather.Obs` (what the real agent's `OnCandidate` handler and the scripted STUN / TURN servers of the
gather harness saw), independently of the gather model.  A request of the current generation that is still in flight
(parked STUN query, parked TURN allocation) belongs to the generation's one live cycle: the nil candidate must not
have been delivered before it is over, because whatever it still yields comes after the nil.
-/
namespace IceSpec.C11Gather
open IceModel.Gather

def nilViolation (o : Obs) : Option String :=
  if o.nils > 1 then some "second nil candidate in one generation"
  else if o.late > 0 then some "candidate delivered after the nil candidate of its cycle"
  else if o.nilOp > 0 && o.pend.any (fun q => q.2.1 == o.gen) then
    some "nil candidate delivered while a request of the same cycle is still in flight"
  else if o.st.isSome && o.nils > 0 && o.pend.any (fun q => q.2.1 == o.gen) then
    some "nil candidate of the cycle delivered, a request of the same cycle still in flight"
  else if (o.cands ++ o.evs).any (fun c => c.2 != some o.gen) then some "candidate carries the ufrag of another cycle's generation"
  else if o.st == some .new && (o.nilOp > 0 || o.nils > 0) then some "nil candidate in a generation whose cycle was cancelled or never started"
  else none

end IceSpec.C11Gather
