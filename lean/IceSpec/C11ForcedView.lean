import IceSpec.C11Forced
import IceSpec.LineProto
/-!
# The observation tokens of the `gatherforce` recorder (C11): reader, printer, string monitor

One observation = tokens joined by single spaces.  `parseFTok` reads a token, `printFTok` is the
canonical printed form, `monitorObs` the monitor the driver runs on an observation of the implementation.
`IceProps.C11.C11_forced_view_roundtrip`: every typed event is read back from its printed token and the
string monitor on a printed observation is the typed monitor `monitorForced`.

Tokens: `G<res>`, `R<u>` / `R!`, `S<g>` / `S!`, `X` / `X-` / `Y`, `L<k>` / `L-`, `l<id>`, `a<c>:<id>`,
`r<id>=ok|err|…`, `c<tag>:<id>@<epoch>`, `n@<epoch>`, `Q<locals>/<opened>` / `Q!` / `Q?`, `Z<opened>` / `Z!`
(lists: numbers joined by `,`).
-/
namespace IceSpec.C11.Forced.View
open IceSpec.C11.Forced IceSpec.LineProto

def natTok (r : List Char) : Option Nat := (String.ofList r).toNat?

def natList? (s : String) : Option (List Nat) := parseNats ',' s

def parseFTok (t : String) : Option FEv :=
  match t.toList with
  | 'G' :: b => (natTok b).map .gather
  | 'R' :: b => if b = ['!'] then some (.restart none) else (natTok b).map (fun u => .restart (some u))
  | 'S' :: b => if b = ['!'] then some (.state none) else (natTok b).map (fun g => .state (some g))
  | 'X' :: b => if b = [] then some (.close false) else if b = ['-'] then some .closeAgain else none
  | ['Y'] => some (.close true)
  | 'L' :: b => if b = ['-'] then some (.release none) else (natTok b).map (fun k => .release (some k))
  | 'l' :: b => (natTok b).map .listen
  | 'a' :: b => match splitC (String.ofList b) ':' with
    | [c, id] => match c.toNat?, id.toNat? with
      | some c, some id => some (.offer c id)
      | _, _ => none
    | _ => none
  | 'r' :: b => match splitC (String.ofList b) '=' with
    | [id, r] =>
      if r = "ok" then id.toNat?.map (.result · (some true))
      else if r = "err" then id.toNat?.map (.result · (some false))
      else id.toNat?.map (.result · none)
    | id :: _ :: _ => id.toNat?.map (.result · none)
    | _ => none
  | 'c' :: b => match splitC (String.ofList b) '@' with
    | [ti, e] => match splitC ti ':' with
      | [tg, id] => match tg.toNat?, id.toNat?, e.toNat? with
        | some tg, some id, some e => some (.cand tg id e)
        | _, _, _ => none
      | _ => none
    | _ => none
  | 'n' :: b => match splitC (String.ofList b) '@' with
    | [z, e] => if z = "" then e.toNat?.map .nil else none
    | _ => none
  | 'Q' :: b =>
    if b = ['!'] then some .probeClosed
    else if b = ['?'] then some .probeErr
    else match splitC (String.ofList b) '/' with
      | [a, b] => match natList? a, natList? b with
        | some a, some b => some (.probe a b)
        | _, _ => none
      | _ => none
  | 'Z' :: b => if b = ['!'] then some .finalStuck else (natList? (String.ofList b)).map .final
  | _ => none

def printFTok : FEv → String
  | .gather r => "G" ++ toString r
  | .restart none => "R!"
  | .restart (some u) => "R" ++ toString u
  | .state none => "S!"
  | .state (some g) => "S" ++ toString g
  | .close false => "X"
  | .close true => "Y"
  | .closeAgain => "X-"
  | .release none => "L-"
  | .release (some k) => "L" ++ toString k
  | .listen id => "l" ++ toString id
  | .offer c id => "a" ++ joinC ':' [toString c, toString id]
  | .result id (some true) => "r" ++ joinC '=' [toString id, "ok"]
  | .result id (some false) => "r" ++ joinC '=' [toString id, "err"]
  | .result id none => "r" ++ joinC '=' [toString id, "other"]
  | .cand tg id e => "c" ++ joinC '@' [joinC ':' [toString tg, toString id], toString e]
  | .nil e => "n" ++ joinC '@' ["", toString e]
  | .probe a b => "Q" ++ joinC '/' [printNats ',' a, printNats ',' b]
  | .probeClosed => "Q!"
  | .probeErr => "Q?"
  | .final o => "Z" ++ printNats ',' o
  | .finalStuck => "Z!"

/-- the monitor on one observation (tokens separated by single spaces) -/
def monitorObs (obs : String) : Option String :=
  match (splitC obs ' ').mapM parseFTok with
  | none => some "unparsable observation"
  | some evs => monitorForced evs

/-- the printed observation -/
def printObsF (evs : List FEv) : String := joinC ' ' (evs.map printFTok)

end IceSpec.C11.Forced.View
