import IceModel.Prio
/-!
# Spec monitor for C17 (candidate and pair priorities)

Executable statement of the property over *observations* `(input, output)`; the same predicate is
(a) proved of every output of the model / of the definitions regenerated from the Go source
(`IceProps/C17.lean`) and (b) evaluated by the driver on the outputs of the implementation.
-/
namespace IceSpec.C17
open IceModel.Prio

structure CandIn where
  ty : CandType
  isTCP : Bool
  tt : TcpType
  relayProto : String
  /-- effective TCP priority offset (the agent's, or 27 without an agent) -/
  offset : Nat
  component : Nat
  deriving Repr

structure CandOut where
  tp : Nat
  lp : Nat
  prio : Nat
  deriving Repr

/-- RFC 6544 §4.2 table written out independently of the model. -/
def expectedDirection (ty : CandType) (tt : TcpType) : Nat :=
  match tt with
  | .unspecified => 0
  | .active => (match ty with | .host | .relay => 6 | .srflx | .prflx => 4 | .unspecified => 0)
  | .passive => (match ty with | .host | .relay => 4 | .srflx | .prflx => 2 | .unspecified => 0)
  | .so => (match ty with | .host | .relay => 2 | .srflx | .prflx => 6 | .unspecified => 0)

def expectedRelayPref (p : String) : Nat :=
  if p = "tls" then 0 else if p = "tcp" then 1 else if p = "dtls" then 2 else 3

def expectedLP (i : CandIn) : Nat :=
  match i.ty with
  | .relay => expectedRelayPref i.relayProto
  | _ => if i.isTCP then 8192 * expectedDirection i.ty i.tt + 8191 else 65535

def expectedBase : CandType → Nat
  | .host => 126 | .prflx => 110 | .srflx => 100 | _ => 0

/-- The documented type preference: the base value, reduced by the offset for TCP (never below 0). -/
def expectedTP (i : CandIn) : Nat :=
  if i.isTCP then expectedBase i.ty - i.offset else expectedBase i.ty

/-- What C17 demands of one candidate. Returns the first failed clause. -/
def candViolation (i : CandIn) (o : CandOut) : Option String :=
  if o.tp > 126 then some "type preference above 126"
  else if o.tp ≠ expectedTP i then some "type preference differs from base minus TCP offset"
  else if o.lp ≠ expectedLP i then some "local preference differs from documented table"
  else if i.component ≤ 256 ∧ o.prio ≠ 16777216 * o.tp + 256 * o.lp + (256 - i.component) then
    some "priority differs from 2^24*tp + 2^8*lp + (256-component)"
  else if o.prio ≥ 2147483648 then some "priority not below 2^31"
  else if 1 ≤ i.component ∧ i.component ≤ 255 ∧ o.prio < 1 then some "priority below 1"
  else none

/-- What C17 demands of a pair priority; `g` controlling side's candidate priority. -/
def pairViolation (g d v : Nat) : Option String :=
  if v ≠ 4294967295 * min g d + 2 * max g d + (if g > d then 1 else 0) then
    some "pair priority differs from (2^32-1)*min + 2*max + (g>d)"
  else if v ≥ 18446744073709551616 then some "pair priority overflows 64 bits"
  else none

end IceSpec.C17
