import IceProps.C17
