/-! Effect labels used by the effect-mode output of the Go→Lean translator. -/
namespace IceModel

inductive Val where
  | n (v : Nat)
  | i (v : Int)
  | b (v : Bool)
  | s (v : String)
  deriving DecidableEq, Repr, Inhabited

inductive Eff where
  | call (name : String) (args : List Val)
  | set (lhs : String) (v : Val)
  deriving DecidableEq, Repr, Inhabited

end IceModel

namespace IceModel
/-- emit effect `e`, then continue with a computation that yields effects and a result. -/
def Eff.pre {α : Type} (e : Eff) (x : List Eff × α) : List Eff × α := (e :: x.1, x.2)
end IceModel
