/-!
# CloseSys — small-step model of agent shutdown (property C08)

Concurrent transition system composed, at the level of their interfaces, of
  * the task loop            (/repo/internal/taskloop/taskloop.go),
  * `Agent.close`, the loop's on-close callback, `abortStartedCandidateIO`, `deleteAllCandidates`
                             (/repo/agent.go:556-572, 1516-1580),
  * candidates: `recvLoop`, `close`, `abortIO`, `closeOnce`  (/repo/candidate_base.go:270-456),
  * the three `handlerNotifier`s                              (/repo/agent_handlers.go:69-192),
  * the blocking API: `Conn.Read/Write`, `AwaitConnect`       (/repo/transport.go:16-166),
  * gather cycles and the `connectivityChecks` goroutine as ordinary threads whose only shared
    operations are `loop.Run` and bounded local work          (/repo/gather.go:143-181, agent.go:683-759).

`step : State → Action → Option State`, one transition per synchronisation-relevant statement; the
file:line of the statement is given beside every transition.  Core Lean only (linked into `icemodel`).

Modelling facts (see notes/C08.md, "trusted base"):
 (R1) Go's `select` parks a goroutine only when none of its cases is ready, and `close(ch)` wakes every
      goroutine parked on `ch` with that case selected.  Hence the rendezvous `l.tasks <- t` / `<-l.tasks`
      (taskloop.go:60,100) can only happen while `l.done` is open: hand-off requires `¬ done`.
 (M1) no task writes on a candidate that it starts itself (start sites: agent.go:1127, 1377; neither
      task writes afterwards), so a task's socket writes go to candidates started before its hand-off.
 (M2) the body of a candidate's `closeOnce` (candidate_base.go:434-453: close(closeCh), SetDeadline(now),
      abortWrite, conn.Close) contains no blocking operation and is one transition; a socket call that
      was blocked becomes enabled to return once that transition has happened.
 (M3) a drainer's last statements (set `running=false`, unlock, return, deferred `notifiers.Done()`,
      agent_handlers.go:100-107) are one transition.
 (E)  environment budgets are finite: each socket has `inb` datagrams still to arrive, the buffer
      `bufData` packets; environment transitions never add work.
-/
namespace IceModel.CloseSys

/-- context handed to `loop.Run`: the loop itself (API calls) or the thread's own cancellable context
(gather cycle: `context.WithCancel(loopCtx)`, gather.go:132). -/
inductive Ctx where
  | loop | own
  deriving DecidableEq, Repr, Inhabited

/-- thread identifiers: API/gather/checker thread `n`, the drainer of notifier stream `s`,
the receive loop of candidate `c`. -/
inductive Tid where
  | api (n : Nat) | dr (s : Nat) | rl (c : Nat)
  deriving DecidableEq, Repr, Inhabited

/-- one statement of a task (executed by the loop thread, taskloop.go:61 `t.fn(l)`). -/
inductive TOp where
  /-- `candidateBase.writeTo` on started candidate `c` (candidate_base.go:458-465); may block -/
  | write (c : Nat)
  /-- `cand.start` (candidate_base.go:246-260; agent.go:1377): new candidate + `go recvLoop` + list append -/
  | startCand (blocking : Bool) (inb : Nat) (closeFails : Bool)
  /-- `deleteAllCandidates` (agent.go:1563-1580) as used by Restart / Failed -/
  | closeCands
  /-- `handlerNotifier.Enqueue*` (agent_handlers.go:89-192), stream `s`, event kind `e` (stream 0, kind 0 = Closed) -/
  | enq (s e : Nat)
  /-- GatherCandidates' task (gather.go:130-137): cancel previous cycle, new ctx+done, `go gatherCandidates` -/
  | gather (t : Nat)
  /-- `a.gatherCandidateCancel()` (Restart, agent.go:1979) -/
  | cancelGather
  /-- `go f()` of an already described thread (agent.go:679 `go a.connectivityChecks()`) -/
  | spawn (t : Nat)
  /-- `a.startedFn()` (agent.go:674): closes `startedCh` -/
  | startedFn
  deriving DecidableEq, Repr, Inhabited

/-- one API call of a user / gather / checker / handler thread. -/
inductive UOp where
  /-- `a.loop.Run(ctx, task)` (taskloop.go:90-105) -/
  | run (ctx : Ctx) (task : List TOp)
  /-- `Agent.Close` / `GracefulClose` (agent.go:1505-1527) -/
  | close (graceful : Bool)
  /-- `Conn.Read` (transport.go:112-122) -/
  | read
  /-- `Conn.Write` over a selected pair whose local candidate is `c` (transport.go:125-165) -/
  | write (c : Nat)
  /-- `AwaitConnect` (transport.go:16-26) -/
  | await
  /-- local computation, or I/O bounded by its own deadline -/
  | work
  deriving DecidableEq, Repr, Inhabited

/-- result of the last completed call of a thread (ghost). -/
inductive Ret where
  | ok | closed | canceled | ioerr
  deriving DecidableEq, Repr, Inhabited

/-- where a thread is inside its current call (the head of `prog`). -/
inductive Loc where
  | idle
  /-- in the `select` of `Run` (taskloop.go:95) -/
  | rSel (ctx : Ctx) (task : List TOp)
  /-- handed off, waiting for the private `done` (taskloop.go:101) -/
  | rWait
  /-- at `l.closeOnce.Do` (taskloop.go:77) -/
  | cOnce (g : Bool)
  /-- inside the once, in `preStop` = `abortStartedCandidateIO` (agent.go:1546-1557) -/
  | cPre (g : Bool)
  /-- `<-l.taskLoopDone` (taskloop.go:85) -/
  | cWaitLoop (g : Bool)
  /-- about to `Close(graceful)` notifier `i` (agent.go:1522-1524; agent_handlers.go:76-86) -/
  | cNotif (g : Bool) (i : Nat)
  /-- deferred `h.notifiers.Wait()` of notifier `i` (agent_handlers.go:73) -/
  | cWait (g : Bool) (i : Nat)
  /-- in `buf.Read` (transport.go:118) -/
  | rdBlk
  /-- in the socket write (candidate_base.go:462-464) -/
  | wrBlk (c : Nat)
  /-- in the `select` of AwaitConnect (transport.go:17) -/
  | awBlk
  deriving DecidableEq, Repr, Inhabited

inductive Kind where
  /-- application goroutine (any program) -/
  | api
  /-- gather cycle goroutine: only `run` / `work` (gather.go:143-181) -/
  | gather
  /-- `connectivityChecks`: leaves at `loop.Done()` (agent.go:753-756) -/
  | checker
  deriving DecidableEq, Repr, Inhabited

structure Th where
  kind : Kind := .api
  /-- the goroutine has been started -/
  live : Bool := true
  prog : List UOp := []
  loc : Loc := .idle
  /-- the thread's own context has been cancelled -/
  cancelled : Bool := false
  last : Option Ret := none
  deriving DecidableEq, Repr, Inhabited

/-- location of a candidate's receive loop (candidate_base.go:270-311). -/
inductive RlLoc where
  /-- `select { <-initializedCh; <-c.closeCh }` (:275-279) -/
  | waitInit
  /-- in `ReadFrom` (:292-296) -/
  | read
  /-- in the `select` of `agent.loop.Run(c, …)` (:401, agent.go:1862) -/
  | rSel
  /-- handed off -/
  | rWait
  /-- returned; `closedCh` is closed (:273) -/
  | exited
  deriving DecidableEq, Repr, Inhabited

structure Cand where
  rl : RlLoc := .waitInit
  /-- still in `a.localCandidates` -/
  listed : Bool := true
  /-- `closeOnce` done: `closeCh` closed, deadline = now, write aborted, conn closed (M2) -/
  aborted : Bool := false
  /-- environment: socket calls block until released -/
  blocking : Bool := false
  /-- environment: datagrams that will still arrive -/
  inb : Nat := 0
  /-- environment: `conn.Close` returns an error (only logged: agent.go:1566-1568; read by no transition) -/
  closeFails : Bool := false
  deriving DecidableEq, Repr, Inhabited

structure Stream where
  /-- `h.done` closed -/
  ndone : Bool := false
  queue : List Nat := []
  /-- `running*` flag = a drainer goroutine exists = wait-group count 1 (M3) -/
  running : Bool := false
  /-- the drainer; `prog` = rest of the handler invocation in progress -/
  th : Th := {}
  /-- handler program per event kind -/
  hdl : List (List UOp) := []
  deriving DecidableEq, Repr, Inhabited

inductive Once where
  | free
  /-- `owner` is inside the once and will abort candidate `k` next -/
  | running (owner : Tid) (k : Nat)
  | finished
  deriving DecidableEq, Repr, Inhabited

inductive LoopLoc where
  /-- at the `select` (taskloop.go:57) -/
  | idle
  /-- inside `t.fn` (taskloop.go:61), remaining statements `ops` -/
  | task (owner : Tid) (ops : List TOp)
  /-- inside `deleteAllCandidates` called by the task -/
  | tclose (owner : Tid) (ops : List TOp)
  /-- onClose: `agent.gatherCandidateCancel()` (agent.go:557) -/
  | ocCancel
  /-- `<-agent.gatherCandidateDone` (agent.go:558-560) -/
  | ocWaitGather
  /-- `agent.deleteAllCandidates()` (agent.go:563) -/
  | ocDel
  /-- `agent.startedFn()` (agent.go:564) -/
  | ocStarted
  /-- `agent.buf.Close()` (agent.go:566) -/
  | ocBuf
  /-- `agent.updateConnectionState(ConnectionStateClosed)` (agent.go:571) -/
  | ocNotify
  /-- about to `close(l.taskLoopDone)` (taskloop.go:53) -/
  | ocDone
  /-- `taskLoopDone` is closed -/
  | exited
  deriving DecidableEq, Repr, Inhabited

structure State where
  /-- `l.done` closed (taskloop.go:80) -/
  done : Bool := false
  once : Once := .free
  /-- number of candidates in the pre-stop snapshot (agent.go:1547-1552) -/
  snap : Nat := 0
  loop : LoopLoc := .idle
  cands : List Cand := []
  startedCh : Bool := false
  bufClosed : Bool := false
  /-- environment: application packets that will still arrive in the buffer -/
  bufData : Nat := 0
  /-- thread index of the current gather cycle (`gatherCandidateDone`) -/
  gcur : Option Nat := none
  streams : List Stream := []
  thr : List Th := []
  /-- statements of the task a receive loop submits per datagram (`handleInbound`, agent.go:1724) -/
  rtask : List TOp := []
  -- ghost
  closeRet : Bool := false
  gcloseRet : Bool := false
  /-- last event accepted by stream 0 -/
  lastAcc : Option Nat := none
  /-- number of hand-offs so far -/
  tasksRun : Nat := 0
  deriving DecidableEq, Repr, Inhabited

inductive Action where
  /-- the loop thread executes its next statement -/
  | loop
  /-- thread `t` executes its next statement; `alt` = choose the hand-off case of the `select` in `Run` -/
  | th (t : Tid) (alt : Bool)
  /-- candidate `c`'s receive loop; `alt` as above -/
  | rl (c : Nat) (alt : Bool)
  /-- environment: a datagram arrives on candidate `c`'s socket (`ReadFrom` returns data) -/
  | envData (c : Nat)
  /-- environment: the blocked socket write of the loop's task completes -/
  | envLoopWrite
  /-- environment: the blocked call of thread `t` completes (socket write done, packet in buffer, connected) -/
  | envTh (t : Tid)
  deriving DecidableEq, Repr, Inhabited

def Action.nonEnv : Action → Bool
  | .loop | .th _ _ | .rl _ _ => true
  | _ => false

/-! ## helpers -/

def Th.finished (t : Th) : Bool := t.live && t.prog.isEmpty && t.loc == .idle

def getTh (s : State) : Tid → Option Th
  | .api n => s.thr[n]?
  | .dr i => (s.streams[i]?).map (·.th)
  | .rl _ => none

def setTh (s : State) (t : Tid) (th : Th) : State :=
  match t with
  | .api n => { s with thr := s.thr.set n th }
  | .dr i => { s with streams := s.streams.modify i (fun st => { st with th := th }) }
  | .rl _ => s

def loopOwner (s : State) : Option Tid :=
  match s.loop with
  | .task o _ | .tclose o _ => some o
  | _ => none

/-- a socket call on candidate `c` is enabled to return (M2); a missing candidate never blocks. -/
def sockFree (s : State) (c : Nat) : Bool :=
  match s.cands[c]? with
  | some cd => !cd.blocking || cd.aborted
  | none => true

def abortCand (s : State) (c : Nat) : State :=
  { s with cands := s.cands.modify c (fun cd => { cd with aborted := true }) }

/-- `Enqueue*` (agent_handlers.go:89-122): dropped after `done`; else append and start a drainer if none runs. -/
def enqueue (s : State) (i e : Nat) : State :=
  match s.streams[i]? with
  | none => s
  | some st =>
    if st.ndone then s else
    { s with
      streams := s.streams.set i { st with queue := st.queue ++ [e], running := true }
      lastAcc := if i = 0 then some e else s.lastAcc }

def cancelCur (s : State) : State :=
  match s.gcur with
  | none => s
  | some t => { s with thr := s.thr.modify t (fun th => { th with cancelled := true }) }

def gatherFinished (s : State) : Bool :=
  match s.gcur with
  | none => true
  | some t => match s.thr[t]? with
    | some th => th.finished
    | none => true

/-- the first candidate still listed (index counted from `i`). -/
def firstListed : List Cand → Nat → Option (Nat × Cand)
  | [], _ => none
  | c :: cs, i => if c.listed then some (i, c) else firstListed cs (i + 1)

/-- one iteration step of `deleteAllCandidates` (agent.go:1564-1571 → candidate_base.go:410-426):
`none` = blocked on `<-c.closedCh`; `some (s', fin)`. -/
def delStep (s : State) : Option (State × Bool) :=
  match firstListed s.cands 0 with
  | none => some (s, true)
  | some (c, cd) =>
    if !cd.aborted then some (abortCand s c, false)                                  -- candidate_base.go:416
    else if cd.rl == .exited then
      some ({ s with cands := s.cands.set c { cd with listed := false } }, false)  -- :419-423, agent.go:1570
    else none

/-- every socket write of the task goes to an existing (already started) candidate (M1). -/
def taskWF (s : State) : List TOp → Bool
  | [] => true
  | .write c :: r => decide (c < s.cands.length) && taskWF s r
  | _ :: r => taskWF s r

def hdlOf (st : Stream) (e : Nat) : List UOp := st.hdl.getD e []


/-! ## the loop thread (taskloop.go:50-65, agent.go:556-572) -/

def loopStep (s : State) : Option State :=
  match s.loop with
  | .idle => if s.done then some { s with loop := .ocCancel } else none        -- taskloop.go:58-59 → :51-52
  | .task _ [] => some { s with loop := .idle }                                 -- taskloop.go:62 close(t.done)
  | .task o (op :: ops) =>
    let k : State := { s with loop := .task o ops }
    match op with
    | .write c => if sockFree s c then some k else none                         -- candidate_base.go:462-464
    | .startCand b n f =>                                                       -- candidate_base.go:252-259
      some { k with cands := s.cands ++ [{ blocking := b, inb := n, closeFails := f }] }
    | .closeCands => some { s with loop := .tclose o ops }                      -- agent.go:1995 / 784
    | .enq i e => some (enqueue k i e)                                          -- agent.go:789, 1391
    | .gather t =>                                                              -- gather.go:130-137
      match s.thr[t]? with
      | some th =>
        if th.kind == .gather && !th.live then
          let s1 := cancelCur k
          some { s1 with gcur := some t, thr := s1.thr.set t { th with live := true } }
        else some k
      | none => some k
    | .cancelGather => some (cancelCur k)                                       -- agent.go:1979
    | .spawn t => some { k with thr := s.thr.modify t (fun th => { th with live := true }) }  -- agent.go:679
    | .startedFn => some { k with startedCh := true }                           -- agent.go:674
  | .tclose o ops =>
    match delStep s with
    | none => none
    | some (s', fin) => some { s' with loop := if fin then .task o ops else .tclose o ops }
  | .ocCancel => some { cancelCur s with loop := .ocWaitGather }                -- agent.go:557
  | .ocWaitGather => if gatherFinished s then some { s with loop := .ocDel } else none   -- agent.go:558-560
  | .ocDel =>                                                                   -- agent.go:563
    match delStep s with
    | none => none
    | some (s', fin) => some { s' with loop := if fin then .ocStarted else .ocDel }
  | .ocStarted => some { s with startedCh := true, loop := .ocBuf }             -- agent.go:564
  | .ocBuf => some { s with bufClosed := true, loop := .ocNotify }              -- agent.go:566
  | .ocNotify => some { enqueue s 0 0 with loop := .ocDone }                    -- agent.go:571 → :789
  | .ocDone => some { s with loop := .exited }                                  -- taskloop.go:53
  | .exited => none

/-! ## receive loops (candidate_base.go:270-311, 385-407) -/

def rlStep (s : State) (c : Nat) (alt : Bool) : Option State :=
  match s.cands[c]? with
  | none => none
  | some cd =>
    let put (cd' : Cand) : State := { s with cands := s.cands.set c cd' }
    match cd.rl with
    | .waitInit =>
      if alt then (if s.startedCh then some (put { cd with rl := .read }) else none)     -- :276
      else (if cd.aborted then some (put { cd with rl := .exited }) else none)          -- :277-278, :273
    | .read => if cd.aborted then some (put { cd with rl := .exited }) else none        -- :301-306, :273
    | .rSel =>
      if alt then
        if s.loop == .idle && !s.done && taskWF s s.rtask then                           -- taskloop.go:100 (R1)
          some { put { cd with rl := .rWait } with loop := .task (.rl c) s.rtask, tasksRun := s.tasksRun + 1 }
        else none
      else if s.done || cd.aborted then some (put { cd with rl := .read })               -- taskloop.go:91-99; back to :288
      else none
    | .rWait => if loopOwner s != some (.rl c) then some (put { cd with rl := .read }) else none  -- taskloop.go:101
    | .exited => none

/-! ## API / gather / checker / handler threads -/

def Th.ret (th : Th) (r : Ret) : Th := { th with prog := th.prog.tail, loc := .idle, last := some r }

def setNdone (s : State) (i : Nat) : State :=
  { s with streams := s.streams.modify i (fun st => { st with ndone := true }) }

def streamRunning (s : State) (i : Nat) : Bool :=
  match s.streams[i]? with
  | some st => st.running
  | none => false

/-- the statement of thread `t` at location `th.loc`; the result is the new shared state and the new thread record. -/
def callStep (s : State) (t : Tid) (th : Th) (alt : Bool) : Option (State × Th) :=
  match th.loc with
  | .idle =>
    match th.prog with
    | [] => none
    | .run ctx task :: _ =>
      if s.done then some (s, th.ret .closed)                                   -- taskloop.go:91-93
      else some (s, { th with loc := .rSel ctx task })
    | .close g :: _ => some (s, { th with loc := .cOnce g })                    -- agent.go:1518
    | .read :: _ =>
      if s.done then some (s, th.ret .closed) else some (s, { th with loc := .rdBlk })      -- transport.go:113-118
    | .write c :: _ =>
      if s.done then some (s, th.ret .closed) else some (s, { th with loc := .wrBlk c })    -- transport.go:126-159
    | .await :: _ => some (s, { th with loc := .awBlk })                        -- transport.go:17
    | .work :: _ => some (s, th.ret .ok)
  | .rSel ctx task =>
    if alt then
      if s.loop == .idle && !s.done && taskWF s task then                       -- taskloop.go:100 ↔ :60 (R1)
        some ({ s with loop := .task t task, tasksRun := s.tasksRun + 1 }, { th with loc := .rWait })
      else none
    else if s.done then some (s, th.ret .closed)                                -- taskloop.go:98-99
    else if ctx == .own && th.cancelled then some (s, th.ret .canceled)         -- taskloop.go:96-97
    else none
  | .rWait => if loopOwner s != some t then some (s, th.ret .ok) else none      -- taskloop.go:101-103
  | .cOnce g =>
    match s.once with
    | .free =>                                                                  -- taskloop.go:77-80, agent.go:1547-1552
      some ({ s with once := .running t 0, done := true, snap := s.cands.length }, { th with loc := .cPre g })
    | .running _ _ => none                                                      -- sync.Once: wait for the first caller
    | .finished => some (s, { th with loc := .cWaitLoop g })
  | .cPre g =>
    match s.once with
    | .running o k =>
      if o == t then
        if k < s.snap then some ({ abortCand s k with once := .running t (k + 1) }, th)   -- agent.go:1554-1556
        else some ({ s with once := .finished }, { th with loc := .cWaitLoop g })         -- taskloop.go:84
      else none
    | _ => none
  | .cWaitLoop g => if s.loop == .exited then some (s, { th with loc := .cNotif g 0 }) else none   -- taskloop.go:85
  | .cNotif g i =>
    if i < s.streams.length then                                                -- agent_handlers.go:76-86
      some (setNdone s i, { th with loc := if g then .cWait g i else .cNotif g (i + 1) })
    else                                                                        -- agent.go:1526
      some ({ s with closeRet := true, gcloseRet := s.gcloseRet || g }, th.ret .ok)
  | .cWait g i => if !streamRunning s i then some (s, { th with loc := .cNotif g (i + 1) }) else none  -- agent_handlers.go:73
  | .rdBlk => if s.bufClosed then some (s, th.ret .ioerr) else none             -- transport.go:118 after agent.go:566
  | .wrBlk c =>
    if sockFree s c then
      some (s, th.ret (match s.cands[c]? with | some cd => if cd.aborted then .ioerr else .ok | none => .ioerr))
    else none
  | .awBlk => if s.done then some (s, th.ret .closed) else none                 -- transport.go:18-19

def thStep (s : State) (t : Tid) (alt : Bool) : Option State :=
  match t with
  | .rl _ => none
  | .api n =>
    match s.thr[n]? with
    | none => none
    | some th =>
      if !th.live then none
      else if th.kind == .checker && th.loc == .idle && s.done && !alt && !th.prog.isEmpty then
        some (setTh s t { th with prog := [] })                                 -- agent.go:753-756
      else match callStep s t th alt with
        | none => none
        | some (s', th') => some (setTh s' t th')
  | .dr i =>
    match s.streams[i]? with
    | none => none
    | some st =>
      if !st.running then none
      else if st.th.loc == .idle && st.th.prog.isEmpty then
        match st.queue with
        | [] => some { s with streams := s.streams.set i { st with running := false } }      -- agent_handlers.go:103-107 (M3)
        | e :: q =>                                                                           -- :109-112
          some (setTh { s with streams := s.streams.set i { st with queue := q } } t { st.th with prog := hdlOf st e })
      else match callStep s t st.th alt with
        | none => none
        | some (s', th') => some (setTh s' t th')

/-! ## environment -/

def envStep (s : State) : Action → Option State
  | .envData c =>
    match s.cands[c]? with
    | some cd =>
      if cd.rl == .read && !cd.aborted && cd.inb > 0 then
        some { s with cands := s.cands.set c { cd with rl := .rSel, inb := cd.inb - 1 } }
      else none
    | none => none
  | .envLoopWrite =>
    match s.loop with
    | .task o (.write _ :: ops) => some { s with loop := .task o ops }
    | _ => none
  | .envTh t =>
    match getTh s t with
    | none => none
    | some th =>
      match th.loc with
      | .wrBlk _ => some (setTh s t (th.ret .ok))
      | .rdBlk =>
        if s.bufData > 0 && !s.bufClosed then some (setTh { s with bufData := s.bufData - 1 } t (th.ret .ok)) else none
      | .awBlk => some (setTh s t (th.ret .ok))
      | _ => none
  | _ => none

def step (s : State) (a : Action) : Option State :=
  match a with
  | .loop => loopStep s
  | .th t alt => thStep s t alt
  | .rl c alt => rlStep s c alt
  | a => envStep s a

/-- run a list of actions; `none` as soon as one is not enabled. -/
def run (s : State) : List Action → Option State
  | [] => some s
  | a :: as => match step s a with
    | some s' => run s' as
    | none => none

end IceModel.CloseSys
