/-!
# Model of `sharedPacketConn` (`shared_packet_conn.go`): reference-counted handles over one connection

Property C13, DESIGN.md Appendix B.5.  Core Lean only.  Sequential model: one operation at a time
(the harness drives the real handles one call at a time; reads that block are parked and reported
`pending`, and are released by the handle's own `Close` or by a `feed`).

* `newSharedPacketConn` (52-62): `refs.Add(1)`, own cancellable context.
* `Close` (152-167): first call only (`closeOnce`): cancel own context, `refs.Add(-1)`, and if the
  result is `≤ 0` call `underlying.Close()`.  Later calls return nil.
* `ReadFrom` (94-106): own context cancelled → `io.ErrClosedPipe`; else `underlying.readFromContext`
  with the handle's context (plus its read deadline): queued datagram → data; context done →
  `ErrClosedPipe` / deadline → timeout; else blocks.
* `WriteTo`, `SetReadDeadline`, `SetWriteDeadline` (108-139): own context cancelled →
  `io.ErrClosedPipe`; else forwarded / stored.
* Deadlines.  `SetReadDeadline` is stored IN THE HANDLE (`readDeadline`, armed per read by
  `readContext`): per handle.  `SetWriteDeadline` is FORWARDED to `underlying.SetWriteDeadline`: there is
  no per-handle write deadline.  `SetDeadline` = `SetReadDeadline` then `SetWriteDeadline`.  What the
  forwarded call does depends on the underlying connection (`State.fwd`): `udpMuxedConn.SetWriteDeadline`
  returns nil and does nothing (`fwd = false`); `tcpPacketConn.SetWriteDeadline` sets the deadline of
  EVERY `net.Conn` of the ufrag, and `tcpPacketConn.WriteTo` then fails with the deadline error for every
  handle (`fwd = true`, register `wdlPast`; the harness's fake does the same).  The register is shared BY
  DESIGN between the live handles of one connection.  Since fix F33 (db0c63f) the wrapper remembers
  (`writeDeadlineArmed`, `Handle.wdArmed`) that IT forwarded a non-zero write deadline, and `Close` of such a
  wrapper while siblings remain (`refs` still > 0) calls `underlying.SetWriteDeadline(time.Time{})` (its
  error is `Close`'s result; the underlying connections of the harness never fail it): a deadline does not
  outlive the handle that armed it.
* `abort h` = what `candidateBase.abortIO` does with the candidate's handle:
  `SetDeadline(time.Now())`; `abortWrite()` if the handle is a `writeAborter` (UDP: the mux protocol of
  `IceModel.WriteAbort`, no effect on this model; TCP: `tcpPacketConn` is no `writeAborter`); `Close()`.

* Several TCP connections per ufrag and the fault "SetWriteDeadline fails" (`State.conns`).
  `tcpPacketConn.SetWriteDeadline(d)` applies `d` to EVERY `net.Conn` of the ufrag and reports the FIRST error
  afterwards; a connection that refuses the call (reset by its peer, not swept yet) keeps its old deadline.  All
  connections that have never refused therefore carry one common value: `State.wdlPast` IS that common register;
  only a connection that has refused at some time (`Conn.dirty`) needs its own register (`Conn.wdl`), and it takes
  part in later fan-outs again whenever it does not refuse.  The error of the forwarded call is the result of the
  handle's `SetWriteDeadline` / `SetDeadline`, the first error of `abortIO`, and — for the clear issued by `Close`
  of an arming wrapper — `Close`'s result.  `write h c` goes to connection `c` (`tcpPacketConn.WriteTo` picks the
  `net.Conn` by remote address) and fails under THAT connection's deadline.

The underlying connection is abstract: a queue length, a count of `Close` calls, the write-deadline
register, and — once closed — writes and reads fail (`udpMuxedConn`, `tcpPacketConn` and the harness's
fake all do).
-/
namespace IceModel.SharedConn

structure Handle where
  /-- `closeOnce` fired: own context cancelled, reference released -/
  closed : Bool
  /-- reads of this handle parked inside `underlying.readFromContext` -/
  pending : Nat
  /-- a read deadline in the past is stored (`false`: none / zero) -/
  rdlPast : Bool
  /-- `writeDeadlineArmed`: this wrapper's last `SetWriteDeadline` forwarded a non-zero time -/
  wdArmed : Bool := false
  deriving DecidableEq, Repr, Inhabited

/-- One `net.Conn` of the ufrag's `tcpPacketConn` (only kinds with several scripted connections have any). -/
structure Conn where
  /-- `SetWriteDeadline` / `SetDeadline` of this connection return an error and change nothing -/
  refuse : Bool := false
  /-- it has refused at some time: its register no longer follows the common one -/
  dirty : Bool := false
  /-- its own write-deadline register (meaningful once `dirty`) -/
  wdl : Bool := false
  deriving DecidableEq, Repr, Inhabited

/-- one connection's part in `for _, conn := range t.conns { conn.SetWriteDeadline(v) }` -/
def Conn.fan (v : Bool) (k : Conn) : Conn := if k.dirty && !k.refuse then { k with wdl := v } else k

structure State where
  /-- the shared `atomic.Int32` -/
  refs : Int
  /-- handles in creation order (index = handle id) -/
  handles : List Handle
  /-- number of calls of `underlying.Close()` -/
  uCloses : Nat
  /-- datagrams queued at the underlying connection -/
  queue : Nat
  /-- kind of the underlying connection: it honours a forwarded `SetWriteDeadline` (`tcpPacketConn`, the
      harness's fake); `false`: it ignores it (`udpMuxedConn`) -/
  fwd : Bool := false
  /-- write-deadline register of the underlying connection: a time in the past -/
  wdlPast : Bool := false
  /-- the scripted connections of the ufrag (kinds without them: `[]`, one common register) -/
  conns : List Conn := []
  deriving DecidableEq, Repr, Inhabited

/-- initial state for an underlying connection of the given kind with `k` scripted connections -/
def State.initK (fwd : Bool) (k : Nat := 0) : State :=
  { refs := 0, handles := [], uCloses := 0, queue := 0, fwd := fwd, wdlPast := false, conns := List.replicate k {} }

/-- some connection refuses deadline calls right now: the forwarded `SetWriteDeadline` reports an error -/
def State.refusing (s : State) : Bool := s.fwd && s.conns.any (·.refuse)

/-- the write-deadline register of connection `c` -/
def State.reg (s : State) (c : Nat) : Bool :=
  match s.conns[c]? with
  | some k => if k.dirty then k.wdl else s.wdlPast
  | none => s.wdlPast

/-- `underlying.SetWriteDeadline(v)` as seen by the connections with a register of their own -/
def State.fan (s : State) (v : Bool) : List Conn := if s.fwd then s.conns.map (Conn.fan v) else s.conns

/-- the kind whose `SetWriteDeadline` does nothing (`udpMuxedConn`) -/
def State.init : State := State.initK false

inductive Op where
  | «open»
  | close (h : Nat)
  | read (h : Nat)
  /-- write through handle `h` to connection `c` (kinds without scripted connections: `c` is ignored) -/
  | write (h : Nat) (c : Nat := 0)
  | setrd (h : Nat) (past : Bool)
  | setwd (h : Nat) (past : Bool)
  /-- `SetDeadline` -/
  | setd (h : Nat) (past : Bool)
  /-- the `candidateBase.abortIO` sequence on handle `h`: `SetDeadline(now)`, `abortWrite`, `Close` -/
  | abort (h : Nat)
  /-- the environment: connection `c` starts (`on`) / stops refusing `SetWriteDeadline` and `SetDeadline` -/
  | refuse (c : Nat) (on : Bool)
  /-- the environment delivers one datagram to the underlying connection -/
  | feed
  deriving DecidableEq, Repr, Inhabited

inductive Out where
  /-- new handle id -/
  | handle (id : Nat)
  /-- `Close` returned nil; `u` = calls of `underlying.Close()` so far; `rel` = parked reads of this
      handle that returned (with a closed error) -/
  | closed (u : Nat) (rel : Nat)
  | ok
  /-- `io.ErrClosedPipe` (own context) or the closed error of the underlying connection -/
  | errClosed
  | data
  /-- the read is parked -/
  | pending
  | errTimeout
  /-- datagram accepted; `rel = some h`: it completed the parked read of handle `h` -/
  | fed (rel : Option Nat)
  | skip
  | badHandle
  /-- `abort` of a handle that is already closed: `SetDeadline` fails closed, `Close` is inert -/
  | abortedClosed (u : Nat)
  /-- a deadline setter returned the error of a refusing connection -/
  | refused
  /-- `Close` / `abortIO` did its work and returned the error of a refusing connection -/
  | closedErr (u : Nat) (rel : Nat)
  deriving DecidableEq, Repr, Inhabited

/-- the result when the forwarded `SetWriteDeadline` reported an error (`b`) -/
def Out.orRefused (b : Bool) : Out → Out
  | .ok => if b then .refused else .ok
  | .closed u rel => if b then .closedErr u rel else .closed u rel
  | o => o

def Out.toString : Out → String
  | .handle id => s!"h{id}"
  | .closed u rel => s!"ok u={u} rel={rel}"
  | .ok => "ok"
  | .errClosed => "err:closed"
  | .data => "data"
  | .pending => "pending"
  | .errTimeout => "err:timeout"
  | .fed none => "ok"
  | .fed (some h) => s!"ok rel=h{h}"
  | .skip => "skip"
  | .badHandle => "bad-handle"
  | .abortedClosed u => s!"err:closed u={u} rel=0"
  | .refused => "err:other"
  | .closedErr u rel => s!"err:other u={u} rel={rel}"

def nOpen (hs : List Handle) : Nat := hs.countP (fun h => !h.closed)
def totalPending (hs : List Handle) : Nat := (hs.map (·.pending)).sum

/-- index of the first handle with a parked read -/
def firstPending : List Handle → Nat → Option Nat
  | [], _ => none
  | h :: rest, i => if h.pending > 0 then some i else firstPending rest (i + 1)

def step (s : State) : Op → State × Out
  | .open =>
    ({ s with refs := s.refs + 1, handles := s.handles ++ [{ closed := false, pending := 0, rdlPast := false, wdArmed := false }] },
     .handle s.handles.length)
  | .close h =>
    match s.handles[h]? with
    | none => (s, .badHandle)
    | some hd =>
      if hd.closed then (s, .closed s.uCloses 0)                        -- closeOnce already fired
      else
        -- (the flag of a closed wrapper is never read again; it is reset here in every branch)
        let hs := s.handles.set h { hd with closed := true, pending := 0, wdArmed := false }   -- s.cancel()
        let refs := s.refs - 1                                            -- s.refs.Add(-1)
        if refs ≤ 0 then
          ({ s with refs := refs, handles := hs, uCloses := s.uCloses + 1, queue := 0 },
           .closed (s.uCloses + 1) hd.pending)                            -- underlying.Close()
        else if hd.wdArmed then                                           -- writeDeadlineArmed.Swap(false)
          ({ s with refs := refs, handles := hs, wdlPast := if s.fwd then false else s.wdlPast, conns := s.fan false },
           (Out.closed s.uCloses hd.pending).orRefused s.refusing)        -- err = underlying.SetWriteDeadline(time.Time{})
        else ({ s with refs := refs, handles := hs }, .closed s.uCloses hd.pending)
  | .read h =>
    match s.handles[h]? with
    | none => (s, .badHandle)
    | some hd =>
      if hd.closed then (s, .errClosed)
      else if s.uCloses > 0 then (s, .errClosed)
      else if s.queue > 0 then ({ s with queue := s.queue - 1 }, .data)
      else if hd.rdlPast then (s, .errTimeout)
      else ({ s with handles := s.handles.set h { hd with pending := hd.pending + 1 } }, .pending)
  | .write h c =>
    match s.handles[h]? with
    | none => (s, .badHandle)
    | some hd =>
      if hd.closed then (s, .errClosed)
      else if s.uCloses > 0 then (s, .errClosed)
      else if s.reg c then (s, .errTimeout)     -- the underlying write fails under the connection's deadline
      else (s, .ok)
  | .setrd h past =>
    match s.handles[h]? with
    | none => (s, .badHandle)
    | some hd =>
      if hd.closed then (s, .errClosed)
      else ({ s with handles := s.handles.set h { hd with rdlPast := past } }, .ok)
  | .setwd h past =>
    match s.handles[h]? with
    | none => (s, .badHandle)
    | some hd =>
      if hd.closed then (s, .errClosed)
      else ({ s with handles := s.handles.set h { hd with wdArmed := past },   -- writeDeadlineArmed.Store(!t.IsZero())
                     wdlPast := if s.fwd then past else s.wdlPast, conns := s.fan past },
            Out.ok.orRefused s.refusing)                                       -- underlying.SetWriteDeadline(t)
  | .setd h past =>
    match s.handles[h]? with
    | none => (s, .badHandle)
    | some hd =>
      if hd.closed then (s, .errClosed)
      else ({ s with handles := s.handles.set h { hd with rdlPast := past, wdArmed := past },
                     wdlPast := if s.fwd then past else s.wdlPast, conns := s.fan past },
            Out.ok.orRefused s.refusing)
  | .abort h =>
    match s.handles[h]? with
    | none => (s, .badHandle)
    | some hd =>
      if hd.closed then (s, .abortedClosed s.uCloses)     -- SetDeadline: ErrClosedPipe; Close: closeOnce already fired
      else
        -- SetDeadline(time.Now()) (arms: `wdArmed`), then Close (as in `.close`): with siblings left the
        -- armed wrapper clears the register again
        let hs := s.handles.set h { hd with rdlPast := true, closed := true, pending := 0, wdArmed := false }
        let refs := s.refs - 1
        if refs ≤ 0 then
          ({ s with refs := refs, handles := hs, uCloses := s.uCloses + 1, queue := 0,
                    wdlPast := if s.fwd then true else s.wdlPast, conns := s.fan true },
           (Out.closed (s.uCloses + 1) hd.pending).orRefused s.refusing)    -- first error: SetDeadline's
        else ({ s with refs := refs, handles := hs, wdlPast := if s.fwd then false else s.wdlPast, conns := s.fan false },
              (Out.closed s.uCloses hd.pending).orRefused s.refusing)
  | .refuse c on =>
    match s.conns[c]? with
    | none => (s, .badHandle)
    | some k =>
      ({ s with conns := s.conns.set c { refuse := on, dirty := k.dirty || on,
                                          wdl := if k.dirty then k.wdl else s.wdlPast } }, .ok)
  | .feed =>
    if s.uCloses > 0 then (s, .skip)
    else if totalPending s.handles = 0 then ({ s with queue := s.queue + 1 }, .fed none)
    else if totalPending s.handles = 1 then
      match firstPending s.handles 0 with
      | some h =>
        match s.handles[h]? with
        | some hd => ({ s with handles := s.handles.set h { hd with pending := 0 } }, .fed (some h))
        | none => (s, .skip)
      | none => (s, .skip)
    else (s, .skip)

/-- Handles are only requested for a connection that is still open (the muxes create a fresh
underlying connection otherwise). -/
def Op.legal (s : State) : Op → Bool
  | .open => s.uCloses == 0
  | _ => true

def runOps (s : State) : List Op → State
  | [] => s
  | op :: rest => runOps (step s op).1 rest

inductive Reachable : State → Prop where
  | init (fwd : Bool) (k : Nat) : Reachable (State.initK fwd k)
  | step {s : State} (op : Op) : Reachable s → op.legal s = true → Reachable (step s op).1

end IceModel.SharedConn
