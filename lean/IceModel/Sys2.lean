import IceModel.AgentCore
/-!
# Sys2 — two agents, a datagram hub that holds every datagram until the schedule delivers, drops or
duplicates it, a NAT mapping and a reachability relation (the harness's `vHub`).
-/
namespace IceModel.Sys2
open IceModel.AgentCore

inductive Payload where
  | stun (m : Msg)
  | data (len : Nat)
  deriving Repr, Inhabited

structure Dgram where
  src : Nat
  dst : Nat
  p : Payload
  deriving Repr, Inhabited

structure Sys where
  a : Agent := {}
  b : Agent := { tag := 1 }
  hasB : Bool := false
  inflight : List Dgram := []
  /-- source address → address seen by the receiver (NAT mapping); replies to the mapped address reach the source -/
  nat : List (Nat × Nat) := []
  /-- (src, dst) pairs that the network drops -/
  blocked : List (Nat × Nat) := []
  now : Nat := 0
  deriving Repr, Inhabited

def dgramsOf (outs : List Out) : List Dgram :=
  outs.filterMap fun
    | .dgram f t m => some { src := f, dst := t, p := .stun m }
    | .data f t n => some { src := f, dst := t, p := .data n }
    | _ => none

def Sys.agent (s : Sys) (isB : Bool) : Agent := if isB then s.b else s.a
def Sys.setAgent (s : Sys) (isB : Bool) (x : Agent) : Sys := if isB then { s with b := x } else { s with a := x }

/-- run one agent event; emitted datagrams are appended to the in-flight list. -/
def Sys.agentEv (s : Sys) (isB : Bool) (e : Ev) : Sys × List Out :=
  let (x, o) := step (s.agent isB) e
  ({ s.setAgent isB x with inflight := s.inflight ++ dgramsOf o }, o)

def Sys.mapped (s : Sys) (src : Nat) : Nat := ((s.nat.find? (·.1 == src)).map (·.2)).getD src
def Sys.unmapped (s : Sys) (dst : Nat) : Nat := ((s.nat.find? (·.2 == dst)).map (·.1)).getD dst

/-- which agent listens on a (real) address -/
def Sys.owner (s : Sys) (addr : Nat) : Option Bool :=
  if (s.a.localByAddr addr).isSome && !s.a.closed then some false
  else if s.hasB && (s.b.localByAddr addr).isSome && !s.b.closed then some true
  else none

/-- hand one datagram to whoever listens at its destination. -/
def Sys.handOver (s : Sys) (d : Dgram) : Sys × List Out × List Out :=
  if s.blocked.contains (d.src, d.dst) then (s, [], [])
  else
    let real := s.unmapped d.dst
    match s.owner real with
    | none => (s, [], [])
    | some isB =>
      let src := s.mapped d.src
      let e : Ev := match d.p with
        | .stun m => .inbound s.now real src m
        | .data n => .inboundData s.now real src n false
      let (s, o) := s.agentEv isB e
      if isB then (s, [], o) else (s, o, [])

def removeAt {α : Type} (l : List α) (k : Nat) : List α := l.take k ++ l.drop (k + 1)

/-- deliver in-flight datagram `k` (removing it), drop it, or deliver a copy. -/
def Sys.deliver (s : Sys) (k : Nat) (keep : Bool) : Sys × List Out × List Out :=
  match s.inflight[k]? with
  | none => (s, [], [])
  | some d =>
    let s := if keep then s else { s with inflight := removeAt s.inflight k }
    s.handOver d

def Sys.drop (s : Sys) (k : Nat) : Sys := { s with inflight := removeAt s.inflight k }

/-- virtual time moves to `now`: both agents run their due timer ticks (A's emissions are listed first). -/
def Sys.advance (s : Sys) (now : Nat) : Sys × List Out × List Out :=
  let s := { s with now := now }
  let (s, oa) := s.agentEv false (.advance now)
  if s.hasB then
    let (s, ob) := s.agentEv true (.advance now)
    (s, oa, ob)
  else (s, oa, [])

end IceModel.Sys2
