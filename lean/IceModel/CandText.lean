import IceModel.Prio
/-!
# CandText — textual form of candidates (model of candidate_base.go `Marshal`,
`UnmarshalCandidate` and its tokenisers, the four constructors, `Equal`, `DeepEqual`,
`extensionsEqual`, `Extensions`, `AddExtension`; candidaterelatedaddress.go; tcptype.go)

Strings are BYTE strings (`Str = List Nat`, one element per byte) because that is what the Go code
indexes.  `UnmarshalCandidate` cuts tokens at the byte 0x20; Go's `range` decodes UTF-8, but a 0x20
byte is always a rune of its own, so cutting at bytes is the same.  Where the Go code looks at the
decoded RUNE (`readCandidateByteString`: rune in 01-09 / 0B-0C / 0E-FF) the model decodes the same
way (`validBS`: ASCII, or C2/C3 followed by one continuation byte; everything else is a rune above
0xFF or `RuneError`).

Uninterpreted parts, collected in `Env`: `netip.ParseAddr` followed by `Unmap().Is4()` (`cls`),
`netip.ParseAddr` followed by `canonicalAddr` (`canon`: the key that `sameAddressLiteral` and
`addrEqual` compare; `none` = the string is no IP literal) and CRC-32 (`crc`, used by `Foundation()`
when there is no override).  Every theorem is for ALL `Env`; the only theorems with a hypothesis on
`Env` are the ones that name `EnvLaw` (how `cls` is determined by `canon`).  The driver instantiates
`Env` with executable mirrors that the correspondence run samples against Go (`cand cls`, `cand canon`,
`cand crc`), and checks `EnvLaw` on what the REAL functions returned for every sampled string.

The parser is written over the token list `splitSp raw` (cut at every single space).  Go keeps a byte
position instead; `pos >= len(raw)` ("nothing left") is `atEnd` here: no token left, or exactly one
empty token left (the text ended with a space).
-/
namespace IceModel.CandText
open IceModel.Prio (TcpType)

abbrev Str := List Nat

/-! ## constants (ASCII) -/
def sTyp : Str := [116, 121, 112]                         -- "typ"
def sRaddr : Str := [114, 97, 100, 100, 114]               -- "raddr"
def sRport : Str := [114, 112, 111, 114, 116]              -- "rport"
def sHost : Str := [104, 111, 115, 116]                    -- "host"
def sSrflx : Str := [115, 114, 102, 108, 120]              -- "srflx"
def sPrflx : Str := [112, 114, 102, 108, 120]              -- "prflx"
def sRelay : Str := [114, 101, 108, 97, 121]               -- "relay"
def sTcptype : Str := [116, 99, 112, 116, 121, 112, 101]   -- "tcptype"
def sActive : Str := [97, 99, 116, 105, 118, 101]          -- "active"
def sPassive : Str := [112, 97, 115, 115, 105, 118, 101]   -- "passive"
def sSo : Str := [115, 111]                                -- "so"
def sUdp : Str := [117, 100, 112]                          -- "udp"
def sTcp : Str := [116, 99, 112]                           -- "tcp"
def sCandidatePrefix : Str := [99, 97, 110, 100, 105, 100, 97, 116, 101, 58]  -- "candidate:"
def sDotLocal : Str := [46, 108, 111, 99, 97, 108]         -- ".local"
def sDotInvalid : Str := [46, 105, 110, 118, 97, 108, 105, 100]  -- ".invalid"

/-! ## types -/
inductive CType where
  | host | srflx | prflx | relay
  deriving DecidableEq, Repr, Inhabited

def CType.toPrio : CType → IceModel.Prio.CandType
  | .host => .host | .srflx => .srflx | .prflx => .prflx | .relay => .relay

/-- `CandidateType.String()` -/
def typStr : CType → Str
  | .host => sHost | .srflx => sSrflx | .prflx => sPrflx | .relay => sRelay

inductive NetType where
  | udp4 | udp6 | tcp4 | tcp6
  deriving DecidableEq, Repr, Inhabited

def NetType.isTCP : NetType → Bool
  | .tcp4 | .tcp6 => true
  | _ => false

/-- `NetworkType.NetworkShort()` -/
def netShort : NetType → Str
  | .udp4 | .udp6 => sUdp
  | .tcp4 | .tcp6 => sTcp

/-- `NetworkType.String()` -/
def netStr : NetType → Str
  | .udp4 => sUdp ++ [52] | .udp6 => sUdp ++ [54] | .tcp4 => sTcp ++ [52] | .tcp6 => sTcp ++ [54]

/-- `TCPType.String()` -/
def tcpTypeStr : TcpType → Str
  | .unspecified => [] | .active => sActive | .passive => sPassive | .so => sSo

/-- What the constructors learn from `netip.ParseAddr(addr)` and `Unmap().Is4()`. -/
inductive AddrClass where
  | v4 | v6 | invalid
  deriving DecidableEq, Repr, Inhabited

/-- The uninterpreted functions of the model. -/
structure Env where
  /-- `netip.ParseAddr` + `Unmap().Is4()` on the address string -/
  cls : Str → AddrClass
  /-- `netip.ParseAddr` then `canonicalAddr` (addr.go: `Unmap()`, zone kept only on IPv6 link-local)
  on the address string: `none` = `ParseAddr` returned an error; `some k` = a key with
  `k₁ = k₂ ↔ canonicalAddr(ip₁) == canonicalAddr(ip₂)` (the driver uses the 4 or 16 address bytes
  followed, for a zoned link-local address, by `%` and the zone). -/
  canon : Str → Option Str
  /-- `crc32.ChecksumIEEE` -/
  crc : Str → Nat

inductive ErrKind where
  | foundation | tooShort | component | priority | port | typ | relAddr | ext | tcpType | addr | netType
  deriving DecidableEq, Repr, Inhabited

/-- A candidate as the constructors leave it (fields of `candidateBase` that the text form,
the getters and the equalities depend on). -/
structure Cand where
  typ : CType
  net : NetType
  address : Str
  port : Nat
  component : Nat
  /-- `priorityOverride` (0 = compute) -/
  prioOverride : Nat
  /-- `foundationOverride` (empty = compute from CRC-32) -/
  foundationOverride : Str
  tcpType : TcpType
  /-- `relatedAddress` (`none` = nil pointer) -/
  related : Option (Str × Nat)
  /-- `c.extensions` (never holds the `tcptype` pair) -/
  exts : List (Str × Str)
  /-- `relayLocalPreference` -/
  relayLP : Nat
  deriving DecidableEq, Repr, Inhabited

/-! ## decimal numbers: `%d` and the digit tokeniser -/

/-- `fmt.Sprintf("%d", n)` for `n ≥ 0`; the first argument is fuel (`n + 1` is always enough). -/
def natToDigitsF : Nat → Nat → Str
  | 0, _ => []
  | f + 1, n => if n < 10 then [48 + n] else natToDigitsF f (n / 10) ++ [48 + n % 10]

def natToDigits (n : Nat) : Str := natToDigitsF (n + 1) n

def isDigit (c : Nat) : Bool := 48 ≤ c && c ≤ 57

/-- The loop of `readCandidateDigitToken` over one token (the bytes up to the next space):
`i` = offset in the token, `val` = value so far; `none` = "token too long" / "invalid digit token". -/
def readDigits (limit : Nat) : Str → Nat → Nat → Option Nat
  | [], _, val => some val
  | c :: cs, i, val =>
    if i = limit then none
    else if !isDigit c then none
    else readDigits limit cs (i + 1) (val * 10 + (c - 48))

/-- `readCandidatePort` -/
def readPort (tok : Str) : Option Nat :=
  match readDigits 5 tok 0 0 with
  | some p => if p > 65535 then none else some p
  | none => none

/-- ice-char = ALPHA / DIGIT / "+" / "/" -/
def isIceChar (c : Nat) : Bool :=
  (65 ≤ c && c ≤ 90) || (97 ≤ c && c ≤ 122) || (48 ≤ c && c ≤ 57) || c = 43 || c = 47

/-- The loop of `readCandidateCharToken` over one token: `false` = error. -/
def readChars (limit : Nat) : Str → Nat → Bool
  | [], _ => true
  | c :: cs, i =>
    if i = limit then false
    else if !isIceChar c then false
    else readChars limit cs (i + 1)

/-- `readCandidateByteString` over one token, on the bytes: the Go code accepts the RUNES 01-09,
0B-0C, 0E-FF.  A rune 80..FF is the two bytes C2/C3 + continuation; any other non-ASCII byte starts a
rune above FF or decodes to `RuneError` (FFFD), both rejected. -/
def validBS : Str → Bool
  | [] => true
  | c :: cs =>
    if c < 128 then (c != 0 && c != 10 && c != 13) && validBS cs
    else if c = 194 || c = 195 then
      match cs with
      | d :: ds => (128 ≤ d && d ≤ 191) && validBS ds
      | [] => false
    else false

/-! ## small string functions -/

def lowerAscii (c : Nat) : Nat := if 65 ≤ c ∧ c ≤ 90 then c + 32 else c

/-- `removeZoneIDFromAddress`: cut at the first `%`. -/
def stripZone (a : Str) : Str := a.takeWhile (· != 37)

/-- `strings.TrimPrefix(raw, "candidate:")` -/
def stripCandidatePrefix (s : Str) : Str :=
  if sCandidatePrefix.isPrefixOf s then s.drop sCandidatePrefix.length else s

/-- the host constructor's test for mDNS names -/
def isMDNS (a : Str) : Bool := sDotLocal.isSuffixOf a || sDotInvalid.isSuffixOf a

/-- `determineNetworkType`: `strings.HasPrefix(strings.ToLower(network), "udp"|"tcp")`. -/
def netOf (network : Str) (cl : AddrClass) : Option NetType :=
  let p := (network.take 3).map lowerAscii
  if p = sUdp then some (if cl = .v4 then .udp4 else .udp6)
  else if p = sTcp then some (if cl = .v4 then .tcp4 else .tcp6)
  else none

/-- `strings.ToLower` as far as a comparison with an ASCII word can see it: ASCII letters, and the one
non-ASCII rune below U+212A whose lower case is ASCII, U+0130 (bytes C4 B0) ↦ `i`.  (U+212A ↦ `k`
is the only other one; no word compared here contains a `k`.) -/
def lowerStr : Str → Str
  | [] => []
  | 196 :: 176 :: r => 105 :: lowerStr r
  | c :: r => lowerAscii c :: lowerStr r

/-- `NewTCPType` -/
def newTCPType (v : Str) : TcpType :=
  let l := lowerStr v
  if l = sActive then .active else if l = sPassive then .passive else if l = sSo then .so else .unspecified

/-- `relayProtocolPreference("")`, what a parsed relay candidate gets. -/
def defaultRelayLP : Nat := 3

/-! ## getters -/

/-- `Foundation()` -/
def foundation (env : Env) (c : Cand) : Str :=
  if c.foundationOverride ≠ [] then c.foundationOverride
  else natToDigits (env.crc (typStr c.typ ++ c.address ++ netStr c.net) % 4294967296)

/-- `Priority()` of a candidate without agent (TCP priority offset 27). -/
def priority (c : Cand) : Nat :=
  if c.prioOverride ≠ 0 then c.prioOverride
  else IceModel.Prio.priority
    (IceModel.Prio.typePreference c.typ.toPrio c.net.isTCP IceModel.Prio.defaultTCPPriorityOffset)
    (IceModel.Prio.localPreference c.typ.toPrio c.net.isTCP c.tcpType c.relayLP) c.component

/-- `Extensions()`: the TCP type, if any, first. -/
def extensions (c : Cand) : List (Str × Str) :=
  (if c.tcpType ≠ .unspecified then [(sTcptype, tcpTypeStr c.tcpType)] else []) ++ c.exts

/-! ## constructors -/

/-- `NewCandidateHost` / `NewCandidateServerReflexive` / `NewCandidatePeerReflexive` /
`NewCandidateRelay` (the parts that decide success, network type and the stored fields). -/
def mkCand (env : Env) (typ : CType) (network address : Str) (port component prio : Nat)
    (foundation : Str) (tt : TcpType) (raddr : Str) (rport : Nat) (relayLP : Nat) : Except ErrKind Cand :=
  match typ with
  | .host =>
    if isMDNS address then
      .ok { typ := .host, net := .udp4, address := address, port := port, component := component,
            prioOverride := prio, foundationOverride := foundation, tcpType := tt, related := none,
            exts := [], relayLP := 0 }
    else
      match env.cls address with
      | .invalid => .error .addr
      | cl =>
        match netOf network cl with
        | none => .error .netType
        | some n =>
          .ok { typ := .host, net := n, address := address, port := port, component := component,
                prioOverride := prio, foundationOverride := foundation, tcpType := tt, related := none,
                exts := [], relayLP := 0 }
  | ty =>
    match env.cls address with
    | .invalid => .error .addr
    | cl =>
      match netOf network cl with
      | none => .error .netType
      | some n =>
        .ok { typ := ty, net := n, address := address, port := port, component := component,
              prioOverride := prio, foundationOverride := foundation, tcpType := .unspecified,
              related := some (raddr, rport), exts := [], relayLP := if ty = .relay then relayLP else 0 }

/-- the duplicate-key branch of `AddExtension`: overwrite the FIRST entry with this key. -/
def replaceFirst (k v : Str) : List (Str × Str) → Option (List (Str × Str))
  | [] => none
  | e :: r => if e.1 = k then some ((k, v) :: r) else (replaceFirst k v r).map (e :: ·)

/-- `AddExtension`: `none` = error (candidate unchanged). -/
def addExtension (c : Cand) (k v : Str) : Option Cand :=
  if k = sTcptype then
    match newTCPType v with
    | .unspecified => none
    | t => some { c with tcpType := t }
  else if k = [] then none
  else
    match replaceFirst k v c.exts with
    | some l => some { c with exts := l }
    | none => some { c with exts := c.exts ++ [(k, v)] }

/-! ## Marshal -/

def joinSp : List Str → Str
  | [] => []
  | [t] => t
  | t :: ts => t ++ 32 :: joinSp ts

def relToks (c : Cand) : List Str :=
  match c.related with
  | some (a, p) => if a ≠ [] then [sRaddr, a, sRport, natToDigits p] else []
  | none => []

def pairToks : List (Str × Str) → List Str
  | [] => []
  | (k, v) :: r => k :: v :: pairToks r

def extToks (c : Cand) : List Str := pairToks (extensions c)

/-- The tokens `Marshal` prints, in order. -/
def marshalToks (env : Env) (c : Cand) : List Str :=
  (if foundation env c = [32] then [] else foundation env c) ::
  natToDigits c.component :: netShort c.net :: natToDigits (priority c) :: stripZone c.address ::
  natToDigits c.port :: sTyp :: typStr c.typ :: (relToks c ++ extToks c)

/-- `Marshal()` -/
def marshal (env : Env) (c : Cand) : Str := joinSp (marshalToks env c)

/-! ## UnmarshalCandidate -/

/-- cut at every space -/
def splitSp : Str → List Str
  | [] => [[]]
  | c :: cs =>
    if c = 32 then [] :: splitSp cs
    else
      match splitSp cs with
      | t :: ts => (c :: t) :: ts
      | [] => [[c]]

/-- read one token (`readCandidateStringToken`); at the end of the text the token is empty. -/
def nextTok : List Str → Str × List Str
  | [] => ([], [])
  | t :: r => (t, r)

/-- `pos >= len(raw)` -/
def atEnd : List Str → Bool
  | [] => true
  | [[]] => true
  | _ => false

structure Head where
  foundation : Str
  component : Nat
  protocol : Str
  priority : Nat
  address : Str
  port : Nat
  typ : Str
  deriving DecidableEq, Repr

/-- foundation … candidate type, with the "too short" checks exactly where the code has them. -/
def parseHead (toks : List Str) : Except ErrKind (Head × List Str) :=
  let (f, r1) := nextTok toks
  if !readChars 32 f 0 then .error .foundation else
  let f := if f = [] then [32] else f
  if atEnd r1 then .error .tooShort else
  let (ct, r2) := nextTok r1
  match readDigits 5 ct 0 0 with
  | none => .error .component
  | some comp =>
  if atEnd r2 then .error .tooShort else
  let (proto, r3) := nextTok r2
  if atEnd r3 then .error .tooShort else
  let (pt, r4) := nextTok r3
  match readDigits 10 pt 0 0 with
  | none => .error .priority
  | some prio =>
  if atEnd r4 then .error .tooShort else
  let (adr, r5) := nextTok r4
  if atEnd r5 then .error .tooShort else
  let (pot, r6) := nextTok r5
  match readPort pot with
  | none => .error .port
  | some port =>
  let (typKey, r7) := nextTok r6
  if typKey ≠ sTyp then .error .typ else
  if atEnd r7 then .error .tooShort else
  let (ty, r8) := nextTok r7
  .ok ({ foundation := f, component := comp, protocol := proto, priority := prio,
         address := stripZone adr, port := port, typ := ty }, r8)

/-- `tryReadRelativeAddrs` -/
def readRel (r : List Str) : Except ErrKind (Str × Nat × List Str) :=
  let (key, r1) := nextTok r
  if key ≠ sRaddr then .ok ([], 0, r) else
  if atEnd r1 then .error .relAddr else
  let (raddr, r2) := nextTok r1
  if atEnd r2 then .error .relAddr else
  let (key2, r3) := nextTok r2
  if key2 ≠ sRport then .error .relAddr else
  if atEnd r3 then .error .relAddr else
  let (pt, r4) := nextTok r3
  match readPort pt with
  | none => .error .relAddr
  | some rport => .ok (raddr, rport, r4)

/-- The key/value loop of `unmarshalCandidateExtensions`: a key, then a value if anything is left. -/
def pairExts : List Str → List (Str × Str)
  | [] => []
  | [[]] => []
  | [k] => [(k, [])]
  | k :: v :: rest => (k, v) :: pairExts rest

/-- … with the `tcptype` key diverted (the last one wins). -/
def splitTT (ps : List (Str × Str)) : List (Str × Str) × Str :=
  ps.foldl (fun (acc : List (Str × Str) × Str) kv =>
    if kv.1 = sTcptype then (acc.1, kv.2) else (acc.1 ++ [kv], acc.2)) ([], [])

/-- `unmarshalCandidateExtensions` + the TCP type check that follows it. `r` is what is left of the text. -/
def parseExtSection (r : List Str) : Except ErrKind (List (Str × Str) × TcpType) :=
  if atEnd r then .ok ([], .unspecified) else
  if r.head? = some [] then .error .ext else
  if !r.all validBS then .error .ext else
  let (exts, ttRaw) := splitTT (pairExts r)
  if ttRaw = [] then .ok (exts, .unspecified) else
  match newTCPType ttRaw with
  | .unspecified => .error .tcpType
  | t => .ok (exts, t)

def typOfStr (s : Str) : Option CType :=
  if s = sHost then some .host else if s = sSrflx then some .srflx
  else if s = sPrflx then some .prflx else if s = sRelay then some .relay else none

def parseToks (env : Env) (toks : List Str) : Except ErrKind Cand :=
  match parseHead toks with
  | .error e => .error e
  | .ok (h, r8) =>
  match readRel r8 with
  | .error e => .error e
  | .ok (raddr, rport, r9) =>
  match parseExtSection r9 with
  | .error e => .error e
  | .ok (exts, tt) =>
  match typOfStr h.typ with
  | none => .error .typ
  | some ty =>
    match mkCand env ty h.protocol h.address h.port (h.component % 65536) (h.priority % 4294967296)
        h.foundation tt raddr rport defaultRelayLP with
    | .error e => .error e
    | .ok c => .ok { c with exts := exts }

/-- `UnmarshalCandidate` -/
def parse (env : Env) (raw : Str) : Except ErrKind Cand :=
  parseToks env (splitSp (stripCandidatePrefix raw))

/-! ## equality -/

/-- `addrEqual`'s view of `c.addr()`: `none` = nil (unresolved mDNS host); otherwise (is
`*net.TCPAddr`, `Is4()` of the IP, the IP, port).  The constructors store
`ParseAddr(address).AsSlice()` and `.Zone()`; `addrEqual` → `parseAddr` → `ipAddrToNetIP` rebuilds the
IP with `AddrFromSlice`, `Unmap()` and `addrWithOptionalZone` (zone only on IPv6 link-local), which is
`canonicalAddr(ParseAddr(address))`, i.e. `env.canon c.address` (`cand canon` samples both routes);
the network type it derives is UDP/TCP from the kind of `net.Addr` and 4/6 from `Is4()` of that IP. -/
def resolved (env : Env) (c : Cand) : Option (Bool × AddrClass × Option Str × Nat) :=
  match c.typ with
  | .host => if isMDNS c.address then none else some (c.net.isTCP, env.cls c.address, env.canon c.address, c.port)
  | .prflx => some (c.net.isTCP, env.cls c.address, env.canon c.address, c.port)
  | _ => some (false, env.cls c.address, env.canon c.address, c.port)

/-- `sameAddressLiteral`: identical strings, or both are IP literals with one canonical address. -/
def sameAddressLiteral (env : Env) (a b : Str) : Bool :=
  a == b ||
    (match env.canon a with
     | none => false
     | some ka =>
       match env.canon b with
       | none => false
       | some kb => ka == kb)

/-- `transportAddressEqual`: the test on the resolved addresses (same pointer / both nil, or
`addrEqual`), then network type, `sameAddressLiteral(Address(), Address())`, port, TCP type. -/
def transportAddressEqual (env : Env) (c o : Cand) : Bool :=
  (match resolved env c, resolved env o with
   | none, none => true
   | some a, some b => a == b
   | _, _ => false)
  && c.net == o.net && sameAddressLiteral env c.address o.address && c.port == o.port && c.tcpType == o.tcpType

/-- `CandidateRelatedAddress.Equal` -/
def relEqual : Option (Str × Nat) → Option (Str × Nat) → Bool
  | none, none => true
  | some a, some b => a.1 == b.1 && a.2 == b.2
  | _, _ => false

/-- `Equal` -/
def equal (env : Env) (c o : Cand) : Bool :=
  transportAddressEqual env c o && c.typ == o.typ && relEqual c.related o.related

/-- `extensionsEqual` (with the receiver's `Extensions()` as `own`, i.e. after the F1 repair). -/
def extensionsEqual (own other : List (Str × Str)) : Bool :=
  if own.length ≠ other.length then false
  else
    match own, other with
    | [], _ => true
    | [a], b :: _ => a == b
    | _, _ => own.all (fun k => own.count k == other.count k)

/-- `DeepEqual` -/
def deepEqual (env : Env) (c o : Cand) : Bool :=
  equal env c o && extensionsEqual (extensions c) (extensions o)

/-! ## the one law about `Env` that a theorem relies on (`C16_equal_iff`) -/

/-- the address class a canonical key stands for: plain IPv4 keys are the 4 address bytes -/
def clsOfCanon : Option Str → AddrClass
  | none => .invalid
  | some k => if k.length = 4 then .v4 else .v6

/-- `cls` is determined by `canon`: `ParseAddr` fails for both or for neither, and
`ParseAddr(s).Unmap().Is4()` = "the canonical address is IPv4" (`canonicalAddr` starts with `Unmap()`).
A hypothesis of `C16_equal_iff` only; the driver checks it on the values the real `netip.ParseAddr`,
`Unmap().Is4()` and `canonicalAddr` return for every `cand canon` line. -/
def EnvLaw (env : Env) : Prop := ∀ a, env.cls a = clsOfCanon (env.canon a)

/-! ## well-formedness: the candidates the round-trip theorem is about -/

/-- an extension token: what `readCandidateByteString` accepts, without a space -/
def tokOK (t : Str) : Prop := validBS t = true ∧ 32 ∉ t

/-- `Foundation()` is 1*32 ice-char, or the marker " " the parser uses for an empty foundation -/
def foundationOK (f : Str) : Prop := f = [32] ∨ (f ≠ [] ∧ f.length ≤ 32 ∧ ∀ ch ∈ f, isIceChar ch = true)

/-- the network type is the one the constructors derive from the address -/
def addrNetOK (env : Env) (c : Cand) : Prop :=
  if c.typ = .host ∧ isMDNS c.address = true then c.net = .udp4
  else (env.cls c.address = .v4 ∧ (c.net = .udp4 ∨ c.net = .tcp4)) ∨
       (env.cls c.address = .v6 ∧ (c.net = .udp6 ∨ c.net = .tcp6))

/-- host candidates have no related address, the others have one (a token, port 0..65535) -/
def relatedOK (c : Cand) : Prop :=
  match c.related with
  | none => c.typ = .host
  | some (a, p) => c.typ ≠ .host ∧ 32 ∉ a ∧ p ≤ 65535

/-- What every candidate made by a constructor or by `parse` satisfies, given fields in range. -/
def WFcore (env : Env) (c : Cand) : Prop :=
  foundationOK (foundation env c) ∧ c.component < 65536 ∧ c.prioOverride < 4294967296 ∧
  (priority c ≠ 0 ∨ c.typ ≠ .relay ∨ c.relayLP = defaultRelayLP) ∧
  32 ∉ c.address ∧ 37 ∉ c.address ∧ addrNetOK env c ∧ c.port ≤ 65535 ∧ relatedOK c ∧
  (c.tcpType ≠ .unspecified → c.typ = .host) ∧
  (∀ e ∈ c.exts, tokOK e.1 ∧ tokOK e.2 ∧ e.1 ≠ sTcptype)

/-- "no related address" is the empty address with port 0 (an empty address is never printed) -/
def relRepr (c : Cand) : Prop :=
  match c.related with
  | some (a, p) => a = [] → p = 0
  | none => True

/-- the first extension token printed is not empty, and is not the word `raddr` unless a related
address is printed before it (the text grammar cannot tell such an extension from `raddr`) -/
def extHeadRepr (c : Cand) : Prop :=
  match extToks c with
  | [] => True
  | t :: _ => t ≠ [] ∧ (t ≠ sRaddr ∨ relToks c ≠ [])

/-- Representable in the text grammar. -/
def Repr (c : Cand) : Prop := relRepr c ∧ extHeadRepr c

/-- Well-formed candidate: hypotheses of `C16_roundtrip`. -/
def WF (env : Env) (c : Cand) : Prop := WFcore env c ∧ Repr c

instance (t : Str) : Decidable (tokOK t) := by unfold tokOK; infer_instance
instance (f : Str) : Decidable (foundationOK f) := by unfold foundationOK; infer_instance
instance (env : Env) (c : Cand) : Decidable (addrNetOK env c) := by unfold addrNetOK; infer_instance
instance (c : Cand) : Decidable (relatedOK c) := by unfold relatedOK; split <;> infer_instance
instance (env : Env) (c : Cand) : Decidable (WFcore env c) := by unfold WFcore; infer_instance
instance (c : Cand) : Decidable (relRepr c) := by unfold relRepr; split <;> infer_instance
instance (c : Cand) : Decidable (extHeadRepr c) := by unfold extHeadRepr; split <;> infer_instance
instance (c : Cand) : Decidable (Repr c) := by unfold Repr; infer_instance
instance (env : Env) (c : Cand) : Decidable (WF env c) := by unfold WF; infer_instance

/-- What `parse (marshal c)` returns for a well-formed `c`: `c` with the computed foundation and
priority frozen as overrides and the relay preference of an unknown relay protocol. -/
def reparsed (env : Env) (c : Cand) : Cand :=
  { typ := c.typ, net := c.net, address := c.address, port := c.port, component := c.component,
    prioOverride := priority c, foundationOverride := foundation env c, tcpType := c.tcpType,
    related := c.related, exts := c.exts, relayLP := if c.typ = .relay then defaultRelayLP else 0 }

end IceModel.CandText
