import IceModel.UdpMux
/-!
# Sequential model of `UniversalUDPMuxDefault` (udp_mux_universal.go) — core-only, executable.

The universal mux EMBEDS a `UDPMuxDefault` (`base`, the model of `IceModel.UdpMux`) whose shared socket
it wraps: every datagram the socket returns first passes `udpConn.ReadFrom` / `udpAddrPortConn.
ReadFromAddrPort` → `handleSTUNMessage` (operation `tap`) and is then handed, unchanged and ALWAYS, to
the embedded mux's `connWorker` (operation `inbound` of the base model).  The layer adds

* the per-server table `xorMappedMap` (key: canonical server address; entry: mapped address or pending,
  the `waitAddrReceived` channel — here the flag `signalled` —, `expiresAt`);
* `GetXORMappedAddr(server, deadline)` (operation `xorStart`: one call up to the point where it either
  returned or blocks in its `select`; a blocked call is a `Waiter`, released by `tap` (channel closed by
  `SetAddr`), by a later call that finds the entry expired (`closeWaiters`), or by its timer (`tick`));
* `GetConnForURL(ufrag, url, addr)` = `GetConn(ufrag ++ url, addr)`;
* `GetRelayedAddr` = `errNotImplemented` (no state; only in the driver).

`RemoveConnByUfrag`, `Close`, `GetConn` are the embedded mux's (not overridden).

The model is of the code that exists: `tap` looks at NOTHING but "decodable STUN, carries a
XOR-MAPPED-ADDRESS attribute, the canonical source has a table entry" — neither the message class, nor the
transaction id, nor whether the entry is still pending or already expired.
-/
namespace IceModel.UniMux
open IceModel.UdpMux

/-- STUN message class -/
inductive Cls where
  | request | indication | success | error
  deriving DecidableEq, Repr, Inhabited

/-- transaction id of a datagram: that of the latest discovery request the mux wrote to the datagram's
source, or any other -/
inductive TidSel where
  | own | foreign
  deriving DecidableEq, Repr, Inhabited

/-- the XOR-MAPPED-ADDRESS attribute of a datagram -/
inductive XA where
  | absent
  /-- present, `XORMappedAddress.GetFrom` fails -/
  | malformed
  | value (v : Nat)
  deriving DecidableEq, Repr, Inhabited

/-- what the universal layer could look at in a decodable STUN message (it looks at `xa` only) -/
structure XView where
  cls : Cls
  tid : TidSel
  xa : XA
  deriving DecidableEq, Repr, Inhabited

/-- a datagram without the attribute (every kind of the `udpmux` component) -/
def XView.plain : XView := { cls := .request, tid := .foreign, xa := .absent }

/-- `xorMapped` -/
structure XEntry where
  /-- `addr` (`none` = pending) -/
  addr : Option Nat
  /-- `waitAddrReceived` is closed -/
  signalled : Bool
  expiresAt : Nat
  deriving DecidableEq, Repr, Inhabited

/-- how a `GetXORMappedAddr` call returned -/
inductive WRes where
  | ok (v : Nat)
  /-- `errXORMappedAddrTimeout` -/
  | timeout
  /-- `errNoXorAddrMapping` -/
  | noMap
  /-- `errWriteSTUNMessage` -/
  | writeErr
  deriving DecidableEq, Repr, Inhabited

/-- one call of `GetXORMappedAddr` -/
structure Waiter where
  /-- canonical server address (`serverAddrPort`) -/
  srv : Addr
  /-- virtual time at which its timer fires -/
  deadlineAt : Nat
  /-- `none`: blocked in the `select` -/
  res : Option WRes
  deriving Repr, Inhabited

structure UMux where
  base : Mux
  /-- `params.XORMappedAddrCacheTTL` (ms) -/
  ttl : Nat
  /-- virtual clock (ms) -/
  now : Nat
  /-- `xorMappedMap` -/
  xmap : Addr → Option XEntry
  /-- ghost: the keys that ever entered the table, oldest first (an entry is only ever deleted inside a
  call that re-creates it) -/
  started : List Addr
  nwaiters : Nat
  waiter : Nat → Waiter
  /-- ghost: Binding requests written to the socket so far -/
  nreqs : Nat

/-- `NewUniversalUDPMuxDefault`: a TTL of 0 means 25 s -/
def init (ttl : Nat) : UMux :=
  { base := IceModel.UdpMux.init, ttl := if ttl = 0 then 25000 else ttl, now := 0, xmap := fun _ => none,
    started := [], nwaiters := 0,
    waiter := fun _ => { srv := default, deadlineAt := 0, res := none }, nreqs := 0 }

/-- side effects of one operation that the outside can see: the table entry whose mapped address was
written, and the calls that returned -/
structure Fx where
  learned : Option (Addr × Nat) := none
  woke : List (Nat × WRes) := []
  deriving DecidableEq, Repr, Inhabited

inductive UMain where
  /-- output of the embedded mux -/
  | base (o : Out)
  /-- `GetXORMappedAddr` call number `w`; `sent`: a Binding request went to the socket -/
  | started (w : Nat) (sent : Bool)
  | ticked
  deriving DecidableEq, Repr, Inhabited

structure UOut where
  main : UMain
  fx : Fx := {}
  deriving DecidableEq, Repr, Inhabited

inductive UOp where
  /-- an operation of the embedded mux (`GetConn`, write, `RemoveConnByUfrag`, closes, read; an `inbound`
  here is a datagram without the attribute) -/
  | base (op : Op)
  | inbound (src : Addr) (k : Kind) (x : XView) (pid : Nat)
  | getConnForURL (ufrag url : Name) (isIPv6 : Bool)
  | xorStart (srv : Addr) (deadline : Nat)
  | tick (dt : Nat)
  deriving DecidableEq, Repr, Inhabited

def setX (f : Addr → Option XEntry) (a : Addr) (v : Option XEntry) : Addr → Option XEntry :=
  fun k => if k = a then v else f k

/-- the blocked calls on server `a`, in call order -/
def blockedOn (m : UMux) (a : Addr) : List Nat :=
  (List.range m.nwaiters).filter (fun i => (m.waiter i).res.isNone && decide ((m.waiter i).srv = a))

/-- `closeWaiters` as seen by the callers: every call blocked on the entry of `a` returns `r` -/
def wakeAll (m : UMux) (a : Addr) (r : WRes) : (Nat → Waiter) × List (Nat × WRes) :=
  (fun i => if i < m.nwaiters ∧ (m.waiter i).res = none ∧ (m.waiter i).srv = a
            then { m.waiter i with res := some r } else m.waiter i,
   (blockedOn m a).map (fun i => (i, r)))

/-- `stun.IsMessage` and `Decode` succeed -/
def decodable : Kind → Bool
  | .stunUser _ => true
  | .stunNoUser => true
  | _ => false

/-- `udpConn.ReadFrom` → `handleSTUNMessage` → `isXORMappedResponse` / `handleXORMappedResponse`. -/
def tap (m : UMux) (src : Addr) (k : Kind) (x : XView) : UMux × Fx :=
  if !decodable k then (m, {}) else
  let a := canonAddr src
  match x.xa, m.xmap a with
  | .value v, some e =>
    -- `SetAddr`: store, `closeWaiters` (no-op on a closed channel)
    let (ws, woke) := if e.signalled then (m.waiter, []) else wakeAll m a (.ok v)
    ({ m with xmap := setX m.xmap a (some { e with addr := some v, signalled := true }), waiter := ws },
     { learned := some (a, v), woke := woke })
  | _, _ => (m, {})

/-- one datagram: the tap, then the embedded mux's `connWorker` — always. -/
def inbound (m : UMux) (src : Addr) (k : Kind) (x : XView) (pid : Nat) : UMux × UOut :=
  if m.base.closed then (m, { main := .base .dropped }) else
  let (m1, fx) := tap m src k x
  let (b, o) := IceModel.UdpMux.inbound m1.base src k pid
  ({ m1 with base := b }, { main := .base o, fx := fx })

/-- `cachedXORMappedAddr`: table after the lookup, the calls released by an expired entry, and the hit -/
def cached (m : UMux) (a : Addr) : UMux × List (Nat × WRes) × Option Nat :=
  match m.xmap a with
  | none => (m, [], none)
  | some e =>
    if e.expiresAt < m.now then
      let (ws, woke) := if e.signalled then (m.waiter, []) else wakeAll m a .noMap
      ({ m with xmap := setX m.xmap a none, waiter := ws }, woke, none)
    else (m, [], e.addr)

/-- `GetXORMappedAddr(srv, deadline)` up to its return or its `select`. -/
def xorStart (m : UMux) (srv : Addr) (d : Nat) : UMux × UOut :=
  let a := canonAddr srv
  let w := m.nwaiters
  let (m1, woke, hit) := cached m a
  match hit with
  | some v =>
    ({ m1 with nwaiters := w + 1, waiter := upd m1.waiter w { srv := a, deadlineAt := m1.now + d, res := some (.ok v) } },
     { main := .started w false, fx := { woke := woke ++ [(w, .ok v)] } })
  | none =>
    -- `writeSTUN`: create the entry unless there is one, then write the request
    let m2 : UMux :=
      match m1.xmap a with
      | some _ => m1
      | none => { m1 with xmap := setX m1.xmap a (some { addr := none, signalled := false, expiresAt := m1.now + m1.ttl }),
                          started := if a ∈ m1.started then m1.started else m1.started ++ [a] }
    if m2.base.closed then
      -- the shared socket is closed: `errWriteSTUNMessage` (the entry stays)
      ({ m2 with nwaiters := w + 1, waiter := upd m2.waiter w { srv := a, deadlineAt := m2.now + d, res := some .writeErr } },
       { main := .started w false, fx := { woke := woke ++ [(w, .writeErr)] } })
    else if d = 0 then
      -- the timer has fired by the time the call blocks
      ({ m2 with nwaiters := w + 1, nreqs := m2.nreqs + 1,
                 waiter := upd m2.waiter w { srv := a, deadlineAt := m2.now, res := some .timeout } },
       { main := .started w true, fx := { woke := woke ++ [(w, .timeout)] } })
    else
      ({ m2 with nwaiters := w + 1, nreqs := m2.nreqs + 1,
                 waiter := upd m2.waiter w { srv := a, deadlineAt := m2.now + d, res := none } },
       { main := .started w true, fx := { woke := woke } })

/-- virtual time passes: the timers of the blocked calls fire -/
def tick (m : UMux) (dt : Nat) : UMux × UOut :=
  let t := m.now + dt
  let due := (List.range m.nwaiters).filter (fun i => (m.waiter i).res.isNone && decide ((m.waiter i).deadlineAt ≤ t))
  ({ m with now := t
            waiter := fun i => if i < m.nwaiters ∧ (m.waiter i).res = none ∧ (m.waiter i).deadlineAt ≤ t
                               then { m.waiter i with res := some .timeout } else m.waiter i },
   { main := .ticked, fx := { woke := due.map (fun i => (i, .timeout)) } })

def step (m : UMux) : UOp → UMux × UOut
  | .base (.inbound src k pid) => inbound m src k XView.plain pid
  | .base op => let (b, o) := IceModel.UdpMux.step m.base op; ({ m with base := b }, { main := .base o })
  | .inbound src k x pid => inbound m src k x pid
  | .getConnForURL u url v6 =>
    let (b, o) := IceModel.UdpMux.getConn m.base (u ++ url) v6; ({ m with base := b }, { main := .base o })
  | .xorStart srv d => xorStart m srv d
  | .tick dt => tick m dt

def run : UMux → List UOp → UMux × List (UOp × UOut)
  | m, [] => (m, [])
  | m, op :: ops =>
    let (m1, o) := step m op
    let (m2, t) := run m1 ops
    (m2, (op, o) :: t)

/-- the operation of the embedded mux that a universal-mux operation amounts to (none for the
discovery calls and the clock) -/
def proj : UOp → List Op
  | .base op => [op]
  | .inbound src k _ pid => [.inbound src k pid]
  | .getConnForURL u url v6 => [.getConn (u ++ url) v6]
  | .xorStart _ _ => []
  | .tick _ => []

def projAll (ops : List UOp) : List Op := ops.flatMap proj

end IceModel.UniMux
