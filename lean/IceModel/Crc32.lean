/-! CRC-32 (IEEE 802.3, reflected, as Go's `hash/crc32.ChecksumIEEE`) and the candidate foundation
(`candidateBase.Foundation`: decimal CRC-32 of type string ++ address ++ network-type string). -/
namespace IceModel.Crc32

def crcBit (c : UInt32) : UInt32 :=
  if c &&& 1 == 1 then (c >>> 1) ^^^ 0xEDB88320 else c >>> 1

def crcByte (crc : UInt32) (b : UInt8) : UInt32 :=
  crcBit (crcBit (crcBit (crcBit (crcBit (crcBit (crcBit (crcBit (crc ^^^ b.toUInt32))))))))

def crc32 (bs : List UInt8) : UInt32 := (bs.foldl crcByte 0xFFFFFFFF) ^^^ 0xFFFFFFFF

/-- `CandidateType.String()` for the four real types. -/
def typeStr : Nat → String
  | 1 => "host" | 2 => "srflx" | 3 => "prflx" | 4 => "relay" | _ => "Unknown candidate type"

/-- `NetworkType.String()`: 1 udp4, 2 udp6, 3 tcp4, 4 tcp6 (networktype.go iota+1 order). -/
def netStr : Nat → String
  | 1 => "udp4" | 2 => "udp6" | 3 => "tcp4" | 4 => "tcp6" | _ => "<unknown>"

/-- the string whose checksum is the foundation -/
def foundationKey (ty : Nat) (addr : String) (net : Nat) : String := typeStr ty ++ addr ++ netStr net

def foundation (ty : Nat) (addr : String) (net : Nat) : String :=
  toString (crc32 (foundationKey ty addr net).toUTF8.toList).toNat

end IceModel.Crc32
