/-!
# Model of the UDP-mux write-abort protocol (`udp_mux.go`, `writeState`)

Property C13, DESIGN.md Appendix B.4 / D.1.  Core Lean only.

`writeState` (one `atomic.Uint64`) = count (low 62 bits) | deadline bit `D` (bit 62) | blocked bit `B`
(bit 63).  The socket's write deadline is the register `R ∈ {zero, past}` (`rpast`).  Any number of
writer threads (`writeToContext`) and aborter threads (`abortWrite`, called by `candidateBase.abortIO`
through the handle, or by the helper goroutine of a context-aware write) run concurrently; every
transition below is ONE atomic step of ONE thread (or one choice of the environment).

Granularity.  Every loop of the six functions has the shape `load; test; CAS` — one iteration either
takes a decision on the loaded value alone (return / `Gosched`) or performs a CAS.  A failed CAS has
no effect and restarts the loop; a successful CAS proves that the word still had the loaded value,
so the iteration is equivalent to one atomic step taken at the instant of the CAS.  The model
therefore has one transition per loop iteration whose CAS succeeds (or whose load decides), and
failed iterations are stuttering (not represented).  Yields (`runtime.Gosched(); continue`) are
transitions that return the SAME state.  The count is a `Nat` (the code's 62-bit field cannot
overflow with fewer than 2^62 concurrent writers); atomics are sequentially consistent (Go memory
model for `sync/atomic`).

Two write paths, ONE protocol.  A writer thread is a call of `writeToContext` (the `net.Addr` path:
`writeTo`, `udpMuxedConn.WriteTo`) OR of `writeToUDPAddrPort` (the `netip.AddrPort` path taken by
`udpMuxedConn.WriteToAddrPort` when `params.UDPConn` is AddrPort-capable, i.e. a `*net.UDPConn` or any
value implementing `AddrPortReaderWriter`, `addr.go asAddrPortReaderWriter`).  Both are
`startWriteContext; defer finishWrite; <socket write>`; the AddrPort path always runs with
`context.Background()`, so of the environment choices below `startCtxErr`, `writeRet _ notCalled` and the
hidden helper aborter never apply to it; everything else (W0–W4) is literally the same code.  The model
therefore does not distinguish the paths; the harness drives both against the one model.  The socket
write may return `ok`, a deadline error (`timeout`) or any other error (`err`); ALL of them go through
`finishWrite`.

Ghost state (not in the code): `epoch` counts the successful `blocked` CASes (an *epoch* runs from
that CAS to the `Store(0)` of the last writer, or to the clearing after a failed arming); a writer
waiting in `clearWriteDeadlineAfterAbort` remembers the epoch in which it decremented.
-/
namespace IceModel.WriteAbort

/-- bit positions / mask of `udp_mux.go:66-70`, compared with the real constants by the harness -/
def blockedBitPos : Nat := 63
def deadlineBitPos : Nat := 62
def countMask : Nat := 2 ^ 62 - 1

/-- Program counter of a writer (`writeToContext`, or `writeToUDPAddrPort` which has the same shape). -/
inductive WLoc where
  /-- in `startWriteContext` (390-407), not yet counted -/
  | w0
  /-- counted; between the successful CAS(s, s+1) and the return of `UDPConn.WriteTo` (355) / `addrPortConn.WriteToAddrPort` — or the
      early `ctx.Err()` return at 328-330 -/
  | w1
  /-- in `finishWrite` (409-429), before its decrement -/
  | w2
  /-- in `clearWriteDeadlineAfterAbort` (443-465), at the head of the loop; `ep` = ghost epoch of its decrement -/
  | w3 (ep : Nat)
  /-- same function, has loaded blocked ∧ deadline (445-455) and is about to call `SetWriteDeadline(zero)` (457) -/
  | w3c (ep : Nat)
  /-- after `SetWriteDeadline(time.Time{})` (457), before `writeState.Store(0)` (458) -/
  | w4 (ep : Nat)
  /-- returned -/
  | done
  deriving DecidableEq, Repr, Hashable, Inhabited

/-- Program counter of an aborter (`abortWrite`, udp_mux.go:365-388). -/
inductive ALoc where
  /-- before the load/CAS of 367-374 -/
  | a0
  /-- owns the epoch (set `blocked`), before `SetWriteDeadline(time.Now())` (378) -/
  | a1
  /-- in `setWriteDeadlineArmed` (431-441) -/
  | a2
  /-- `SetWriteDeadline(now)` failed: in `clearWriteAbortState` (467-478) -/
  | a3
  /-- returned (`failed` = returned the error of `SetWriteDeadline`) -/
  | done (failed : Bool)
  deriving DecidableEq, Repr, Hashable, Inhabited

/-- How the socket write of a writer ended. -/
inductive WRes where
  /-- `WriteTo` returned nil (the environment let it complete) -/
  | ok
  /-- `WriteTo` returned a timeout: only possible while the socket's write deadline is in the past -/
  | timeout
  /-- `ctx.Err() != nil` at 328: returned without calling `WriteTo` -/
  | notCalled
  /-- the socket write returned an error that has nothing to do with the deadline (unroutable destination,
      `ENETUNREACH`, …): the environment may do that at any time, like `ok` -/
  | err
  deriving DecidableEq, Repr, Hashable, Inhabited

structure State where
  /-- count field of `writeState` -/
  cnt : Nat
  /-- `udpMuxWriteDeadlineBit` -/
  dbit : Bool
  /-- `udpMuxWriteBlockedBit` -/
  bbit : Bool
  /-- write-deadline register of the shared socket: `true` = a time in the past (armed), `false` = zero -/
  rpast : Bool
  /-- ghost: number of epochs begun -/
  epoch : Nat
  /-- writer threads (index = thread id) -/
  wr : List WLoc
  /-- aborter threads -/
  ab : List ALoc
  deriving DecidableEq, Repr, Hashable, Inhabited

def State.init : State :=
  { cnt := 0, dbit := false, bbit := false, rpast := false, epoch := 0, wr := [], ab := [] }

inductive Action where
  /-- a new call of `writeToContext` or of `writeToUDPAddrPort` -/
  | spawnW
  /-- a new call of `abortWrite` -/
  | spawnA
  /-- W0: `ctx.Err() != nil` → return it (392-394) -/
  | startCtxErr (i : Nat)
  /-- W0: load (396); blocked → `Gosched`, retry (397-401, stutter); else CAS(s, s+1) (403) → W1 -/
  | start (i : Nat)
  /-- W1: the socket write ends (355-362, or 328-330 for `notCalled`) → W2 -/
  | writeRet (i : Nat) (r : WRes)
  /-- W2: load (411); count = 0 → return (413-415); blocked ∧ count = 1 → CAS(s, s−1) → W3 (417-422);
      else CAS(s, s−1) → return (425-427) -/
  | finish (i : Nat)
  /-- W3: load (445); ¬blocked → return (446-448); ¬deadline → `Gosched`, retry (449-455, stutter); else → W3c -/
  | clearLoad (i : Nat)
  /-- W3c: `SetWriteDeadline(time.Time{})` (457): R := zero → W4 -/
  | clearSet (i : Nat)
  /-- W4: `writeState.Store(0)` (458) → return -/
  | clearStore (i : Nat)
  /-- A0: load (367); blocked ∨ count = 0 → return nil (368-370); else CAS(s, s|blocked) (372) → A1 -/
  | abortCas (j : Nat)
  /-- A1: `SetWriteDeadline(time.Now())` (378): succeeds (R := past, → A2) or fails (R untouched, → A3) -/
  | abortSet (j : Nat) (ok : Bool)
  /-- A2: load (433); ¬blocked ∨ deadline → return (434-436); else CAS(s, s|deadline) (437) → return nil -/
  | abortArm (j : Nat)
  /-- A3: load (469); clear blocked and deadline by CAS (470-476) → return the error -/
  | abortClear (j : Nat)
  deriving DecidableEq, Repr, Hashable, Inhabited

/-- The transition function: `none` = the action is not enabled in this state. -/
def step (s : State) : Action → Option State
  | .spawnW => some { s with wr := s.wr ++ [.w0] }
  | .spawnA => some { s with ab := s.ab ++ [.a0] }
  | .startCtxErr i =>
    match s.wr[i]? with
    | some .w0 => some { s with wr := s.wr.set i .done }
    | _ => none
  | .start i =>
    match s.wr[i]? with
    | some .w0 =>
      if s.bbit then some s                                    -- 397-401 Gosched; continue
      else some { s with cnt := s.cnt + 1, wr := s.wr.set i .w1 }  -- 403 CAS(state, state+1)
    | _ => none
  | .writeRet i r =>
    match s.wr[i]? with
    | some .w1 =>
      if r = .timeout ∧ s.rpast = false then none              -- a timeout needs an expired deadline
      else some { s with wr := s.wr.set i .w2 }
    | _ => none
  | .finish i =>
    match s.wr[i]? with
    | some .w2 =>
      if s.cnt = 0 then some { s with wr := s.wr.set i .done }                                 -- 413
      else if s.bbit ∧ s.cnt = 1 then some { s with cnt := 0, wr := s.wr.set i (.w3 s.epoch) } -- 417-422
      else some { s with cnt := s.cnt - 1, wr := s.wr.set i .done }                            -- 425-427
    | _ => none
  | .clearLoad i =>
    match s.wr[i]? with
    | some (.w3 ep) =>
      if s.bbit = false then some { s with wr := s.wr.set i .done }   -- 446
      else if s.dbit = false then some s                             -- 449-455 Gosched; continue
      else some { s with wr := s.wr.set i (.w3c ep) }
    | _ => none
  | .clearSet i =>
    match s.wr[i]? with
    | some (.w3c ep) => some { s with rpast := false, wr := s.wr.set i (.w4 ep) }  -- 457
    | _ => none
  | .clearStore i =>
    match s.wr[i]? with
    | some (.w4 _) => some { s with cnt := 0, dbit := false, bbit := false, wr := s.wr.set i .done }  -- 458
    | _ => none
  | .abortCas j =>
    match s.ab[j]? with
    | some .a0 =>
      if s.bbit ∨ s.cnt = 0 then some { s with ab := s.ab.set j (.done false) }   -- 368-370
      else some { s with bbit := true, epoch := s.epoch + 1, ab := s.ab.set j .a1 }  -- 372
    | _ => none
  | .abortSet j ok =>
    match s.ab[j]? with
    | some .a1 =>
      if ok then some { s with rpast := true, ab := s.ab.set j .a2 }   -- 378, err == nil
      else some { s with ab := s.ab.set j .a3 }                        -- 378-379, err != nil
    | _ => none
  | .abortArm j =>
    match s.ab[j]? with
    | some .a2 =>
      if s.bbit = false ∨ s.dbit then some { s with ab := s.ab.set j (.done false) }  -- 434-436
      else some { s with dbit := true, ab := s.ab.set j (.done false) }               -- 437
    | _ => none
  | .abortClear j =>
    match s.ab[j]? with
    | some .a3 => some { s with bbit := false, dbit := false, ab := s.ab.set j (.done true) }  -- 469-476
    | _ => none

/-- `SetWriteDeadline(time.Now())` does not fail in this action. -/
def Action.nonFailing : Action → Bool
  | .abortSet _ false => false
  | _ => true

/-- Run a schedule; `none` as soon as an action is not enabled. -/
def run (s : State) : List Action → Option State
  | [] => some s
  | a :: rest => match step s a with
    | some s' => run s' rest
    | none => none

/-- States reachable by any interleaving, any number of threads, all environment choices. -/
inductive Reachable : State → Prop where
  | init : Reachable State.init
  | step {s s' : State} (a : Action) : Reachable s → step s a = some s' → Reachable s'

/-- States reachable when `SetWriteDeadline(time.Now())` never fails. -/
inductive ReachableNF : State → Prop where
  | init : ReachableNF State.init
  | step {s s' : State} (a : Action) : ReachableNF s → a.nonFailing = true → step s a = some s' → ReachableNF s'

/-! ### Classification of locations (used by invariants, monitors and the driver) -/

/-- counted in `writeState` (between the increment and the decrement) -/
def WLoc.inFlight : WLoc → Bool
  | .w1 | .w2 => true
  | _ => false

/-- inside `clearWriteDeadlineAfterAbort` -/
def WLoc.clearing : WLoc → Bool
  | .w3 _ | .w3c _ | .w4 _ => true
  | _ => false

/-- committed to clearing (has seen blocked ∧ deadline) -/
def WLoc.committed : WLoc → Bool
  | .w3c _ | .w4 _ => true
  | _ => false

def WLoc.isW4 : WLoc → Bool
  | .w4 _ => true
  | _ => false

def WLoc.isDone : WLoc → Bool
  | .done => true
  | _ => false

/-- waiting/clearing on behalf of an epoch other than `e` -/
def WLoc.staleAt (e : Nat) : WLoc → Bool
  | .w3 ep | .w3c ep | .w4 ep => ep != e
  | _ => false

/-- between the `blocked` CAS and the end of `setWriteDeadlineArmed` / `clearWriteAbortState` -/
def ALoc.active : ALoc → Bool
  | .a1 | .a2 | .a3 => true
  | _ => false

def ALoc.isA2 : ALoc → Bool
  | .a2 => true
  | _ => false

def ALoc.isA3 : ALoc → Bool
  | .a3 => true
  | _ => false

def ALoc.isDone : ALoc → Bool
  | .done _ => true
  | _ => false

def State.nFlight (s : State) : Nat := s.wr.countP WLoc.inFlight
def State.nClearing (s : State) : Nat := s.wr.countP WLoc.clearing
def State.nCommitted (s : State) : Nat := s.wr.countP WLoc.committed
def State.nW4 (s : State) : Nat := s.wr.countP WLoc.isW4
def State.nStale (s : State) : Nat := s.wr.countP (WLoc.staleAt s.epoch)
def State.nActive (s : State) : Nat := s.ab.countP ALoc.active
def State.nA2 (s : State) : Nat := s.ab.countP ALoc.isA2
def State.nA3 (s : State) : Nat := s.ab.countP ALoc.isA3

/-- No writer in flight (counted or clearing) and no abort between its CAS and its last step. -/
def State.quiescent (s : State) : Bool :=
  s.nFlight == 0 && s.nClearing == 0 && s.nActive == 0

/-- Every thread has returned. -/
def State.allDone (s : State) : Bool := s.wr.all WLoc.isDone && s.ab.all ALoc.isDone

/-- The value of the `writeState` word. -/
def State.word (s : State) : Nat :=
  s.cnt + (if s.dbit then 2 ^ deadlineBitPos else 0) + (if s.bbit then 2 ^ blockedBitPos else 0)

/-- A thread that has not returned exists. -/
def State.live (s : State) : Bool := !s.allDone

/-- Actions that are steps of the program itself or forced by the socket's semantics (a write on a
socket whose deadline is in the past returns) — NOT choices of the environment (new calls, context
cancellation, the socket letting a write complete, `SetWriteDeadline` failing). -/
def Action.forced : Action → Bool
  | .spawnW | .spawnA | .startCtxErr _ => false
  | .writeRet _ .ok | .writeRet _ .notCalled | .writeRet _ .err => false
  | .abortSet _ false => false
  | _ => true

/-- A probe write issued when nothing else runs, on a socket that does not block it: it times out iff
the socket's write deadline is (still) in the past.  `none` = the probe could not run straight through
(it would spin in `startWriteContext`). Result: how the socket write ended, and the state afterwards. -/
def probe (s : State) : Option (WRes × State) :=
  let i := s.wr.length
  let r := if s.rpast then WRes.timeout else WRes.ok
  match run s [.spawnW, .start i, .writeRet i r, .finish i] with
  | some s' => if s'.wr[i]? = some .done then some (r, s') else none
  | none => none

/-- The schedule of finding F11 (DESIGN.md §7), replayed on the real mux by the harness
(`writeabort` deterministic schedule `f11`): writers X = 0, Y = 1, Z = 2; aborts 0, 1, 2. -/
def f11Schedule : List Action :=
  [ .spawnW, .start 0,                       -- X enters and blocks inside the socket write
    .spawnA, .abortCas 0,                    -- abort 1 sets `blocked` (epoch 1)
    .writeRet 0 .ok, .finish 0,              -- X's write completes; X is the last writer: waits in clearAfter
    .abortSet 0 false, .abortClear 0,        -- abort 1: SetWriteDeadline(now) FAILS, bits cleared; X has not run
    .spawnW, .start 1,                       -- Y enters
    .spawnA, .abortCas 1, .abortSet 1 true, .abortArm 1,  -- abort 2 arms the deadline (epoch 2)
    .writeRet 1 .timeout, .finish 1,         -- Y is interrupted, last writer of epoch 2
    .clearLoad 1, .clearSet 1,               -- Y: SetWriteDeadline(zero) … (slow call, Store(0) still to come)
    .clearLoad 0, .clearSet 0, .clearStore 0, -- X, a waiter of epoch 1, sees blocked+deadline: clears, Store(0)
    .spawnW, .start 2,                       -- Z enters (blocked bit is gone)
    .spawnA, .abortCas 2, .abortSet 2 true, .abortArm 2,  -- abort 3 arms the deadline again (epoch 3)
    .clearStore 1,                           -- Y's Store(0) wipes epoch 3's bits and Z's count
    .writeRet 2 .timeout, .finish 2 ]        -- Z is interrupted; count = 0 → returns; nobody clears the deadline

end IceModel.WriteAbort
