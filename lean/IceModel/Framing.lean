/-!
# Model of the ICE-TCP framing (RFC 4571) of pion/ice: `tcp_mux.go`
`writeStreamingPacket` / `readStreamingPacket`

The model is of the code that exists (pinned tree):

```go
func readStreamingPacket(conn net.Conn, buf []byte) (int, error) {
	header := make([]byte, 2)
	for bytesRead < 2 {                                   -- `fill … 2`
		if n, err = conn.Read(header[bytesRead:2]); err != nil { return 0, err }
		bytesRead += n
	}
	length := int(binary.BigEndian.Uint16(header))        -- `decodeLen`
	if length > cap(buf) { return length, io.ErrShortBuffer }
	bytesRead = 0
	for bytesRead < length {                              -- `fill … length`
		if n, err = conn.Read(buf[bytesRead:length]); err != nil { return 0, err }
		bytesRead += n
	}
	return bytesRead, nil
}
func writeStreamingPacket(conn net.Conn, buf []byte) (int, error) {
	bufCopy := make([]byte, 2+len(buf))
	if len(buf) > 0xFFFF { return 0, io.ErrShortBuffer }    -- fix of finding F4
	binary.BigEndian.PutUint16(bufCopy, uint16(len(buf)))
	copy(bufCopy[2:], buf)
	n, err := conn.Write(bufCopy)                            -- ONE write
	if err != nil { return 0, err }
	return n - 2, nil
}
```

A connection is a list of *segments*: one `Read(p)` returns `min(len p, |head segment|)` bytes of
the head segment (the remainder of the segment stays at the head); an EMPTY segment is a `Read`
that returns `(0, nil)` (legal for `io.Reader`; the loops simply read again); after the last
segment every `Read` fails with the connection's terminal error.  The terminal error is reported
by the code exactly as the connection gave it (`io.EOF` also in the middle of a frame — the code
never produces `io.ErrUnexpectedEOF`).  Every `Read` is recorded in a ghost log `(want, got)`.
-/
namespace IceModel.Framing

/-- Terminal error of a connection, as far as the users of the framing distinguish errors. -/
inductive IoErr where
  | eof      -- io.EOF
  | closed   -- net.ErrClosed
  | other    -- anything else (reset, timeout, …)
  deriving DecidableEq, Repr, Inhabited

/-- Result of ONE call of `readStreamingPacket`. -/
inductive Res where
  /-- `(len data, nil)`, the bytes are in `buf[:n]` -/
  | pkt (data : List UInt8)
  /-- `(length, io.ErrShortBuffer)`: the frame's declared length exceeds `cap(buf)` -/
  | shortBuffer (len : Nat)
  /-- `(0, err)`: a `Read` failed; the error is the connection's -/
  | err (e : IoErr)
  deriving DecidableEq, Repr, Inhabited

def Res.isPkt : Res → Bool
  | .pkt _ => true
  | _ => false

abbrev Segs := List (List UInt8)

/-- one recorded `conn.Read(p)`: `(len p, n returned)`; a failing `Read` is recorded as `(len p, 0)` -/
abbrev ReadLog := List (Nat × Nat)

/-- The short-read loop `for bytesRead < total { n, err = conn.Read(b[bytesRead:total]) … }`,
`need = total - bytesRead`.  Result: the bytes obtained in order (`none` = a `Read` failed; what had
been read of this header/body is dropped by the code), the connection afterwards, the reads made. -/
def fill : Segs → Nat → Option (List UInt8) × Segs × ReadLog
  | segs, 0 => (some [], segs, [])
  | [], need + 1 => (none, [], [(need + 1, 0)])
  | seg :: rest, need + 1 =>
    if seg.length ≤ need + 1 then
      let r := fill rest (need + 1 - seg.length)
      (r.1.map (seg ++ ·), r.2.1, (need + 1, seg.length) :: r.2.2)
    else
      (some (seg.take (need + 1)), seg.drop (need + 1) :: rest, [(need + 1, need + 1)])

/-- `int(binary.BigEndian.Uint16(header))` for the two bytes the header loop collected. -/
def decodeLen (h : List UInt8) : Nat := (h.getD 0 0).toNat * 256 + (h.getD 1 0).toNat

/-- One call `readStreamingPacket(conn, buf)` with `cap(buf) = cap`; `e` is the terminal error of
the connection. -/
def readPacket (cap : Nat) (e : IoErr) (segs : Segs) : Res × Segs × ReadLog :=
  match fill segs 2 with
  | (none, s1, l1) => (.err e, s1, l1)
  | (some h, s1, l1) =>
    let length := decodeLen h
    if length > cap then (.shortBuffer length, s1, l1)
    else
      match fill s1 length with
      | (none, s2, l2) => (.err e, s2, l1 ++ l2)
      | (some b, s2, l2) => (.pkt b, s2, l1 ++ l2)

/-- The users' loop (`tcpPacketConn.startReading`, the reader goroutine of `activeTCPConn`):
call `readStreamingPacket` until it returns an error.  `fuel` bounds the number of calls. -/
def readAllN (cap : Nat) (e : IoErr) : Nat → Segs → List Res × ReadLog
  | 0, _ => ([], [])
  | fuel + 1, segs =>
    match readPacket cap e segs with
    | (.pkt b, s', l) =>
      let r := readAllN cap e fuel s'
      (.pkt b :: r.1, l ++ r.2)
    | (r, _, l) => ([r], l)

/-- Every successful call consumes at least the two header bytes, so `|stream| + 1` calls suffice
(proved: `IceProofs.Framing.readAll_eq_parse`, via fuel-independence of the spec parser). -/
def readAll (cap : Nat) (e : IoErr) (segs : Segs) : List Res × ReadLog :=
  readAllN cap e (segs.flatten.length + 1) segs

/-! ## Writer -/

/-- `binary.BigEndian.PutUint16(b, uint16(n))`: the conversion truncates to 16 bits. -/
def header (n : Nat) : List UInt8 :=
  let v := n % 65536
  [UInt8.ofNat (v / 256), UInt8.ofNat (v % 256)]

/-- the bytes of `bufCopy` -/
def encode (p : List UInt8) : List UInt8 := header p.length ++ p

inductive WErr where
  /-- the error `conn.Write` returned -/
  | io
  /-- the packet does not fit the 16-bit length field: rejected, nothing written -/
  | tooLong
  deriving DecidableEq, Repr, Inhabited

structure WriteOut where
  /-- first result of `writeStreamingPacket` -/
  n : Nat
  err : Option WErr
  /-- the argument of every `conn.Write` call made, in order -/
  wire : List (List UInt8)
  deriving DecidableEq, Repr, Inhabited

/-- `writeStreamingPacket(conn, p)`; `connFails` = `conn.Write` returns an error (otherwise it
accepts the whole buffer, as `net.Conn` must).  A packet longer than 65535 bytes is rejected before
anything is written (fix of finding F4). -/
def write (connFails : Bool) (p : List UInt8) : WriteOut :=
  if p.length > 65535 then { n := 0, err := some .tooLong, wire := [] }
  else if connFails then { n := 0, err := some .io, wire := [encode p] }
  else { n := (encode p).length - 2, err := none, wire := [encode p] }

/-- RFC 4571 stream of a packet list: each packet behind its 2-byte length.  For packets that fit the
length field this is what `write` puts on a healthy connection, call after call
(`IceProps.C14.C14_wire_is_written`). -/
def wire (pkts : List (List UInt8)) : List UInt8 := (pkts.map encode).flatten

/-- `tcpPacketConn.ReadFrom` (`readFromContext`) handing a queued packet `p` to a caller buffer of LENGTH `blen`:
the whole packet, or nothing (`io.ErrShortBuffer`) when it does not fit — never a part of it.  (/repo after the fix of
F35: the test was on the buffer's CAPACITY, the copy on its length.) -/
def packetConnRead (blen : Nat) (p : List UInt8) : Option (List UInt8) :=
  if blen < p.length then none else some p

end IceModel.Framing
