/-!
# Prio — candidate and pair priorities (model of candidate_base.go / candidatetype.go /
candidate_relay.go / candidatepair.go)

Hand-written reference model over `Nat`, with the code's integer widths made explicit
(`% 2^16`, `% 2^32`) exactly where the Go code can wrap.  `IceTie/Prio.lean` proves the
definitions regenerated from the Go source (`IceGen.T_Prio`) equal to these for ALL arguments.
-/
namespace IceModel.Prio

/-- Candidate type codes as in `candidatetype.go` (iota order). -/
inductive CandType where
  | unspecified | host | srflx | prflx | relay
  deriving DecidableEq, Repr, Inhabited

def CandType.code : CandType → Nat
  | .unspecified => 0 | .host => 1 | .srflx => 2 | .prflx => 3 | .relay => 4

def CandType.ofCode : Nat → CandType
  | 1 => .host | 2 => .srflx | 3 => .prflx | 4 => .relay | _ => .unspecified

/-- TCP types as in `tcptype.go` (iota order). -/
inductive TcpType where
  | unspecified | active | passive | so
  deriving DecidableEq, Repr, Inhabited

def TcpType.code : TcpType → Nat
  | .unspecified => 0 | .active => 1 | .passive => 2 | .so => 3

def TcpType.ofCode : Nat → TcpType
  | 1 => .active | 2 => .passive | 3 => .so | _ => .unspecified

/-- RFC 8445 §5.1.2.2 recommended type preferences. -/
def basePref : CandType → Nat
  | .host => 126 | .prflx => 110 | .srflx => 100 | .relay => 0 | .unspecified => 0

def defaultTCPPriorityOffset : Nat := 27

/-- `candidateBase.TypePreference`. `offset` is the agent's configured TCP priority offset
(27 when the candidate has no agent); an offset above the preference yields 0. -/
def typePreference (ty : CandType) (isTCP : Bool) (offset : Nat) : Nat :=
  if basePref ty = 0 then 0
  else if isTCP then (if offset > basePref ty then 0 else basePref ty - offset)
  else basePref ty

/-- RFC 6544 §4.2 direction preference. -/
def directionPref (ty : CandType) (tt : TcpType) : Nat :=
  match ty, tt with
  | .host, .active | .relay, .active => 6
  | .host, .passive | .relay, .passive => 4
  | .host, .so | .relay, .so => 2
  | .prflx, .so | .srflx, .so => 6
  | .prflx, .active | .srflx, .active => 4
  | .prflx, .passive | .srflx, .passive => 2
  | _, _ => 0

/-- relay protocol preference (`candidate_relay.go`). -/
def relayPref (proto : String) : Nat :=
  if proto = "tls" then 0 else if proto = "tcp" then 1 else if proto = "dtls" then 2 else 3

/-- `candidateBase.LocalPreference`. -/
def localPreference (ty : CandType) (isTCP : Bool) (tt : TcpType) (relayLP : Nat) : Nat :=
  if ty = .relay then relayLP
  else if isTCP then 8192 * directionPref ty tt + 8191
  else 65535

/-- `candidateBase.Priority` (no override): uint32 arithmetic, `256 - component` in uint16. -/
def priority (tp lp component : Nat) : Nat :=
  (16777216 * tp + 256 * lp + (256 + 65536 - component % 65536) % 65536) % 4294967296

/-- `CandidatePair.priority` (no override), uint64 arithmetic.
`g` is the controlling agent's candidate priority, `d` the controlled agent's. -/
def pairPriorityGD (g d : Nat) : Nat :=
  (4294967295 * min g d + 2 * max g d + (if g > d then 1 else 0)) % 18446744073709551616

def pairPriority (controlling : Bool) (localPrio remotePrio : Nat) : Nat :=
  if controlling then pairPriorityGD localPrio remotePrio else pairPriorityGD remotePrio localPrio

end IceModel.Prio
