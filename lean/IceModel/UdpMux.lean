/-!
# Sequential model of `UDPMuxDefault` / `udpMuxedConn` / `sharedPacketConn` (udp_mux.go,
udp_muxed_conn.go, shared_packet_conn.go, addr.go, udp_mux_multi.go) — core-only, executable.

The model is of the code that exists on the tree with the F9 fix (identity-based removal in the
close watcher, `removeClosedConn`; `RemoveConnByUfrag` closes the connections it removes) and the F18
fix (address list and address map updated together in `registerConnForAddress`, closed guard, takeover
skips the connection itself, `RemoveConnByUfrag` deletes only bindings still owned).  One operation of the model = one public call (or one run of an
asynchronous goroutine: the per-connection close watcher is the explicit operation `watcherRun`, one
datagram processed by `connWorker` is the operation `inbound`).

Strings (ufrag, STUN USERNAME, IPv6 zone) are lists of code points (`Name`), so that equality is
decidable by plain kernel reduction.
-/
namespace IceModel.UdpMux

abbrev Name := List Nat

/-! ## Addresses: `net.UDPAddr` / `netip.Addr` and `canonicalAddrPort` (addr.go) -/

/-- An IP as it arrives in a `*net.UDPAddr`: a 4-byte form (`is4`, the address in the low 32 bits of
`lo`) or a 16-byte form (`hi`, `lo` = upper / lower 64 bits) and the zone string. -/
structure IP where
  is4 : Bool
  hi : Nat
  lo : Nat
  zone : Name
  deriving DecidableEq, Repr, Inhabited

structure Addr where
  ip : IP
  port : Nat
  deriving DecidableEq, Repr, Inhabited

def two32 : Nat := 4294967296
def two48 : Nat := 281474976710656

/-- `net.UDPAddr.AddrPort()`: `netip.AddrFromSlice` + `WithZone`; a 4-byte address carries no zone. -/
def ofUDPAddr (ip : IP) : IP :=
  if ip.is4 then { is4 := true, hi := 0, lo := ip.lo % two32, zone := [] } else ip

/-- `netip.Addr.Is4In6`: `::ffff:a.b.c.d`. -/
def is4in6 (ip : IP) : Bool := !ip.is4 && ip.hi == 0 && ip.lo / two32 == 65535

/-- `netip.Addr.Unmap` (drops the zone together with the `::ffff:` prefix). -/
def unmap (ip : IP) : IP :=
  if is4in6 ip then { is4 := true, hi := 0, lo := ip.lo % two32, zone := [] } else ip

/-- first 16 bits `fe80::/10` (link-local unicast) or `ffx2::/16` (link-local multicast). -/
def llBits (hi : Nat) : Bool :=
  (hi / two48) &&& 0xffc0 == 0xfe80 || (hi / two48) &&& 0xff0f == 0xff02

/-- `isIPv6LinkLocal` (addr.go). -/
def isLinkLocal6 (ip : IP) : Bool := !ip.is4 && llBits ip.hi

/-- `netip.Addr.WithZone` (no-op on IPv4). -/
def withZone (ip : IP) (z : Name) : IP := if ip.is4 then ip else { ip with zone := z }

/-- `canonicalAddr` (addr.go): unmap; keep the zone only on link-local IPv6. -/
def canonIP (ip : IP) : IP :=
  let a := unmap (ofUDPAddr ip)
  if isLinkLocal6 a then a else withZone a []

/-- `canonicalAddrPort`. -/
def canonAddr (a : Addr) : Addr := { ip := canonIP a.ip, port := a.port }

/-- `udpAddr.IP.To4() == nil` (GetConn's family test on the LOCAL address argument). -/
def localIsV6 (ip : IP) : Bool := !(ip.is4 || is4in6 ip)

/-- What `net.UDPAddr.String()` depends on: a 16-byte `::ffff:a.b.c.d` prints like the 4-byte form; the
zone is printed for every form.  `MultiUDPMuxDefault` and `GetConn` compare local addresses by this. -/
structure LocalKey where
  v4 : Bool
  hi : Nat
  lo : Nat
  zone : Name
  port : Nat
  deriving DecidableEq, Repr

def localKey (a : Addr) : LocalKey :=
  if a.ip.is4 || is4in6 a.ip then { v4 := true, hi := 0, lo := a.ip.lo % two32, zone := a.ip.zone, port := a.port }
  else { v4 := false, hi := a.ip.hi, lo := a.ip.lo, zone := a.ip.zone, port := a.port }

/-! ## Datagrams -/

/-- What `connWorker` can tell about a payload once the source is not in the address map. -/
inductive Kind where
  /-- `stun.IsMessage`, decodes, has USERNAME -/
  | stunUser (username : Name)
  /-- `stun.IsMessage`, decodes, no USERNAME -/
  | stunNoUser
  /-- `stun.IsMessage` (magic cookie) but `Decode` fails -/
  | stunBad
  /-- not `stun.IsMessage` -/
  | nonStun
  deriving DecidableEq, Repr, Inhabited

/-- `strings.Split(username, ":")[0]`. -/
def beforeColon (n : Name) : Name := n.takeWhile (fun c => c != 58)

/-- A queued packet: payload identity and the source address exactly as it arrived. -/
structure Pkt where
  pid : Nat
  src : Addr
  deriving DecidableEq, Repr, Inhabited

/-! ## State -/

/-- `udpMuxedConn`. -/
structure Conn where
  /-- `params.Key` (the ufrag it was created under) -/
  key : Name
  /-- ghost (never read by `step`): the family map it was created in -/
  v6 : Bool
  /-- `addresses` -/
  addrs : List Addr
  /-- packet FIFO, oldest first -/
  fifo : List Pkt
  closed : Bool
  /-- `refs` -/
  refs : Int
  /-- the close-watcher goroutine has run (and ended) -/
  watched : Bool
  deriving Repr, Inhabited

/-- Go map ufrag → connection, as an association list without duplicate keys. -/
abbrev AMap := List (Name × Nat)

def AMap.get? : AMap → Name → Option Nat
  | [], _ => none
  | (k, v) :: m, x => if k = x then some v else AMap.get? m x

def AMap.del (m : AMap) (x : Name) : AMap := m.filter (fun e => decide (e.1 ≠ x))
def AMap.set (m : AMap) (x : Name) (v : Nat) : AMap := (x, v) :: AMap.del m x
def AMap.vals (m : AMap) : List Nat := m.map Prod.snd

def upd {α : Type} (f : Nat → α) (i : Nat) (v : α) : Nat → α := fun j => if j = i then v else f j

structure Mux where
  nconns : Nat
  conn : Nat → Conn
  nhandles : Nat
  /-- `sharedPacketConn.underlying` -/
  hconn : Nat → Nat
  /-- `sharedPacketConn` context cancelled -/
  hclosed : Nat → Bool
  conns4 : AMap
  conns6 : AMap
  addrMap : Addr → Option Nat
  closed : Bool

def emptyConn : Conn := { key := [], v6 := false, addrs := [], fifo := [], closed := false, refs := 0, watched := false }

def init : Mux :=
  { nconns := 0, conn := fun _ => emptyConn, nhandles := 0, hconn := fun _ => 0, hclosed := fun _ => false,
    conns4 := [], conns6 := [], addrMap := fun _ => none, closed := false }

inductive Out where
  /-- `GetConn` returned handle `h` on connection `c` -/
  | conn (h c : Nat)
  /-- `io.ErrClosedPipe` (closed mux / handle / connection) -/
  | errClosed
  /-- `errInvalidAddress` / `errNoUDPMuxAvailable` (wrappers) -/
  | errAddr
  | wrote
  /-- the write reached the closed shared socket -/
  | errSock
  | delivered (c : Nat)
  | dropped
  | done
  | pkt (pid : Nat) (src : Addr)
  /-- `ReadFrom` would block -/
  | empty
  | eof
  /-- unknown handle / connection id in the operation -/
  | bad
  deriving DecidableEq, Repr, Inhabited

inductive Op where
  | getConn (ufrag : Name) (isIPv6 : Bool)
  | writeTo (h : Nat) (dst : Addr)
  | inbound (src : Addr) (kind : Kind) (pid : Nat)
  | removeByUfrag (ufrag : Name)
  | closeHandle (h : Nat)
  | watcherRun (c : Nat)
  | closeMux
  | read (h : Nat)
  deriving DecidableEq, Repr, Inhabited

/-! ## Operations -/

def famMap (m : Mux) (v6 : Bool) : AMap := if v6 then m.conns6 else m.conns4

/-- `newSharedPacketConn`: `refs.Add(1)`, a fresh open handle. -/
def addHandle (m : Mux) (c : Nat) : Mux :=
  { m with
    nhandles := m.nhandles + 1
    hconn := upd m.hconn m.nhandles c
    hclosed := upd m.hclosed m.nhandles false
    conn := upd m.conn c { m.conn c with refs := (m.conn c).refs + 1 } }

/-- `UDPMuxDefault.GetConn` after the address test (`isIPv6` already computed). -/
def getConn (m : Mux) (u : Name) (v6 : Bool) : Mux × Out :=
  if m.closed then (m, .errClosed) else
  match (famMap m v6).get? u with
  | some c => (addHandle m c, .conn m.nhandles c)
  | none =>
    let c := m.nconns
    let m1 : Mux :=
      { m with
        nconns := m.nconns + 1
        conn := upd m.conn c { emptyConn with key := u, v6 := v6 }
        conns4 := if v6 then m.conns4 else m.conns4.set u c
        conns6 := if v6 then m.conns6.set u c else m.conns6 }
    (addHandle m1 c, .conn m.nhandles c)

/-- `udpMuxedConn.removeAddress`. -/
def removeAddress (k : Conn) (a : Addr) : Conn := { k with addrs := k.addrs.filter (fun x => decide (x ≠ a)) }

/-- `udpMuxedConn.appendAddress`: append unless already there. -/
def appendAddress (k : Conn) (a : Addr) : Conn := if a ∈ k.addrs then k else { k with addrs := k.addrs ++ [a] }

/-- `UDPMuxDefault.registerConnForAddress` (F18 fix): nothing on a closed mux or for a closed connection;
the previous owner — unless it is the connection itself — forgets the address; the address enters the
connection's list TOGETHER with the map update (both under `addressMapMu`). -/
def registerConnForAddress (m : Mux) (c : Nat) (a : Addr) : Mux :=
  if m.closed then m else
  if (m.conn c).closed then m else
  let m1 : Mux :=
    match m.addrMap a with
    | some e => if e = c then m else { m with conn := upd m.conn e (removeAddress (m.conn e) a) }
    | none => m
  { m1 with conn := upd m1.conn c (appendAddress (m1.conn c) a)
            addrMap := fun k => if k = a then some c else m1.addrMap k }

/-- `udpMuxedConn.addAddress`: map it on the mux. -/
def addAddress (m : Mux) (c : Nat) (a : Addr) : Mux := registerConnForAddress m c a

/-- `sharedPacketConn.WriteTo` → `udpMuxedConn.WriteTo` → `UDPMuxDefault.writeTo`. -/
def writeTo (m : Mux) (h : Nat) (dst : Addr) : Mux × Out :=
  if h ≥ m.nhandles then (m, .bad) else
  if m.hclosed h then (m, .errClosed) else
  let c := m.hconn h
  if (m.conn c).closed then (m, .errClosed) else
  let a := canonAddr dst
  let m1 := if a ∈ (m.conn c).addrs then m else addAddress m c a
  (m1, if m.closed then .errSock else .wrote)

/-- ufrag lookup of `connWorker` for a source that is not in the address map. -/
def lookupUfrag (m : Mux) (a : Addr) : Kind → Option Nat
  | .stunUser n => (famMap m (!a.ip.is4)).get? (beforeColon n)
  | _ => none

/-- one iteration of `connWorker` (a closed mux no longer reads). -/
def inbound (m : Mux) (src : Addr) (k : Kind) (pid : Nat) : Mux × Out :=
  if m.closed then (m, .dropped) else
  let a := canonAddr src
  let dest := match m.addrMap a with
    | some c => some c
    | none => lookupUfrag m a k
  match dest with
  | none => (m, .dropped)
  | some c =>
    if (m.conn c).closed then (m, .dropped)
    else ({ m with conn := upd m.conn c { m.conn c with fifo := (m.conn c).fifo ++ [{ pid := pid, src := src }] } },
          .delivered c)

def addrsOf (m : Mux) : Option Nat → List Addr
  | some c => (m.conn c).addrs
  | none => []

/-- delete the bindings of the addresses in `l` that connection `r` still owns -/
def delOwned (m : Mux) (r : Option Nat) (l : List Addr) : Mux :=
  { m with addrMap := fun k => if k ∈ l ∧ m.addrMap k = r ∧ r.isSome then none else m.addrMap k }

/-- `udpMuxedConn.Close`. -/
def closeC (k : Conn) : Conn := if k.closed then k else { k with fifo := [], closed := true }

def closeOpt (m : Mux) : Option Nat → Mux
  | some c => { m with conn := upd m.conn c (closeC (m.conn c)) }
  | none => m

/-- `UDPMuxDefault.RemoveConnByUfrag` (F9 fix: the removed connections are closed as well; F18 fix: only
bindings the removed connection still owns are deleted). -/
def removeByUfrag (m : Mux) (u : Name) : Mux :=
  let r4 := m.conns4.get? u
  let r6 := m.conns6.get? u
  let m1 : Mux := { m with conns4 := m.conns4.del u, conns6 := m.conns6.del u }
  closeOpt (closeOpt (delOwned (delOwned m1 r4 (addrsOf m r4)) r6 (addrsOf m r6)) r4) r6

/-- `sharedPacketConn.Close`. -/
def closeHandle (m : Mux) (h : Nat) : Mux × Out :=
  if h ≥ m.nhandles then (m, .bad) else
  if m.hclosed h then (m, .done) else
  let c := m.hconn h
  let k : Conn := { m.conn c with refs := (m.conn c).refs - 1 }
  let k' : Conn := if k.refs ≤ 0 then closeC k else k
  ({ m with hclosed := upd m.hclosed h true, conn := upd m.conn c k' }, .done)

/-- the goroutine started by `GetConn`: `<-CloseChannel(); removeClosedConn(ufrag, conn)` (F9 patch:
identity-based). Runs once, only after the connection is closed. -/
def watcherRun (m : Mux) (c : Nat) : Mux × Out :=
  if c ≥ m.nconns then (m, .bad) else
  let k := m.conn c
  if !k.closed || k.watched then (m, .done) else
  ({ m with
     conn := upd m.conn c { k with watched := true }
     conns4 := if m.conns4.get? k.key = some c then m.conns4.del k.key else m.conns4
     conns6 := if m.conns6.get? k.key = some c then m.conns6.del k.key else m.conns6
     addrMap := fun a => if a ∈ k.addrs ∧ m.addrMap a = some c then none else m.addrMap a }, .done)

/-- `UDPMuxDefault.Close` (`closeOnce`). -/
def closeMux (m : Mux) : Mux :=
  if m.closed then m else
  let ids := m.conns4.vals ++ m.conns6.vals
  { m with
    conn := fun i => if i ∈ ids then closeC (m.conn i) else m.conn i
    conns4 := [], conns6 := [], closed := true }

/-- `sharedPacketConn.ReadFrom` → `udpMuxedConn.readPacket`, without blocking. -/
def read (m : Mux) (h : Nat) : Mux × Out :=
  if h ≥ m.nhandles then (m, .bad) else
  if m.hclosed h then (m, .errClosed) else
  let c := m.hconn h
  match (m.conn c).fifo with
  | p :: rest => ({ m with conn := upd m.conn c { m.conn c with fifo := rest } }, .pkt p.pid p.src)
  | [] => (m, if (m.conn c).closed then .eof else .empty)

def step (m : Mux) : Op → Mux × Out
  | .getConn u v6 => getConn m u v6
  | .writeTo h dst => writeTo m h dst
  | .inbound src k pid => inbound m src k pid
  | .removeByUfrag u => (removeByUfrag m u, .done)
  | .closeHandle h => closeHandle m h
  | .watcherRun c => watcherRun m c
  | .closeMux => (closeMux m, .done)
  | .read h => read m h

/-- Run a list of operations; the trace pairs every operation with its output. -/
def run : Mux → List Op → Mux × List (Op × Out)
  | m, [] => (m, [])
  | m, op :: ops =>
    let (m1, o) := step m op
    let (m2, t) := run m1 ops
    (m2, (op, o) :: t)

/-! ## Wrappers: the address test of `GetConn` and `MultiUDPMuxDefault` -/

/-- per-socket configuration: local address of the shared socket, and whether it is unspecified. -/
structure Sock where
  localAddr : Addr
  unspecified : Bool
  deriving Repr

/-- `UDPMuxDefault.GetConn(ufrag, addr)`. -/
def getConnAt (s : Sock) (m : Mux) (u : Name) (addr : Addr) : Mux × Out :=
  if !s.unspecified && localKey s.localAddr != localKey addr then (m, .errAddr)
  else getConn m u (localIsV6 addr.ip)

/-- `MultiUDPMuxDefault.localAddrToMux[addr.String()]`: the LAST mux listening on that string. -/
def multiFind : List Sock → Addr → Nat → Option Nat → Option Nat
  | [], _, _, acc => acc
  | s :: rest, a, i, acc => multiFind rest a (i + 1) (if localKey s.localAddr = localKey a then some i else acc)

end IceModel.UdpMux
