/-!
# Rewrite — address rewrite rules (model of external_ip_mapper.go, the legacy NAT 1:1 entry
validation of agent.go and the four places of gather.go that apply a lookup result)

The model is of the code that EXISTS at the pinned commit, quirks included:

* `catchAllSpecificity` gives a CIDR-only catch-all rank 1 only when the LOOKUP carries no interface
  name; with an interface name it ranks 0, like a global catch-all (finding F3);
* a catch-all whose externals are ALL dropped by its `Networks` filter is turned into an *empty*
  catch-all for every allowed family by `maybeMarkEmptyMapping` (finding F15, "starved" rule);
* a rule whose `Networks` list names no IPv4 and no IPv6 network type is skipped before its CIDR,
  Local and External strings are validated (observation O1);
* srflx "append" returns the mapped addresses only (the STUN-derived srflx candidate is the original).

Addresses are abstract: `(family, value)` with the value a `Nat` (32 or 128 bit); the harness
renders them as real IP literals for the Go side and parses results back.  CIDR containment is real
prefix arithmetic on these numbers.  IPv4-mapped IPv6 values are canonicalised to IPv4 exactly as
`validateIPString` / `net.IP.String` / `IPNet.Contains` do (`IP.canon`, applied where text is parsed).
Core Lean only.
-/
namespace IceModel.Rewrite

/-- An IP address: family and numeric value (big endian). -/
structure IP where
  v4 : Bool
  val : Nat
  deriving DecidableEq, Repr, Inhabited

/-- `net.ParseIP` + `To4`: an IPv6 literal inside `::ffff:0:0/96` IS an IPv4 address for Go. -/
def IP.canon (ip : IP) : IP :=
  if ip.v4 = false ∧ ip.val / 4294967296 = 65535 then { v4 := true, val := ip.val % 4294967296 } else ip

/-- A parsed CIDR (`net.ParseCIDR`): family, base address, prefix length. -/
structure CIDR where
  v4 : Bool
  base : Nat
  bits : Nat
  deriving DecidableEq, Repr, Inhabited

def CIDR.width (c : CIDR) : Nat := if c.v4 then 32 else 128

/-- `net.ParseCIDR` accepts the prefix length only up to the address width. -/
def CIDR.wellFormed (c : CIDR) : Bool := c.bits ≤ c.width

/-- `IPNet.Contains`: same family and equal prefix. -/
def CIDR.contains (c : CIDR) (ip : IP) : Bool :=
  c.v4 == ip.v4 && ip.val / 2 ^ (c.width - c.bits) == c.base / 2 ^ (c.width - c.bits)

/-- A string that is supposed to be an IP: parsed value, unparsable, or blank (empty after
`strings.TrimSpace`: unparsable for `newAddressRewriteMapper`, silently dropped by
`sanitizeExternalIPs`). -/
inductive IPTok where
  | ok (ip : IP)
  | bad
  | blank
  deriving DecidableEq, Repr, Inhabited

/-- `AddressRewriteRule.Local` after `strings.TrimSpace`: absent, an IP, or unparsable. -/
inductive LocTok where
  | none
  | ok (ip : IP)
  | bad
  deriving DecidableEq, Repr, Inhabited

/-- `AddressRewriteRule.CIDR`: absent (`""`), parsed, or rejected by `net.ParseCIDR`. -/
inductive CidrTok where
  | none
  | ok (c : CIDR)
  | bad
  deriving DecidableEq, Repr, Inhabited

/-- `AddressRewriteRule` as given to `newAddressRewriteMapper`. Codes are the Go iota values:
candidate type 0 unspecified, 1 host, 2 srflx, 3 prflx, 4 relay; mode 0 unspecified, 1 replace,
2 append; network type 1 udp4, 2 udp6, 3 tcp4, 4 tcp6. -/
structure Rule where
  ctype : Nat
  mode : Nat
  iface : String
  cidr : CidrTok
  loc : LocTok
  nets : List Nat
  ext : List IPTok
  deriving DecidableEq, Repr, Inhabited

inductive Err where
  | invalid       -- ErrInvalidNAT1To1IPMapping
  | unsupported   -- ErrUnsupportedNAT1To1IPCandidateType
  deriving DecidableEq, Repr, Inhabited

/-- `ipMapping`. `pin` is `ipMap`: a rule has at most one key in it (its `Local`). -/
structure FamMap where
  valid : Bool := false
  catchAll : Bool := false
  sole : List IP := []
  pin : Option (IP × List IP) := none
  deriving DecidableEq, Repr, Inhabited

/-- `addressRewriteRuleMapping` (the parts that lookups read). -/
structure CRule where
  iface : String
  cidr : Option CIDR
  mode : Nat
  m4 : FamMap
  m6 : FamMap
  deriving DecidableEq, Repr, Inhabited

/-- `rulesByCandidateType`, kept as one list in declaration order, tagged with the type. -/
abbrev Mapper := List (Nat × CRule)

def netIsV4 (n : Nat) : Bool := n == 1 || n == 3   -- NetworkType.IsIPv4
def netIsV6 (n : Nat) : Bool := n == 2 || n == 4   -- NetworkType.IsIPv6

/-- `defaultAddressRewriteMode`. -/
def defaultMode (ct : Nat) : Nat := if ct = 0 ∨ ct = 1 then 1 else 2

/-- `candidateType` after the `Unspecified → Host` default. -/
def effType (r : Rule) : Nat := if r.ctype = 0 then 1 else r.ctype

def effMode (r : Rule) : Nat := if r.mode = 0 then defaultMode (effType r) else r.mode

def allow4 (r : Rule) : Bool := r.nets.isEmpty || r.nets.any netIsV4
def allow6 (r : Rule) : Bool := r.nets.isEmpty || r.nets.any netIsV6

/-- `isFamilyAllowed`. -/
def isFamilyAllowed (a4 a6 : Bool) (isV4 : Bool) : Bool := if isV4 then a4 else a6

def tokIP? : IPTok → Option IP
  | .ok ip => some ip
  | _ => none

def extIPs (r : Rule) : List IP := r.ext.filterMap tokIP?

def cidrOpt (r : Rule) : Option CIDR :=
  match r.cidr with
  | .ok c => some c
  | _ => none

/-- Any of the `ErrInvalidNAT1To1IPMapping` returns of `newAddressRewriteMapper` /
`addExternalMappings` for one rule (they all yield the same error, so their order is immaterial). -/
def tokensInvalid (r : Rule) : Bool :=
  (match r.cidr with
   | .bad => true
   | .ok c => !c.wellFormed
   | .none => false)
  || (match r.loc with
      | .bad => true
      | .ok l => (match r.cidr with
                  | .ok c => !c.contains l
                  | _ => false)
      | .none => false)
  || r.ext.any (fun t => (tokIP? t).isNone)

/-- `targetLocalIPv4` in `addExternalMappings` for a rule WITHOUT `Local`: the CIDR's family when
there is a CIDR, else the external address's own family. -/
def targetFam (cidr : Option CIDR) (e : IP) : Bool :=
  match cidr with
  | some c => c.v4
  | none => e.v4

/-- `ipSole` of the mapping of family `fam` after `addExternalMappings` (rule without `Local`):
the externals targeted at `fam`, if `fam` is allowed. -/
def soleFor (a4 a6 : Bool) (cidr : Option CIDR) (exts : List IP) (fam : Bool) : List IP :=
  exts.filter (fun e => (targetFam cidr e == fam) && isFamilyAllowed a4 a6 fam)

/-- The mapping of family `fam` of a rule WITHOUT `Local` (`addExternalMappings` with
`hasLocalAddr = false`, then — only `if len(rule.External) == 0` (/repo d6a4f83) — `maybeMarkEmptyMapping`).
`exts` are the parsed externals; this point is reached only when every External string parsed
(`tokensInvalid`, a blank string included, returns the error first), so `exts` is as long as the External list
as given (`extIPs_length` in `IceProofs/Rewrite.lean`). A rule that NAMES externals, all of which were skipped
because their target family is excluded by `Networks`, gets no mapping at all (it is then not registered). -/
def catchAllMap (a4 a6 : Bool) (cidr : Option CIDR) (exts : List IP) (fam : Bool) : FamMap :=
  if exts.isEmpty then
    -- len(rule.External) == 0 (hence added = false): every allowed family becomes an (empty) catch-all
    { valid := isFamilyAllowed a4 a6 fam, catchAll := isFamilyAllowed a4 a6 fam }
  else
    { valid := !(soleFor a4 a6 cidr exts fam).isEmpty, catchAll := !(soleFor a4 a6 cidr exts fam).isEmpty,
      sole := soleFor a4 a6 cidr exts fam }

/-- The mapping of family `fam` of a rule pinned by `Local = l` (`addIPMapping` per external, or the
`ipMap[local] = nil` of `maybeMarkEmptyMapping` when the External list is empty). With a non-empty list either the
local family is allowed (every external is added) or it is not (nothing is added, and `maybeMarkEmptyMapping`
would not have marked anything either): the guard of /repo d6a4f83 makes no difference here. -/
def pinMap (a4 a6 : Bool) (l : IP) (exts : List IP) (fam : Bool) : FamMap :=
  if isFamilyAllowed a4 a6 l.v4 && (l.v4 == fam) then { valid := true, pin := some (l, exts) } else {}

def famMap (r : Rule) (fam : Bool) : FamMap :=
  match r.loc with
  | .ok l => pinMap (allow4 r) (allow6 r) l (extIPs r) fam
  | _ => catchAllMap (allow4 r) (allow6 r) (cidrOpt r) (extIPs r) fam

/-- The compiled form of a rule whose strings all parse (`none` = not appended: `!hasMappings()`). -/
def buildRule (r : Rule) : Option (Nat × CRule) :=
  if (famMap r true).valid || (famMap r false).valid then
    some (effType r, { iface := r.iface, cidr := cidrOpt r, mode := effMode r, m4 := famMap r true, m6 := famMap r false })
  else none

/-- One iteration of the loop of `newAddressRewriteMapper`. -/
def compileRule (r : Rule) : Except Err (Option (Nat × CRule)) :=
  if effType r = 3 then .error .unsupported
  else if !allow4 r && !allow6 r then .ok none        -- `continue`, before any string is parsed
  else if tokensInvalid r then .error .invalid
  else .ok (buildRule r)

def compileAll : List Rule → Except Err Mapper
  | [] => .ok []
  | r :: rs =>
    match compileRule r with
    | .error e => .error e
    | .ok o =>
      match compileAll rs with
      | .error e => .error e
      | .ok l => .ok (o.toList ++ l)

/-- `newAddressRewriteMapper`: error, `nil` mapper, or a mapper. -/
def newMapper (rules : List Rule) : Except Err (Option Mapper) :=
  match compileAll rules with
  | .error e => .error e
  | .ok [] => .ok none
  | .ok l => .ok (some l)

def rulesFor (m : Mapper) (ct : Nat) : List CRule := (m.filter (fun p => p.1 == ct)).map (·.2)

/-- `hasMappings` of a stored rule. -/
def CRule.hasMappings (r : CRule) : Bool := r.m4.valid || r.m6.valid

def hasCandidateType (m : Mapper) (ct : Nat) : Bool := (rulesFor m ct).any CRule.hasMappings

def shouldReplace (m : Mapper) (ct : Nat) : Bool := (rulesFor m ct).any (fun r => r.mode == 1)

/-- Result of `findExternalIPs` / `evaluateRewriteRules`. -/
structure Res where
  ips : List IP
  matched : Bool
  mode : Nat
  deriving DecidableEq, Repr, Inhabited

def Res.noMatch : Res := { ips := [], matched := false, mode := 0 }

/-- `rule.cidr != nil && !rule.cidr.Contains(locIP)`. -/
def cidrExcludes (cidr : Option CIDR) (ip : IP) : Bool :=
  match cidr with
  | some c => !c.contains ip
  | none => false

/-- `ruleMappingForLookup`. -/
def ruleMappingForLookup (r : CRule) (ip : IP) (iface : String) : Option FamMap :=
  if r.iface ≠ "" ∧ r.iface ≠ iface then none
  else if cidrExcludes r.cidr ip then none
  else
    let fm := if ip.v4 then r.m4 else r.m6
    if fm.valid then some fm else none

/-- `catchAllSpecificity` (tied to the Go source by `IceTie/Rewrite.lean`). -/
def catchAllSpecificity (ruleIface : String) (hasCIDR : Bool) (iface : String) : Nat :=
  if ruleIface ≠ "" then (if hasCIDR then 3 else 2)
  else if iface = "" ∧ hasCIDR = true then 1
  else 0

/-- What the body of the loop of `evaluateRewriteRules` finds for one rule: nothing (`continue`),
an explicit `ipMap` entry for the local address (immediate return), or a catch-all with its
specificity. -/
inductive Hit where
  | explicit (ips : List IP) (mode : Nat)
  | ca (ips : List IP) (mode : Nat) (spec : Nat)
  deriving DecidableEq, Repr

/-- `ipMapping.ipMap[locIP.String()]`. -/
def pinLookup (fm : FamMap) (ip : IP) : Option (List IP) :=
  match fm.pin with
  | some (l, exts) => if l = ip then some exts else none
  | none => none

def mapHit (fm : FamMap) (ip : IP) (mode spec : Nat) : Option Hit :=
  match pinLookup fm ip with
  | some exts => some (.explicit exts mode)
  | none => if fm.catchAll then some (.ca fm.sole mode spec) else none

def ruleHit (ip : IP) (iface : String) (r : CRule) : Option Hit :=
  match ruleMappingForLookup r ip iface with
  | none => none
  | some fm => mapHit fm ip r.mode (catchAllSpecificity r.iface r.cidr.isSome iface)

/-- The loop of `evaluateRewriteRules`; `best` = (catchAll, catchAllMode, bestSpec) once
`hasCatchAll`. -/
def evalLoop (ip : IP) (iface : String) : List CRule → Option (List IP × Nat × Nat) → Res
  | [], none => Res.noMatch
  | [], some (ips, mode, _) => { ips := ips, matched := true, mode := mode }
  | r :: rs, best =>
    match ruleHit ip iface r with
    | none => evalLoop ip iface rs best
    | some (.explicit exts mode) => { ips := exts, matched := true, mode := mode }
    | some (.ca sole mode spec) =>
      match best with
      | none => evalLoop ip iface rs (some (sole, mode, spec))
      | some (bi, bm, bs) =>
        if spec > bs then evalLoop ip iface rs (some (sole, mode, spec))
        else evalLoop ip iface rs (some (bi, bm, bs))

def evaluate (rules : List CRule) (ip : IP) (iface : String) : Res := evalLoop ip iface rules none

/-- `findExternalIPs` on a non-nil mapper. -/
def findExternalIPs (m : Mapper) (ct : Nat) (key : IPTok) (iface : String) : Except Err Res :=
  match key with
  | .ok ip => .ok (evaluate (rulesFor m ct) ip iface)
  | _ => .error .invalid

/-! ## The public option path: `WithAddressRewriteRules` → `sanitizeAddressRewriteRule` (agent_options.go) -/

/-- The loop of `sanitizeExternalIPs`; `acc` = the sanitized list so far, reversed (also the `seen`
set): blank entries are skipped, repeated ones dropped, an unparsable one is an error. -/
def sanitizeExtsLoop : List IPTok → List IPTok → Except Err (List IPTok)
  | [], acc => .ok acc.reverse
  | .blank :: ts, acc => sanitizeExtsLoop ts acc
  | .bad :: _, _ => .error .invalid
  | .ok ip :: ts, acc => if acc.contains (.ok ip) then sanitizeExtsLoop ts acc else sanitizeExtsLoop ts (.ok ip :: acc)

/-- `sanitizeExternalIPs`: after the loop `if len(sanitized) == 0 && len(ips) > 0 { return nil, Err… }` —
an EMPTY list is accepted (the documented deny / no-op rule), a non-empty list of which nothing is
left (only blank entries) is rejected. -/
def sanitizeExts (ips : List IPTok) : Except Err (List IPTok) :=
  match sanitizeExtsLoop ips [] with
  | .error e => .error e
  | .ok out => if out.isEmpty && !ips.isEmpty then .error .invalid else .ok out

/-- `sanitizeAddressRewriteRule`. -/
def sanitizeRule (r : Rule) : Except Err Rule :=
  match sanitizeExts r.ext with
  | .error e => .error e
  | .ok exts =>
    if r.loc = .bad then .error .invalid
    else if r.mode = 0 then .ok { r with ext := exts, mode := defaultMode r.ctype }
    else if r.mode = 1 ∨ r.mode = 2 then .ok { r with ext := exts }
    else .error .invalid

def sanitizeAll : List Rule → Except Err (List Rule)
  | [] => .ok []
  | r :: rs =>
    match sanitizeRule r with
    | .error e => .error e
    | .ok r' =>
      match sanitizeAll rs with
      | .error e => .error e
      | .ok l => .ok (r' :: l)

/-- The public path as a whole: `WithAddressRewriteRules(rules...)`, then what `NewAgent` does with the stored
rules (`newAddressRewriteMapper`). -/
def optionPath (rules : List Rule) : Except Err (Option Mapper) :=
  match sanitizeAll rules with
  | .error e => .error e
  | .ok clean => newMapper clean

/-! ## Application of a lookup result (gather.go) -/

inductive Kind where
  | host      -- applyHostAddressRewrite (mappedAddrs = [addr])
  | hostMux   -- applyHostRewriteForUDPMux (candidateIPs = [udpAddr.IP])
  | srflx     -- resolveSrflxAddresses
  | relay     -- resolveRelayAddresses (key = relAddr, `orig` = the relayed address)
  deriving DecidableEq, Repr, Inhabited

/-- What is advertised for the original address `orig` given a lookup outcome; `false` = the
candidate is dropped. -/
def applyRes (k : Kind) (orig : IP) : Except Err Res → List IP × Bool
  | .error _ =>
    match k with
    | .host => ([orig], true)
    | .hostMux => ([orig], false)
    | .srflx | .relay => ([], false)
  | .ok r =>
    if !r.matched then ([orig], true)
    else match k with
      | .host =>
        let out := (if r.mode = 1 then [] else [orig]) ++ r.ips
        if out.isEmpty && r.mode = 1 then ([], false) else (out, true)
      | .hostMux =>
        if r.ips.isEmpty then ([orig], r.mode != 1)
        else ((if r.mode = 1 then [] else [orig]) ++ r.ips, true)
      | .srflx =>
        if r.ips.isEmpty then (if r.mode = 1 then ([], false) else ([orig], true))
        else (r.ips, true)
      | .relay =>
        if r.ips.isEmpty then (if r.mode = 1 then ([], false) else ([orig], true))
        else if r.mode = 1 then (r.ips, true) else (orig :: r.ips, true)

/-! ## Legacy `NAT1To1IPs` entries (agent.go) -/

/-- One `/`-separated part of a trimmed legacy entry. -/
inductive Part where
  | ip (a : IP)
  | empty
  | bad
  deriving DecidableEq, Repr, Inhabited

/-- `strings.Split(trimmed, "/")` — never the empty list; `[.empty]` is the empty string. -/
abbrev Entry := List Part

/-- `validateLegacyNAT1To1Entry`: new (hasIPv4CatchAll, hasIPv6CatchAll) or the error. -/
def validateLegacyEntry (e : Entry) (h4 h6 : Bool) : Except Err (Bool × Bool) :=
  match e with
  | [.empty] => .ok (h4, h6)
  | [.ip a] =>
    if a.v4 then (if h4 then .error .invalid else .ok (true, h6))
    else (if h6 then .error .invalid else .ok (h4, true))
  | [.ip _, .ip _] => .ok (h4, h6)
  | _ => .error .invalid

def validateLegacyLoop : List Entry → Bool → Bool → Except Err Unit
  | [], _, _ => .ok ()
  | e :: es, h4, h6 =>
    match validateLegacyEntry e h4 h6 with
    | .error err => .error err
    | .ok (a, b) => validateLegacyLoop es a b

/-- `validateLegacyNAT1To1IPs`. -/
def validateLegacy (es : List Entry) : Except Err Unit := validateLegacyLoop es false false

def partTok : Part → IPTok
  | .ip a => .ok a
  | _ => .bad

/-- `legacyNAT1To1Rules`. -/
def legacyRules (ct : Nat) : List Entry → Except Err (List Rule)
  | [] => .ok []
  | e :: es =>
    let rest := legacyRules ct es
    match e with
    | [.empty] => rest
    | [p] =>
      (match rest with
       | .error err => .error err
       | .ok l => .ok ({ ctype := ct, mode := 0, iface := "", cidr := .none, loc := .none, nets := [], ext := [partTok p] } :: l))
    | [.ip a, .ip b] =>
      (match rest with
       | .error err => .error err
       | .ok l => .ok ({ ctype := ct, mode := 0, iface := "", cidr := .none, loc := .ok b, nets := [], ext := [.ok a] } :: l))
    | _ => .error .invalid

end IceModel.Rewrite
