/-!
# GatherCycle — the gathering-cycle state machine behind the nil candidate (DESIGN Appendix B.7)

Agent fields touched only inside tasks of the task loop (`a.gatheringState`, `a.localUfrag`,
`a.gatherCandidateCancel`), one thread per gathering cycle (`gatherCandidates`, gather.go L199–240,
with any number of concurrent gatherers below it), and the API calls `GatherCandidates`, `Restart`,
`Close`.  A task is atomic (the task loop runs one at a time, internal/taskloop L56–64); tasks of
different threads interleave arbitrarily: `step` takes the action as an argument.
Line numbers: /repo at commit 96b71f9 (the in-task context re-check of `addCandidate`, finding F23 / DESIGN §7 S5,
was added by a8cccb9).

What is modelled, statement by statement:

* `GatherCandidates` (gather.go L171–197) — task L174–192: L175 `gatheringState != New` → ErrMultipleGatherAttempted;
  (L179 no handler → error: the harness always installs one, not modelled); L185 cancel the previous
  cycle's context; L186–189 new context (it carries the ufrag current at this moment, `gatherUfragKey`, which
  the gatherers read through `gatherUfrag(ctx)` — the ghost field `Cycle.ufrag`), cancel func and done channel
  stored; L191 `go gatherCandidates`.
* cycle thread (gather.go L199–240) — L201 `setGatheringState(ctx, Gathering)`: task (agent.go L2029–2052):
  L2035 `gatherCtx.Err() != nil` → not applied; else L2043 `gatheringState = Gathering`;
  L202–206 error (loop closed) → return; L208–210 not applied → return; L212 `gatherCandidatesInternal`
  (gatherers publish through `addCandidate`; returns when all gatherers have returned, `wg.Wait`);
  L216 gather-once: `setGatheringState(ctx, Complete)`: task: L2035 cancelled → nothing; else L2039–2041
  `if gatheringState != Complete { EnqueueCandidate(nil) }`; L2043 `gatheringState = Complete`.
* `addCandidate` (agent.go L1356–1408), three places where the cycle's context matters:
  (1) FIRST CHECK, outside any task: L1357 `ctx.Err() != nil` → return the error (`pubCheck` is the check passing:
      one more call sits in `a.loop.Run`);
  (2) HAND-OFF: L1362 `a.loop.Run(ctx, task)`: taskloop L91–93 loop already closed → ErrClosed; L95–104 `select`
      among `ctx.Done()` → `ctx.Err()`, `l.done` → ErrClosed, and the hand-off `l.tasks <- task`.  When the context
      was cancelled after (1) both the ctx case and the hand-off can be ready and Go picks either one.
      `pubAbort` = `Run` returns an error (context done or loop closed), the task never runs;
  (3) IN-TASK RE-CHECK: the task's first statement (L1365–1369, commit a8cccb9) tests the cycle's context again:
      `pubRefuse` = hand-off taken (loop open) for a cycle whose context is cancelled: the re-check fails, the task
      does nothing else, `addCandidate` returns the context's error (L1407 `taskErr`).  On the shared state
      `pubRefuse` and `pubAbort` are the same transition (one in-flight call less, nothing published, nothing
      started) — they are kept apart because they are different paths of the code: the first is `Run`'s `select`,
      the second is the fix of F23; without the second, (2) would let a cancelled cycle publish into the next
      generation.
  Only for a cycle whose context is NOT cancelled at the time of the task does the task go on: duplicates
  (L1371–1384) are closed and not published (`pubSkip`); otherwise it tags the candidate with `a.localUfrag`
  (L1386 `setCandidateExtensions`, L1410–1418) — which is then still the cycle's own ufrag (`Inv.live_ufrag`) —,
  starts it (L1387), appends it to `a.localCandidates` (L1389–1390, `State.locals`) and publishes it (L1400–1402
  `EnqueueCandidate(cand)`) (`pubTask`); location-tracked candidates (L1400) are started and listed but not
  published (not modelled: the correspondence runs have none; `pubSkip` over-approximates their publication side).
* `Restart` (agent.go L1973–2024) — task: L1998 cancel; L2002 `localUfrag = ufrag`; L2006 `gatheringState = New`;
  L2011 `deleteAllCandidates` (`locals := []`: every local candidate is closed, with its socket).
* `Close` — `close` is the moment the task loop leaves its `select` (taskloop L58–59); no task runs afterwards
  (every `Run` returns ErrClosed, taskloop L91–93, L98–99).  The loop's deferred `onClose` (agent.go L557–573) cancels the
  current cycle, waits for its goroutine and deletes all candidates; the list cannot be read any more from the moment
  the loop ended (every API call returns ErrClosed), so `close` clears `locals` at once.

Not modelled: GatherContinually (the property speaks of gather-once), the error of a missing handler.

Ghost: per cycle the ufrag current when it was created and `completed`; `published` = the arguments of
`EnqueueCandidate` in task order (what the candidate stream of the notifier accepts, hence — by the
notifier theorems — what `OnCandidate` sees, in this order).
-/
namespace IceModel.GatherCycle

inductive GState where
  | new | gathering | complete
  deriving DecidableEq, Repr, Inhabited

inductive CyPc where
  /-- goroutine spawned (gather.go L191), before the Gathering task (L201) -/
  | start
  /-- inside `gatherCandidatesInternal` (L212): gatherers may publish -/
  | gathering
  /-- all gatherers returned, before the Complete task (L216) -/
  | finishing
  /-- the goroutine has returned -/
  | done
  deriving DecidableEq, Repr, Inhabited

structure Cycle where
  /-- ghost: `a.localUfrag` when the `GatherCandidates` task created the cycle -/
  ufrag : Nat
  /-- the cycle's context is cancelled -/
  cancelled : Bool := false
  pc : CyPc := .start
  /-- `addCandidate` calls that passed `ctx.Err()` (L1357) and sit in `loop.Run`'s select (L1362, taskloop L95) -/
  checked : Nat := 0
  /-- ghost: the Complete task of this cycle was applied -/
  completed : Bool := false
  deriving DecidableEq, Repr, Inhabited

inductive Pub where
  /-- `EnqueueCandidate(cand)` by a gatherer of cycle `cycle`, the candidate's ufrag extension is `tag` -/
  | cand (cycle : Nat) (tag : Nat)
  /-- `EnqueueCandidate(nil)` by the Complete task of cycle `cycle` -/
  | nil (cycle : Nat)
  deriving DecidableEq, Repr, Inhabited

structure State where
  gstate : GState := .new
  /-- `a.localUfrag` -/
  ufrag : Nat := 0
  /-- the cycle whose cancel func is stored in `a.gatherCandidateCancel` (`none` = the initial no-op) -/
  cur : Option Nat := none
  /-- the task loop has exited -/
  closed : Bool := false
  cycles : List Cycle := []
  published : List Pub := []
  /-- `a.localCandidates`: (cycle, ufrag tag) of every candidate that was started and not deleted since, oldest first -/
  locals : List (Nat × Nat) := []
  deriving DecidableEq, Repr, Inhabited

def init : State := {}

inductive Action where
  | gatherCall
  | restart (ufrag : Nat)
  | close
  | cycleStart (c : Nat)
  | pubCheck (c : Nat)
  | pubTask (c : Nat)
  | pubSkip (c : Nat)
  | pubAbort (c : Nat)
  | pubRefuse (c : Nat)
  | gatherersDone (c : Nat)
  | cycleFinish (c : Nat)
  deriving DecidableEq, Repr, Inhabited

/-- result of `GatherCandidates()` as seen by the caller -/
inductive GRes where
  | ok | multi | closed
  deriving DecidableEq, Repr, Inhabited

def gatherResult (s : State) : GRes :=
  if s.closed then .closed else if s.gstate ≠ .new then .multi else .ok

/-- apply `f` to cycle `c` (no-op when there is no such cycle) -/
def upd (cs : List Cycle) (c : Nat) (f : Cycle → Cycle) : List Cycle :=
  match cs[c]? with
  | some cy => cs.set c (f cy)
  | none => cs

def cancelCycle (cy : Cycle) : Cycle := { cy with cancelled := true }

/-- `a.gatherCandidateCancel()` -/
def cancelCur (s : State) : List Cycle :=
  match s.cur with
  | some c => upd s.cycles c cancelCycle
  | none => s.cycles

def step (s : State) : Action → Option State
  | .gatherCall =>
    -- taskloop L91–93: loop closed → ErrClosed
    if s.closed then some s
    -- gather.go L175–178
    else if s.gstate ≠ .new then some s
    else
      -- L185 cancel previous; L186–191 new ctx, spawn
      let cs := cancelCur s
      some { s with cycles := cs ++ [{ ufrag := s.ufrag }], cur := some cs.length }
  | .restart u =>
    if s.closed then some s
    -- agent.go L1998, L2002, L2006, L2011
    else some { s with cycles := cancelCur s, ufrag := u, gstate := .new, locals := [] }
  | .close =>
    if s.closed then none else some { s with closed := true, locals := [] }
  | .cycleStart c =>
    match s.cycles[c]? with
    | some cy =>
      if cy.pc ≠ .start then none
      -- gather.go L202–206: Run failed
      else if s.closed then some { s with cycles := s.cycles.set c { cy with pc := .done } }
      -- agent.go L2035–2037 not applied; gather.go L208–210
      else if cy.cancelled then some { s with cycles := s.cycles.set c { cy with pc := .done } }
      -- agent.go L2043
      else some { s with gstate := .gathering, cycles := s.cycles.set c { cy with pc := .gathering } }
    | none => none
  | .pubCheck c =>
    match s.cycles[c]? with
    | some cy =>
      -- (1) agent.go L1357: ctx.Err() == nil
      if cy.pc = .gathering ∧ cy.cancelled = false then
        some { s with cycles := s.cycles.set c { cy with checked := cy.checked + 1 } }
      else none
    | none => none
  | .pubTask c =>
    match s.cycles[c]? with
    | some cy =>
      -- (2) taskloop L100 hand-off taken; (3) agent.go L1365 `ctx.Err() == nil` INSIDE the task (a cancelled cycle
      -- takes `pubRefuse` instead); L1386 tag with the current ufrag; L1389–1390 list; L1400–1402 publish
      if cy.pc = .gathering ∧ 0 < cy.checked ∧ s.closed = false ∧ cy.cancelled = false then
        some { s with cycles := s.cycles.set c { cy with checked := cy.checked - 1 },
                      published := s.published ++ [Pub.cand c s.ufrag],
                      locals := s.locals ++ [(c, s.ufrag)] }
      else none
    | none => none
  | .pubSkip c =>
    match s.cycles[c]? with
    | some cy =>
      -- (2), (3) agent.go L1365 passed, then L1371–1384 duplicate: nothing is published or listed
      if cy.pc = .gathering ∧ 0 < cy.checked ∧ s.closed = false ∧ cy.cancelled = false then
        some { s with cycles := s.cycles.set c { cy with checked := cy.checked - 1 } }
      else none
    | none => none
  | .pubAbort c =>
    match s.cycles[c]? with
    | some cy =>
      -- (2) taskloop L91–93, L96–99: `Run` returns ctx.Err() or ErrClosed, the task never runs
      if cy.pc = .gathering ∧ 0 < cy.checked ∧ (cy.cancelled = true ∨ s.closed = true) then
        some { s with cycles := s.cycles.set c { cy with checked := cy.checked - 1 } }
      else none
    | none => none
  | .pubRefuse c =>
    match s.cycles[c]? with
    | some cy =>
      -- (2) taskloop L100 hand-off taken (loop open) although the context is done; (3) agent.go L1365–1369 the task's
      -- own re-check fails: nothing tagged, started, listed or published, `addCandidate` returns the context's error
      if cy.pc = .gathering ∧ 0 < cy.checked ∧ s.closed = false ∧ cy.cancelled = true then
        some { s with cycles := s.cycles.set c { cy with checked := cy.checked - 1 } }
      else none
    | none => none
  | .gatherersDone c =>
    match s.cycles[c]? with
    | some cy =>
      -- gather.go `wg.Wait()` at the end of gatherCandidatesInternal: every gatherer (hence every addCandidate call) has returned
      if cy.pc = .gathering ∧ cy.checked = 0 then
        some { s with cycles := s.cycles.set c { cy with pc := .finishing } }
      else none
    | none => none
  | .cycleFinish c =>
    match s.cycles[c]? with
    | some cy =>
      if cy.pc ≠ .finishing then none
      -- gather.go L216–218: Run failed
      else if s.closed then some { s with cycles := s.cycles.set c { cy with pc := .done } }
      -- agent.go L2035–2037
      else if cy.cancelled then some { s with cycles := s.cycles.set c { cy with pc := .done } }
      -- agent.go L2039–2043
      else some { s with
        published := s.published ++ (if s.gstate ≠ .complete then [Pub.nil c] else []),
        gstate := .complete,
        cycles := s.cycles.set c { cy with pc := .done, completed := true } }
    | none => none

def run (s : State) : List Action → Option State
  | [] => some s
  | a :: as => match step s a with
    | some s' => run s' as
    | none => none

def Reachable (s : State) : Prop := ∃ as, run init as = some s

/-- the cycle a publication belongs to -/
def Pub.cycle : Pub → Nat
  | .cand c _ => c
  | .nil c => c

def Pub.isCandOf (i : Nat) : Pub → Bool
  | .cand c _ => c == i
  | .nil _ => false

/-- `nil i` (if present) comes after every candidate of cycle `i`. -/
def nilLast (i : Nat) : List Pub → Bool
  | [] => true
  | Pub.nil j :: l => if j = i then l.all (fun p => !p.isCandOf i) else nilLast i l
  | Pub.cand _ _ :: l => nilLast i l

end IceModel.GatherCycle
