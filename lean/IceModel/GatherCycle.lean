/-!
# GatherCycle — the gathering-cycle state machine behind the nil candidate (DESIGN Appendix B.7)

Agent fields touched only inside tasks of the task loop (`a.gatheringState`, `a.localUfrag`,
`a.gatherCandidateCancel`), one thread per gathering cycle (`gatherCandidates`, gather.go L162–204,
with any number of concurrent gatherers below it), and the API calls `GatherCandidates`, `Restart`,
`Close`.  A task is atomic (the task loop runs one at a time, internal/taskloop L55–64); tasks of
different threads interleave arbitrarily: `step` takes the action as an argument.
Line numbers: /repo at commit 19c3ca1 (the commit that added the in-task context re-check to
`addCandidate`, finding F23 / DESIGN §7 S5).

What is modelled, statement by statement:

* `GatherCandidates` (gather.go L134–160) — task L137–155: L138 `gatheringState != New` → ErrMultipleGatherAttempted;
  (L142 no handler → error: the harness always installs one, not modelled); L148 cancel the previous
  cycle's context; L149–152 new context (it carries the ufrag current at this moment, `gatherUfragKey`, which
  the gatherers read through `gatherUfrag(ctx)` — the ghost field `Cycle.ufrag`), cancel func and done channel
  stored; L154 `go gatherCandidates`.
* cycle thread (gather.go L162–183) — L164 `setGatheringState(ctx, Gathering)`: task (agent.go L2023–2046):
  L2029 `gatherCtx.Err() != nil` → not applied; else L2037 `gatheringState = Gathering`;
  L165–169 error (loop closed) → return; L171–173 not applied → return; L175 `gatherCandidatesInternal`
  (gatherers publish through `addCandidate`; returns when all gatherers have returned, L309 `wg.Wait`);
  L179 gather-once: `setGatheringState(ctx, Complete)`: task: L2029 cancelled → nothing; else L2033–2035
  `if gatheringState != Complete { EnqueueCandidate(nil) }`; L2037 `gatheringState = Complete`.
* `addCandidate` (agent.go L1355–1407) — L1356 `ctx.Err() != nil` → error (outside the task); L1361
  `a.loop.Run(ctx, task)`: `select` among ctx done / loop closed / hand-off (taskloop L95–104): when the
  context was cancelled after L1356 both the ctx case and the hand-off can be ready and Go picks either.
  The task RE-CHECKS the context first (L1364–1368, commit 19c3ca1): for a cancelled cycle it publishes
  nothing and `addCandidate` returns the context's error — for the shared state that is the same transition
  as `Run` returning `ctx.Err()` (`pubAbort`: one in-flight call less, nothing published).  Only for a cycle
  whose context is NOT cancelled at the time of the task does the task go on: it tags the candidate with
  `a.localUfrag` (L1385 `setCandidateExtensions`, L1409–1417) — which is then still the cycle's own ufrag
  (`Inv.live_ufrag`) — and publishes it (L1399–1401 `EnqueueCandidate(cand)`) (`pubTask`), except duplicates
  (L1371–1383) and location-tracked candidates (L1399), which are not published (`pubSkip`).
* `Restart` (agent.go L1967–2018) — task: L1992 cancel; L1996 `localUfrag = ufrag`; L2000 `gatheringState = New`.
* `Close` — `close` is the moment the task loop leaves its `select` (taskloop L58–59); no task runs afterwards
  (every `Run` returns ErrClosed, taskloop L91–93, L98–99).

Not modelled: GatherContinually (the property speaks of gather-once), the error of a missing handler.

Ghost: per cycle the ufrag current when it was created and `completed`; `published` = the arguments of
`EnqueueCandidate` in task order (what the candidate stream of the notifier accepts, hence — by the
notifier theorems — what `OnCandidate` sees, in this order).
-/
namespace IceModel.GatherCycle

inductive GState where
  | new | gathering | complete
  deriving DecidableEq, Repr, Inhabited

inductive CyPc where
  /-- goroutine spawned (gather.go L154), before the Gathering task (L164) -/
  | start
  /-- inside `gatherCandidatesInternal` (L175): gatherers may publish -/
  | gathering
  /-- all gatherers returned (L309), before the Complete task (L179) -/
  | finishing
  /-- the goroutine has returned -/
  | done
  deriving DecidableEq, Repr, Inhabited

structure Cycle where
  /-- ghost: `a.localUfrag` when the `GatherCandidates` task created the cycle -/
  ufrag : Nat
  /-- the cycle's context is cancelled -/
  cancelled : Bool := false
  pc : CyPc := .start
  /-- `addCandidate` calls that passed `ctx.Err()` (L1356) and sit in `loop.Run`'s select (L1361, taskloop L95) -/
  checked : Nat := 0
  /-- ghost: the Complete task of this cycle was applied -/
  completed : Bool := false
  deriving DecidableEq, Repr, Inhabited

inductive Pub where
  /-- `EnqueueCandidate(cand)` by a gatherer of cycle `cycle`, the candidate's ufrag extension is `tag` -/
  | cand (cycle : Nat) (tag : Nat)
  /-- `EnqueueCandidate(nil)` by the Complete task of cycle `cycle` -/
  | nil (cycle : Nat)
  deriving DecidableEq, Repr, Inhabited

structure State where
  gstate : GState := .new
  /-- `a.localUfrag` -/
  ufrag : Nat := 0
  /-- the cycle whose cancel func is stored in `a.gatherCandidateCancel` (`none` = the initial no-op) -/
  cur : Option Nat := none
  /-- the task loop has exited -/
  closed : Bool := false
  cycles : List Cycle := []
  published : List Pub := []
  deriving DecidableEq, Repr, Inhabited

def init : State := {}

inductive Action where
  | gatherCall
  | restart (ufrag : Nat)
  | close
  | cycleStart (c : Nat)
  | pubCheck (c : Nat)
  | pubTask (c : Nat)
  | pubSkip (c : Nat)
  | pubAbort (c : Nat)
  | gatherersDone (c : Nat)
  | cycleFinish (c : Nat)
  deriving DecidableEq, Repr, Inhabited

/-- result of `GatherCandidates()` as seen by the caller -/
inductive GRes where
  | ok | multi | closed
  deriving DecidableEq, Repr, Inhabited

def gatherResult (s : State) : GRes :=
  if s.closed then .closed else if s.gstate ≠ .new then .multi else .ok

/-- apply `f` to cycle `c` (no-op when there is no such cycle) -/
def upd (cs : List Cycle) (c : Nat) (f : Cycle → Cycle) : List Cycle :=
  match cs[c]? with
  | some cy => cs.set c (f cy)
  | none => cs

def cancelCycle (cy : Cycle) : Cycle := { cy with cancelled := true }

/-- `a.gatherCandidateCancel()` -/
def cancelCur (s : State) : List Cycle :=
  match s.cur with
  | some c => upd s.cycles c cancelCycle
  | none => s.cycles

def step (s : State) : Action → Option State
  | .gatherCall =>
    -- taskloop L91–93: loop closed → ErrClosed
    if s.closed then some s
    -- gather.go L138–141
    else if s.gstate ≠ .new then some s
    else
      -- L148 cancel previous; L149–154 new ctx, spawn
      let cs := cancelCur s
      some { s with cycles := cs ++ [{ ufrag := s.ufrag }], cur := some cs.length }
  | .restart u =>
    if s.closed then some s
    -- agent.go L1992, L1996, L2000
    else some { s with cycles := cancelCur s, ufrag := u, gstate := .new }
  | .close =>
    if s.closed then none else some { s with closed := true }
  | .cycleStart c =>
    match s.cycles[c]? with
    | some cy =>
      if cy.pc ≠ .start then none
      -- gather.go L165–169: Run failed
      else if s.closed then some { s with cycles := s.cycles.set c { cy with pc := .done } }
      -- agent.go L2029–2031 not applied; gather.go L171–173
      else if cy.cancelled then some { s with cycles := s.cycles.set c { cy with pc := .done } }
      -- agent.go L2037
      else some { s with gstate := .gathering, cycles := s.cycles.set c { cy with pc := .gathering } }
    | none => none
  | .pubCheck c =>
    match s.cycles[c]? with
    | some cy =>
      -- agent.go L1356: ctx.Err() == nil
      if cy.pc = .gathering ∧ cy.cancelled = false then
        some { s with cycles := s.cycles.set c { cy with checked := cy.checked + 1 } }
      else none
    | none => none
  | .pubTask c =>
    match s.cycles[c]? with
    | some cy =>
      -- taskloop L100 hand-off taken; agent.go L1364 `ctx.Err() == nil` INSIDE the task (a cancelled cycle
      -- takes `pubAbort` instead); L1385 tag with the current ufrag; L1399–1401 publish
      if cy.pc = .gathering ∧ 0 < cy.checked ∧ s.closed = false ∧ cy.cancelled = false then
        some { s with cycles := s.cycles.set c { cy with checked := cy.checked - 1 },
                      published := s.published ++ [Pub.cand c s.ufrag] }
      else none
    | none => none
  | .pubSkip c =>
    match s.cycles[c]? with
    | some cy =>
      -- agent.go L1364 passed, then L1371–1383 duplicate, or L1399 location-tracked: nothing is published
      if cy.pc = .gathering ∧ 0 < cy.checked ∧ s.closed = false ∧ cy.cancelled = false then
        some { s with cycles := s.cycles.set c { cy with checked := cy.checked - 1 } }
      else none
    | none => none
  | .pubAbort c =>
    match s.cycles[c]? with
    | some cy =>
      -- taskloop L96–99: ctx done or loop closed; or hand-off taken and the task's own re-check fails
      -- (agent.go L1364–1368, cancelled cycle, loop open): nothing published, `addCandidate` returns the error
      if cy.pc = .gathering ∧ 0 < cy.checked ∧ (cy.cancelled = true ∨ s.closed = true) then
        some { s with cycles := s.cycles.set c { cy with checked := cy.checked - 1 } }
      else none
    | none => none
  | .gatherersDone c =>
    match s.cycles[c]? with
    | some cy =>
      -- gather.go L309 wg.Wait(): every gatherer (hence every addCandidate call) has returned
      if cy.pc = .gathering ∧ cy.checked = 0 then
        some { s with cycles := s.cycles.set c { cy with pc := .finishing } }
      else none
    | none => none
  | .cycleFinish c =>
    match s.cycles[c]? with
    | some cy =>
      if cy.pc ≠ .finishing then none
      -- gather.go L179–181: Run failed
      else if s.closed then some { s with cycles := s.cycles.set c { cy with pc := .done } }
      -- agent.go L2029–2031
      else if cy.cancelled then some { s with cycles := s.cycles.set c { cy with pc := .done } }
      -- agent.go L2033–2037
      else some { s with
        published := s.published ++ (if s.gstate ≠ .complete then [Pub.nil c] else []),
        gstate := .complete,
        cycles := s.cycles.set c { cy with pc := .done, completed := true } }
    | none => none

def run (s : State) : List Action → Option State
  | [] => some s
  | a :: as => match step s a with
    | some s' => run s' as
    | none => none

def Reachable (s : State) : Prop := ∃ as, run init as = some s

/-- the cycle a publication belongs to -/
def Pub.cycle : Pub → Nat
  | .cand c _ => c
  | .nil c => c

def Pub.isCandOf (i : Nat) : Pub → Bool
  | .cand c _ => c == i
  | .nil _ => false

/-- `nil i` (if present) comes after every candidate of cycle `i`. -/
def nilLast (i : Nat) : List Pub → Bool
  | [] => true
  | Pub.nil j :: l => if j = i then l.all (fun p => !p.isCandOf i) else nilLast i l
  | Pub.cand _ _ :: l => nilLast i l

end IceModel.GatherCycle
