/-!
# AttrCodec — the ICE STUN attribute value codecs (model of priority.go, icecontrol.go,
usecandidate.go, renomination.go, sped.go)

An attribute VALUE is the byte string `stun.Message.Get` returns / `stun.Message.Add` receives
(padding and the TLV header are pion/stun's, not this package's).  Values are `Nat`s with the Go
width stated where the code truncates (`% 2^32`, `byte(x)`), bytes are `UInt8`.
`none` = the Go function returns an error (`stun.ErrAttributeSizeInvalid`).
-/
namespace IceModel.AttrCodec

/-- `byte(x)` -/
def byteOf (n : Nat) : UInt8 := UInt8.ofNat (n % 256)

/-- `binary.BigEndian.PutUint32` of a `uint32` (the argument is reduced to its width). -/
def be32 (v : Nat) : List UInt8 :=
  [byteOf (v / 16777216), byteOf (v / 65536), byteOf (v / 256), byteOf v]

/-- `binary.BigEndian.Uint32` -/
def be32Val (a b c d : UInt8) : Nat :=
  a.toNat * 16777216 + b.toNat * 65536 + c.toNat * 256 + d.toNat

/-- `binary.BigEndian.PutUint64` -/
def be64 (v : Nat) : List UInt8 := be32 (v / 4294967296) ++ be32 v

/-! ## PRIORITY (priority.go): 4 bytes big endian, exact size -/

def encPriority (v : Nat) : List UInt8 := be32 v

def decPriority : List UInt8 → Option Nat
  | [a, b, c, d] => some (be32Val a b c d)
  | _ => none

/-! ## ICE-CONTROLLING / ICE-CONTROLLED (icecontrol.go): 8 bytes big endian, exact size -/

def encTiebreaker (v : Nat) : List UInt8 := be64 v

def decTiebreaker : List UInt8 → Option Nat
  | [a, b, c, d, e, f, g, h] => some (be32Val a b c d * 4294967296 + be32Val e f g h)
  | _ => none

/-! ## USE-CANDIDATE (usecandidate.go): empty value; `IsSet` only looks for the attribute -/

def encUseCandidate : List UInt8 := []

/-- `IsSet`: the argument is the attribute's value if the attribute is present. No size check. -/
def decUseCandidate : Option (List UInt8) → Bool
  | some _ => true
  | none => false

/-! ## nomination (renomination.go): byte 0 is zero, bytes 1..3 the low 24 bits -/

def encNomination (v : Nat) : List UInt8 :=
  [0, byteOf (v / 65536), byteOf (v / 256), byteOf v]

/-- `GetFromWithType`: only `len(v) < 4` is rejected; byte 0 and everything after byte 3 is ignored. -/
def decNomination : List UInt8 → Option Nat
  | _ :: b :: c :: d :: _ => some (b.toNat * 65536 + c.toNat * 256 + d.toNat)
  | _ => none

/-! ## DTLS-in-STUN (sped.go): the raw bytes -/

def encDtls (d : List UInt8) : List UInt8 := d
def decDtls (v : List UInt8) : Option (List UInt8) := some v

/-! ## DTLS-in-STUN ACK (sped.go): up to four uint32, big endian -/

def ackSizeValues : Nat := 4

def encWords : List Nat → List UInt8
  | [] => []
  | a :: rest => be32 a ++ encWords rest

def encAck (a : List Nat) : Option (List UInt8) :=
  if a.length > ackSizeValues then none else some (encWords a)

def decWords : List UInt8 → List Nat
  | a :: b :: c :: d :: rest => be32Val a b c d :: decWords rest
  | _ => []

def decAck (v : List UInt8) : Option (List Nat) :=
  if v.length > ackSizeValues * 4 ∨ v.length % 4 ≠ 0 then none else some (decWords v)

end IceModel.AttrCodec
