/-!
# SoftFloat — exact IEEE-754 binary64 arithmetic on finite values, as far as `agent.go` needs it

`Agent.shouldRenominate` / `evaluateCandidatePairQuality` / `findBestCandidatePair` (automatic renomination) compute in
`float64`: a round trip `time.Duration → seconds → time.Duration`, `math.Log10` of the round-trip time in
milliseconds, a few sums and one product with `1.15`.  Every one of these operations is an IEEE-754 operation rounded
to nearest-even (`+ - * /`, int → float, float → int truncation), and `math.Log` itself — the amd64 assembly
`log_amd64.s` as well as the portable `log.go` — is a fixed sequence of such operations (FDLIBM `e_log.c`) with no fused
multiply-add (GOAMD64=v1).  So the results are DETERMINED bit for bit, and this file reproduces them with integer
arithmetic: a finite double is `m · 2^e` (`m e : Int`, not normalised), the exact result of an operation is a rational
`n/d · 2^e`, and `roundPos` rounds it to 53 significant bits, ties to even.

Range of validity (outside it the hardware would produce subnormals, infinities or NaN, which are not modelled): all
operands and results are zero or have magnitude in `[2^-1022, 2^1024)`.  The users in `AgentCore` stay far inside: the
inputs are durations below `2^53` ns and small integers, the smallest non-zero intermediate of `log` on an integer
argument below `2^53` is above `2^-500`.

The correspondence with the hardware is checked on every generated line of the `agent` component (digests depend on
the decisions taken: the generator places round-trip times around every threshold, also where the duration round trip
loses a nanosecond).
-/
namespace IceModel.SoftFloat

/-- a finite double: the value `m · 2^e` -/
structure F where
  m : Int
  e : Int
  deriving Repr, Inhabited, DecidableEq

def two53 : Nat := 9007199254740992

/-- `n/d · 2^e` (`n, d > 0`) rounded to 53 significant bits, ties to even: the result is `q · 2^e'` with
`2^52 ≤ q ≤ 2^53`. -/
def roundPos (n d : Nat) (e : Int) : Nat × Int :=
  if n == 0 || d == 0 then (0, 0) else
  -- n ∈ [2^bn, 2^(bn+1)), d ∈ [2^bd, 2^(bd+1))  ⇒  n·2^s0/d ∈ (2^52, 2^54)
  let s0 : Int := 53 + (Nat.log2 d : Int) - (Nat.log2 n : Int)
  let q0 : Nat := if s0 ≥ 0 then (n * 2 ^ s0.toNat) / d else n / (d * 2 ^ (-s0).toNat)
  let s : Int := if q0 ≥ two53 then s0 - 1 else s0
  let num : Nat := if s ≥ 0 then n * 2 ^ s.toNat else n
  let den : Nat := if s ≥ 0 then d else d * 2 ^ (-s).toNat
  let q := num / den
  let r := num % den
  let q' := if 2 * r > den || (2 * r == den && q % 2 == 1) then q + 1 else q
  (q', e - s)

def F.round (neg : Bool) (n d : Nat) (e : Int) : F :=
  let r := roundPos n d e
  { m := if neg then -(r.1 : Int) else (r.1 : Int), e := r.2 }

def F.zero : F := { m := 0, e := 0 }

/-- `float64(n)` -/
def F.ofNat (n : Nat) : F := F.round false n 1 0
def F.ofInt (i : Int) : F := F.round (i < 0) i.natAbs 1 0

/-- numerator of `a - b` over the common exponent `min a.e b.e` -/
def F.diffNum (a b : F) : Int :=
  let e := min a.e b.e
  a.m * (2 : Int) ^ (a.e - e).toNat - b.m * (2 : Int) ^ (b.e - e).toNat

def F.lt (a b : F) : Bool := F.diffNum a b < 0
def F.gt (a b : F) : Bool := F.lt b a
def F.eqv (a b : F) : Bool := F.diffNum a b == 0

def F.neg (a : F) : F := { a with m := -a.m }

def F.sub (a b : F) : F :=
  let n := F.diffNum a b
  F.round (n < 0) n.natAbs 1 (min a.e b.e)

def F.add (a b : F) : F := F.sub a (F.neg b)

def F.mul (a b : F) : F :=
  let n := a.m * b.m
  F.round (n < 0) n.natAbs 1 (a.e + b.e)

/-- `a / b` (`b ≠ 0`; a zero divisor yields 0 here, the callers never divide by zero) -/
def F.div (a b : F) : F :=
  F.round ((a.m < 0) != (b.m < 0)) a.m.natAbs b.m.natAbs (a.e - b.e)

/-- `int64(x)`: truncation toward zero -/
def F.trunc (a : F) : Int :=
  if a.e ≥ 0 then a.m * (2 : Int) ^ a.e.toNat
  else
    let q : Nat := a.m.natAbs / 2 ^ (-a.e).toNat
    if a.m < 0 then -(q : Int) else (q : Int)

/-! ## constants (bit patterns read off the compiled code: `math.Float64bits`) -/

def one : F := { m := 1, e := 0 }
def two : F := { m := 2, e := 0 }
def half : F := { m := 1, e := -1 }
def ten : F := { m := 10, e := 0 }
def twenty : F := { m := 20, e := 0 }
def thirty : F := { m := 30, e := 0 }
/-- `math.Sqrt2/2` = 0x3fe6a09e667f3bcd -/
def hSqrt2 : F := { m := 6369051672525773, e := -53 }
/-- 0x3fe62e42fee00000 -/
def ln2Hi : F := { m := 6243314766446592, e := -53 }
/-- 0x3dea39ef35793c76 -/
def ln2Lo : F := { m := 7382048951581814, e := -85 }
def cL1 : F := { m := 6004799503160723, e := -53 }
def cL2 : F := { m := 7205759403686404, e := -54 }
def cL3 : F := { m := 5146971033736025, e := -54 }
def cL4 : F := { m := 8006390766270639, e := -55 }
def cL5 : F := { m := 6551322304906206, e := -55 }
def cL6 : F := { m := 5517391500461727, e := -55 }
def cL7 : F := { m := 5331612937900612, e := -55 }
/-- `1 / math.Ln10` = 0x3fdbcb7b1526e50e -/
def invLn10 : F := { m := 7823553867474190, e := -54 }
/-- the literal `1.15` = 0x3ff2666666666666 -/
def c115 : F := { m := 5179139571476070, e := -52 }
/-- `float64(time.Second)` -/
def f1e9 : F := { m := 1000000000, e := 0 }

/-! ## `math.Log`, `math.Log10` -/

/-- `math.Frexp` of a positive finite value: `(frac, exp)` with `x = frac · 2^exp`, `frac ∈ [0.5, 1)` -/
def frexp (x : F) : F × Int :=
  let l : Int := (Nat.log2 x.m.natAbs : Int) + 1
  ({ m := x.m, e := -l }, x.e + l)

/-- `math.Log(x)` for finite `x > 0` (`log.go` / `log_amd64.s`, operation by operation) -/
def log (x : F) : F :=
  let fr := frexp x
  let small := fr.1.lt hSqrt2
  let f1 := if small then fr.1.mul two else fr.1
  let ki : Int := if small then fr.2 - 1 else fr.2
  let f := f1.sub one
  let k := F.ofInt ki
  let s := f.div (two.add f)
  let s2 := s.mul s
  let s4 := s2.mul s2
  let t1 := s2.mul (cL1.add (s4.mul (cL3.add (s4.mul (cL5.add (s4.mul cL7))))))
  let t2 := s4.mul (cL2.add (s4.mul (cL4.add (s4.mul cL6))))
  let r := t1.add t2
  let hfsq := (half.mul f).mul f
  (k.mul ln2Hi).sub ((hfsq.sub ((s.mul (hfsq.add r)).add (k.mul ln2Lo))).sub f)

/-- `math.Log10(x)` = `math.Log(x) * (1/Ln10)` -/
def log10 (x : F) : F := (log x).mul invLn10

/-! ## `time.Duration` ↔ seconds -/

/-- `time.Duration(d).Seconds()`: `float64(d / Second) + float64(d % Second) / 1e9` -/
def seconds (d : Nat) : F :=
  (F.ofNat (d / 1000000000)).add ((F.ofNat (d % 1000000000)).div f1e9)

/-- `time.Duration(x * float64(time.Second))` -/
def durationOfSeconds (x : F) : Int := (x.mul f1e9).trunc

end IceModel.SoftFloat
