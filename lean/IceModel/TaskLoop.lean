/-!
# Model of `internal/taskloop/taskloop.go` — small-step semantics

A transition system written statement-for-statement against the Go source (line numbers of
`/repo/internal/taskloop/taskloop.go` are given beside every transition).  Threads:

* the **loop thread** (`runLoop`, started by `New`, lines 38–66);
* an UNBOUNDED family of **submitter threads** `i : Nat`, each performing one call
  `l.Run(ctx_i, t_i)` (lines 90–105); the environment may cancel `ctx_i` at any time;
* an UNBOUNDED family of **closer threads** `j : Nat`, each performing one call
  `l.Close()` (= `CloseWithPreStop(nil)`, line 71) or `l.CloseWithPreStop(f)` (lines 77–87).

Every `Nat` is a potential thread: `subs`/`closers` are total maps whose default is a thread that has
not made its call yet.  Shared state is exactly the fields of `Loop`: the unbuffered channel `tasks`
(a rendezvous: the sender blocked in `Run`'s `select` and the receiver blocked in `runLoop`'s `select`
move together in ONE transition, `handoff`), `done` (closed?), `taskLoopDone` (closed?), `closeOnce`,
`err`.  The private `done` channel of a task lives in the submitter record (`privDone`).

Modelling assumptions (trusted base, see notes/C10.md): `select` chooses nondeterministically among its
ready cases; channel operations, `sync.Once` and the atomic error are sequentially consistent; one
transition = one statement.  `sync.Once.Do` blocks a late caller until the first caller's function
has returned (that is what the Go documentation promises), which is why `onceSkip` needs
`once = finished`.

Ghost fields (never read by a guard): `offered`, `taken`, `started`, `finished`, `returned` per
submitter, and `anyCloseCalled`, `closeReturned`, `oncloseRuns`, `oncloseEnds`, `prestopRuns` globally.

`Run` called from INSIDE a task (the loop thread itself calls `Run` and waits) is modelled by
`callNested i k`: the loop thread is then blocked in `nested i k` until call `k` returns.
-/
namespace IceModel.TaskLoop

/-- Result of one `Run`: `nil`, `ctx.Err()` (line 97) or `ErrClosed` (lines 92, 99). -/
inductive RunRes where
  | nil | ctx | closed
  deriving DecidableEq, Repr, Inhabited

/-- Observable events (the vocabulary of recorded histories and of the spec monitor). `i` names a
call of `Run`, `j` a call of `Close`/`CloseWithPreStop`. -/
inductive Ev where
  | submit (i : Nat)                 -- `Run(ctx_i, t_i)` is called
  | cancel (i : Nat)                 -- the environment cancels `ctx_i`
  | taskStart (i : Nat)              -- first statement of `t_i`
  | taskEnd (i : Nat)                -- last statement of `t_i`
  | runReturn (i : Nat) (r : RunRes) -- `Run` of call i returns
  | closeCall (j : Nat)              -- `Close()` / `CloseWithPreStop(f)` is called
  | prestopRun                       -- the `preStop` callback runs
  | oncloseRun                       -- the `onClose` callback starts
  | oncloseEnd                       -- the `onClose` callback returns
  | closeReturn (j : Nat)            -- the close call j returns
  deriving DecidableEq, Repr, Inhabited

/-- Program counter of a submitter thread inside `Run`. -/
inductive SubPc where
  | idle                -- has not called `Run` yet
  | check               -- called; before `if err := l.Err()` (line 91)
  | select              -- `done := make(chan struct{})` made (94); blocked in the `select` (95)
  | handedOff           -- `l.tasks <- task{t, done}` was received (100); blocked in `<-done` (101)
  | ret (r : RunRes)    -- returned
  deriving DecidableEq, Repr, Inhabited

structure Sub where
  pc : SubPc := .idle
  /-- `ctx_i.Done()` is closed -/
  ctxDone : Bool := false
  /-- the task's private `done` channel is closed (line 62) -/
  privDone : Bool := false
  -- ghost
  offered : Bool := false
  taken : Nat := 0
  started : Nat := 0
  finished : Nat := 0
  returned : Option RunRes := none
  deriving DecidableEq, Repr, Inhabited

/-- Location of the loop thread in `runLoop`. -/
inductive LoopPc where
  | select                  -- blocked in the `select` of lines 57–63
  | got (i : Nat)           -- received `t` of call i (60), about to call `t.fn(l)` (61)
  | running (i : Nat)       -- inside `t.fn(l)` of call i (61)
  | nested (i k : Nat)      -- inside `t.fn(l)` of call i, which itself called `Run` (call k) and waits
  | closePriv (i : Nat)     -- `t.fn` returned, about to `close(t.done)` (62)
  | leaving                 -- took `case <-l.done: return` (58–59); deferred function not yet run
  | inOnClose               -- inside the deferred `onClose()` (52)
  | closeTLD                -- `onClose()` returned (52), about to `close(l.taskLoopDone)` (53)
  | exited                  -- goroutine finished
  deriving DecidableEq, Repr, Inhabited

/-- `sync.Once`. -/
inductive Once where
  | fresh | running (j : Nat) | finished
  deriving DecidableEq, Repr, Inhabited

/-- Program counter of a closer thread inside `CloseWithPreStop`. -/
inductive CloserPc where
  | idle          -- has not called yet
  | atOnce        -- called; at `l.closeOnce.Do(` (78)
  | inStore       -- first caller, before `l.err.Store(ErrClosed)` (79)
  | inCloseDone   -- before `close(l.done)` (81)
  | inPreStop     -- before `if preStop != nil { preStop() }` (82–84)
  | inOnceExit    -- the function passed to `Do` returns (85)
  | waitTLD       -- blocked in `<-l.taskLoopDone` (86)
  | returned
  deriving DecidableEq, Repr, Inhabited

structure Closer where
  pc : CloserPc := .idle
  /-- called as `CloseWithPreStop(f)` with `f != nil` -/
  hasPre : Bool := false
  deriving DecidableEq, Repr, Inhabited

structure State where
  loop : LoopPc := .select
  /-- `l.done` is closed -/
  done : Bool := false
  /-- `l.taskLoopDone` is closed -/
  tld : Bool := false
  /-- `l.err` holds `ErrClosed` -/
  err : Bool := false
  once : Once := .fresh
  subs : Nat → Sub := fun _ => {}
  closers : Nat → Closer := fun _ => {}
  -- ghost
  anyCloseCalled : Bool := false
  closeReturned : Bool := false
  oncloseRuns : Nat := 0
  oncloseEnds : Nat := 0
  prestopRuns : Nat := 0

/-- State right after `New(onClose)` (lines 38–48): channels made, `go l.runLoop(onClose)` issued. -/
def init : State := {}

inductive Action where
  -- environment
  | cancel (i : Nat)                  -- `ctx_i` is cancelled (possible in every state)
  | call (i : Nat)                    -- a goroutine calls `l.Run(ctx_i, t_i)`
  | callNested (i k : Nat)            -- task i, executing on the loop thread, calls `l.Run(ctx_k, t_k)` and waits
  | closeCall (j : Nat) (pre : Bool)  -- a goroutine calls `Close()` (pre = false) / `CloseWithPreStop(f)` (pre = true)
  -- submitter i, inside Run
  | errCheckPass (i : Nat)            -- 91: `l.Err()` = nil (`done` open); 94: make the private channel
  | errCheckFail (i : Nat)            -- 91–92: `l.Err()` = ErrClosed (`done` closed) → return it
  | selCtx (i : Nat)                  -- 96–97: `case <-ctx.Done(): return ctx.Err()`
  | selDone (i : Nat)                 -- 98–99: `case <-l.done: return ErrClosed`
  | handoff (i : Nat)                 -- 100 and 60: `l.tasks <- task{t, done}` meets `t := <-l.tasks`
  | wake (i : Nat)                    -- 101–103: `<-done` succeeds; `return nil`
  -- loop thread
  | loopDone                          -- 58–59: `case <-l.done: return`
  | start (i : Nat)                   -- 61: `t.fn(l)` begins
  | finish (i : Nat)                  -- 61: `t.fn(l)` returns
  | closePriv (i : Nat)               -- 62: `close(t.done)`; back to the `for`
  | onClose                           -- 52: deferred `onClose()` is called
  | onCloseEnd                        -- 52: `onClose()` returns
  | closeTLD                          -- 53: `close(l.taskLoopDone)`
  -- closer j, inside CloseWithPreStop
  | onceWin (j : Nat)                 -- 78: first caller of `closeOnce.Do` enters the function
  | onceSkip (j : Nat)                -- 78: a later caller; `Do` returns once the first call's function has returned
  | storeErr (j : Nat)                -- 79
  | closeDoneCh (j : Nat)             -- 81
  | preStopRun (j : Nat)              -- 82–83: `preStop()`
  | preStopNil (j : Nat)              -- 82: `preStop == nil`
  | onceExit (j : Nat)                -- 85
  | waitTLD (j : Nat)                 -- 86: `<-l.taskLoopDone` succeeds; return
  deriving DecidableEq, Repr, Inhabited

/-- Environment actions: new calls and cancellations. Everything else is a step of code in taskloop.go
(or the return of a task / callback). -/
def Action.isEnv : Action → Bool
  | .cancel _ | .call _ | .callNested _ _ | .closeCall _ _ => true
  | _ => false

/-- Point update of a total map. -/
def upd {α : Type} (f : Nat → α) (i : Nat) (v : α) : Nat → α := fun x => if x = i then v else f x

/-- When call `k` returns and the loop thread was waiting for it inside task `i`, the task goes on. -/
def resume (lp : LoopPc) (k : Nat) : LoopPc :=
  match lp with
  | .nested i k' => if k' = k then .running i else lp
  | _ => lp

/-- Submitter `i` leaves `Run` with result `r`. -/
def retSub (s : State) (i : Nat) (r : RunRes) : State :=
  { s with subs := upd s.subs i { s.subs i with pc := .ret r, returned := some r }, loop := resume s.loop i }

def setCloserPc (s : State) (j : Nat) (pc : CloserPc) : State :=
  { s with closers := upd s.closers j { s.closers j with pc := pc } }

/-- The transition function: `some s'` iff the action is enabled in `s`. -/
def step (s : State) : Action → Option State
  | .cancel i => some { s with subs := upd s.subs i { s.subs i with ctxDone := true } }
  | .call i =>
    if (s.subs i).pc = .idle then some { s with subs := upd s.subs i { s.subs i with pc := .check } } else none
  | .callNested i k =>
    if s.loop = .running i ∧ (s.subs k).pc = .idle then
      some { s with subs := upd s.subs k { s.subs k with pc := .check }, loop := .nested i k }
    else none
  | .closeCall j pre =>
    if (s.closers j).pc = .idle then
      some { s with closers := upd s.closers j { pc := .atOnce, hasPre := pre }, anyCloseCalled := true }
    else none
  | .errCheckPass i =>
    if (s.subs i).pc = .check ∧ s.done = false then
      some { s with subs := upd s.subs i { s.subs i with pc := .select, offered := true } }
    else none
  | .errCheckFail i =>
    if (s.subs i).pc = .check ∧ s.done = true then some (retSub s i .closed) else none
  | .selCtx i =>
    if (s.subs i).pc = .select ∧ (s.subs i).ctxDone = true then some (retSub s i .ctx) else none
  | .selDone i =>
    if (s.subs i).pc = .select ∧ s.done = true then some (retSub s i .closed) else none
  | .handoff i =>
    if (s.subs i).pc = .select ∧ s.loop = .select then
      some { s with subs := upd s.subs i { s.subs i with pc := .handedOff, taken := (s.subs i).taken + 1 }, loop := .got i }
    else none
  | .wake i =>
    if (s.subs i).pc = .handedOff ∧ (s.subs i).privDone = true then some (retSub s i .nil) else none
  | .loopDone =>
    if s.loop = .select ∧ s.done = true then some { s with loop := .leaving } else none
  | .start i =>
    if s.loop = .got i then
      some { s with subs := upd s.subs i { s.subs i with started := (s.subs i).started + 1 }, loop := .running i }
    else none
  | .finish i =>
    if s.loop = .running i then
      some { s with subs := upd s.subs i { s.subs i with finished := (s.subs i).finished + 1 }, loop := .closePriv i }
    else none
  | .closePriv i =>
    -- closing a closed channel would panic: the guard `privDone = false` is shown never to block (`C10_progress`)
    if s.loop = .closePriv i ∧ (s.subs i).privDone = false then
      some { s with subs := upd s.subs i { s.subs i with privDone := true }, loop := .select }
    else none
  | .onClose =>
    if s.loop = .leaving then some { s with loop := .inOnClose, oncloseRuns := s.oncloseRuns + 1 } else none
  | .onCloseEnd =>
    if s.loop = .inOnClose then some { s with loop := .closeTLD, oncloseEnds := s.oncloseEnds + 1 } else none
  | .closeTLD =>
    if s.loop = .closeTLD ∧ s.tld = false then some { s with loop := .exited, tld := true } else none
  | .onceWin j =>
    if (s.closers j).pc = .atOnce ∧ s.once = .fresh then some { setCloserPc s j .inStore with once := .running j } else none
  | .onceSkip j =>
    if (s.closers j).pc = .atOnce ∧ s.once = .finished then some (setCloserPc s j .waitTLD) else none
  | .storeErr j =>
    if (s.closers j).pc = .inStore then some { setCloserPc s j .inCloseDone with err := true } else none
  | .closeDoneCh j =>
    if (s.closers j).pc = .inCloseDone ∧ s.done = false then some { setCloserPc s j .inPreStop with done := true } else none
  | .preStopRun j =>
    if (s.closers j).pc = .inPreStop ∧ (s.closers j).hasPre = true then
      some { setCloserPc s j .inOnceExit with prestopRuns := s.prestopRuns + 1 }
    else none
  | .preStopNil j =>
    if (s.closers j).pc = .inPreStop ∧ (s.closers j).hasPre = false then some (setCloserPc s j .inOnceExit) else none
  | .onceExit j =>
    if (s.closers j).pc = .inOnceExit then some { setCloserPc s j .waitTLD with once := .finished } else none
  | .waitTLD j =>
    if (s.closers j).pc = .waitTLD ∧ s.tld = true then some { setCloserPc s j .returned with closeReturned := true } else none

def enabled (s : State) (a : Action) : Bool := (step s a).isSome

/-- Observable label of an action (internal steps have none). -/
def label : Action → Option Ev
  | .cancel i => some (.cancel i)
  | .call i => some (.submit i)
  | .callNested _ k => some (.submit k)
  | .closeCall j _ => some (.closeCall j)
  | .errCheckFail i => some (.runReturn i .closed)
  | .selCtx i => some (.runReturn i .ctx)
  | .selDone i => some (.runReturn i .closed)
  | .wake i => some (.runReturn i .nil)
  | .start i => some (.taskStart i)
  | .finish i => some (.taskEnd i)
  | .onClose => some .oncloseRun
  | .onCloseEnd => some .oncloseEnd
  | .preStopRun _ => some .prestopRun
  | .waitTLD j => some (.closeReturn j)
  | _ => none

/-- Execute a sequence of actions (`none` if one of them is not enabled). -/
def run (s : State) : List Action → Option State
  | [] => some s
  | a :: as => match step s a with
    | some s' => run s' as
    | none => none

/-- Event trace of an action sequence. -/
def trace (as : List Action) : List Ev := as.filterMap label

/-- States reachable from `init` by any finite action sequence (any number of threads). -/
def Reachable (s : State) : Prop := ∃ as, run init as = some s

/-- A task of call `i` is executing: started and not yet finished. -/
def executing (s : State) (i : Nat) : Prop := (s.subs i).finished < (s.subs i).started

instance (s : State) (i : Nat) : Decidable (executing s i) := by unfold executing; infer_instance

/-- Hypothesis used by the progress theorem only: nobody calls `Run` from inside a task. -/
def noReentry : List Action → Bool
  | [] => true
  | .callNested _ _ :: _ => false
  | _ :: as => noReentry as

end IceModel.TaskLoop
