/-!
# Notifier — concurrent small-step model of ONE stream of `handlerNotifier` (agent_handlers.go)

`handlerNotifier` has three streams (connection state L89–122, candidate L124–157, selected pair
L159–192).  The three `Enqueue…` functions are the same program text up to the names of the queue, the
`running…` flag and the handler; this file models one of them (line numbers below are those of the
connection-state stream, the other two are +35 and +70).  The mutex (`sync.Mutex`, embedded, shared
by the three streams), the wait group `notifiers` (shared) and the channel `done` (shared) are
modelled per stream: `wg` is this stream's share of the counter.

Atomicity: every transition is either one complete critical section (`h.Lock()` … `h.Unlock()`; the
code inside never blocks) or one statement outside the lock.  Interleaving is arbitrary: `step` takes
the action (which thread moves) as an argument, any number of enqueuer / drainer / closer threads.

Re-entrancy: a handler that calls back (enqueues more events, calls `Close(false)`) is the same as
another thread doing so while the drainer's program counter is `inHandler e`; nothing in `enqueue`,
`closeCall`, `closeBody` depends on who the caller is, so these behaviours are included.  A handler
that runs forever is a drainer that never takes `handlerReturn`.

Ghost state (never read by the code transitions): `accepted` (events appended while `done` is open, in
lock order), `delivered` (handler invocations in start order), `gracefulReturned`.
-/
namespace IceModel.Notifier

abbrev Ev := Nat

/-- program counter of one drainer goroutine (`notify`, L99–114) -/
inductive DPc where
  /-- L101/L102: at the top of the `for`, about to `h.Lock()` and check the queue ("locked-check") -/
  | atLoop
  /-- L109–L111 done: popped `e`, unlocked, about to call the handler (L112) -/
  | holding (e : Ev)
  /-- inside `h.connectionStateFunc(e)` (L112) -/
  | inHandler (e : Ev)
  /-- L104–L107 done: `running := false`, unlocked, returning; deferred `notifiers.Done()` (L100) pending -/
  | exiting
  /-- goroutine ended -/
  | gone
  deriving DecidableEq, Repr, Inhabited

/-- program counter of one `Close(graceful)` call (L69–87) -/
inductive CPc where
  /-- called; about to `h.Lock()` (L76) -/
  | start (graceful : Bool)
  /-- graceful only: body done, inside the deferred `h.notifiers.Wait()` (L73) -/
  | waiting
  /-- returned to the caller -/
  | returned (graceful : Bool)
  deriving DecidableEq, Repr, Inhabited

structure State where
  /-- `h.connectionStates` -/
  queue : List Ev := []
  /-- `h.runningConnectionStates` -/
  running : Bool := false
  /-- `h.done` is closed -/
  closed : Bool := false
  /-- `h.notifiers` counter (this stream's share) -/
  wg : Nat := 0
  drainers : List DPc := []
  closers : List CPc := []
  /-- ghost: events enqueued while not closed, in lock order -/
  accepted : List Ev := []
  /-- ghost: handler invocations in start order -/
  delivered : List Ev := []
  /-- ghost: some `Close(true)` has returned -/
  gracefulReturned : Bool := false
  deriving DecidableEq, Repr, Inhabited

def init : State := {}

inductive Action where
  /-- `Enqueue…(e)`: the whole function is one critical section (L90 `Lock`, L91 deferred `Unlock`) -/
  | enqueue (e : Ev)
  /-- drainer `i`: critical section L102–L111 (or L102–L105 when the queue is empty) -/
  | drainLock (i : Nat)
  /-- drainer `i`: call of the handler, L112 -/
  | callHandler (i : Nat)
  /-- drainer `i`: the handler returns, back to L101 -/
  | handlerReturn (i : Nat)
  /-- drainer `i`: deferred `h.notifiers.Done()` L100; the goroutine ends -/
  | drainDone (i : Nat)
  /-- some thread calls `Close(g)` (a new closer thread) -/
  | closeCall (g : Bool)
  /-- closer `j`: critical section L76–L86 -/
  | closeBody (j : Nat)
  /-- closer `j`: deferred `h.notifiers.Wait()` L73 returns (enabled iff the counter is 0) -/
  | closeWait (j : Nat)
  deriving DecidableEq, Repr, Inhabited

/-- One transition; `none` = the action is not enabled in this state. -/
def step (s : State) : Action → Option State
  | .enqueue e =>
    -- L93–L97: select { case <-h.done: return; default: }
    if s.closed then some s
    else
      -- L116: h.connectionStates = append(h.connectionStates, state)
      let s := { s with queue := s.queue ++ [e], accepted := s.accepted ++ [e] }
      -- L117–L121: if !running { running = true; notifiers.Add(1); go notify() }
      if s.running then some s
      else some { s with running := true, wg := s.wg + 1, drainers := s.drainers ++ [DPc.atLoop] }
  | .drainLock i =>
    match s.drainers[i]? with
    | some DPc.atLoop =>
      match s.queue with
      -- L103–L107: if len(queue) == 0 { running = false; Unlock; return }
      | [] => some { s with running := false, drainers := s.drainers.set i DPc.exiting }
      -- L109–L111: notification := queue[0]; queue = queue[1:]; Unlock
      | e :: q => some { s with queue := q, drainers := s.drainers.set i (DPc.holding e) }
    | _ => none
  | .callHandler i =>
    match s.drainers[i]? with
    -- L112: h.connectionStateFunc(notification)
    | some (DPc.holding e) =>
      some { s with drainers := s.drainers.set i (DPc.inHandler e), delivered := s.delivered ++ [e] }
    | _ => none
  | .handlerReturn i =>
    match s.drainers[i]? with
    | some (DPc.inHandler _) => some { s with drainers := s.drainers.set i DPc.atLoop }
    | _ => none
  | .drainDone i =>
    match s.drainers[i]? with
    -- L100: defer h.notifiers.Done()
    | some DPc.exiting => some { s with wg := s.wg - 1, drainers := s.drainers.set i DPc.gone }
    | _ => none
  | .closeCall g => some { s with closers := s.closers ++ [CPc.start g] }
  | .closeBody j =>
    match s.closers[j]? with
    -- L76–L86: Lock; select { case <-done: Unlock; return; default: }; close(done); Unlock
    -- (both branches leave `done` closed); L70–L74: graceful ⇒ deferred Wait runs next
    | some (CPc.start g) =>
      some { s with closed := true,
                    closers := s.closers.set j (if g then CPc.waiting else CPc.returned false) }
    | _ => none
  | .closeWait j =>
    match s.closers[j]? with
    -- L73: h.notifiers.Wait() returns only when the counter is 0
    | some CPc.waiting =>
      if s.wg = 0 then
        some { s with closers := s.closers.set j (CPc.returned true), gracefulReturned := true }
      else none
    | _ => none

/-- Run a schedule (list of actions) from `s`; `none` if some action is not enabled when its turn comes. -/
def run (s : State) : List Action → Option State
  | [] => some s
  | a :: as => match step s a with
    | some s' => run s' as
    | none => none

/-- States reachable from `init` by some schedule. -/
def Reachable (s : State) : Prop := ∃ as, run init as = some s

def DPc.isActive : DPc → Bool
  | .atLoop | .holding _ | .inHandler _ => true
  | _ => false

def DPc.isLive : DPc → Bool
  | .gone => false
  | _ => true

def DPc.isInHandler : DPc → Bool
  | .inHandler _ => true
  | _ => false

/-- number of drainers that may still pop / call the handler -/
def activeCount (ds : List DPc) : Nat := ds.countP DPc.isActive
/-- number of drainer goroutines that exist (not yet `Done`) -/
def liveCount (ds : List DPc) : Nat := ds.countP DPc.isLive
/-- number of drainers inside the handler -/
def inHandlerCount (ds : List DPc) : Nat := ds.countP DPc.isInHandler

/-- events popped from the queue whose handler has not been entered yet (thread order) -/
def held : List DPc → List Ev
  | [] => []
  | DPc.holding e :: ds => e :: held ds
  | _ :: ds => held ds

/-- Quiescence: nothing queued and no drainer goroutine exists. -/
def quiescent (s : State) : Bool := s.queue.isEmpty && liveCount s.drainers == 0

end IceModel.Notifier
