/-!
# Model of the TCP mux (`tcp_mux.go`, `tcp_packet_conn.go`) — property C15

Sequential event model with virtual time.  One operation is one public call or one client event,
followed by everything the mux's goroutines do until they are all blocked again (quiescence) —
exactly what the correspondence harness observes after `synctest.Wait()`.

Conventions (the code's, not what it should do):
* a TCP connection is identified by its index in `State.tcps` (accept order), a packet connection
  (`tcpPacketConn`) by its index in `State.pcs` (creation order), a handle (`sharedPacketConn`) by its
  index in `State.handles`;
* the mux maps `connsIPv4/connsIPv6[ufrag][local IP]` hold exactly the packet connections that are not
  closed: every path that closes a packet connection also removes it from the maps before the
  goroutines come to rest (its watcher does, by identity since fix F22), and every path that removes one closes it;
* frames are units (`IceModel/Framing.lean`, property C14, is about the bytes); a frame carries what the
  first-frame classifier looks at: its length, and whether it decodes as STUN / is a Binding / has a USERNAME;
* times are in the unit of the harness (ms); peer IP ids `0,1` are IPv4, `2,3` IPv6.

Ghost fields (`sent`, `hist`, `readLog`, `created`, `claimed`, `Pkt.conn`, `closedAt`) are never read by `step`.
-/
namespace IceModel.TcpMux

/-- `TCPMuxParams`: receive-channel capacity, write buffering, first-bind timeout, alive duration. -/
structure Config where
  cap : Nat
  wbuf : Bool
  t1 : Nat
  t2 : Nat
  deriving Repr, DecidableEq

/-- `NewTCPMuxDefault` replaces a zero timeout by 30 s. -/
def effTimeout (t : Nat) : Nat := if t = 0 then 30000 else t

structure Addr where
  ip : Nat
  port : Nat
  deriving Repr, DecidableEq

/-- `net.ParseIP(host).To4() == nil` of the peer's address. -/
def Addr.v6 (a : Addr) : Bool := decide (2 ≤ a.ip)

/-- key of a packet connection inside the mux: (ufrag, family, local IP). -/
structure Key where
  ufrag : String
  v6 : Bool
  lip : Nat
  deriving Repr, DecidableEq

inductive FKind where
  /-- decodes as STUN, method Binding, has a USERNAME whose text before the first `:` is `ufrag` -/
  | user (ufrag : String)
  /-- STUN Binding without USERNAME -/
  | noUser
  /-- STUN of another method -/
  | otherMethod
  /-- does not decode as STUN -/
  | notStun
  deriving Repr, DecidableEq

structure Frame where
  fid : Nat
  kind : FKind
  len : Nat
  deriving Repr, DecidableEq

/-- errors a reader goroutine can report through the receive queue -/
inductive ErrKind where
  | eof | reset | short
  deriving Repr, DecidableEq

/-- an entry of the receive queue (`streamingPacket`); `conn` is a ghost tag (TCP connection it came from) -/
structure Pkt where
  src : Addr
  fid : Nat
  len : Nat
  err : Option ErrKind
  conn : Nat
  deriving Repr, DecidableEq

/-- what a client has pushed and the mux has not read yet -/
inductive Item where
  | frame (f : Frame)
  | eof
  | reset
  deriving Repr, DecidableEq

inductive Phase where
  /-- accepted; `handleConn` is reading the first frame with this read deadline -/
  | pending (deadline : Nat)
  /-- registered in `tcpPacketConn.conns` of this packet connection -/
  | attached (pc : Nat)
  /-- closed by the mux -/
  | closed
  deriving Repr, DecidableEq

/-- state of the reader goroutine of an attached connection -/
inductive Reader where
  | none
  /-- blocked in `conn.Read` -/
  | idle
  /-- blocked sending to the (full) receive channel; `final` = this is the error packet sent after the
  connection was removed, the goroutine ends afterwards -/
  | blocked (p : Pkt) (final : Bool)
  deriving Repr, DecidableEq

structure Tcp where
  peer : Addr
  lip : Nat
  phase : Phase
  reader : Reader := .none
  /-- packet connection it was attached to (kept after closure) -/
  pc : Option Nat := none
  /-- the client stopped in the middle of a frame -/
  stuck : Bool := false
  /-- the client closed or reset its side -/
  cEnd : Bool := false
  inbox : List Item := []
  /-- frames written by the mux to this connection: (payload id, length) -/
  out : List (Nat × Nat) := []
  /-- ghost: the complete frames the client pushed while the connection was pending or attached -/
  sent : List Frame := []
  deriving Repr, DecidableEq

structure PConn where
  key : Key
  /-- created by `handleConn` for an unknown ufrag -/
  provisional : Bool
  /-- deadline of the alive timer while it is armed -/
  alive : Option Nat
  closed : Bool := false
  refs : Nat
  /-- `tcpPacketConn.conns`: remote address → TCP connection -/
  conns : List (Addr × Nat) := []
  recvQ : List Pkt := []
  /-- reader goroutines blocked on the full receive channel, in blocking order -/
  blockedQ : List Nat := []
  created : Nat := 0
  claimed : Bool := false
  /-- ghost: every packet that entered the receive channel, in order -/
  hist : List Pkt := []
  /-- ghost: every packet handed to a `ReadFrom`, in order -/
  readLog : List Pkt := []
  deriving Repr, DecidableEq

structure Handle where
  pc : Nat
  closed : Bool := false
  deriving Repr, DecidableEq

structure State where
  cfg : Config
  now : Nat := 0
  listenerOpen : Bool := true
  /-- `m.closed`; set by `Close`, which then waits for the wait group -/
  muxClosed : Bool := false
  /-- ghost: virtual time at which `Close` was called -/
  closedAt : Nat := 0
  tcps : List Tcp := []
  pcs : List PConn := []
  handles : List Handle := []
  deriving Repr, DecidableEq

def init (cfg : Config) : State := { cfg := cfg }

inductive Op where
  | accept (peer : Addr) (lip : Nat)
  | frame (k : Nat) (f : Frame)
  | partialFrame (k : Nat)
  | clientClose (k : Nat) (reset : Bool)
  | advance (dt : Nat)
  | getConn (key : Key)
  | removeByUfrag (ufrag : String)
  | closeHandle (h : Nat)
  | closePacketConn (h : Nat)
  | write (h : Nat) (dst : Addr) (pid len : Nat)
  | read (h : Nat)
  | closeMux
  deriving Repr, DecidableEq

inductive Res where
  | ok | refused | noop | bad | already
  | sent (n : Nat)
  | handle (h : Nat)
  | errClosed
  | wrote (n : Nat)
  | pkt (p : Pkt)
  | empty
  deriving Repr, DecidableEq

/-! ## helpers -/

def firstFrameMax : Nat := 512
def receiveMTU : Nat := 8192

/-- the first-frame classifier of `handleConn`: the ufrag to route by, if the frame is acceptable -/
def classify (f : Frame) : Option String :=
  if f.len ≤ firstFrameMax then
    match f.kind with
    | .user u => some u
    | _ => none
  else none

def closeTcp (t : Tcp) : Tcp := { t with phase := .closed, reader := .none, inbox := [] }

def setTcp (s : State) (k : Nat) (f : Tcp → Tcp) : State := { s with tcps := s.tcps.modify k f }
def setPc (s : State) (p : Nat) (f : PConn → PConn) : State := { s with pcs := s.pcs.modify p f }

/-- index of the open packet connection registered under `key` -/
def findPc (pcs : List PConn) (key : Key) : Option Nat :=
  pcs.findIdx? (fun pc => !pc.closed && decide (pc.key = key))

def lookupConn (conns : List (Addr × Nat)) (a : Addr) : Option Nat :=
  (conns.find? (fun e => decide (e.1 = a))).map (·.2)

/-- `tcpPacketConn.Close` (first call): the TCP connections in `conns` are closed, blocked readers are
released, the receive channel is closed (queued packets stay readable). -/
def closePc1 (s : State) (p : Nat) : State :=
  match s.pcs[p]? with
  | none => s
  | some pc =>
    if pc.closed then s else
    { s with
      tcps := s.tcps.mapIdx (fun k t =>
        if k ∈ pc.conns.map (·.2) then closeTcp t
        else if k ∈ pc.blockedQ then { t with reader := .none }
        else t)
      pcs := s.pcs.modify p (fun pc => { pc with closed := true, alive := none, conns := [], blockedQ := [] }) }

/-- `tcpPacketConn.Close` followed by the close watcher of the mux (`removeConnByUfragAndLocalHost`):
the watcher deletes the map entry under (ufrag, local IP) only if it still IS this packet connection
(fix F22), so — operations being atomic here — closing is all that happens. Before F22 the watcher
removed by key in BOTH family maps and closed what it found there (observation O1 in notes/C15.md). -/
def closePc (s : State) (p : Nat) : State := closePc1 s p

/-- close every open packet connection satisfying `sel` (in index order) -/
def closePcsWhere (sel : PConn → Bool) (s : State) : State :=
  (List.range s.pcs.length).foldl
    (fun s p => match s.pcs[p]? with
      | some pc => if sel pc then closePc s p else s
      | none => s) s

/-- outcome of a reader goroutine working through what the client pushed -/
structure Drain where
  pc : PConn
  phase : Phase
  reader : Reader
  inbox : List Item
  deriving Repr

def enqueue (pc : PConn) (pkt : Pkt) : PConn :=
  { pc with recvQ := pc.recvQ ++ [pkt], hist := pc.hist ++ [pkt] }

/-- the error path of `startReading`: `removeConn` (close, delete by remote address), then the error is
reported only if this was the last connection or it is not EOF. -/
def drainFail (cap k p : Nat) (peer : Addr) (e : ErrKind) (pc : PConn) : Drain :=
  let _ := p
  let pc1 := { pc with conns := pc.conns.filter (fun c => !decide (c.1 = peer)) }
  if pc1.conns.isEmpty || !decide (e = .eof) then
    let pkt : Pkt := { src := peer, fid := 0, len := 0, err := some e, conn := k }
    if pc1.recvQ.length < cap then
      { pc := enqueue pc1 pkt, phase := .closed, reader := .none, inbox := [] }
    else
      { pc := { pc1 with blockedQ := pc1.blockedQ ++ [k] }, phase := .closed, reader := .blocked pkt true, inbox := [] }
  else
    { pc := pc1, phase := .closed, reader := .none, inbox := [] }

/-- `startReading`: read frame after frame and send each to the receive channel, until there is
nothing to read (idle), the channel is full (blocked), or reading fails. -/
def drain (cap k p : Nat) (peer : Addr) : List Item → PConn → Drain
  | [], pc => { pc := pc, phase := .attached p, reader := .idle, inbox := [] }
  | .frame f :: rest, pc =>
    if receiveMTU < f.len then drainFail cap k p peer .short pc
    else
      let pkt : Pkt := { src := peer, fid := f.fid, len := f.len, err := none, conn := k }
      if pc.recvQ.length < cap then drain cap k p peer rest (enqueue pc pkt)
      else { pc := { pc with blockedQ := pc.blockedQ ++ [k] }, phase := .attached p,
             reader := .blocked pkt false, inbox := rest }
  | .eof :: _, pc => drainFail cap k p peer .eof pc
  | .reset :: _, pc => drainFail cap k p peer .reset pc

/-- let the reader of TCP connection `k` run if it is idle -/
def runReader (s : State) (k : Nat) : State :=
  match s.tcps[k]? with
  | none => s
  | some t =>
    match t.phase, t.reader with
    | .attached p, .idle =>
      match s.pcs[p]? with
      | none => s
      | some pc =>
        let d := drain s.cfg.cap k p t.peer t.inbox pc
        { s with
          tcps := s.tcps.modify k (fun t => { t with phase := d.phase, reader := d.reader, inbox := d.inbox })
          pcs := s.pcs.modify p (fun _ => d.pc) }
    | _, _ => s

/-- `getConn` / `createConn(fromStun = true)` under the mux lock: the open packet connection for the key,
or a new provisional one with its alive timer armed -/
def ensurePc (s : State) (key : Key) : State × Nat :=
  match findPc s.pcs key with
  | some p => (s, p)
  | none =>
    ({ s with pcs := s.pcs ++ [{ key := key, provisional := true, alive := some (s.now + effTimeout s.cfg.t2),
                                 refs := 0, created := s.now }] }, s.pcs.length)

/-- `AddConn` for pending connection `k` (refused when the packet connection is closed or already has a
connection from this remote address: `handleConn` then closes it), then the reader goroutine starts
with the first frame -/
def addConn (s : State) (p k : Nat) (t : Tcp) (f : Frame) : State :=
  match s.pcs[p]? with
  | none => s
  | some pc =>
    if pc.closed || (lookupConn pc.conns t.peer).isSome then
      setTcp s k (fun t => { closeTcp t with sent := t.sent ++ [f] })
    else
      let s2 := setPc s p (fun pc => { pc with conns := pc.conns ++ [(t.peer, k)] })
      let s3 := setTcp s2 k (fun t => { t with phase := .attached p, reader := .idle, pc := some p,
                                               inbox := [.frame f], sent := t.sent ++ [f] })
      runReader s3 k

/-- the attach path of `handleConn` for an acceptable first frame: the key is (ufrag, family of the
peer, local IP of the connection) -/
def attach (s : State) (k : Nat) (t : Tcp) (u : String) (f : Frame) : State :=
  let r := ensurePc s { ufrag := u, v6 := t.peer.v6, lip := t.lip }
  addConn r.1 r.2 k t f

/-- the packet a blocked reader is trying to send -/
def blockedOf (s : State) (k : Nat) : Option (Pkt × Bool) :=
  match s.tcps[k]? with
  | some t => (match t.reader with | .blocked bp final => some (bp, final) | _ => none)
  | none => none

def readPc (s : State) (p : Nat) : State × Res :=
  match s.pcs[p]? with
  | none => (s, .bad)
  | some pc =>
    match pc.recvQ with
    | pkt :: q =>
      let s1 := setPc s p (fun pc => { pc with recvQ := q, readLog := pc.readLog ++ [pkt] })
      match pc.blockedQ with
      | [] => (s1, .pkt pkt)
      | k :: bq =>
        match blockedOf s k with
        | some (bp, final) =>
          let s2 := setPc s1 p (fun pc => { pc with blockedQ := bq, recvQ := pc.recvQ ++ [bp], hist := pc.hist ++ [bp] })
          let s3 := setTcp s2 k (fun t => { t with reader := if final then .none else .idle })
          (runReader s3 k, .pkt pkt)
        | _ => (s1, .pkt pkt)
    | [] =>
      match pc.blockedQ with
      | k :: bq =>
        match blockedOf s k with
        | some (bp, final) =>
          let s2 := setPc s p (fun pc => { pc with blockedQ := bq, hist := pc.hist ++ [bp], readLog := pc.readLog ++ [bp] })
          let s3 := setTcp s2 k (fun t => { t with reader := if final then .none else .idle })
          (runReader s3 k, .pkt bp)
        | _ => (s, .bad)
      | [] => if pc.closed then (s, .errClosed) else (s, .empty)

/-- first-bind timeout: the read deadline of a pending connection has passed -/
def expireTcp (now : Nat) (t : Tcp) : Tcp :=
  match t.phase with
  | .pending d => if d ≤ now then closeTcp t else t
  | _ => t

/-- the alive timer of a provisional packet connection has fired -/
def aliveExpired (now : Nat) (pc : PConn) : Bool :=
  match pc.alive with
  | some d => decide (d ≤ now)
  | none => false

/-! ## the step function -/

def step (s : State) : Op → State × Res
  | .accept peer lip =>
    if s.listenerOpen then
      ({ s with tcps := s.tcps ++ [{ peer := peer, lip := lip, phase := .pending (s.now + effTimeout s.cfg.t1) }] }, .ok)
    else
      ({ s with tcps := s.tcps ++ [{ peer := peer, lip := lip, phase := .closed }] }, .refused)
  | .frame k f =>
    match s.tcps[k]? with
    | none => (s, .bad)
    | some t =>
      if t.cEnd || t.stuck then (s, .noop) else
      match t.phase with
      | .closed => (s, .sent f.len)
      | .pending _ =>
        match classify f with
        | some u => (attach s k t u f, .sent f.len)
        | none => (setTcp s k (fun t => { closeTcp t with sent := t.sent ++ [f] }), .sent f.len)
      | .attached _ =>
        (runReader (setTcp s k (fun t => { t with inbox := t.inbox ++ [.frame f], sent := t.sent ++ [f] })) k, .sent f.len)
  | .partialFrame k =>
    match s.tcps[k]? with
    | none => (s, .bad)
    | some t =>
      if t.cEnd || t.stuck then (s, .noop) else
      (setTcp s k (fun t => { t with stuck := true }), .ok)
  | .clientClose k reset =>
    match s.tcps[k]? with
    | none => (s, .bad)
    | some t =>
      if t.cEnd then (s, .noop) else
      match t.phase with
      | .closed => (setTcp s k (fun t => { t with cEnd := true }), .ok)
      | .pending _ => (setTcp s k (fun t => { closeTcp t with cEnd := true }), .ok)
      | .attached _ =>
        (runReader (setTcp s k (fun t => { t with cEnd := true, inbox := t.inbox ++ [if reset then .reset else .eof] })) k, .ok)
  | .advance dt =>
    -- (the two effects are independent: alive timers close packet connections and what is attached to
    -- them, first-bind deadlines close pending connections)
    let now' := s.now + dt
    let s1 := closePcsWhere (fun pc => aliveExpired now' pc) s
    ({ s1 with now := now', tcps := s1.tcps.map (expireTcp now') }, .ok)
  | .getConn key =>
    if s.muxClosed then (s, .errClosed) else
    match findPc s.pcs key with
    | some p =>
      ({ (setPc s p (fun pc => { pc with alive := none, refs := pc.refs + 1, claimed := true }))
         with handles := s.handles ++ [{ pc := p }] }, .handle s.handles.length)
    | none =>
      ({ s with pcs := s.pcs ++ [{ key := key, provisional := false, alive := none, refs := 1, created := s.now, claimed := true }],
                handles := s.handles ++ [{ pc := s.pcs.length }] }, .handle s.handles.length)
  | .removeByUfrag u => (closePcsWhere (fun pc => decide (pc.key.ufrag = u)) s, .ok)
  | .closeHandle h =>
    match s.handles[h]? with
    | none => (s, .bad)
    | some hd =>
      if hd.closed then (s, .ok) else
      let s1 : State := { s with handles := s.handles.modify h (fun hd => { hd with closed := true }) }
      match s1.pcs[hd.pc]? with
      | none => (s1, .ok)
      | some pc =>
        let s2 := setPc s1 hd.pc (fun pc => { pc with refs := pc.refs - 1 })
        if pc.refs ≤ 1 then (closePc s2 hd.pc, .ok) else (s2, .ok)
  | .closePacketConn h =>
    match s.handles[h]? with
    | none => (s, .bad)
    | some hd => (closePc s hd.pc, .ok)
  | .write h dst pid len =>
    match s.handles[h]? with
    | none => (s, .bad)
    | some hd =>
      if hd.closed then (s, .errClosed) else
      match s.pcs[hd.pc]? with
      | none => (s, .bad)
      | some pc =>
        match lookupConn pc.conns dst with
        | none => (s, .errClosed)
        | some k => (setTcp s k (fun t => { t with out := t.out ++ [(pid, len)] }), .wrote len)
  | .read h =>
    match s.handles[h]? with
    | none => (s, .bad)
    | some hd => if hd.closed then (s, .errClosed) else readPc s hd.pc
  | .closeMux =>
    if s.muxClosed then (s, .already) else
    let s1 := closePcsWhere (fun _ => true) s
    ({ s1 with muxClosed := true, listenerOpen := false, closedAt := s.now }, .ok)

def run (s : State) : List Op → State
  | [] => s
  | op :: ops => run (step s op).1 ops

/-! ## observations -/

def Tcp.isPending (t : Tcp) : Bool := match t.phase with | .pending _ => true | _ => false
def Tcp.isAttached (t : Tcp) : Bool := match t.phase with | .attached _ => true | _ => false
def Tcp.isClosed (t : Tcp) : Bool := match t.phase with | .closed => true | _ => false
def Tcp.hasReader (t : Tcp) : Bool := match t.reader with | .none => false | _ => true

/-- who is alive: the accept loop, the per-connection handlers, the close watchers of the packet
connections, the readers, and (with write buffering) the buffered writers -/
structure Ledger where
  acceptor : Nat
  handlers : Nat
  watchers : Nat
  readers : Nat
  writers : Nat
  deriving Repr, DecidableEq

def ledger (s : State) : Ledger :=
  { acceptor := if s.listenerOpen then 1 else 0
    handlers := s.tcps.countP (·.isPending)
    watchers := s.pcs.countP (fun pc => !pc.closed)
    readers := s.tcps.countP (·.hasReader)
    writers := if s.cfg.wbuf then s.tcps.countP (·.isAttached) else 0 }

/-- the wait group of the mux covers the accept loop, the handlers and the watchers -/
def wgCount (s : State) : Nat := (ledger s).acceptor + (ledger s).handlers + (ledger s).watchers

/-- `Close` has been called and its `wg.Wait()` has returned -/
def closeReturned (s : State) : Bool := s.muxClosed && decide (wgCount s = 0)

end IceModel.TcpMux
