/-!
# Gather — executable model of candidate gathering in pion/ice (properties C18, C09)

Written from `gather.go`, `net.go`, `agent.go` (addCandidate, deleteAllCandidates, Restart,
setGatheringState, the on-close callback), `candidate_base.go` (start/close), `candidate_relay.go`
(close → onClose) of the FIXED tree (findings F5, F6, F10, F12 repaired; G1–G5 (notes/C18.md) repaired unless listed in `Config.quirks`; see
notes/C18.md, notes/C09.md).  Core Lean only.

Four layers:

1. vocabulary: abstract addresses (class × index), interface table, configuration;
2. `localAddrs` and the per-type *gather units* = the expected candidate set as a pure function of
   configuration × interface table (§ expected set);
3. `Cycle`: the gathering-cycle state machine (New → Gathering → Complete, refusal outside New,
   cancellation by Restart, the nil candidate), at the granularity of agent tasks, with the
   check/hand-off window of `addCandidate` explicit; with the continual policy: no Complete, the monitor
   (`tick` → re-gather pass of the same cycle, or its end on the cancelled context);
4. `Prog`: every gatherer as a small program over resources (acquire / fallible step / release /
   addCandidate = transfer ownership | fail | duplicate), its ledger semantics, and `MState`/`step`:
   the composition that the driver runs in lock-step with the real agent — incl. continual gathering:
   `lastKnownInterfaces`, the monitor goroutine (`Mon`: next tick, busy, buffered tick), a changing interface
   table (`ifaces`), virtual time that stops at every timeout and tick (`advanceTo`).
-/
namespace IceModel.Gather

/-! ## 1. Vocabulary -/

/-- Address classes of the fake world.  `g`lobal, `l`oopback, lin`k`-local, `u`nspecified,
`s`ite-local (fec0::/10), IPv4-`c`ompatible (::a.b.c.d), e`x`ternal (server reflexive), `r`elayed,
`nm` = no IP at all (an mDNS name that was never resolved). -/
inductive AddrClass where
  | g4 | l4 | k4 | u4 | g6 | l6 | k6 | s6 | c6 | u6 | x4 | x6 | r4 | nm
  deriving DecidableEq, Repr, Inhabited

namespace AddrClass

def is6 : AddrClass → Bool
  | g6 | l6 | k6 | s6 | c6 | u6 | x6 => true
  | _ => false

/-- `netip.Addr.IsLoopback` -/
def isLoopback : AddrClass → Bool
  | l4 | l6 => true
  | _ => false

def isUnspecified : AddrClass → Bool
  | u4 | u6 => true
  | _ => false

/-- `Is6 ∧ (IsLinkLocalUnicast ∨ IsLinkLocalMulticast)` = `shouldFilterLocationTrackedIP` -/
def isLinkLocal6 : AddrClass → Bool
  | k6 => true
  | _ => false

/-- `isSupportedIPv6Partial` on an IPv6 address: false when the first 12 bytes are zero
(`::`, `::1`, IPv4-compatible) or the address is site-local (`fe`, top two bits of byte 1 set). -/
def supported6 : AddrClass → Bool
  | l6 | c6 | u6 | s6 => false
  | _ => true

def tok : AddrClass → String
  | g4 => "g4" | l4 => "l4" | k4 => "k4" | u4 => "u4" | g6 => "g6" | l6 => "l6" | k6 => "k6"
  | s6 => "s6" | c6 => "c6" | u6 => "u6" | x4 => "x4" | x6 => "x6" | r4 => "r4" | nm => "nm"

def ofTok? (s : String) : Option AddrClass :=
  [g4, l4, k4, u4, g6, l6, k6, s6, c6, u6, x4, x6, r4, nm].find? (fun c => c.tok == s)

end AddrClass

structure Addr where
  cls : AddrClass
  idx : Nat
  deriving DecidableEq, Repr, Inhabited

def Addr.tok (a : Addr) : String := a.cls.tok ++ "." ++ toString a.idx

def Addr.ofTok? (s : String) : Option Addr :=
  match s.splitOn "." with
  | [c, i] => match AddrClass.ofTok? c, i.toNat? with
    | some c, some i => some ⟨c, i⟩
    | _, _ => none
  | _ => none

/-- the wildcard address of a family (`0.0.0.0` / `::`) -/
def unspec (v6 : Bool) : Addr := if v6 then ⟨.u6, 0⟩ else ⟨.u4, 0⟩

structure Iface where
  name : Nat
  up : Bool
  loopback : Bool
  addrs : List Addr
  deriving Repr, Inhabited

inductive NetType where
  | udp4 | udp6 | tcp4 | tcp6
  deriving DecidableEq, Repr, Inhabited

namespace NetType
def isTCP : NetType → Bool | tcp4 | tcp6 => true | _ => false
def is6 : NetType → Bool | udp6 | tcp6 => true | _ => false
def tok : NetType → String | udp4 => "u4" | udp6 => "u6" | tcp4 => "t4" | tcp6 => "t6"
def ofTok? (s : String) : Option NetType := [udp4, udp6, tcp4, tcp6].find? (fun c => c.tok == s)
/-- `determineNetworkType(network, ip)` -/
def ofTransport (tcp v6 : Bool) : NetType :=
  if tcp then (if v6 then tcp6 else tcp4) else (if v6 then udp6 else udp4)
end NetType

inductive CandType where
  | host | srflx | relay
  deriving DecidableEq, Repr, Inhabited

def CandType.tok : CandType → String | .host => "h" | .srflx => "s" | .relay => "r"

/-- shape of the address-rewrite rule of one candidate type (the rule set the harness can install) -/
inductive Rewrite where
  | none   -- no rule
  | drop   -- replace mode, no usable external address for IPv4 locals ("drop the candidate")
  | rep    -- replace mode, one external address
  | rep2   -- replace mode, two external addresses
  | app    -- append mode, one external address
  deriving DecidableEq, Repr, Inhabited

/-- ONE host address-rewrite rule (`AddressRewriteRule{AsCandidateType: host}`) of the shapes the harness
installs: replace / append mode; catch-all (`pin = none`) or pinned to one local address (`Local:`);
optionally scoped to one interface (`Iface:`); 1..n external addresses in declaration order. The general
precedence among several rules is C19's subject (`IceModel/Rewrite.lean`, concrete numeric addresses); the
gatherer only consumes the result of the lookup, which for a single rule is `HostRule.lookup` below. -/
structure HostRule where
  replace : Bool := true
  pin : Option Addr := none
  iface : Option Nat := none
  exts : List Addr := []
  deriving DecidableEq, Repr, Inhabited

structure Config where
  candTypes : List CandType := []
  /-- as given; empty means "all" -/
  netTypes : List NetType := []
  portMin : Nat := 0
  portMax : Nat := 0
  /-- `some rejected` = an interface filter is installed and rejects these names -/
  ifFilter : Option (List Nat) := none
  ipFilter : Option (List Addr) := none
  includeLoopback : Bool := false
  /-- mDNS mode QueryAndGather -/
  mdnsGather : Bool := false
  /-- listen addresses of the UDP mux (all on port 7000) -/
  udpMux : Option (List Addr) := none
  /-- `some none` = TCP mux bound to the unspecified address -/
  tcpMux : Option (Option Addr) := none
  srflxMux : Option (List Addr) := none
  stunUrls : Nat := 0
  turnUrls : Nat := 0
  /-- per TURN URL, in order: 0 = username and password given, 1 = empty username, 2 = empty password (missing
  entries = 0). `gatherCandidatesRelay` returns at the first TURN URL without credentials: the URLs after it are
  never tried, the allocations already started are still waited for (`defer wg.Wait()`). Server reflexive gathering
  over the same URLs does not look at credentials. -/
  turnCreds : List Nat := []
  /-- ports that are taken by somebody else -/
  busy : List (Addr × Nat) := []
  /-- 0 = TURN client works, 1 = factory fails, 2 = `Listen` fails -/
  turnFail : Nat := 0
  relayRewrite : Rewrite := .none
  srflxRewrite : Rewrite := .none
  /-- a srflx rule PINNED to the local wildcard address `0.0.0.0` (`Local: "0.0.0.0"`): (replace mode?,
  external addresses in order). External addresses of a pinned rule map to that local address
  regardless of their family; link-local IPv6 externals are turned away by the location filter.
  Used instead of `srflxRewrite` (which stays `.none`). -/
  srflxPinned : Option (Bool × List Addr) := none
  /-- the host rewrite rule, if any -/
  hostRule : Option HostRule := none
  /-- the fake UDP mux parks `GetListenAddresses` until `release` -/
  hold : Bool := false
  /-- `WithContinualGatheringPolicy(GatherContinually)`: after the first pass the cycle does not complete; a monitor
  goroutine polls the interface table every `monIntervalMs` and re-gathers when an address appeared -/
  continual : Bool := false
  /-- `WithNetworkMonitorInterval` in ms; 0 = option not given (default 2 s) -/
  monIntervalMs : Nat := 0
  /-- which of the findings C18-G1 … G5, G8, G9 (numbered 1–5, 8, 9), C18-G10 (10: `lastKnownInterfaces` is recorded AFTER
  the first pass and MERGED into the map of earlier cycles) and C09-G11 (11: Close does not wait for a re-gather pass of the
  monitor) the code under test still HAS (detected by canary sessions of the harness); the empty list is the repaired
  code, about which the theorems speak -/
  quirks : List Nat := []
  deriving Repr, Inhabited

def Config.has (cfg : Config) (q : Nat) : Bool := cfg.quirks.contains q

/-- `networkMonitorInterval` in ms -/
def Config.monInterval (cfg : Config) : Nat := if cfg.monIntervalMs == 0 then 2000 else cfg.monIntervalMs

/-- `nm` is not an address: it never occurs in an interface table or as a mux listen address -/
def realAddrs (cfg : Config) (ifs : List Iface) : Bool :=
  (ifs.all fun i => i.addrs.all (fun a => a.cls != .nm)) && ((cfg.udpMux.getD []).all (fun a => a.cls != .nm))
  && (((cfg.srflxPinned.map (·.2)).getD []).all (fun a => a.cls != .nm))
  && (((cfg.hostRule.map (·.exts)).getD []).all (fun a => a.cls != .nm))

def allNetTypes : List NetType := [.udp4, .udp6, .tcp4, .tcp6]

/-- `configuredNetworkTypes` (after `sanitizeTransportNetworkTypes`, which removes duplicates) -/
def configured (nts : List NetType) : List NetType :=
  if nts.isEmpty then allNetTypes else nts.eraseDups

/-! ## 2. `localInterfaces` and the expected candidate set -/

def v4Requested (nts : List NetType) : Bool := nts.isEmpty || nts.any (fun t => !t.is6)
def v6Requested (nts : List NetType) : Bool := nts.isEmpty || nts.any (fun t => t.is6)

def ifFilterAccepts (cfg : Config) (name : Nat) : Bool :=
  match cfg.ifFilter with
  | none => true
  | some rej => !rej.contains name

def ipFilterAccepts (cfg : Config) (a : Addr) : Bool :=
  match cfg.ipFilter with
  | none => true
  | some rej => !rej.contains a

/-- the per-interface test of `localInterfaces` -/
def ifaceAccepted (cfg : Config) (i : Iface) : Bool :=
  i.up && !(i.loopback && !cfg.includeLoopback) && ifFilterAccepts cfg i.name

/-- the per-address test of `localInterfaces` (network types select IP FAMILIES only) -/
def addrAccepted (cfg : Config) (nts : List NetType) (a : Addr) : Bool :=
  !(a.cls.isLoopback && !cfg.includeLoopback)
  && (if a.cls.is6 then v6Requested nts && a.cls.supported6 else v4Requested nts)
  && ipFilterAccepts cfg a

/-- `localInterfaces(net, interfaceFilter, ipFilter, networkTypes, includeLoopback)`: (address, interface) -/
def localAddrs (cfg : Config) (nts : List NetType) (ifs : List Iface) : List (Addr × Nat) :=
  ifs.flatMap fun i =>
    if ifaceAccepted cfg i then (i.addrs.filter (addrAccepted cfg nts)).map (fun a => (a, i.name)) else []

/-- how the candidate's port relates to the configuration -/
inductive PFlag where
  | r    -- inside the configured port range
  | e    -- ephemeral, no range configured
  | o    -- outside the configured range (never produced by the model)
  | M    -- the port of a configured mux
  | na   -- not applicable (relay)
  deriving DecidableEq, Repr, Inhabited

def PFlag.tok : PFlag → String | .r => "r" | .e => "e" | .o => "o" | .M => "M" | .na => "-"

/-- a candidate as the agent would publish it (`hidden` = location tracked: started, never published) -/
structure CandD where
  ty : CandType
  net : NetType
  /-- the IP the candidate resolves to -/
  addr : Addr
  /-- `Address()` is the mDNS name instead of the IP -/
  mdns : Bool := false
  /-- host: its port; srflx: the port of its base -/
  pflag : PFlag := .e
  /-- related address (srflx, relay) -/
  base : Option Addr := none
  hidden : Bool := false
  /-- the zone of an IPv6 link-local interface address (= its interface): part of the candidate's address literal -/
  zone : Option Nat := none
  /-- the candidate knows its own transport address (`addrPort().IsValid()`): every candidate the gatherers of the
  repaired code start does; only an OBSERVED candidate can lack it -/
  resolved : Bool := true
  deriving DecidableEq, Repr, Inhabited

inductive UKind where
  | hostUdp | hostTcp | hostMux | srflx | srflxMux | srflxMapped | relay
  deriving DecidableEq, Repr, Inhabited

/-- one gatherer unit = one iteration / goroutine of a per-type gatherer that acquires resources -/
structure GUnit where
  kind : UKind
  net : NetType
  /-- address the unit binds / the mux listen address it uses -/
  bind : Addr
  /-- URL index (STUN k ↦ k, TURN k ↦ 50+k) -/
  url : Nat := 0
  /-- number of candidate addresses the unit produces (relay, srflx-mapped) -/
  n : Nat := 1
  /-- host units: the address the candidate PUBLISHES (the socket stays on `bind`); differs from `bind`
  only when a host rewrite rule maps `bind` -/
  mapped : Addr := bind
  /-- host units gathered from the interface table: the interface `bind` was seen on -/
  ifc : Nat := 0
  deriving DecidableEq, Repr, Inhabited

/-- `findExternalIPs(host, l, iface)` for the single rule: `none` = not matched. `ifc = none` is the lookup
without an interface name (UDP mux path), which an interface-scoped rule never matches. A pinned rule maps
all its external addresses (of either family) to its local address; a catch-all maps a local address to the
external addresses of the local address's family and matches only if there is one. -/
def HostRule.lookup (r : HostRule) (l : Addr) (ifc : Option Nat) : Option (List Addr) :=
  if r.iface.isSome && r.iface != ifc then none
  else match r.pin with
    | some p => if l == p then some r.exts else none
    | none =>
      let es := r.exts.filter (fun e => e.cls.is6 == l.cls.is6)
      if es.isEmpty then none else some es

/-- `shouldRewriteHostCandidates` + `applyHostAddressRewrite(addr, [addr], iface)`: the addresses published
for interface address `a`. The literal of an IPv6 link-local interface address carries its zone, the lookup
fails on it and the address is kept. -/
def hostMapped (cfg : Config) (a : Addr) (ifc : Nat) : List Addr :=
  if cfg.mdnsGather then [a] else
  match cfg.hostRule with
  | none => [a]
  | some r =>
    if a.cls.isLinkLocal6 then [a] else
    match r.lookup a (some ifc) with
    | none => [a]
    | some es => (if r.replace then [] else [a]) ++ es

/-- `applyHostRewriteForUDPMux`: the addresses published for mux listen address `a` (no interface name, no zone) -/
def muxMapped (cfg : Config) (a : Addr) : List Addr :=
  if cfg.mdnsGather then [a] else
  match cfg.hostRule with
  | none => [a]
  | some r =>
    match r.lookup a none with
    | none => [a]
    | some es => (if r.replace then [] else [a]) ++ es

/-- C18-G8 fix: the RFC 8445 §5.1.1.1 exclusions (site-local, `::/96`) also apply to the address a host
candidate publishes after rewriting (quirk 8 = the code without that guard) -/
def hostPubOk (cfg : Config) (m : Addr) : Bool := !m.cls.is6 || m.cls.supported6 || cfg.has 8

/-- `hostNetworkTypeEnabled` (G1/G2): the candidate's own network type must be configured -/
def hostNetEnabled (nts : List NetType) (tcp : Bool) (a : Addr) : Bool :=
  nts.contains (NetType.ofTransport tcp a.cls.is6)

/-- TCP host candidates are only produced for addresses the mux listener is bound to -/
def tcpMuxAccepts (cfg : Config) (a : Addr) : Bool :=
  match cfg.tcpMux with
  | none => false
  | some none => true
  | some (some m) => m.cls.isUnspecified || m == a

/-- units of `gatherCandidatesLocal` that come from the interface table (UDP sockets, TCP mux) -/
def hostIfaceUnits (cfg : Config) (ifs : List Iface) : List GUnit :=
  let nts := configured cfg.netTypes
  let hasTcp := nts.any (·.isTCP)
  let hasUdp := nts.any (fun t => !t.isTCP) && cfg.udpMux.isNone
  (localAddrs cfg nts ifs).flatMap fun (a, ifc) =>
    (hostMapped cfg a ifc).flatMap fun m =>
      (if hasTcp && (hostNetEnabled nts true m || cfg.has 1) && hostPubOk cfg m && tcpMuxAccepts cfg a
        then [{ kind := .hostTcp, net := NetType.ofTransport true m.cls.is6, bind := a, mapped := m, ifc := ifc : GUnit }] else [])
      ++ (if hasUdp && (hostNetEnabled nts false m || cfg.has 1) && hostPubOk cfg m
        then [{ kind := .hostUdp, net := NetType.ofTransport false m.cls.is6, bind := a, mapped := m, ifc := ifc : GUnit }] else [])

/-- units of `gatherCandidatesLocalUDPMux` before the duplicate-configuration test -/
def hostMuxUnits (cfg : Config) : List GUnit :=
  match cfg.udpMux with
  | none => []
  | some addrs =>
    addrs.flatMap fun a =>
      ((muxMapped cfg a).filter (fun m => (hostNetEnabled (configured cfg.netTypes) false m || cfg.has 2)
        -- G5: the RFC 8445 §5.1.1.1 exclusions also apply to mux listen addresses (and what they are mapped to)
        && (!m.cls.is6 || m.cls.supported6 || cfg.has 5))).map fun m =>
      { kind := .hostMux, net := NetType.ofTransport false m.cls.is6, bind := a, mapped := m }

/-- STUN-capable URLs: `stun:` URLs, then UDP `turn:` URLs (`urlSupportsSrflxGathering`) -/
def srflxUrls (cfg : Config) : List Nat :=
  (List.range cfg.stunUrls) ++ (List.range cfg.turnUrls).map (· + 50)

def useFilteredLocalAddrs (cfg : Config) : Bool := cfg.ifFilter.isSome || cfg.ipFilter.isSome

def udpTypes (nts : List NetType) : List NetType := nts.filter (fun t => !t.isTCP)

/-- `replaceSrflx`: a replace-mode srflx rule suppresses STUN gathering -/
def srflxReplaced (cfg : Config) : Bool :=
  cfg.srflxRewrite == .drop || cfg.srflxRewrite == .rep || cfg.srflxRewrite == .rep2
  || (cfg.srflxPinned.map (·.1)).getD false

/-- units of `gatherCandidatesSrflx` (own sockets) -/
def srflxUnits (cfg : Config) (ifs : List Iface) : List GUnit :=
  let nts := configured cfg.netTypes
  (udpTypes nts).flatMap fun nt =>
    (srflxUrls cfg).flatMap fun u =>
      if useFilteredLocalAddrs cfg then
        ((localAddrs cfg nts ifs).filter (fun (a, _) => a.cls.is6 == nt.is6)).map fun (a, _) =>
          { kind := .srflx, net := nt, bind := a, url := u }
      else [{ kind := .srflx, net := nt, bind := unspec nt.is6, url := u }]

/-- units of `gatherCandidatesSrflxUDPMux` -/
def srflxMuxUnits (cfg : Config) : List GUnit :=
  match cfg.srflxMux with
  | none => []
  | some addrs =>
    (udpTypes (configured cfg.netTypes)).flatMap fun nt =>
      (srflxUrls cfg).flatMap fun u =>
        addrs.map fun a => { kind := .srflxMux, net := nt, bind := a, url := u }

/-- mapped addresses of `resolveSrflxAddresses` for local address `l`: the rules of the harness are
IPv4 catch-alls, an IPv6 local address is not matched and is kept as is. -/
def srflxMappedAddrs (cfg : Config) (l : Addr) : Option (List Addr) :=
  match cfg.srflxPinned with
  | some (_, exts) =>
    -- explicit `Local` match wins; any other local address is not matched and is kept as is
    if l == unspec false && !exts.isEmpty then some exts else some [l]
  | none =>
  if l.cls.is6 then some [l] else
  match cfg.srflxRewrite with
  | .none => some [l]
  | .drop => none
  | .rep | .app => some [⟨.x4, 80⟩]
  | .rep2 => some [⟨.x4, 80⟩, ⟨.x4, 81⟩]

/-- units of `gatherCandidatesSrflxMapped`: the wildcard address of each UDP network type, or (G4) with
filters installed every accepted local address of the family -/
def srflxMappedUnits (cfg : Config) (ifs : List Iface) : List GUnit :=
  if cfg.srflxRewrite == .none && cfg.srflxPinned.isNone then [] else
  let nts := configured cfg.netTypes
  (udpTypes nts).flatMap fun nt =>
    let binds := if useFilteredLocalAddrs cfg && !cfg.has 4
      then ((localAddrs cfg nts ifs).filter (fun (a, _) => a.cls.is6 == nt.is6)).map (·.1)
      else [unspec nt.is6]
    binds.map fun b =>
      { kind := .srflxMapped, net := nt, bind := b, n := ((srflxMappedAddrs cfg b).getD []).length }

/-- addresses of `resolveRelayAddresses` for relayed address `r4.m` -/
def relayAddrs (cfg : Config) (m : Nat) : Option (List Addr) :=
  match cfg.relayRewrite with
  | .none => some [⟨.r4, m⟩]
  | .drop => none
  | .rep | .rep2 => some [⟨.x4, 90⟩]
  | .app => some [⟨.r4, m⟩, ⟨.x4, 90⟩]

def relayN (cfg : Config) : Nat := ((relayAddrs cfg 0).getD []).length

/-- number of TURN URLs `gatherCandidatesRelay` gets to: those before the first one that lacks a username or a password -/
def turnUsable (cfg : Config) : Nat :=
  ((List.range cfg.turnUrls).takeWhile (fun k => cfg.turnCreds.getD k 0 == 0)).length

/-- units of `gatherCandidatesRelay` (UDP TURN URLs; IPv6 TURN is skipped by the code) -/
def relayUnits (cfg : Config) (ifs : List Iface) : List GUnit :=
  let la := localAddrs cfg cfg.netTypes ifs
  if useFilteredLocalAddrs cfg && la.isEmpty then [] else
  if (udpTypes (configured cfg.netTypes)).isEmpty then [] else
  (List.range (turnUsable cfg)).flatMap fun k =>
    if useFilteredLocalAddrs cfg then
      (la.filter (fun (a, _) => !a.cls.is6)).map fun (a, _) =>
        { kind := .relay, net := .udp4, bind := a, url := k, n := relayN cfg }
    else [{ kind := .relay, net := .udp4, bind := unspec false, url := k, n := relayN cfg }]

/-- the units of one gathering cycle, per configured candidate type, in the order of `candidateTypes`
(host units that need the UDP mux are produced separately: they depend on the duplicate test) -/
def srflxAllUnits (cfg : Config) (ifs : List Iface) : List GUnit :=
  (if srflxReplaced cfg then [] else
    if cfg.srflxMux.isSome then srflxMuxUnits cfg else srflxUnits cfg ifs)
  ++ srflxMappedUnits cfg ifs

/-- effective port range of `listenUDPInPortRange`; `none` = no range configured -/
def portRange (cfg : Config) : Option (Nat × Nat) :=
  if cfg.portMin == 0 && cfg.portMax == 0 then none
  else some (if cfg.portMin == 0 then 1024 else cfg.portMin, if cfg.portMax == 0 then 65535 else cfg.portMax)

/-- port flag of a socket opened through `listenUDPInPortRange`: the scan only tries ports of the range -/
def ownPortFlag (cfg : Config) : PFlag := if (portRange cfg).isSome then .r else .e

/-- host candidates: the address of the SOCKET, recorded only when the candidate publishes another one -/
def GUnit.sockBase (u : GUnit) : Option Addr := if u.mapped == u.bind then none else some u.bind

/-- the literal of an IPv6 link-local INTERFACE address carries its interface as zone (an external address of a
host rule, and a mux listen address, have none) -/
def GUnit.zone (u : GUnit) : Option Nat := if u.mapped == u.bind && u.bind.cls.isLinkLocal6 then some u.ifc else none

/-- the candidate a unit adds for its `ci`-th address, given the value `m` of the server's reply -/
def unitCand (cfg : Config) (u : GUnit) (ci : Nat) (m : Nat) : CandD :=
  let pf : PFlag := ownPortFlag cfg
  match u.kind with
  | .hostUdp => { ty := .host, net := u.net, addr := u.mapped, mdns := cfg.mdnsGather, pflag := pf,
                  base := u.sockBase, hidden := !cfg.mdnsGather && u.mapped.cls.isLinkLocal6, zone := u.zone }
  | .hostTcp => { ty := .host, net := u.net, addr := u.mapped, mdns := cfg.mdnsGather, pflag := .M,
                  base := u.sockBase, hidden := !cfg.mdnsGather && u.mapped.cls.isLinkLocal6, zone := u.zone }
  | .hostMux =>
    -- mDNS gather mode (after the fix of F34): announced under the mDNS name, but `setIPAddr(listen address)` gives the
    -- candidate the network type and the transport address of the listen address (a link-local one is hidden by the name)
    if cfg.mdnsGather then { ty := .host, net := u.net, addr := u.mapped, mdns := true, pflag := .M }
    else { ty := .host, net := u.net, addr := u.mapped, pflag := .M, base := u.sockBase,
           -- C18-G9 (quirk 9): the mux path tests the 16-byte form of an IPv4 external address, which for
           -- 169.254/16 counts as "IPv6 link-local": started, never published
           hidden := u.mapped.cls.isLinkLocal6 || (cfg.has 9 && u.mapped.cls == .k4 && u.mapped != u.bind) }
  | .srflx => { ty := .srflx, net := u.net, addr := ⟨if u.net.is6 then .x6 else .x4, m⟩, pflag := pf,
                base := some u.bind }
  | .srflxMux => { ty := .srflx, net := u.net, addr := ⟨if u.net.is6 then .x6 else .x4, m⟩, pflag := .M,
                   base := some u.bind }
  | .srflxMapped =>
    -- `determineNetworkType(network, mappedIP)`: the family is the mapped address's
    { ty := .srflx, net := NetType.ofTransport false ((((srflxMappedAddrs cfg u.bind).getD [])[ci]?).getD u.bind).cls.is6,
      addr := (((srflxMappedAddrs cfg u.bind).getD [])[ci]?).getD u.bind,
      pflag := pf, base := some u.bind }
  | .relay => { ty := .relay, net := .udp4, addr := (((relayAddrs cfg m).getD [])[ci]?).getD ⟨.r4, m⟩,
                pflag := .na, base := some u.bind }

/-- every gather unit of a cycle, per enabled candidate type -/
def allUnits (cfg : Config) (ifs : List Iface) : List GUnit :=
  (if cfg.candTypes.contains .host then hostMuxUnits cfg ++ hostIfaceUnits cfg ifs else [])
  ++ (if cfg.candTypes.contains .srflx then srflxAllUnits cfg ifs else [])
  ++ (if cfg.candTypes.contains .relay then relayUnits cfg ifs else [])

/-- guards on the way to `addCandidate` that do not depend on the schedule: G3 (a relay candidate of a
disabled network type is refused), the location filter on mapped / relayed addresses and the network-type
test on mapped addresses (the `filter` / `netType` steps of the unit's program have already turned such
an address away) -/
def publishable (cfg : Config) (d : CandD) : Bool :=
  (d.ty != .relay || (configured cfg.netTypes).contains d.net || cfg.has 3)
  && (d.ty == .host || !d.addr.cls.isLinkLocal6)
  -- a server reflexive candidate of a disabled network type is turned away (`netType` step, C18-G6 fix)
  && (d.ty != .srflx || (configured cfg.netTypes).contains d.net)
  -- … and one on an excluded IPv6 address too (`supported6` step, C18-G7 fix)
  && (d.ty != .srflx || !d.addr.cls.is6 || d.addr.cls.supported6)

/-! ## 3. The gathering-cycle state machine

Granularity: one transition per agent task (tasks are serialised by the task loop), plus the two
halves of `addCandidate` — the context check made by the gather goroutine (`addCheck`) and the task
that starts the candidate (`addHandoff`) — so that a `Restart` can fall between them.  `recheck` says
whether the task re-checks the cycle's context (it does not in the code as it stands: S5).

CONTINUAL GATHERING (`State.continual`, fixed at construction): when the first pass of a live cycle is over
(`complete c`), `gatherCandidates` does NOT set Complete and delivers no nil candidate; it starts the monitor
(`Cyc.monitoring`). `tick c` = the monitor's `select` returns: on the cycle's cancelled context (Restart, a
later GatherCandidates, Close) the monitor ends (`finished`); on the ticker, when `detectNetworkChanges` saw a
new address, a re-gather pass of THE SAME cycle begins (`Out.regather`) — its `addCandidate` calls are the
same `addCheck` / `addHandoff` events, under the same context. -/
namespace Cycle

inductive GS where
  | new | gathering | complete
  deriving DecidableEq, Repr, Inhabited

structure Cyc where
  /-- generation (number of Restarts) at the time `GatherCandidates` accepted the cycle -/
  gen : Nat
  cancelled : Bool := false
  /-- `setGatheringState(Gathering)` was applied -/
  applied : Bool := false
  /-- the cycle's goroutine has ended -/
  finished : Bool := false
  /-- `addCandidate` calls that passed the context check and have not yet been handed to the loop -/
  inWindow : Nat := 0
  /-- continual gathering: the first pass is over, `startNetworkMonitoring` runs -/
  monitoring : Bool := false
  deriving DecidableEq, Repr, Inhabited

inductive Out where
  | accepted (cyc gen : Nat)
  | refused
  | closedErr
  | stateSet (cyc : Nat) (gs : GS)
  /-- a candidate of cycle `cyc` (accepted in generation `cycGen`) was started and published while
  the agent was in generation `intoGen` -/
  | published (cyc cycGen intoGen : Nat)
  | addFailed (cyc : Nat)
  | nilCand (cyc gen : Nat)
  | restarted (gen : Nat)
  /-- continual gathering: the first pass of cycle `cyc` is over, its monitor starts -/
  | monitorStarted (cyc : Nat)
  /-- the monitor of cycle `cyc` (accepted in generation `gen`) begins a re-gather pass -/
  | regather (cyc gen : Nat)
  deriving DecidableEq, Repr, Inhabited

structure State where
  gs : GS := .new
  gen : Nat := 0
  closed : Bool := false
  cycles : List Cyc := []
  /-- `continualGatheringPolicy == GatherContinually` -/
  continual : Bool := false
  deriving Repr, Inhabited

inductive Ev where
  | gather
  | start (c : Nat)
  | addCheck (c : Nat)
  | addHandoff (c : Nat)
  | addAbort (c : Nat)
  | complete (c : Nat)
  | restart
  | close
  /-- the `select` of the monitor of cycle `c` returns (context cancelled, or a tick that found a new address) -/
  | tick (c : Nat)
  deriving DecidableEq, Repr, Inhabited

def modify (s : State) (c : Nat) (f : Cyc → Cyc) : State :=
  { s with cycles := s.cycles.modify c f }

def cancelAll (cs : List Cyc) : List Cyc := cs.map fun c => { c with cancelled := true }

def step (recheck : Bool) (s : State) : Ev → State × List Out
  | .gather =>
    if s.closed then (s, [.closedErr])
    else if s.gs != .new then (s, [.refused])
    else
      -- `a.gatherCandidateCancel()` of the previous cycle, then a fresh context
      ({ s with cycles := cancelAll s.cycles ++ [{ gen := s.gen }] }, [.accepted s.cycles.length s.gen])
  | .start c =>
    match s.cycles[c]? with
    | none => (s, [])
    | some cy =>
      if cy.applied || cy.finished then (s, [])
      else if s.closed || cy.cancelled then (modify s c fun y => { y with finished := true }, [])
      else ({ modify s c (fun y => { y with applied := true }) with gs := .gathering }, [.stateSet c .gathering])
  | .addCheck c =>
    match s.cycles[c]? with
    | none => (s, [])
    | some cy =>
      if !cy.applied || cy.finished then (s, [])
      else if s.closed || cy.cancelled then (s, [.addFailed c])
      else (modify s c fun y => { y with inWindow := y.inWindow + 1 }, [])
  | .addHandoff c =>
    match s.cycles[c]? with
    | none => (s, [])
    | some cy =>
      if cy.inWindow == 0 then (s, [])
      else
        let s' := modify s c fun y => { y with inWindow := y.inWindow - 1 }
        if s.closed || (recheck && cy.cancelled) then (s', [.addFailed c])
        else (s', [.published c cy.gen s.gen])
  | .addAbort c =>
    match s.cycles[c]? with
    | none => (s, [])
    | some cy =>
      -- `loop.Run` may also return the context's error when the context is cancelled
      if cy.inWindow == 0 || !(cy.cancelled || s.closed) then (s, [])
      else (modify s c fun y => { y with inWindow := y.inWindow - 1 }, [.addFailed c])
  | .complete c =>
    match s.cycles[c]? with
    | none => (s, [])
    | some cy =>
      if !cy.applied || cy.finished || cy.inWindow != 0 || cy.monitoring then (s, [])
      else if s.closed || cy.cancelled then (modify s c fun y => { y with finished := true }, [])
      else if s.continual then
        -- GatherContinually: no Complete, no nil candidate; the monitor starts
        (modify s c fun y => { y with monitoring := true }, [.monitorStarted c])
      else
        ({ modify s c (fun y => { y with finished := true }) with gs := .complete },
          (if s.gs != .complete then [.nilCand c cy.gen] else []) ++ [.stateSet c .complete])
  | .restart =>
    if s.closed then (s, [.closedErr])
    else ({ s with cycles := cancelAll s.cycles, gs := .new, gen := s.gen + 1 }, [.restarted (s.gen + 1)])
  | .close =>
    ({ s with closed := true, cycles := cancelAll s.cycles }, [])
  | .tick c =>
    match s.cycles[c]? with
    | none => (s, [])
    | some cy =>
      if !cy.monitoring || cy.finished || !cy.applied || !s.continual then (s, [])
      -- `<-ctx.Done()`: the monitor of a cancelled cycle (or of a closed agent) ends
      else if s.closed || cy.cancelled then (modify s c fun y => { y with finished := true }, [])
      -- `<-ticker.C` with a new address: `gatherCandidatesInternal(ctx)` once more, under the cycle's context
      else (s, [.regather c cy.gen])

def run (recheck : Bool) : State → List Ev → State × List Out
  | s, [] => (s, [])
  | s, e :: es =>
    let (s1, o1) := step recheck s e
    let (s2, o2) := run recheck s1 es
    (s2, o1 ++ o2)

end Cycle

/-! ## 4. Resource programs and the ownership ledger -/

inductive Kind where
  | sock | umux | tmux | smux | tclient | alloc
  deriving DecidableEq, Repr, Inhabited

def Kind.tok : Kind → String
  | .sock => "sk" | .umux => "um" | .tmux => "tm" | .smux => "sm" | .tclient => "tc" | .alloc => "al"

def Kind.all : List Kind := [.sock, .umux, .tmux, .smux, .tclient, .alloc]

/-- labels of the fallible steps (which call of the Go source the step stands for) -/
inductive Lbl where
  | resolve      -- ResolveUDPAddr / location filter on the server address
  | listen       -- listenUDPInPortRange / ListenPacket
  | getConn      -- mux GetConn / GetConnByUfrag / GetConnForURL
  | reply        -- the STUN answer (GetXORMappedAddr)
  | newCand      -- NewCandidateHost / NewCandidateServerReflexive (+ setIPAddr)
  | factory      -- turnClientFactory
  | tlisten      -- client.Listen
  | allocate     -- client.Allocate
  | filter       -- shouldFilterLocationTracked on a mapped / relayed address
  | addrs        -- resolveSrflxAddresses / resolveRelayAddresses
  | supported6   -- isSupportedIPv6Partial on an IPv6 mapped address (C18-G7 fix)
  | netType      -- networkTypeEnabled(networkTypes, c.NetworkType()) on a mapped address (C18-G6 fix)
  deriving DecidableEq, Repr, Inhabited

/-- A gatherer as a program over resources.  Slots are numbered in order of acquisition. -/
inductive Prog where
  | ret
  | acquire (l : Lbl) (k : Kind) (ok fail : Prog)
  | step (l : Lbl) (ok fail : Prog)
  | release (slot : Nat) (next : Prog)
  /-- `addCandidate` for the unit's `ci`-th candidate with the listed slots: started (ownership moves to
  the candidate), duplicate (addCandidate itself closes them; the caller continues as for success),
  or failed (cancelled context / closed loop: the caller keeps the slots) -/
  | addCand (ci : Nat) (slots : List Nat) (started failed : Prog)
  deriving Repr, Inhabited

inductive Ans where
  | ok | fail | dup
  deriving DecidableEq, Repr, Inhabited

inductive SlotSt where
  | held
  | released
  | owned (ci : Nat)
  | dupClosed
  deriving DecidableEq, Repr, Inhabited

/-- ledger of one unit: state of each slot, and whether a slot was ever used when not held
(double release, release after transfer, transfer after release, unknown slot) -/
structure Led where
  slots : List SlotSt := []
  misuse : Bool := false
  deriving DecidableEq, Repr, Inhabited

def Led.push (l : Led) : Led := { l with slots := l.slots ++ [.held] }

def Led.set (l : Led) (i : Nat) (to : SlotSt) : Led :=
  match l.slots[i]? with
  | some .held => { l with slots := l.slots.set i to }
  | _ => { l with misuse := true }

def Led.setAll (l : Led) (is : List Nat) (to : SlotSt) : Led := is.foldl (fun l i => l.set i to) l

/-- ledger semantics: run the program on a sequence of answers; `none` = the answers ran out before the
program returned (the goroutine is still running) -/
def Prog.run : Prog → List Ans → Led → Option Led
  | .ret, _, l => some l
  | .acquire _ _ ok fail, a :: as, l => if a == .ok then ok.run as l.push else fail.run as l
  | .step _ ok fail, a :: as, l => if a == .ok then ok.run as l else fail.run as l
  | .release i next, as, l => next.run as (l.set i .released)
  | .addCand ci is st fl, a :: as, l =>
    match a with
    | .ok => st.run as (l.setAll is (.owned ci))
    | .dup => st.run as (l.setAll is .dupClosed)
    | .fail => fl.run as l
  | _, [], _ => none

/-- a finished unit is balanced: nothing is still held and no slot was misused -/
def Led.balanced (l : Led) : Bool := !l.misuse && l.slots.all (· != .held)

/-- checker: every path of the program ends balanced -/
def Prog.ok : Prog → Led → Bool
  | .ret, l => l.balanced
  | .acquire _ _ a b, l => a.ok l.push && b.ok l
  | .step _ a b, l => a.ok l && b.ok l
  | .release i n, l => n.ok (l.set i .released)
  | .addCand ci is st fl, l => st.ok (l.setAll is (.owned ci)) && st.ok (l.setAll is .dupClosed) && fl.ok l

/-- no step of the program waits for a reply (STUN answer, TURN allocation) -/
def Prog.parkFree : Prog → Bool
  | .ret => true
  | .acquire l _ a b => l != .allocate && a.parkFree && b.parkFree
  | .step l a b => l != .reply && a.parkFree && b.parkFree
  | .release _ n => n.parkFree
  | .addCand _ _ st fl => st.parkFree && fl.parkFree

/-- the program is waiting for a reply, and nothing after the reply waits again -/
def Prog.parked : Prog → Bool
  | .acquire .allocate _ a b => a.parkFree && b.parkFree
  | .step .reply a b => a.parkFree && b.parkFree
  | _ => false

/-- every path of the program waits for at most one reply -/
def Prog.onePark : Prog → Bool
  | .ret => true
  | .acquire l _ a b => if l == .allocate then a.parkFree && b.parkFree else a.onePark && b.onePark
  | .step l a b => if l == .reply then a.parkFree && b.parkFree else a.onePark && b.onePark
  | .release _ n => n.onePark
  | .addCand _ _ st fl => st.onePark && fl.onePark

/-! ### The gatherers of gather.go as programs (fixed tree) -/

/-- `gatherCandidatesLocal`, UDP branch, one address -/
def hostUdpProg : Prog :=
  .acquire .listen .sock
    (.step .newCand (.addCand 0 [0] .ret (.release 0 .ret)) (.release 0 .ret))
    .ret

/-- `gatherCandidatesLocal`, TCP branch (single `TCPMux`), one address -/
def hostTcpProg : Prog :=
  .acquire .getConn .tmux
    (.step .newCand (.addCand 0 [0] .ret (.release 0 .ret)) (.release 0 .ret))
    .ret

/-- `gatherCandidatesLocalUDPMux`, one listen address -/
def hostMuxProg : Prog :=
  .acquire .getConn .umux
    (.step .newCand (.addCand 0 [0] .ret (.release 0 .ret)) (.release 0 .ret))
    .ret

/-- `gatherCandidatesSrflx`, one `gatherForURL` goroutine (with the F6 repair) -/
def srflxProg : Prog :=
  .step .resolve
    (.acquire .listen .sock
      (.step .reply
        (.step .newCand (.addCand 0 [0] .ret (.release 0 .ret)) (.release 0 .ret))
        (.release 0 .ret))
      .ret)
    .ret

/-- the same goroutine before the F6 repair: the `addCandidate` failure path forgets the socket -/
def srflxProgF6 : Prog :=
  .step .resolve
    (.acquire .listen .sock
      (.step .reply
        (.step .newCand (.addCand 0 [0] .ret .ret) (.release 0 .ret))
        (.release 0 .ret))
      .ret)
    .ret

/-- `gatherCandidatesSrflxUDPMux`, one goroutine -/
def srflxMuxProg : Prog :=
  .step .resolve
    (.step .reply
      (.acquire .getConn .smux
        (.step .newCand (.addCand 0 [0] .ret (.release 0 .ret)) (.release 0 .ret))
        .ret)
      .ret)
    .ret

/-- body of the loop of `gatherCandidatesSrflxMapped` for mapped address number `i` (`i` is also the slot
of its socket) when `k` addresses follow -/
def mappedLoop : (i k : Nat) → Prog
  | _, 0 => .ret
  | i, k + 1 =>
    let body : Prog :=
      .step .filter
        (.step .supported6
          (.step .newCand
            (.step .netType
              (.addCand i [i] (mappedLoop (i + 1) k) (.release i (mappedLoop (i + 1) k)))
              (.release i (mappedLoop (i + 1) k)))
            (.release i (mappedLoop (i + 1) k)))
          (.release i (mappedLoop (i + 1) k)))
        (.release i (mappedLoop (i + 1) k))
    if i == 0 then body else .acquire .listen .sock body .ret

/-- `gatherCandidatesSrflxMapped`, one goroutine producing `n` mapped addresses -/
def srflxMappedProg (n : Nat) : Prog :=
  .acquire .listen .sock
    (.step .addrs (mappedLoop 0 n) (.release 0 .ret))
    .ret

/-- additional relay candidates (`idx > 0`) borrow the relay connection and own nothing -/
def borrowLoop : (i k : Nat) → Prog
  | _, 0 => .ret
  | i, k + 1 => .addCand i [] (borrowLoop (i + 1) k) (borrowLoop (i + 1) k)

/-- tail of the relay goroutine from `resolveRelayAddresses` on; `f10` = with the F10 repair -/
def relayTail (f10 : Bool) (n : Nat) : Prog :=
  .step .addrs
    (.addCand 0 [0, 1, 2] (borrowLoop 1 (n - 1))
      -- createRelayCandidate: candidate.close() runs onClose (TURN client, local socket); then closeConn
      (.release 1 (.release 0 (.release 2 .ret))))
    (if f10 then .release 2 (.release 1 (.release 0 .ret)) else .ret)

/-- `gatherCandidatesRelay`, one goroutine (UDP TURN), slots: 0 local socket, 1 TURN client, 2 allocation -/
def relayProgWith (f10 : Bool) (n : Nat) : Prog :=
  .acquire .listen .sock
    (.acquire .factory .tclient
      (.step .tlisten
        (.acquire .allocate .alloc
          (.step .filter (relayTail f10 n) (.release 2 (.release 1 (.release 0 .ret))))
          (.release 1 (.release 0 .ret)))
        (.release 1 (.release 0 .ret)))
      (.release 0 .ret))
    .ret

def relayProg (n : Nat) : Prog := relayProgWith true n

def progOf (u : GUnit) : Prog :=
  match u.kind with
  | .hostUdp => hostUdpProg
  | .hostTcp => hostTcpProg
  | .hostMux => hostMuxProg
  | .srflx => srflxProg
  | .srflxMux => srflxMuxProg
  | .srflxMapped => srflxMappedProg (max 1 u.n)
  | .relay => relayProg u.n

/-! ### Composition: the agent between two quiescent points -/

/-- an open resource -/
structure Res where
  kind : Kind
  /-- generation it is attributed to (sockets: generation when opened; mux handles: generation of
  the ufrag they were requested under; TURN: generation of the local socket) -/
  tag : Nat
  /-- bound address (sockets) -/
  addr : Addr := ⟨.nm, 0⟩
  /-- bound to a port of the configured range -/
  inRange : Bool := false
  deriving DecidableEq, Repr, Inhabited

/-- a started local candidate with the resources it owns -/
structure MCand where
  d : CandD
  gen : Nat
  res : List Res
  deriving Repr, Inhabited

/-- a gatherer unit that has not returned yet -/
structure Job where
  /-- cycle it belongs to (index into `Cycle.State.cycles`) and that cycle's generation -/
  cyc : Nat
  gen : Nat
  unit : GUnit
  /-- what is left to run (the head is the step the unit is parked at) -/
  prog : Prog
  slots : List (Res × SlotSt) := []
  misuse : Bool := false
  /-- virtual time (ms) at which the parked step times out -/
  deadline : Nat := 0
  /-- value carried by the reply (index of the mapped / relayed address) -/
  m : Nat := 0
  /-- answer to give to the step the unit is parked at -/
  answer : Option Ans := none
  deriving Repr, Inhabited

def Job.led (j : Job) : Led := { slots := j.slots.map (·.2), misuse := j.misuse }
def Job.heldRes (j : Job) : List Res := (j.slots.filter (fun p => p.2 == .held)).map (·.1)

/-- `startNetworkMonitoring` of cycle `cyc`: virtual time of the ticker's next tick; `busy` = the goroutine is
inside a re-gather pass (`gatherCandidatesInternal` waits for its gatherers); `buffered` = a tick fired meanwhile
(the ticker's channel holds one, further ones are dropped) -/
structure Mon where
  cyc : Nat
  next : Nat
  busy : Bool := false
  buffered : Bool := false
  deriving DecidableEq, Repr, Inhabited

structure MState where
  cfg : Config := {}
  ifs : List Iface := []
  now : Nat := 0
  cyc : Cycle.State := {}
  cands : List MCand := []
  jobs : List Job := []
  /-- cycles whose host gatherer is parked at the gate of the fake mux -/
  heldCycles : List Nat := []
  gateClosed : Bool := false
  opens : Nat := 0
  closes : Nat := 0
  /-- cumulative mux `GetConn` calls per (kind, generation of the ufrag) -/
  muxGets : List ((Kind × Nat) × Nat) := []
  /-- candidate callbacks / nil callbacks since the last observation -/
  evs : List (CandD × Nat) := []
  nilOp : Nat := 0
  nilsGen : Nat := 0
  failed : Nat := 0
  /-- interface tables the fake Net had before the current one (`ifaces` operations), newest first -/
  ifsHist : List (List Iface) := []
  /-- `lastKnownInterfaces`: keys = address literal, which carries the interface as zone for IPv6 link-local -/
  lastKnown : List (Addr × Option Nat) := []
  /-- the monitor goroutine of the live continual cycle -/
  mon : Option Mon := none
  deriving Repr, Inhabited

def stunTimeoutMs : Nat := 5000
def turnTimeoutMs : Nat := 8000

def MState.liveRes (s : MState) : List Res :=
  s.cands.flatMap (·.res) ++ s.jobs.flatMap (·.heldRes)

/-- number of ports of the range that can still be bound on `a` -/
def freePorts (s : MState) (a : Addr) : Nat :=
  match portRange s.cfg with
  | none => 1
  | some (lo, hi) =>
    (hi + 1 - lo)
      - ((s.cfg.busy.filter (fun (b, p) => b == a && lo ≤ p && p ≤ hi)).eraseDups).length
      - (s.liveRes.filter (fun r => r.kind == .sock && r.inRange && r.addr == a)).length

def bumpMux (l : List ((Kind × Nat) × Nat)) (k : Kind) (tag : Nat) : List ((Kind × Nat) × Nat) :=
  if l.any (fun p => p.1 == (k, tag)) then l.map (fun p => if p.1 == (k, tag) then (p.1, p.2 + 1) else p)
  else l ++ [((k, tag), 1)]

/-- the same IPv6 link-local address on two interfaces differs by its zone; an external address of a host rule
and a mux listen address have no zone. (Within one pass two candidates with the same link-local interface address
come from two interfaces; a re-gather pass of the monitor meets the candidate of the SAME interface again.) -/
def zoned (a b : CandD) : Bool :=
  a.addr.cls.isLinkLocal6 && a.zone != b.zone

/-- `Candidate.Equal` on the candidates the model can produce: only candidates on a mux port can
collide (every socket the agent opens itself has its own port) -/
def candEqual (a b : CandD) : Bool :=
  a.pflag == .M && b.pflag == .M && a.ty == b.ty && a.net == b.net && a.addr == b.addr
  -- host candidates have no related address (their `base` is the socket's address, not part of `Equal`)
  && (a.ty == .host || a.base == b.base)
  && !zoned a b

/-- … except that with a single-port range two sockets on DIFFERENT local addresses carry the same port: two
host candidates that publish the same rewritten address then collide too -/
def candEqualIn (cfg : Config) (a b : CandD) : Bool :=
  candEqual a b
  || (cfg.portMin != 0 && cfg.portMin == cfg.portMax && a.ty == .host && b.ty == .host && a.pflag == .r && b.pflag == .r
      && a.net == b.net && a.addr == b.addr && !zoned a b)

/-- does the unit's cycle still own the agent (not cancelled, agent not closed)? -/
def jobLive (s : MState) (j : Job) : Bool :=
  !s.cyc.closed && ((s.cyc.cycles[j.cyc]?).map (fun c => !c.cancelled)).getD false

/-- answer of the environment to an `acquire`; `none` = park -/
def acquireAns (s : MState) (j : Job) (l : Lbl) (k : Kind) : Option (Option Res) :=
  match l, k with
  | .listen, .sock =>
    if j.unit.kind == .relay then some (some { kind := .sock, tag := s.cyc.gen, addr := j.unit.bind })
    else if freePorts s j.unit.bind == 0 then some none
    else some (some { kind := .sock, tag := s.cyc.gen, addr := j.unit.bind, inRange := (portRange s.cfg).isSome })
  | .getConn, k => some (some { kind := k, tag := j.gen, addr := j.unit.bind })
  | .factory, k => if s.cfg.turnFail == 1 then some none else some (some { kind := k, tag := j.gen })
  | .allocate, k =>
    match j.answer with
    | none => none
    | some .ok => some (some { kind := k, tag := j.gen })
    | some _ => some none
  | _, k => some (some { kind := k, tag := j.gen })

/-- answer of the environment to a fallible step; `none` = park -/
def stepAns (s : MState) (j : Job) (l : Lbl) : Option Bool :=
  match l with
  | .reply => j.answer.map (· == .ok)
  | .tlisten => some (s.cfg.turnFail != 2)
  | .addrs =>
    match j.unit.kind with
    | .relay => some (relayAddrs s.cfg j.m).isSome
    | .srflxMapped => some (srflxMappedAddrs s.cfg j.unit.bind).isSome
    | _ => some true
  | .filter =>
    -- `shouldFilterLocationTracked(mappedIP)`: the address in turn is the one of the newest slot
    match j.unit.kind with
    | .srflxMapped =>
      some !((((srflxMappedAddrs s.cfg j.unit.bind).getD [])[j.slots.length - 1]?).map (·.cls.isLinkLocal6)).getD false
    | _ => some true
  | .supported6 =>
    -- RFC 8445 §5.1.1.1 exclusions on an IPv6 mapped address: site-local, IPv4-compatible / `::/96`
    -- (C18-G7 fix); the address in turn is the one of the newest slot
    match j.unit.kind with
    | .srflxMapped =>
      some (((((srflxMappedAddrs s.cfg j.unit.bind).getD [])[j.slots.length - 1]?).map
        (fun a => !a.cls.is6 || a.cls.supported6)).getD true)
    | _ => some true
  | .netType =>
    -- the candidate's network type follows the family of the mapped address; a disabled one releases the
    -- socket of this iteration (C18-G6 fix)
    match j.unit.kind with
    | .srflxMapped =>
      some ((configured s.cfg.netTypes).contains (unitCand s.cfg j.unit (j.slots.length - 1) j.m).net)
    | _ => some true
  | _ => some true

/-- take slot `i` if it is held: mark it `to` and hand out its resource; otherwise record the misuse
(mirrors `Led.set`) -/
def Job.take (j : Job) (i : Nat) (to : SlotSt) : Job × List Res :=
  match j.slots[i]? with
  | some (r, .held) => ({ j with slots := j.slots.set i (r, to) }, [r])
  | _ => ({ j with misuse := true }, [])

/-- mirrors `Led.setAll` -/
def Job.takeAll (j : Job) (is : List Nat) (to : SlotSt) : Job × List Res :=
  is.foldl (fun (p : Job × List Res) i => ((p.1.take i to).1, p.2 ++ (p.1.take i to).2)) (j, [])

/-- run a unit until it returns or parks (structural in the program) -/
def exec (s : MState) (j : Job) : Prog → MState × Job
  | .ret => (s, { j with prog := .ret })
  | .acquire l k a b =>
    match acquireAns s j l k with
    | none => (s, { j with prog := .acquire l k a b })
    | some none => exec s { j with answer := none } b
    | some (some r) =>
      let s := { s with opens := s.opens + 1,
                        muxGets := if l == .getConn then bumpMux s.muxGets k r.tag else s.muxGets }
      exec s { j with slots := j.slots ++ [(r, .held)], answer := none } a
  | .step l a b =>
    match stepAns s j l with
    | none => (s, { j with prog := .step l a b })
    | some true => exec s { j with answer := none } a
    | some false => exec s { j with answer := none } b
  | .release i n =>
    exec { s with closes := s.closes + (j.take i .released).2.length } (j.take i .released).1 n
  | .addCand ci is st fl =>
    let d := unitCand s.cfg j.unit ci j.m
    if !jobLive s j || !publishable s.cfg d then exec s j fl
    else if s.cands.any (fun c => candEqualIn s.cfg c.d d) then
      -- duplicate: addCandidate closes the candidate and its connection itself
      exec { s with closes := s.closes + (j.takeAll is .dupClosed).2.length } (j.takeAll is .dupClosed).1 st
    else
      let s := { s with cands := s.cands ++ [{ d := d, gen := s.cyc.gen, res := (j.takeAll is (.owned ci)).2 }],
                        evs := if d.hidden then s.evs else s.evs ++ [(d, s.cyc.gen)] }
      exec s (j.takeAll is (.owned ci)).1 st

/-- a unit that has returned is forgotten, a parked one is remembered -/
def settle (p : MState × Job) : MState :=
  match p.2.prog with
  | .ret => p.1
  | _ => { p.1 with jobs := p.1.jobs ++ [p.2] }

/-- start a unit of cycle `c`; a unit that parks is remembered in `jobs` -/
def startUnit (s : MState) (c gen : Nat) (u : GUnit) : MState :=
  let j0 : Job := { cyc := c, gen := gen, unit := u, prog := progOf u,
                    deadline := s.now + (if u.kind == .relay then turnTimeoutMs else stunTimeoutMs) }
  settle (exec s j0 j0.prog)

/-- the key of `existingConfigs` for a mux host unit: the candidate configuration (address, port, location flag); in mDNS
gather mode that is (mDNS name, port) — the same for every listen address, so only the first one yields a candidate -/
def muxKey (cfg : Config) (u : GUnit) : CandD :=
  if cfg.mdnsGather then { ty := .host, net := .udp4, addr := ⟨.nm, 0⟩, mdns := true, pflag := .M }
  else { unitCand cfg u 0 0 with base := none }

/-- the UDP-mux part of the host gatherer: listen addresses whose configuration was already added
successfully are skipped before `GetConn` (`existingConfigs`) -/
def runHostMux (s : MState) (c gen : Nat) : List GUnit → List CandD → MState
  | [], _ => s
  | u :: us, seen =>
    -- `existingConfigs` is keyed by the candidate configuration (address, port, location flag), not by the socket
    let d := muxKey s.cfg u
    if seen.contains d then runHostMux s c gen us seen
    else
      -- `existingConfigs[hostConfig]` is set when `addCandidate` returned nil: the candidate was started, or it was a
      -- duplicate of one an earlier pass of the monitor had started (its connection is closed, no error)
      let added := !s.cyc.closed && ((s.cyc.cycles[c]?).map (fun y => !y.cancelled)).getD false
        && publishable s.cfg (unitCand s.cfg u 0 0)
      runHostMux (startUnit s c gen u) c gen us (if added then d :: seen else seen)

/-- `gatherCandidatesLocal` after the gate -/
def runHost (s : MState) (c gen : Nat) : MState :=
  let s := runHostMux s c gen (hostMuxUnits s.cfg) []
  (hostIfaceUnits s.cfg s.ifs).foldl (fun s u => startUnit s c gen u) s

/-- the per-type gatherers of one cycle, in the order of `candidateTypes` -/
def runCycleUnits (s : MState) (c gen : Nat) : MState :=
  s.cfg.candTypes.foldl (fun s t =>
    match t with
    | .host =>
      if s.gateClosed && s.cfg.udpMux.isSome then { s with heldCycles := s.heldCycles ++ [c] }
      else runHost s c gen
    | .srflx => (srflxAllUnits s.cfg s.ifs).foldl (fun s u => startUnit s c gen u) s
    | .relay => (relayUnits s.cfg s.ifs).foldl (fun s u => startUnit s c gen u) s) s

/-- key of an address in `lastKnownInterfaces` (`info.addr.String()`) -/
def lkKey (a : Addr) (ifc : Nat) : Addr × Option Nat := (a, if a.cls.isLinkLocal6 then some ifc else none)

/-- the keys of `localInterfaces(a.net, a.interfaceFilter, a.ipFilter, a.networkTypes, a.includeLoopback)` now -/
def currentKeys (s : MState) : List (Addr × Option Nat) :=
  ((localAddrs s.cfg s.cfg.netTypes s.ifs).map fun p => lkKey p.1 p.2).eraseDups

/-- continual gathering, repaired code: the interface set is recorded when the cycle starts gathering, replacing
whatever an earlier cycle left (the code with C18-G10 records it after the first pass instead: `startMonitor`) -/
def recordKnown (s : MState) : MState :=
  if s.cfg.continual && !s.cfg.has 10 then { s with lastKnown := currentKeys s } else s

/-- the first pass of the live continual cycle `c` is over: `startNetworkMonitoring` creates its ticker now -/
def startMonitor (s : MState) (c : Nat) : MState :=
  { s with mon := some { cyc := c, next := s.now + s.cfg.monInterval },
           -- C18-G10: recorded only now, merged into the map earlier cycles left
           lastKnown := if s.cfg.has 10 then (s.lastKnown ++ currentKeys s).eraseDups else s.lastKnown }

/-- number of nil candidates among the outputs of a transition -/
def nilsIn (outs : List Cycle.Out) : Nat :=
  (outs.filter (fun o => match o with | .nilCand _ _ => true | _ => false)).length

def startMonitorIf (b : Bool) (s : MState) (c : Nat) : MState := if b then startMonitor s c else s

/-- the cycle of the current generation completes when its last unit has returned (continual gathering: its
monitor starts instead) -/
def finishCycle (s : MState) : MState :=
  if s.cyc.closed || s.cyc.gs != .gathering then s else
  match (List.range s.cyc.cycles.length).find? (fun i =>
      ((s.cyc.cycles[i]?).map (fun c => c.applied && !c.finished && !c.cancelled)).getD false) with
  | none => s
  | some c =>
    if s.jobs.any (·.cyc == c) || s.heldCycles.contains c then s else
    startMonitorIf ((Cycle.step false s.cyc (.complete c)).2.contains (.monitorStarted c))
      { s with cyc := (Cycle.step false s.cyc (.complete c)).1,
               nilOp := s.nilOp + nilsIn (Cycle.step false s.cyc (.complete c)).2,
               nilsGen := s.nilsGen + nilsIn (Cycle.step false s.cyc (.complete c)).2 } c

/-- `detectNetworkChanges`: the current keys replace `lastKnownInterfaces`; was one of them unknown? -/
def detect (s : MState) : MState × Bool :=
  ({ s with lastKnown := currentKeys s }, (currentKeys s).any (fun k => !s.lastKnown.contains k))

/-- a tick found the monitor `m` of the live cycle `c` idle: `detectNetworkChanges`, and with a new address a full
`gatherCandidatesInternal` under the cycle's context — every candidate type, every CURRENT address, not only the
new ones; what an earlier pass already published on a mux port comes back as a duplicate, every own socket is
a further candidate on a further port. The pass occupies the goroutine until its last gatherer has returned. -/
def monPass (s : MState) (m : Mon) (c gen : Nat) : MState :=
  if (detect s).2 then
    { runCycleUnits (detect s).1 c gen with
      mon := some { m with busy := (runCycleUnits (detect s).1 c gen).jobs.any (·.cyc == c)
                                    || (runCycleUnits (detect s).1 c gen).heldCycles.contains c, buffered := false } }
  else (detect s).1

/-- the monitor `m` (not inside a pass) takes a tick, if its cycle still owns the agent -/
def monTick (s : MState) (m : Mon) : MState :=
  match (Cycle.step false s.cyc (.tick m.cyc)).2 with
  | [.regather c gen] => monPass { s with cyc := (Cycle.step false s.cyc (.tick m.cyc)).1 } m c gen
  | _ => { s with cyc := (Cycle.step false s.cyc (.tick m.cyc)).1, mon := none }

/-- a re-gather pass whose last gatherer has returned frees the monitor goroutine, which takes the buffered tick
at once -/
def monKick (s : MState) : MState :=
  match s.mon with
  | none => s
  | some m =>
    if !m.busy || s.jobs.any (·.cyc == m.cyc) || s.heldCycles.contains m.cyc then s
    else if m.buffered then
      monTick { s with mon := some { m with busy := false, buffered := false } } { m with busy := false, buffered := false }
    else { s with mon := some { m with busy := false, buffered := false } }

/-- the ticker's next instant after `now` -/
def Mon.after (m : Mon) (interval now : Nat) : Mon :=
  { m with next := m.next + interval * ((now - m.next) / interval + 1) }

/-- the ticker fires (its next tick is due): an idle monitor takes the tick, a busy one finds it buffered later -/
def tickDue (s : MState) : MState :=
  match s.mon with
  | none => s
  | some m =>
    if s.now < m.next then s
    else if m.busy then { s with mon := some { m.after s.cfg.monInterval s.now with buffered := true } }
    else monTick { s with mon := some (m.after s.cfg.monInterval s.now) } (m.after s.cfg.monInterval s.now)

/-- give parked units their answers and run them on -/
def resume (s : MState) (pick : Job → Option (Ans × Nat)) : MState :=
  let todo := s.jobs.filter (fun j => (pick j).isSome)
  let s := { s with jobs := s.jobs.filter (fun j => (pick j).isNone) }
  todo.foldl (fun s j =>
    match pick j with
    | none => s
    | some (a, m) => settle (exec s { j with answer := some a, m := m } j.prog)) s

def isStunJob (j : Job) : Bool := j.unit.kind == .srflx || j.unit.kind == .srflxMux
def isTurnJob (j : Job) : Bool := j.unit.kind == .relay

/-- canonical key of a parked unit, as printed by the harness -/
def Job.key (j : Job) : String :=
  (if isTurnJob j then "T" else "S") ++ toString j.gen ++ "." ++ toString j.unit.url ++ "." ++ j.unit.net.tok ++ "."
    ++ (if j.unit.kind == .srflxMux then "mux" else j.unit.bind.tok)

def sortedJobs (s : MState) (p : Job → Bool) : List Job :=
  (s.jobs.filter p).mergeSort (fun a b => a.key ≤ b.key)

/-- deleteAllCandidates: every candidate releases what it owns -/
def dropCands (s : MState) : MState :=
  { s with closes := s.closes + (s.cands.flatMap (·.res)).length, cands := [] }

def expire (s : MState) : MState :=
  monKick (finishCycle (resume s (fun j => if j.deadline ≤ s.now then some (.fail, 0) else none)))

/-- open the gate of the fake mux: the parked host gatherers run -/
def openGate (s : MState) : MState :=
  let held := s.heldCycles
  let s := { s with gateClosed := false, heldCycles := [] }
  monKick (finishCycle (held.foldl (fun s c => runHost s c (((s.cyc.cycles[c]?).map (·.gen)).getD 0)) s))

/-! ### virtual time with a monitor running: timeouts and ticks in the order of their instants -/

/-- the earliest instant strictly before `target` at which a parked unit times out or the ticker fires -/
def nextEvent (s : MState) (target : Nat) : Option Nat :=
  ((s.jobs.map (·.deadline) ++ (match s.mon with | some m => [m.next] | none => [])).filter (· < target)).foldl
    (fun acc t => match acc with | none => some t | some a => some (min a t)) none

/-- the clock reaches `t`: the units whose timeout has come return, then a due tick is taken -/
def atTime (s : MState) (t : Nat) : MState :=
  tickDue (expire { s with now := max s.now t })

def advLoop : Nat → MState → Nat → MState
  | 0, s, _ => s
  | fuel + 1, s, target =>
    match nextEvent s target with
    | none => s
    | some t => advLoop fuel (atTime s t) target

/-- advance the virtual clock to `target`, stopping at every instant in between at which something happens -/
def advanceTo (s : MState) (target : Nat) : MState :=
  atTime (advLoop (target - s.now + 1) s target) target

/-- the virtual clock moves to `t`: with the gather-once policy nothing but timeouts can happen on the way -/
def advTo (s : MState) (t : Nat) : MState :=
  if s.cfg.continual then advanceTo s t else expire { s with now := t }

inductive Op where
  | gather
  | restart
  | close
  /-- connectivity checks time out: `failedNow` Failed transitions were observed, the clock reads `t` -/
  | fail (t : Nat) (failedNow : Nat)
  | release
  | adv (ms : Nat)
  | stunreply (k m : Nat)
  | turnreply (k : Nat) (ok : Bool) (m : Nat)
  /-- two `GatherCandidates` tasks queued back to back behind a held task loop: both run before the
  goroutine of the first cycle gets its `setGatheringState(Gathering)` task through -/
  | gather2
  /-- `GatherCandidates`, `Restart`, `GatherCandidates` queued back to back behind a held task loop -/
  | grg
  /-- the fake Net gets a new interface table (no virtual time passes) -/
  | ifaces (t : List Iface)
  /-- the gate of the fake UDP mux is armed again: the next host gatherer parks in `GetListenAddresses` -/
  | hold
  deriving Repr, Inhabited

/-- result token of an operation (`pair`: the results of several queued calls, in order) -/
inductive Rtok where
  | ok | multiple | closed | skip
  | pair (a b : Rtok)
  deriving DecidableEq, Repr, Inhabited

def applyFailed (s : MState) (failedNow : Nat) : MState :=
  if failedNow > s.failed then { dropCands s with failed := failedNow } else s

/-- the instant up to which Close waits for the gather goroutines (0 = it does not wait): those of EVERY cycle —
the done channel of a cycle is closed after that of the cycle it superseded —, or, for the code with finding
C09-G12 (`lastOnly`), those of the last cycle `cur` only -/
def closeDeadline (s : MState) (noWait : Bool) (cur : Nat) (lastOnly : Bool := false) : Nat :=
  if noWait then 0 else ((s.jobs.filter (fun j => !lastOnly || j.cyc == cur)).map (·.deadline)).foldl max 0

/-- Close waits (the harness moves the virtual clock in steps of 500 ms) until `dl` has passed -/
def closeWait (s : MState) (dl : Nat) : MState :=
  if dl > s.now then { s with now := s.now + 500 * ((dl - s.now + 499) / 500) } else s

def closeAgent (s : MState) : MState :=
  let s := openGate s
  let cur := s.cyc.cycles.length - 1
  -- a STUN request of a live cycle is ended by its watcher (socket closed on loop.Done) or, with the
  -- srflx mux, by its context; the watcher of a cycle cancelled by Restart has already gone
  let live := fun (j : Job) => ((s.cyc.cycles[j.cyc]?).map (fun c => !c.cancelled)).getD false
  -- C09-G11: `gatherCandidateDone` is closed when the FIRST pass is over; the code with the finding does not wait
  -- for a re-gather pass of the monitor
  let noWait := s.cfg.has 11 && s.mon.isSome
  let lastOnly := s.cfg.has 12
  let s := { s with cyc := (Cycle.step false s.cyc .close).1, mon := none }
  let s := resume s (fun j => if isStunJob j && live j then some (.fail, 0) else none)
  -- Close waits for the gather goroutines of every cycle, also of one an earlier Restart superseded (C09-G12:
  -- the code with the finding waits for the last cycle only): they run into their timeouts
  let s := closeWait s (closeDeadline s noWait cur lastOnly)
  let s := resume s (fun j => if j.deadline ≤ s.now then some (.fail, 0) else none)
  dropCands s

/-- the `GatherCandidates` task alone: the cycle is accepted (or refused); its goroutine has not run yet -/
def acceptGather (s : MState) : MState × Rtok × Option (Nat × Nat) :=
  let (cy, outs) := Cycle.step false s.cyc .gather
  match outs with
  | [.accepted c gen] => ({ s with cyc := cy }, .ok, some (c, gen))
  | [.closedErr] => (s, .closed, none)
  | _ => (s, .multiple, none)

/-- the goroutine of an accepted cycle gets to run: `setGatheringState(Gathering)` is applied unless the
cycle was cancelled in the meantime (then the goroutine ends), and the gatherers run -/
def startCycle (s : MState) (cg : Option (Nat × Nat)) : MState :=
  match cg with
  | none => s
  | some (c, gen) =>
    let (cy, outs) := Cycle.step false s.cyc (.start c)
    match outs with
    | [] => { s with cyc := cy }
    | _ => finishCycle (runCycleUnits (recordKnown { s with cyc := cy }) c gen)

/-- the `Restart` task -/
def restartOp (s : MState) : MState × Rtok :=
  let (cy, outs) := Cycle.step false s.cyc .restart
  match outs with
  | [.restarted _] =>
    let s := dropCands { s with cyc := cy, nilsGen := 0, mon := none }
    (resume s (fun j => if j.unit.kind == .srflxMux then some (.fail, 0) else none), .ok)
  | _ => (s, .closed)

def step (s : MState) : Op → MState × Rtok
  | .gather2 =>
    let (s1, r1, c1) := acceptGather s
    let (s2, r2, c2) := acceptGather s1
    (startCycle (startCycle s2 c1) c2, .pair r1 r2)
  | .grg =>
    let (s1, r1, c1) := acceptGather s
    let (s2, r2) := restartOp s1
    let (s3, r3, c3) := acceptGather s2
    (startCycle (startCycle s3 c1) c3, .pair r1 (.pair r2 r3))
  | .gather =>
    let (cy, outs) := Cycle.step false s.cyc .gather
    match outs with
    | [.accepted c gen] =>
      let (cy, _) := Cycle.step false cy (.start c)
      let s := runCycleUnits (recordKnown { s with cyc := cy }) c gen
      (finishCycle s, .ok)
    | [.closedErr] => (s, .closed)
    | _ => (s, .multiple)
  | .restart =>
    let (cy, outs) := Cycle.step false s.cyc .restart
    match outs with
    | [.restarted _] =>
      let s := dropCands { s with cyc := cy, nilsGen := 0, mon := none }
      -- context-aware waits of the cancelled cycle return at once
      (resume s (fun j => if j.unit.kind == .srflxMux then some (.fail, 0) else none), .ok)
    | _ => (s, .closed)
  | .close => (closeAgent s, .ok)
  | .fail t failedNow =>
    if s.cyc.closed then (s, .skip) else
    (applyFailed (advTo s t) failedNow, .ok)
  | .release => (openGate s, .ok)
  | .adv ms => (advTo s (s.now + ms), .ok)
  | .ifaces t =>
    -- an operation starts from a flushed state (no callbacks pending); the table it replaces is remembered
    ({ s with ifs := t, ifsHist := s.ifs :: s.ifsHist, evs := [], nilOp := 0 }, .ok)
  | .hold => ({ s with gateClosed := s.gateClosed || s.cfg.udpMux.isSome }, .ok)
  | .stunreply k m =>
    match (sortedJobs s isStunJob)[k]? with
    | none => (s, .skip)
    | some j => (monKick (finishCycle (resume s (fun x => if x.cyc == j.cyc && x.unit == j.unit then some (.ok, m) else none))), .ok)
  | .turnreply k ok m =>
    match (sortedJobs s isTurnJob)[k]? with
    | none => (s, .skip)
    | some j =>
      (monKick (finishCycle (resume s (fun x => if x.cyc == j.cyc && x.unit == j.unit then some (if ok then .ok else .fail, m) else none))), .ok)

/-- constructor checks of `NewAgent` that concern gathering -/
inductive NewErr where
  | port | uselessUrls
  /-- a host rewrite rule together with mDNS gather mode / without the host candidate type -/
  | mdnsRewrite | ineffectiveHost
  deriving DecidableEq, Repr, Inhabited

def newAgent (cfg : Config) (ifs : List Iface) : Except NewErr MState :=
  if cfg.portMax < cfg.portMin then .error .port
  else if cfg.stunUrls + cfg.turnUrls > 0 && !cfg.candTypes.contains .srflx && !cfg.candTypes.contains .relay then
    .error .uselessUrls
  else if cfg.hostRule.isSome && cfg.mdnsGather then .error .mdnsRewrite
  else if cfg.hostRule.isSome && !cfg.candTypes.contains .host then .error .ineffectiveHost
  else .ok { cfg := cfg, ifs := ifs, gateClosed := cfg.hold, cyc := { continual := cfg.continual } }

/-! ## 5. Observations (what the harness prints after every operation) -/

/-- a candidate as seen from outside, with the generation of its ufrag extension (`none` = unknown) -/
abbrev CandO := CandD × Option Nat

structure Obs where
  /-- gathering state; `none` = the agent is closed -/
  st : Option Cycle.GS := some .new
  gen : Nat := 0
  failed : Nat := 0
  now : Nat := 0
  /-- `GetLocalCandidates` -/
  cands : List CandO := []
  /-- `OnCandidate` callbacks since the previous observation (non-nil ones, and the number of nils) -/
  evs : List CandO := []
  nilOp : Nat := 0
  /-- nil callbacks in the current generation -/
  nils : Nat := 0
  /-- candidates delivered after the nil of their generation -/
  late : Nat := 0
  /-- resources currently open per (kind, generation tag) -/
  led : List ((Kind × Option Nat) × Nat) := []
  opens : Nat := 0
  closes : Nat := 0
  muxGets : List ((Kind × Option Nat) × Nat) := []
  held : Nat := 0
  /-- started candidates that are never published (location tracked) -/
  hidden : Nat := 0
  /-- parked requests: (is TURN, generation, key) -/
  pend : List (Bool × Nat × String) := []
  /-- `lastKnownInterfaces` (continual gathering; empty once the agent is closed) -/
  lk : List (Addr × Option Nat) := []
  /-- started local candidates (listed or location-tracked) without a resolved transport address -/
  unresolved : Nat := 0
  deriving Repr, Inhabited

def countBy (l : List (Kind × Nat)) : List ((Kind × Option Nat) × Nat) :=
  l.eraseDups.map fun p => ((p.1, some p.2), (l.filter (· == p)).length)

def observe (s : MState) : Obs :=
  { st := if s.cyc.closed then none else some s.cyc.gs
    gen := s.cyc.gen
    failed := s.failed
    now := s.now
    cands := if s.cyc.closed then [] else (s.cands.filter (fun c => !c.d.hidden)).map (fun c => (c.d, some c.gen))
    evs := s.evs.map (fun p => (p.1, some p.2))
    nilOp := s.nilOp
    nils := s.nilsGen
    late := 0
    led := countBy (s.liveRes.map (fun r => (r.kind, r.tag)))
    opens := s.opens
    closes := s.closes
    muxGets := s.muxGets.map (fun p => ((p.1.1, some p.1.2), p.2))
    held := s.heldCycles.length
    hidden := if s.cyc.closed then 0 else (s.cands.filter (fun c => c.d.hidden)).length
    pend := (s.jobs.filter (fun j => isStunJob j || isTurnJob j)).map (fun j => (isTurnJob j, j.gen, j.key))
    lk := if s.cyc.closed then [] else s.lastKnown }

/-- forget the per-operation event buffers once they have been observed -/
def MState.flush (s : MState) : MState := { s with evs := [], nilOp := 0 }

end IceModel.Gather
