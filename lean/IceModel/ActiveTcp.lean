/-!
# Active ICE-TCP local candidates (`agent.go` `addRemoteCandidate` / `addRemotePassiveTCPCandidate`)

When a remote PASSIVE TCP candidate is added, the agent creates one local host candidate with TCP type `active` per
eligible local interface address of the remote candidate's family (`localInterfaces` with the agent's interface / IP
filters and loopback setting), starts it, publishes it through the candidate notifier and pairs it with the remote
candidate.  This is the only place outside `gather.go` where local candidates are published.  The model is the decision
part: WHETHER such candidates are created and under which ADDRESS FORM they are published; the sockets (a real
`net.Dialer`) are outside it.  (/repo after the fix of finding C18-G13.)
-/
namespace IceModel.ActiveTcp

structure Cfg where
  /-- `CandidateTypeHost ∈ candidateTypes` -/
  host : Bool
  /-- the remote candidate's network type (tcp4 / tcp6) is among the configured network types (empty list = all) -/
  netEnabled : Bool
  /-- `WithDisableActiveTCP` -/
  disableActive : Bool
  /-- effective mDNS mode is QueryAndGather (host addresses are published under the mDNS name) -/
  mdnsGather : Bool
  /-- finding C18-G13 present (the code before the fix: no test of the host candidate type, raw addresses) -/
  g13 : Bool := false
  deriving Repr, DecidableEq, Inhabited

/-- a published local candidate, as far as C18 speaks about it -/
structure Pub where
  /-- candidate type is host (the only type this path creates) -/
  isHost : Bool
  /-- published under the mDNS name (`Address()` ends in `.local`) -/
  named : Bool
  /-- TCP type active -/
  active : Bool
  deriving Repr, DecidableEq, Inhabited

/-- local candidates published for ONE remote passive TCP candidate when `n` local addresses are eligible -/
def publish (c : Cfg) (n : Nat) : List Pub :=
  if c.disableActive || !c.netEnabled then []
  else if c.g13 then List.replicate n { isHost := true, named := false, active := true }
  else if !c.host then []
  else List.replicate n { isHost := true, named := c.mdnsGather, active := true }

end IceModel.ActiveTcp
