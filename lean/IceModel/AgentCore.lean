import IceModel.Prio
import IceModel.SoftFloat
/-!
# AgentCore — executable model of one ICE agent (agent.go, selection.go, candidatepair.go,
candidate_base.go (receive path), transport.go)

`step : Agent → Ev → Agent × List Out`.  Times are virtual nanoseconds and arrive in events;
transaction ids are assigned from a counter in send order (the harness canonicalises the real random
ids by order of first appearance); candidates carry a model-assigned identity `uid` standing for the
Go pointer.  The transition rules are DESIGN.md Appendix A (read from the code at the pinned commit).

Scope of this version: UDP and TCP candidates (udp4/udp6/tcp4/tcp6, any `tcptype`) of all four types, full
and lite agents, both roles, role conflict, prflx discovery and supersession, remote IP filter, the
TCP-active filter of the public `AddRemoteCandidate`, passive remote candidates (stored, not paired with the
locals present), renomination (`RenominateCandidate` with an explicit value), AUTOMATIC renomination
(`WithAutomaticRenomination`: `keepAliveCandidatesForRenomination`, `checkForAutomaticRenomination`,
`findBestCandidatePair`, `shouldRenominate`, `evaluateCandidatePairQuality` — the float64 arithmetic bit for bit through
`IceModel.SoftFloat`; the nomination-value generator is a counter: `nomCounter`), a pair's current round-trip time and
last-response time, Restart, Close, the connectivity-check timer, the data plane.  Not modelled: active TCP dialling
(`addRemotePassiveTCPCandidate` creates one active local candidate per local interface address — the harness agents
have no interfaces), TCP framing (a candidate's conn is a `net.PacketConn` either way), mDNS, the application
binding-request handler, gathering (see IceModel.Gather).
-/
namespace IceModel.AgentCore

/-- `ConnectionState` of ice.go (iota order, `unknown` = 0 is the timer's initial `lastConnectionState`). -/
inductive ConnState where
  | unknown | new | checking | connected | completed | failed | disconnected | closed
  deriving DecidableEq, Repr, Inhabited

def ConnState.str : ConnState → String
  | .unknown => "Unknown" | .new => "New" | .checking => "Checking" | .connected => "Connected"
  | .completed => "Completed" | .failed => "Failed" | .disconnected => "Disconnected" | .closed => "Closed"

inductive PairState where
  | waiting | inProgress | failed | succeeded
  deriving DecidableEq, Repr, Inhabited

def PairState.str : PairState → String
  | .waiting => "w" | .inProgress => "i" | .failed => "f" | .succeeded => "s"

/-- A candidate. `addr` is a canonical transport address id (`ip*16 + port slot`), `rel` the related
address (`none` = nil pointer as for host candidates, `some 0` = the empty related address of a
discovered prflx candidate).  `form` is the spelling of the address literal the candidate was created
from (0 = the canonical literal `netip.Addr.String` prints; 1 = another literal of the same address, e.g.
the IPv4-mapped `::ffff:10.0.0.3` for `10.0.0.3`, or an expanded IPv6 literal): `Candidate.Address()` returns
the literal as given and `addrPort()` keeps the 4-in-6 form; every comparison of the code canonicalises
(`addrPortEqual`, `toAddrPortKey`, and — since the fix of FORMS-1/2 — `transportAddressEqual` through
`sameAddressLiteral`), so `form` is a pure tag: it is carried and printed, never compared.  Local candidates
and discovered peer-reflexive candidates are always form 0. -/
structure Cand where
  uid : Nat
  ty : Nat            -- 1 host, 2 srflx, 3 prflx, 4 relay
  net : Nat           -- 0 udp4, 1 udp6
  addr : Nat
  prio : Nat
  comp : Nat := 1
  rel : Option Nat := none
  lastRecv : Option Nat := none
  lastSent : Option Nat := none
  form : Nat := 0
  /-- `TCPType()`: 0 unspecified, 1 active, 2 passive, 3 simultaneous-open.  Any candidate may carry one (the host
  constructor takes it, a parsed `tcptype` extension sets it on the others, also on a UDP candidate); a
  DISCOVERED peer-reflexive candidate never does. -/
  tt : Nat := 0
  deriving DecidableEq, Repr, Inhabited

/-- Address ids name TRANSPORT addresses: ids below `tcpBase` are UDP addresses (`ip*16 + port slot`), the id
`tcpBase + k` is the TCP transport address with the ip and port of `k`.  A well-formed candidate of network
type tcp4/tcp6 (`net` 2/3) has `addr ≥ tcpBase` (the driver tags the ids by the network), so a UDP and a TCP
socket on the same ip:port are different `addr`s — wherever the code tells sockets / sources apart by the
connection they belong to, the model compares `addr`. -/
def tcpBase : Nat := 1048576

def ipOf (addr : Nat) : Nat := (addr % tcpBase) / 16

def isTCP (net : Nat) : Bool := net ≥ 2

/-- the resolved address of a server-reflexive or relay candidate is a `*net.UDPAddr` whatever its network type
(candidate_server_reflexive.go / candidate_relay.go), that of a host or peer-reflexive candidate follows the
network type (`createAddr`) -/
def Cand.udpResolved (c : Cand) : Bool := c.ty == 2 || c.ty == 4

/-- `candidateBase.transportAddressEqual`: `addrEqual` of the resolved addresses (canonical IP, port AND the
address kind: on tcp4/tcp6 a `*net.UDPAddr` never equals a `*net.TCPAddr`, so a srflx/relay candidate is never
transport-address-equal to a host/prflx candidate there), network type, address literal (canonical — since the fix
of FORMS-1/2 `sameAddressLiteral`; `form` plays no role), port, and `TCPType()`.  (The candidate that is already
listed survives a dedup with its own literal; a superseding candidate keeps the literal it was signalled with.) -/
def Cand.taEqual (a b : Cand) : Bool :=
  a.net == b.net && a.addr == b.addr && (a.tt == b.tt && (!isTCP a.net || a.udpResolved == b.udpResolved))

/-- `candidateBase.Equal`. -/
def Cand.equal (a b : Cand) : Bool := a.taEqual b && a.ty == b.ty && a.rel == b.rel

structure Pair where
  id : Nat
  l : Nat              -- uid of the local candidate
  r : Nat              -- uid of the remote candidate
  state : PairState := .waiting
  nominated : Bool := false
  nomOnSuccess : Bool := false
  /-- renomination value of the nomination that set `nomOnSuccess` (`deferredNominationValue`) -/
  deferredNom : Option Nat := none
  reqCount : Nat := 0
  prioOverride : Option Nat := none
  controlling : Bool   -- role at creation (iceRoleControlling)
  reqSent : Nat := 0
  reqRecv : Nat := 0
  respSent : Nat := 0
  respRecv : Nat := 0
  pktSent : Nat := 0
  pktRecv : Nat := 0
  bytesSent : Nat := 0
  bytesRecv : Nat := 0
  -- ghost (never read by `step`): what has been proved to the agent about this pair
  gReq : Bool := false      -- an authenticated Binding request arrived on it
  gNomReq : Bool := false   -- … carrying USE-CANDIDATE or a nomination value
  gResp : Bool := false     -- an authenticated, transaction-matched success response arrived on it
  gRespUC : Bool := false   -- … answering a request that carried USE-CANDIDATE
  /-- `currentRoundTripTime` (ns): virtual time between the emission of the request and the processing of the response
  that was matched last (`UpdateRoundTripTime`); 0 = none yet (or a response in the same instant) -/
  rtt : Nat := 0
  /-- `lastResponseReceivedAt` -/
  lastResp : Option Nat := none
  deriving DecidableEq, Repr, Inhabited

/-- `ResponsesReceived` + `UpdateRoundTripTime(rtt)` with `rtt = now - ts` (`ts` = emission time of the matched request) -/
def Pair.gotResponse (now ts : Nat) (p : Pair) : Pair :=
  { p with respRecv := p.respRecv + 1, rtt := now - ts, lastResp := some now }

structure Pending where
  tid : Nat
  src : Nat            -- address of the local candidate the request was sent from (`bindingRequest.source`)
  dest : Nat
  net : Nat
  useCand : Bool
  nom : Option Nat
  ts : Nat
  deriving DecidableEq, Repr, Inhabited

/-- Abstract STUN message. `key` = the password its MESSAGE-INTEGRITY was computed with (`none` = no
integrity attribute); HMAC is modelled as perfect. -/
structure Msg where
  cls : Nat            -- 0 request, 1 indication, 2 success response, 3 error response
  method : Nat := 1    -- 1 = Binding
  tid : Nat
  user : Option String := none
  key : Option String := none
  prio : Option Nat := none
  useCand : Bool := false
  role : Option (Bool × Nat) := none   -- (ICE-CONTROLLING?, tie-breaker)
  nom : Option Nat := none
  errCode : Option Nat := none
  deriving DecidableEq, Repr, Inhabited

structure Config where
  lite : Bool := false
  maxBindingRequests : Nat := 7
  disconnectedTimeout : Nat := 5000000000
  disconnectedExplicit : Bool := false
  failedTimeout : Nat := 25000000000
  keepaliveInterval : Nat := 2000000000
  checkInterval : Nat := 200000000
  hostWait : Nat := 0
  srflxWait : Nat := 500000000
  prflxWait : Nat := 1000000000
  relayWait : Nat := 2000000000
  enableRenomination : Bool := false
  useCandCheckPriority : Bool := false
  /-- remote IP filter: ip ids (`addr / 16`) it rejects -/
  blockedIPs : List Nat := []
  /-- `WithAutomaticRenomination(interval)`: `automaticRenomination`, `renominationInterval` (ns; 0 keeps the default 3 s) -/
  autoRenom : Bool := false
  renomInterval : Nat := 3000000000
  deriving Repr, Inhabited

structure Agent where
  cfg : Config := {}
  tieBreaker : Nat := 0
  controlling : Bool := false
  started : Bool := false
  closed : Bool := false
  connState : ConnState := .new
  localUfrag : String := ""
  localPwd : String := ""
  remoteUfrag : String := ""
  remotePwd : String := ""
  locals : List Cand := []
  remotes : List Cand := []
  checklist : List Pair := []
  nextPairID : Nat := 0
  nextUid : Nat := 1
  nextTid : Nat := 1
  /-- 0 / 1: makes transaction ids of two agents disjoint (`tid = 2*n + tag`) -/
  tag : Nat := 0
  pending : List Pending := []
  selected : Option Nat := none       -- pair id
  -- selector
  selStart : Nat := 0
  nominatedPair : Option Nat := none  -- pair id (controlling selector)
  lastNomination : Option Nat := none -- controlled selector
  /-- controlling selector: greatest renomination value whose success response was processed (`answeredNomination`) -/
  answeredNomination : Option Nat := none
  -- connectivityChecks goroutine
  lastSeen : ConnState := .unknown
  checkingStart : Nat := 0
  checkingTimeout : Nat := 0
  forcePending : Bool := false
  nextTick : Option Nat := none
  -- data plane
  /-- per local candidate uid: source addresses already validated (`remoteCandidateCaches`) -/
  caches : List (Nat × Nat × Nat) := []   -- (local uid, src addr, remote uid)
  rx : List Nat := []                     -- queued payload lengths (packetio.Buffer)
  connBytesSent : Nat := 0
  connBytesRecv : Nat := 0
  onConnectedFired : Bool := false
  -- ghost
  generation : Nat := 0
  /-- the nominations this agent issued, oldest first — `RenominateCandidate` not refused AND the automatic check —, each
  with its value (0 = sent without the attribute) and the local / remote transport address of its pair -/
  nomIssued : List (Nat × Nat × Nat) := []
  /-- `lastRenominationTime` (an Agent field: survives Restart and role changes; `none` = the zero time) -/
  lastRenomTime : Option Nat := none
  /-- state of the nomination-value generator handed to `WithRenomination` when it is a counter (the harness's, and
  `DefaultNominationValueGenerator`): the number of values drawn so far; the next value is `nomCounter + 1` (uint32) -/
  nomCounter : Nat := 0
  deriving Repr, Inhabited

inductive Out where
  | dgram (fromAddr : Nat) (toAddr : Nat) (m : Msg)
  | data (fromAddr : Nat) (toAddr : Nat) (len : Nat)
  | cbState (s : ConnState)
  | cbPair (lAddr : Nat) (rAddr : Nat)
  | cbCand (addr : Nat)
  | res (s : String)
  deriving Repr, Inhabited

inductive Ev where
  | addLocal (now : Nat) (c : Cand)
  | addRemote (now : Nat) (c : Cand)
  | start (now : Nat) (controlling : Bool) (rufrag rpwd : String)
  | setRemoteCreds (rufrag rpwd : String)
  | advance (now : Nat)                       -- virtual time has moved to `now`: run due timer ticks
  | inbound (now : Nat) (localAddr : Nat) (src : Nat) (m : Msg)
  | inboundData (now : Nat) (localAddr : Nat) (src : Nat) (len : Nat) (stunLike : Bool)
  | write (now : Nat) (len : Nat) (stunLike : Bool)
  | writeToPair (now : Nat) (id : Nat) (len : Nat) (stunLike : Bool)
  /-- `Conn.Read` into a caller buffer of `cap` bytes -/
  | read (cap : Nat)
  | renominate (now : Nat) (lAddr : Nat) (rIdx : Nat) (value : Nat)
  | restart (now : Nat) (ufrag pwd : String)
  | close
  deriving Repr, Inhabited

/-! ## Lookups -/

def findCand (l : List Cand) (uid : Nat) : Option Cand := l.find? (·.uid == uid)

def Agent.localOf (a : Agent) (uid : Nat) : Option Cand := findCand a.locals uid
def Agent.remoteOf (a : Agent) (uid : Nat) : Option Cand := findCand a.remotes uid

def Agent.pairById (a : Agent) (id : Nat) : Option Pair := a.checklist.find? (·.id == id)

/-- `CandidatePair.priority`: override, else the RFC formula on the two candidates' priorities with the
role recorded at creation. Missing candidates (cannot happen, see invariant) count as priority 0. -/
def Agent.pairPrio (a : Agent) (p : Pair) : Nat :=
  match p.prioOverride with
  | some v => v
  | none =>
    let lp := ((a.localOf p.l).map (·.prio)).getD 0
    let rp := ((a.remoteOf p.r).map (·.prio)).getD 0
    IceModel.Prio.pairPriority p.controlling lp rp

/-- `Agent.findPair`: first pair whose ends are `Equal` to the given candidates. -/
def Agent.findPair (a : Agent) (l r : Cand) : Option Pair :=
  a.checklist.find? fun p =>
    match a.localOf p.l, a.remoteOf p.r with
    | some pl, some pr => pl.equal l && pr.equal r
    | _, _ => false

/-- `Agent.findRemoteCandidate`: first remote of the network type with this canonical address
(`addrPortEqual(c.addrPort(), addr)` canonicalises BOTH sides: the literal form plays no role). -/
def Agent.findRemote (a : Agent) (net : Nat) (addr : Nat) : Option Cand :=
  a.remotes.find? fun c => c.net == net && c.addr == addr

def Agent.localByAddr (a : Agent) (addr : Nat) : Option Cand := a.locals.find? (·.addr == addr)

def updPair (l : List Pair) (id : Nat) (f : Pair → Pair) : List Pair :=
  l.map fun p => if p.id == id then f p else p

def updCand (l : List Cand) (uid : Nat) (f : Cand → Cand) : List Cand :=
  l.map fun c => if c.uid == uid then f c else c

def Agent.modPair (a : Agent) (id : Nat) (f : Pair → Pair) : Agent :=
  { a with checklist := updPair a.checklist id f }

/-- best of a filtered checklist by priority, first wins among equals (`best.priority() < p.priority()`). -/
def Agent.bestBy (a : Agent) (ok : Pair → Bool) : Option Pair :=
  a.checklist.foldl (fun best p =>
    if !ok p then best else
    match best with
    | none => some p
    | some b => if a.pairPrio b < a.pairPrio p then some p else some b) none

def Agent.bestValid (a : Agent) : Option Pair := a.bestBy (·.state == .succeeded)
def Agent.bestAvailable (a : Agent) : Option Pair := a.bestBy (·.state != .failed)

/-! ## State, selection -/

/-- `deleteAllCandidates` + the wipes shared by Failed and Restart. -/
def Agent.wipe (a : Agent) : Agent :=
  { a with checklist := [], pending := [], selected := none, locals := [], remotes := [], caches := [] }

/-- `updateConnectionState`. -/
def Agent.setConnState (a : Agent) (s : ConnState) : Agent × List Out :=
  if a.connState == s then (a, [])
  else
    let a := if s == .failed then a.wipe else a
    ({ a with connState := s }, [.cbState s])

/-- `setSelectedPair(pair)` for a non-nil pair. -/
def Agent.select (a : Agent) (id : Nat) : Agent × List Out :=
  let a := a.modPair id fun p => { p with nominated := true }
  let a := { a with selected := some id, onConnectedFired := true }
  let (a, o) := a.setConnState .connected
  let ends : Nat × Nat := match a.pairById id with
    | some p => (((a.localOf p.l).map (·.addr)).getD 0, ((a.remoteOf p.r).map (·.addr)).getD 0)
    | none => (0, 0)
  (a, o ++ [.cbPair ends.1 ends.2])

/-! ## Sending -/

def Agent.seenLocalSent (a : Agent) (uid : Nat) (now : Nat) : Agent :=
  { a with locals := updCand a.locals uid fun c => { c with lastSent := some now } }

def Agent.seenRemoteRecv (a : Agent) (uid : Nat) (now : Nat) : Agent :=
  { a with remotes := updCand a.remotes uid fun c => { c with lastRecv := some now } }

def maxBindingRequestTimeout : Nat := 4000000000

def Agent.invalidatePending (a : Agent) (now : Nat) : Agent :=
  { a with pending := a.pending.filter fun p => now - p.ts < maxBindingRequestTimeout }

/-- `sendBindingRequest`: record the transaction, count the request on the pair, emit the datagram. -/
def Agent.sendRequest (a : Agent) (now : Nat) (l r : Cand) (useCand : Bool) (nom : Option Nat) : Agent × List Out :=
  let tid := 2 * a.nextTid + a.tag
  let a := a.invalidatePending now
  let pd : Pending := { tid := tid, src := l.addr, dest := r.addr, net := r.net, useCand := useCand, nom := nom, ts := now }
  let a := { a with nextTid := a.nextTid + 1, pending := a.pending ++ [pd] }
  let a := match a.findPair l r with
    | some p => a.modPair p.id fun p => { p with reqSent := p.reqSent + 1 }
    | none => a
  let m : Msg := { cls := 0, tid := tid, user := some (a.remoteUfrag ++ ":" ++ a.localUfrag), key := some a.remotePwd,
                   prio := some l.prio, useCand := useCand, role := some (a.controlling, a.tieBreaker), nom := nom }
  let a := a.seenLocalSent l.uid now
  (a, [.dgram l.addr r.addr m])

/-- `selector.PingCandidate` (an ordinary check). -/
def Agent.ping (a : Agent) (now : Nat) (l r : Cand) : Agent × List Out := a.sendRequest now l r false none

/-- `sendBindingSuccess`. -/
def Agent.sendSuccess (a : Agent) (now : Nat) (m : Msg) (l r : Cand) : Agent × List Out :=
  let a := match a.findPair l r with
    | some p => a.modPair p.id fun p => { p with respSent := p.respSent + 1 }
    | none => a
  let a := a.seenLocalSent l.uid now
  (a, [.dgram l.addr r.addr { cls := 2, tid := m.tid, key := some a.localPwd }])

/-- `pingAllCandidates`. -/
def Agent.pingAll (a : Agent) (now : Nat) : Agent × List Out :=
  (a.checklist.map (·.id)).foldl (fun (acc : Agent × List Out) id =>
    let (a, o) := acc
    match a.pairById id with
    | none => (a, o)
    | some p =>
      let p' : Pair := { p with state := .inProgress }
      let (a, p, go) : Agent × Pair × Bool :=
        if p.state == .waiting then (a.modPair id fun q => { q with state := .inProgress }, p', true)
        else (a, p, p.state == .inProgress)
      if !go then (a, o)
      else if p.reqCount > a.cfg.maxBindingRequests then
        (a.modPair id fun p => { p with state := .failed }, o)
      else
        match a.localOf p.l, a.remoteOf p.r with
        | some l, some r =>
          let (a, o') := a.ping now l r
          (a.modPair id fun p => { p with reqCount := p.reqCount + 1 }, o ++ o')
        | _, _ => (a, o)) (a, [])

/-! ## Timer-driven work -/

def silence (now : Nat) (c : Cand) : Option Nat := c.lastRecv.map (now - ·)

/-- `connectionStateForDisconnection` on a silence of `d` ns (`none` = never heard: longer than any timeout). -/
def stateForDisconnection (cfg : Config) (cur : ConnState) (d : Option Nat) (total : Nat) : ConnState :=
  let gt (t : Nat) : Bool := match d with | none => true | some d => d > t
  let disconnected := cfg.disconnectedTimeout != 0 && gt cfg.disconnectedTimeout
  let failed := total != 0 && gt total
  if failed then
    if disconnected && cur != .disconnected && cur != .failed then .disconnected else .failed
  else if disconnected then .disconnected
  else .connected

/-- `validateSelectedPair`; returns whether a selected pair existed. -/
def Agent.validateSelected (a : Agent) (now : Nat) : Agent × List Out × Bool :=
  match a.selected.bind a.pairById with
  | none => (a, [], false)
  | some p =>
    let d := (a.remoteOf p.r).bind (silence now)
    let total := if a.cfg.failedTimeout != 0 then a.cfg.failedTimeout + a.cfg.disconnectedTimeout else 0
    let (a, o) := a.setConnState (stateForDisconnection a.cfg a.connState d total)
    (a, o, true)

/-- `checkKeepalive`. -/
def Agent.keepalive (a : Agent) (now : Nat) : Agent × List Out :=
  match a.selected.bind a.pairById with
  | none => (a, [])
  | some p =>
    if a.cfg.keepaliveInterval != 0 then
      match a.localOf p.l, a.remoteOf p.r with
      | some l, some r => a.ping now l r
      | _, _ => (a, [])
    else (a, [])

/-! ## Automatic renomination (`WithAutomaticRenomination`) -/

open IceModel.SoftFloat in
/-- type preference of `evaluateCandidatePairQuality`: host 100, srflx 50, prflx 30, relay 10 -/
def typeScore (ty : Nat) : F :=
  if ty == 1 then { m := 100, e := 0 } else if ty == 2 then { m := 50, e := 0 }
  else if ty == 3 then { m := 30, e := 0 } else if ty == 4 then { m := 10, e := 0 } else F.zero

def Agent.localTy (a : Agent) (p : Pair) : Nat := ((a.localOf p.l).map (·.ty)).getD 0
def Agent.remoteTy (a : Agent) (p : Pair) : Nat := ((a.remoteOf p.r).map (·.ty)).getD 0

open IceModel.SoftFloat in
/-- `evaluateCandidatePairQuality` at virtual time `now` (float64, see `IceModel.SoftFloat`): 0 for a pair that has not
succeeded; else the mean of the two type preferences, minus `10·log10(rtt in whole ms, at least 1)` (30 when no round
trip has been measured), plus 20 when a response arrived less than 5 s ago. -/
def Agent.quality (a : Agent) (now : Nat) (p : Pair) : F :=
  if p.state != .succeeded then F.zero else
  let score := F.zero.add (((typeScore (a.localTy p)).add (typeScore (a.remoteTy p))).div two)
  let rtt := seconds p.rtt
  let score :=
    if rtt.gt F.zero then
      let rttMs0 := F.ofInt (durationOfSeconds rtt / 1000000)
      let rttMs := if rttMs0.lt one then one else rttMs0
      score.sub ((log10 rttMs).mul ten)
    else score.sub thirty
  if p.respRecv > 0 then
    match p.lastResp with
    | some t => if now - t < 5000000000 then score.add twenty else score
    | none => score
  else score

/-- `findBestCandidatePair`: the succeeded pair of the greatest quality, the first one among equals -/
def Agent.findBest (a : Agent) (now : Nat) : Option Pair :=
  a.checklist.foldl (fun best p =>
    if p.state != .succeeded then best else
    match best with
    | none => some p
    | some b => if (a.quality now p).gt (a.quality now b) then some p else some b) none

/-- `CandidatePair.equal`: both ends `Equal` -/
def Agent.pairEqual (a : Agent) (p q : Pair) : Bool :=
  match a.localOf p.l, a.remoteOf p.r, a.localOf q.l, a.remoteOf q.r with
  | some pl, some pr, some ql, some qr => pl.equal ql && pr.equal qr
  | _, _, _, _ => false

open IceModel.SoftFloat in
/-- `Agent.shouldRenominate(current, candidate)` at virtual time `now`. -/
def Agent.shouldRenominate (a : Agent) (now : Nat) (cur cand : Pair) : Bool :=
  if a.pairEqual cur cand || cand.state != .succeeded then false
  -- relay → direct
  else if (a.localTy cur == 4 || a.remoteTy cur == 4) && (a.localTy cand == 1 && a.remoteTy cand == 1) then true
  else
    let curRTT := seconds cur.rtt
    let candRTT := seconds cand.rtt
    -- the round trip improves by more than 10 ms (both measured)
    if curRTT.gt F.zero && candRTT.gt F.zero && durationOfSeconds curRTT - durationOfSeconds candRTT > 10000000 then true
    -- the quality improves by more than 15 %
    else (a.quality now cand).gt ((a.quality now cur).mul c115)

/-- `keepAliveCandidatesForRenomination`: every pair that has not failed is pinged (a waiting pair becomes in-progress);
neither `bindingRequestCount` nor `maxBindingRequests` plays a role. -/
def Agent.keepAliveAll (a : Agent) (now : Nat) : Agent × List Out :=
  (a.checklist.map (·.id)).foldl (fun (acc : Agent × List Out) id =>
    let (a, o) := acc
    match a.pairById id with
    | none => (a, o)
    | some p =>
      if p.state == .failed then (a, o) else
      let a := if p.state == .waiting then a.modPair id fun q => { q with state := .inProgress } else a
      match a.localOf p.l, a.remoteOf p.r with
      | some l, some r =>
        let (a, o') := a.ping now l r
        (a, o ++ o')
      | _, _ => (a, o)) (a, [])

/-- `getNominationValue()` with a counter generator: the next value (uint32 wrap-around) -/
def Agent.nextNomValue (a : Agent) : Nat := (a.nomCounter + 1) % 4294967296

/-- `renominateCandidate(local, remote)` as the automatic check calls it (an error is only logged): the value comes from
the generator, `sendNominationRequest` attaches it when it is > 0. -/
def Agent.autoIssue (a : Agent) (now : Nat) (l r : Cand) : Agent × List Out :=
  if !a.controlling then (a, [])
  else if !a.cfg.enableRenomination then (a, [])
  else
    match a.findPair l r with
    | none => (a, [])
    | some _ =>
      let v := a.nextNomValue
      let a := { a with nomCounter := a.nomCounter + 1 }
      let (a, o) := a.sendRequest now l r true (if v > 0 then some v else none)
      ({ a with nomIssued := a.nomIssued ++ [(v, l.addr, r.addr)] }, o)

/-- the gate of `checkForAutomaticRenomination`: both options on, the interval has passed since the selector started and
since the last automatic renomination -/
def Agent.autoDue (a : Agent) (now : Nat) : Bool :=
  a.cfg.autoRenom && a.cfg.enableRenomination && !(now - a.selStart < a.cfg.renomInterval) &&
  !(match a.lastRenomTime with | some t => now - t < a.cfg.renomInterval | none => false)

/-- `checkForAutomaticRenomination`. -/
def Agent.autoCheck (a : Agent) (now : Nat) : Agent × List Out :=
  if !a.autoDue now then (a, [])
  else
    match a.selected.bind a.pairById with
    | none => (a, [])
    | some cur =>
      match a.findBest now with
      | none => (a, [])
      | some best =>
        if a.shouldRenominate now cur best then
          match a.localOf best.l, a.remoteOf best.r with
          | some l, some r => ({ a with lastRenomTime := some now }).autoIssue now l r
          | _, _ => ({ a with lastRenomTime := some now }, [])
        else (a, [])

/-- what `controllingSelector.ContactCandidates` does after `checkKeepalive` while a pair is selected -/
def Agent.autoRenom (a : Agent) (now : Nat) : Agent × List Out :=
  let (a, o) := if a.cfg.autoRenom && a.cfg.enableRenomination then a.keepAliveAll now else (a, [])
  let (a, o') := a.autoCheck now
  (a, o ++ o')

def Config.waitFor (cfg : Config) (ty : Nat) : Option Nat :=
  if ty == 1 then some cfg.hostWait else if ty == 2 then some cfg.srflxWait
  else if ty == 3 then some cfg.prflxWait else if ty == 4 then some cfg.relayWait else none

/-- `controllingSelector.isNominatable`. -/
def Agent.nominatable (a : Agent) (now : Nat) (c : Cand) : Bool :=
  match a.cfg.waitFor c.ty with
  | some w => now - a.selStart ≥ w
  | none => false

/-- `controllingSelector.nominatePair`. -/
def Agent.nominate (a : Agent) (now : Nat) (p : Pair) : Agent × List Out :=
  match a.localOf p.l, a.remoteOf p.r with
  | some l, some r => a.sendRequest now l r true none
  | _, _ => (a, [])

/-- `ContactCandidates` of the selector in force (controlling / controlled, wrapped by lite). -/
def Agent.contactCandidates (a : Agent) (now : Nat) : Agent × List Out :=
  if a.controlling then
    -- controllingSelector (a lite controlling agent falls back to this too)
    if a.selected.isSome then
      let (a, o, ok) := a.validateSelected now
      if ok then let (a, o') := a.keepalive now; let (a, o'') := a.autoRenom now; (a, o ++ o' ++ o'') else (a, o)
    else match a.nominatedPair.bind a.pairById with
    | some p => a.nominate now p
    | none =>
      match a.nominatedPair with
      | some _ => (a, [])   -- nominated pair no longer listed: the Go pointer would still be pinged; unreachable (invariant)
      | none =>
      match a.bestValid with
      | some p =>
        match a.localOf p.l, a.remoteOf p.r with
        | some l, some r =>
          if a.nominatable now l && a.nominatable now r then
            let a := a.modPair p.id fun p => { p with nominated := true }
            let a := { a with nominatedPair := some p.id }
            a.nominate now p
          else a.pingAll now
        | _, _ => a.pingAll now
      | none => a.pingAll now
  else if a.cfg.lite then
    -- liteSelector over controlledSelector: only validateSelectedPair
    let (a, o, _) := a.validateSelected now
    (a, o)
  else
    if a.selected.isSome then
      let (a, o, ok) := a.validateSelected now
      if ok then let (a, o') := a.keepalive now; (a, o ++ o') else (a, o)
    else a.pingAll now

/-- the per-tick closure `contact` of `connectivityChecks`. -/
def Agent.contact (a : Agent) (now : Nat) : Agent × List Out :=
  if a.closed then (a, [])
  else
    let fin (x : Agent × List Out) : Agent × List Out := ({ x.1 with lastSeen := x.1.connState }, x.2)
    match a.connState with
    | .failed => fin (a, [])
    | .checking =>
      let a := if a.lastSeen != .checking then { a with checkingStart := now } else a
      if a.checkingTimeout != 0 && now - a.checkingStart > a.checkingTimeout then
        fin (a.setConnState .failed)
      else fin (a.contactCandidates now)
    | _ => fin (a.contactCandidates now)

/-- wait before the next automatic tick, from the state seen by the last tick. -/
def Agent.interval (a : Agent) : Nat :=
  let upd (i x : Nat) : Nat := if x != 0 && (i == 0 || i > x) then x else i
  let i := 2000000000
  let i := match a.lastSeen with
    | .new | .checking => upd i a.cfg.checkInterval
    | .connected | .disconnected => upd i a.cfg.keepaliveInterval
    | _ => i
  upd (upd i a.cfg.disconnectedTimeout) a.cfg.failedTimeout

/-- run a forced tick if one is pending (the goroutine is woken through `forceCandidateContact`). -/
def Agent.runForced (a : Agent) (now : Nat) : Agent × List Out :=
  if a.started && !a.closed && a.forcePending then
    let (a, o) := ({ a with forcePending := false }).contact now
    ({ a with nextTick := some (now + a.interval) }, o)
  else (a, [])

/-- run every timer tick that is due up to `now` (fuel = a bound on the number of ticks; the interval is > 0). -/
def Agent.runTimers (a : Agent) (now : Nat) : Nat → Agent × List Out
  | 0 => (a, [])
  | fuel + 1 =>
    match a.nextTick with
    | some t =>
      if a.started && !a.closed && t ≤ now then
        let (a, o) := a.contact t
        let a := { a with nextTick := some (t + a.interval) }
        let (a, o') := a.runTimers now fuel
        (a, o ++ o')
      else (a, [])
    | none => (a, [])

/-! ## Candidates and pairs -/

/-- `addPair`. -/
def Agent.addPair (a : Agent) (l r : Cand) : Agent × Pair :=
  let id := a.nextPairID + 1
  let p : Pair := { id := id, l := l.uid, r := r.uid, controlling := a.controlling }
  ({ a with nextPairID := id, checklist := a.checklist ++ [p] }, p)

def Agent.requestCheck (a : Agent) : Agent := { a with forcePending := true }

/-- `copyCandidateActivity`. -/
def copyActivity (dst src : Cand) : Cand :=
  let dst := match src.lastRecv, dst.lastRecv with
    | some t, none => { dst with lastRecv := some t }
    | _, _ => dst
  match src.lastSent, dst.lastSent with
  | some t, none => { dst with lastSent := some t }
  | _, _ => dst

/-- `replaceRemoteInPairs` for one superseded prflx candidate `old` replaced by `c`
(`c` and `old` are both resolvable in `remotes` while this runs). -/
def Agent.replaceRemoteInPairs (a : Agent) (old c : Cand) : Agent × List Out :=
  (a.checklist.map (·.id)).foldl (fun (acc : Agent × List Out) id =>
    let (a, o) := acc
    match a.pairById id with
    | some p =>
      if p.r == old.uid then
        let oldPrio := a.pairPrio p
        let a := a.modPair id fun p => { p with r := c.uid, prioOverride := some oldPrio }
        if a.selected == some id then
          let (a, o') := a.select id
          (a, o ++ o')
        else (a, o)
      else (a, o)
    | none => (a, o)) (a, [])

/-- `addRemoteCandidate`; `c.uid` is ignored and assigned here. Returns acceptance. -/
def Agent.addRemoteCandidate (a : Agent) (c : Cand) : Agent × List Out × Option Cand :=
  if a.cfg.blockedIPs.contains (ipOf c.addr) then (a, [], none)
  else
    match (a.remotes.filter (·.net == c.net)).find? (·.equal c) with
    | some e => (a, [], some e)
    | none =>
      let c := { c with uid := a.nextUid }
      let a := { a with nextUid := a.nextUid + 1 }
      -- RFC 8838 §11.4: a signalled candidate supersedes prflx candidates with the same transport address
      let replaced := if c.ty == 3 then [] else a.remotes.filter fun e => e.net == c.net && e.ty == 3 && e.taEqual c
      -- the pairs are retargeted while the old remote is still resolvable; `remotes` gets `c` first so the
      -- new uid resolves, and the superseded candidates are dropped afterwards
      let c : Cand := replaced.foldl copyActivity c
      -- `c` is made resolvable first, the pairs are retargeted while the superseded candidates are still
      -- resolvable (their priority is frozen into the pair), then the superseded candidates are dropped
      let a : Agent := { a with remotes := a.remotes ++ [c] }
      let res : Agent × List Out := replaced.foldl (fun (acc : Agent × List Out) (old : Cand) =>
        let r := acc.1.replaceRemoteInPairs old c
        let a : Agent := r.1
        let a : Agent := { a with caches := a.caches.map fun (x : Nat × Nat × Nat) => if x.2.2 == old.uid then (x.1, x.2.1, c.uid) else x }
        (a, acc.2 ++ r.2)) (a, [])
      let a : Agent := res.1
      let o : List Out := res.2
      let a : Agent := { a with remotes := a.remotes.filter fun (e : Cand) => !(replaced.any fun (x : Cand) => x.uid == e.uid) }
      -- `if cand.TCPType() != TCPTypePassive`: a passive remote candidate is stored but NOT paired with the
      -- local candidates present (only an active local candidate dialled for it would be; none here)
      let a : Agent := (a.locals.filter fun (x : Cand) => x.net == c.net && c.tt != 2).foldl (fun (a : Agent) (l : Cand) =>
        match a.findPair l c with
        | some _ => a
        | none => (a.addPair l c).1) a
      (a.requestCheck, o, some c)

/-- `addCandidate` (local). -/
def Agent.addLocalCandidate (a : Agent) (c : Cand) : Agent × List Out :=
  if a.closed then (a, [.res "err:closed"])
  else
    match (a.locals.filter (·.net == c.net)).find? (·.equal c) with
    | some _ => (a, [.res "dup"])
    | none =>
      let c := { c with uid := a.nextUid }
      let a := { a with nextUid := a.nextUid + 1, locals := a.locals ++ [c] }
      let a := (a.remotes.filter (·.net == c.net)).foldl (fun a r => (a.addPair c r).1) a
      (a.requestCheck, [.cbCand c.addr, .res "ok"])

/-! ## Inbound STUN -/

def needsPrioCheck (cfg : Config) : Bool := !cfg.lite || cfg.useCandCheckPriority

/-- `handleInboundBindingSuccess`: expire, then find and remove the transaction. -/
def Agent.takePending (a : Agent) (now : Nat) (tid : Nat) : Agent × Option Pending :=
  let a := a.invalidatePending now
  match a.pending.find? (·.tid == tid) with
  | some p => ({ a with pending := a.pending.filter (·.tid != tid) }, some p)
  | none => (a, none)

/-- `HandleSuccessResponse` of both selectors. -/
def Agent.handleSuccess (a : Agent) (now : Nat) (m : Msg) (l r : Cand) (src : Nat) : Agent × List Out :=
  let (a, pend) := a.takePending now m.tid
  match pend with
  | none => (a, [])
  | some pd =>
    if !(pd.net == l.net && pd.dest == src && pd.src == l.addr) then (a, [])
    else
      match a.findPair l r with
      | none => (a, [])
      | some p =>
        let a := a.modPair p.id fun p => { p with state := .succeeded, gResp := true, gRespUC := p.gRespUC || pd.useCand }
        let (a, o) :=
          if a.controlling then
            if pd.useCand then
              match pd.nom with
              | some v =>
                -- the controlled agent keeps the greatest value: a response to a superseded renomination is ignored
                let superseded := match a.answeredNomination with | none => false | some w => v ≤ w
                if superseded then (a, [])
                else ({ a with answeredNomination := some v }).select p.id
              | none => if a.selected.isNone then a.select p.id else (a, [])
            else (a, [])
          else
            if p.nomOnSuccess then
              let (a, o) : Agent × List Out :=
                match p.deferredNom with
                | some v =>
                  -- deferred renomination: ignored if a greater value has been accepted since, else it wins
                  let superseded := match a.lastNomination with | none => true | some last => v < last
                  if superseded then (a, [])
                  else if a.selected != some p.id then a.select p.id else (a, [])
                | none =>
                  match a.selected.bind a.pairById with
                  | none => a.select p.id
                  | some sp =>
                    -- a value has been accepted since: a deferred nomination without a value does not move the selection
                    if sp.id != p.id && a.lastNomination.isSome then (a, [])
                    else if sp.id != p.id && (!needsPrioCheck a.cfg || a.pairPrio sp ≤ a.pairPrio p) then a.select p.id
                    else (a, [])
              -- the deferred nomination has been acted upon: a later response on this pair must not replay it
              (a.modPair p.id fun p => { p with nomOnSuccess := false, deferredNom := none }, o)
            else (a, [])
        -- `pair.UpdateRoundTripTime(rtt)`: rtt = `time.Since(pendingRequest.timestamp)`
        (a.modPair p.id (Pair.gotResponse now pd.ts), o)

/-- `controllingSelector.HandleBindingRequest`. -/
def Agent.ctlHandleRequest (a : Agent) (now : Nat) (m : Msg) (l r : Cand) : Agent × List Out :=
  let (a, o) := a.sendSuccess now m l r
  match a.findPair l r with
  | none =>
    let (a, p) := a.addPair l r
    (a.modPair p.id fun p => { p with reqRecv := p.reqRecv + 1, gReq := true, gNomReq := p.gNomReq || m.useCand || m.nom.isSome }, o)
  | some p =>
    let a := a.modPair p.id fun p => { p with reqRecv := p.reqRecv + 1, gReq := true, gNomReq := p.gNomReq || m.useCand || m.nom.isSome }
    if p.state == .succeeded && a.nominatedPair.isNone && a.selected.isNone then
      match a.bestAvailable with
      | none => (a, o)
      | some b =>
        let same := match a.localOf b.l, a.remoteOf b.r with
          | some bl, some br => bl.equal l && br.equal r
          | _, _ => false
        if same && a.nominatable now l && a.nominatable now r then
          let a := { a with nominatedPair := some p.id }
          let (a, o') := a.nominate now p
          (a, o ++ o')
        else (a, o)
    else (a, o)

/-- `controlledSelector.HandleBindingRequest`. -/
def Agent.cldHandleRequest (a : Agent) (now : Nat) (m : Msg) (l r : Cand) : Agent × List Out :=
  let (a, p) := match a.findPair l r with
    | some p => (a, p)
    | none => a.addPair l r
  let id := p.id
  let a := a.modPair id fun p => { p with reqRecv := p.reqRecv + 1, gReq := true, gNomReq := p.gNomReq || m.useCand || m.nom.isSome }
  let nominated := m.useCand || m.nom.isSome
  -- shouldAcceptNomination
  let (a, accept) :=
    if !nominated then (a, true) else
    match m.nom with
    | none => (a, true)
    | some v =>
      match a.lastNomination with
      | none => ({ a with lastNomination := some v }, true)
      | some last => if v > last then ({ a with lastNomination := some v }, true) else (a, false)
  if nominated && !accept then a.sendSuccess now m l r
  else
    let (a, o) :=
      if nominated then
        let a := if a.cfg.lite then a.modPair id fun p => { p with state := .succeeded } else a
        match a.pairById id with
        | none => (a, [])
        | some p =>
          if p.state == .succeeded then
            -- shouldSwitchSelectedPair
            let sw := match a.selected.bind a.pairById with
              | none => true
              | some sp =>
                if sp.id == id then false
                else if m.nom.isSome then true
                else if a.lastNomination.isSome then false
                else !needsPrioCheck a.cfg || a.pairPrio sp < a.pairPrio p
            if sw then a.select id else (a, [])
          -- a nomination without a value does not replace the deferred value of an accepted renomination
          else if m.nom.isSome || p.deferredNom.isNone then
            (a.modPair id fun p => { p with nomOnSuccess := true, deferredNom := m.nom }, [])
          else (a, [])
      else (a, [])
    let (a, o1) := a.sendSuccess now m l r
    let (a, o2) :=
      match a.pairById id with
      | some p =>
        if !a.cfg.lite && (p.state != .succeeded || a.selected.isNone) then a.ping now l r else (a, [])
      | none => (a, [])
    (a, o ++ o1 ++ o2)

/-- `handleRoleConflict`: `true` = keep the role and answer 487. -/
def roleConflictKeeps (controlling : Bool) (own theirs : Nat) : Bool :=
  (controlling && own ≥ theirs) || (!controlling && !(own ≥ theirs))

/-- `setSelector()`: a fresh selector of the current role. -/
def Agent.resetSelector (a : Agent) (now : Nat) : Agent :=
  { a with selStart := now, nominatedPair := none, lastNomination := none, answeredNomination := none }

/-- computed priority of a discovered peer-reflexive candidate (no PRIORITY attribute, or 0): type preference 110
(minus the default TCP offset 27 — a remote candidate has no agent), local preference 65535 (TCP: direction
preference 0 for the unspecified tcptype, other-pref 8191) -/
def prflxPriority (net comp : Nat) : Nat :=
  if isTCP net then IceModel.Prio.priority 83 8191 comp else IceModel.Prio.priority 110 65535 comp

/-- `handleInbound`. `l` is the receiving local candidate, `src` the canonical source address. -/
def Agent.handleInbound (a : Agent) (now : Nat) (l : Cand) (src : Nat) (m : Msg) : Agent × List Out :=
  if !(m.method == 1 && (m.cls == 2 || m.cls == 0 || m.cls == 1)) then (a, [])
  else
    let rc := a.findRemote l.net src
    if m.cls == 2 then
      if m.key != some a.remotePwd then (a, [])
      else match rc with
        | none => (a, [])
        | some r =>
          let (a, o) := a.handleSuccess now m l r src
          (a.seenRemoteRecv r.uid now, o)
    else if m.cls == 0 then
      if m.user != some (a.localUfrag ++ ":" ++ a.remoteUfrag) then (a, [])
      else if m.key != some a.localPwd then (a, [])
      else
        -- unknown source: discover a peer-reflexive candidate
        let (a, o0, rc) := match rc with
          | some r => (a, [], some r)
          | none =>
            let c : Cand := { uid := 0, ty := 3, net := l.net, addr := src, comp := l.comp, rel := some 0,
                              prio := match m.prio with | some p => if p == 0 then prflxPriority l.net l.comp else p | none => prflxPriority l.net l.comp }
            a.addRemoteCandidate c
        match rc with
        | none => (a, o0)
        | some r =>
          match m.role with
          | some (ctl, tb) =>
            if ctl == a.controlling then
              -- role conflict: never treated as a check
              if roleConflictKeeps a.controlling a.tieBreaker tb then
                let a := a.seenLocalSent l.uid now
                (a, o0 ++ [.dgram l.addr r.addr { cls := 3, tid := m.tid, key := some a.localPwd, errCode := some 487 }])
              else
                (({ a with controlling := !a.controlling }).resetSelector now, o0)
            else
              let (a, o) := if a.controlling then a.ctlHandleRequest now m l r else a.cldHandleRequest now m l r
              (a.seenRemoteRecv r.uid now, o0 ++ o)
          | none =>
            let (a, o) := if a.controlling then a.ctlHandleRequest now m l r else a.cldHandleRequest now m l r
            (a.seenRemoteRecv r.uid now, o0 ++ o)
    else
      -- Binding indication: only the liveness timestamp of a known remote
      match rc with
      | some r => (a.seenRemoteRecv r.uid now, [])
      | none => (a, [])

/-! ## Data plane -/

def Agent.writeVia (a : Agent) (now : Nat) (p : Pair) (len : Nat) : Agent × List Out :=
  match a.localOf p.l, a.remoteOf p.r with
  | some l, some r =>
    let a := a.seenLocalSent l.uid now
    let a := if len > 0 then
        a.modPair p.id fun p => { p with pktSent := p.pktSent + 1, bytesSent := p.bytesSent + len }
      else a
    (a, [.data l.addr r.addr len, .res s!"ok:{len}"])
  | _, _ => (a, [.res "err:nopairs"])

/-- `Conn.Write`. -/
def Agent.write (a : Agent) (now : Nat) (len : Nat) (stunLike : Bool) : Agent × List Out :=
  if a.closed then (a, [.res "err:closed"])
  else if stunLike then (a, [.res "err:stun"])
  else
    match (a.selected.bind a.pairById).orElse (fun _ => a.bestValid) with
    | none => (a, [.res "err:nopairs"])
    | some p =>
      let (a, o) := a.writeVia now p len
      ({ a with connBytesSent := a.connBytesSent + len }, o)

/-- `Conn.WriteToPair`. -/
def Agent.writeToPair (a : Agent) (now : Nat) (id : Nat) (len : Nat) (stunLike : Bool) : Agent × List Out :=
  if a.closed then (a, [.res "err:closed"])
  else if stunLike then (a, [.res "err:stun"])
  else
    match a.pairById id with
    | none => (a, [.res "err:notfound"])
    | some p => if p.state != .succeeded then (a, [.res "err:notsucceeded"]) else a.writeVia now p len

/-- `maxBufferSize`: `agent.buf.SetLimitSize(1000 * 1000)`. -/
def rxLimit : Nat := 1000000

/-- bytes the queued datagrams occupy in `packetio.Buffer`: each carries a 2-byte length header -/
def rxUsed (rx : List Nat) : Nat := (rx.map (· + 2)).sum

/-- `Buffer.Write` accepts a packet iff `size() + 2 + len(packet) ≤ limitSize` (no count limit is configured; the
ring grows up to `limitSize + 1` bytes and keeps one byte free, which amounts to the same bound). -/
def rxFits (rx : List Nat) (len : Nat) : Bool := rxUsed rx + 2 + len ≤ rxLimit

/-- an accepted payload: queued for the reader, then credited to the selected pair (`UpdatePacketReceived`, only for
`n > 0`) -/
def Agent.enqueue (a : Agent) (len : Nat) : Agent :=
  let a := { a with rx := a.rx ++ [len] }
  if len > 0 then
    match a.selected with
    | some id => a.modPair id fun p => { p with pktRecv := p.pktRecv + 1, bytesRecv := p.bytesRecv + len }
    | none => a
  else a

/-- non-STUN datagram arriving on local candidate `l` from `src`. -/
def Agent.inboundData (a : Agent) (now : Nat) (l : Cand) (src : Nat) (len : Nat) : Agent × List Out :=
  let cached := a.caches.find? fun (lu, s, _) => lu == l.uid && s == src
  let (a, ok) := match cached with
    | some (_, _, ru) => (a.seenRemoteRecv ru now, true)
    | none =>
      match a.findRemote l.net src with
      | some r => ({ (a.seenRemoteRecv r.uid now) with caches := a.caches ++ [(l.uid, src, r.uid)] }, true)
      | none => (a, false)
  if !ok then (a, [])
  -- `agent.buf.Write` fails with `packetio.ErrFull`: the datagram is dropped (the error is only logged) AFTER the
  -- source was validated — the remote candidate's last-received time and the cache entry stay — and BEFORE the
  -- selected pair is credited
  else if !rxFits a.rx len then (a, [])
  else (a.enqueue len, [])

/-! ## The step function -/

def Agent.initialCheckingTimeout (a : Agent) : Nat :=
  if a.cfg.failedTimeout == 0 then 0
  else (if a.cfg.lite && !a.cfg.disconnectedExplicit then 5000000000 else a.cfg.disconnectedTimeout) + a.cfg.failedTimeout

def Agent.doRestart (a : Agent) (now : Nat) (ufrag pwd : String) : Agent × List Out :=
  let a := { a with localUfrag := ufrag, localPwd := pwd, remoteUfrag := "", remotePwd := "" }
  let a := (a.wipe).resetSelector now
  let a := { a with generation := a.generation + 1 }
  if a.connState != .new then a.setConnState .checking else (a, [])

def step (a : Agent) : Ev → Agent × List Out
  | .addLocal now c =>
    let (a, o) := a.addLocalCandidate c
    let (a, o') := a.runForced now
    (a, o ++ o')
  | .addRemote now c =>
    if a.closed then (a, [.res "err:closed"]) else
    -- the public `AddRemoteCandidate` ignores a candidate with tcptype active (whatever its network type)
    if c.tt == 1 then (a, []) else
    let (a, o, _) := a.addRemoteCandidate c
    let (a, o') := a.runForced now
    (a, o ++ o')
  | .start now controlling ru rp =>
    if a.closed then (a, [.res "err:closed"])
    else if a.started then (a, [.res "err:multiplestart"])
    else if ru == "" then (a, [.res "err:ufragempty"])
    else if rp == "" then (a, [.res "err:pwdempty"])
    else
      let a := { a with controlling := controlling, remoteUfrag := ru, remotePwd := rp, started := true }
      let a := a.resetSelector now
      let (a, o) := a.setConnState .checking
      let a := { a.requestCheck with lastSeen := .unknown, checkingStart := 0, checkingTimeout := a.initialCheckingTimeout }
      let (a, o') := a.runForced now
      (a, o ++ [.res "ok"] ++ o')
  | .setRemoteCreds ru rp =>
    if ru == "" then (a, [.res "err:ufragempty"])
    else if rp == "" then (a, [.res "err:pwdempty"])
    else if a.closed then (a, [.res "err:closed"])
    else ({ a with remoteUfrag := ru, remotePwd := rp }, [.res "ok"])
  | .advance now => a.runTimers now 100000
  | .inbound now la src m =>
    if a.closed || !a.started then (a, []) else
    match a.localByAddr la with
    | none => (a, [])
    | some l =>
      let (a, o) := a.handleInbound now l src m
      let (a, o') := a.runForced now
      (a, o ++ o')
  | .inboundData now la src len stunLike =>
    if a.closed || !a.started || stunLike then (a, []) else
    match a.localByAddr la with
    | none => (a, [])
    | some l => a.inboundData now l src len
  | .write now len stunLike => a.write now len stunLike
  | .writeToPair now id len stunLike => a.writeToPair now id len stunLike
  | .read cap =>
    -- `packetio.Buffer.Read`: the head datagram is consumed whole; `min n cap` bytes are returned (and
    -- counted by `Conn.Read`), with `io.ErrShortBuffer` when the caller's buffer is shorter than it
    if a.closed then (a, [.res "err:closed"]) else
    match a.rx with
    | [] => (a, [.res "empty"])
    | n :: rest =>
      ({ a with rx := rest, connBytesRecv := a.connBytesRecv + min n cap },
       [.res (if cap < n then s!"short:{cap}" else s!"read:{n}")])
  | .renominate now la ri value =>
    if !a.controlling then (a, [.res "err:notcontrolling"])
    else if !a.cfg.enableRenomination then (a, [.res "err:notenabled"])
    else
      match a.localByAddr la, a.remotes[ri]? with
      | some l, some r =>
        match a.findPair l r with
        | none => (a, [.res "err:notfound"])
        | some _ =>
          let nom := if value > 0 then some value else none
          let (a, o) := a.sendRequest now l r true nom
          ({ a with nomIssued := a.nomIssued ++ [(value, l.addr, r.addr)] }, o ++ [.res "ok"])
      | _, _ => (a, [.res "err:notfound"])
  | .restart now ufrag pwd =>
    if a.closed then (a, [.res "err:closed"]) else
    let (a, o) := a.doRestart now ufrag pwd
    (a, o ++ [.res "ok"])
  | .close =>
    if a.closed then (a, [.res "ok"]) else
    let a := { a with locals := [], remotes := [], caches := [], closed := true }
    let (a, o) := a.setConnState .closed
    (a, o ++ [.res "ok"])

end IceModel.AgentCore
