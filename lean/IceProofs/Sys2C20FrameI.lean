import IceProofs.Sys2C20FrameH
/-!
# C20 on `Sys2` — the frame relation across `handleInbound`
-/
namespace IceProofs.C20S
open IceModel.AgentCore IceProofs.Agent IceProofs.AgentC06

/-- the transaction (and pair) an inbound message on `l` from `src` completes: an authenticated success response from
a known source whose transaction is pending, symmetric, on a listed pair -/
def ansOf (a : Agent) (now : Nat) (l : Cand) (src : Nat) (m : Msg) : Option (Pending × Pair) :=
  if m.method == 1 && m.cls == 2 && m.key == some a.remotePwd then
    match a.findRemote l.net src with
    | none => none
    | some r => ansPair a now m l r src
  else none

theorem ansOf_some {a : Agent} {now : Nat} {l : Cand} {src : Nat} {m : Msg} {pd : Pending} {p : Pair}
    (h : ansOf a now l src m = some (pd, p)) :
    ∃ r, m.method = 1 ∧ m.cls = 2 ∧ m.key = some a.remotePwd ∧ a.findRemote l.net src = some r ∧
      ansPair a now m l r src = some (pd, p) := by
  unfold ansOf at h
  split at h
  · rename_i hc
    simp only [Bool.and_eq_true, beq_iff_eq] at hc
    cases hr : a.findRemote l.net src with
    | none => rw [hr] at h; cases h
    | some r =>
      rw [hr] at h
      exact ⟨r, hc.1.1, hc.1.2, hc.2, rfl, h⟩
  · cases h

theorem hi_success {a : Agent} {now : Nat} {l : Cand} {src : Nat} {m : Msg} {pd : Pending} {p : Pair}
    (h : ansOf a now l src m = some (pd, p)) :
    ∃ r, a.findRemote l.net src = some r ∧ ansPair a now m l r src = some (pd, p) ∧
      (a.handleInbound now l src m).1 = (a.handleSuccess now m l r src).1.seenRemoteRecv r.uid now := by
  obtain ⟨r, h1, h2, h3, h4, h5⟩ := ansOf_some h
  refine ⟨r, h4, h5, ?_⟩
  rw [handleInbound_success a now l src m r h1 h2 h3 h4]

theorem hiDisc_eq (a : Agent) (l : Cand) (src : Nat) (m : Msg) : C03.hiDisc a l src m = resolveSource a l src m := by
  unfold C03.hiDisc resolveSource Agent.prflxCand
  cases a.findRemote l.net src <;> rfl

theorem resolveSource_g {a : Agent} (hi : Inv a) (hc : a.closed = false) (l : Cand) (src : Nat) (m : Msg) :
    G true none none none a (resolveSource a l src m).1 := by
  unfold resolveSource
  split
  · exact G.refl _ _ _ _ _
  · exact addRemoteCandidate_g hi _ hc

theorem hiReq_g {wa : Bool} (a : Agent) (now : Nat) (l r : Cand) (m : Msg) (o0 : List Out)
    (hq : a.controlling = false →
      (m.useCand || m.nom.isSome) = false ∨ (shouldAcceptNomination m.nom a.lastNomination).2 = false) :
    G wa none none none a (C03.hiReq a now l r m o0).1 := by
  unfold C03.hiReq
  cases hc : a.controlling
  · simp only [Bool.false_eq_true, if_false]
    exact (cld_quiet_g a now m l r (hq hc)).trans (seenRemoteRecv_g _ _ _)
  · simp only [if_true]
    exact (ctlHandleRequest_g a now m l r).trans (seenRemoteRecv_g _ _ _)

theorem hiRole_g {wa : Bool} (a : Agent) (now : Nat) (l r : Cand) (m : Msg) (o0 : List Out)
    (hq : a.controlling = false → roleConflict a m = none →
      (m.useCand || m.nom.isSome) = false ∨ (shouldAcceptNomination m.nom a.lastNomination).2 = false) :
    G wa none none none a (C03.hiRole a now l r m o0).1 := by
  unfold C03.hiRole
  split
  · rename_i ctl tb hrole
    split
    · split
      · exact seenLocalSent_g _ _ _
      · exact G.of_eq rfl rfl rfl rfl (fun _ h => h) rfl
    · rename_i hne
      refine hiReq_g a now l r m o0 (fun hc => hq hc ?_)
      unfold roleConflict
      rw [hrole]
      simp only [hne]
      rfl
  · rename_i hrole
    refine hiReq_g a now l r m o0 (fun hc => hq hc ?_)
    unfold roleConflict
    rw [hrole]

/-- **`handleInbound`, the quiet case**: no transaction is completed and no nomination value is accepted -/
theorem hi_quiet {a : Agent} (hi : Inv a) (hc : a.closed = false) (now : Nat) (l : Cand) (src : Nat) (m : Msg)
    (hans : ansOf a now l src m = none)
    (hq : a.controlling = false → cldDelivers a l src m = true →
      (m.useCand || m.nom.isSome) = false ∨ (shouldAcceptNomination m.nom a.lastNomination).2 = false) :
    G true none none none a (a.handleInbound now l src m).1 := by
  rw [C03.handleInbound_eq]
  split
  · exact G.refl _ _ _ _ _
  · rename_i hmeth
    have hm1 : m.method = 1 := by
      simp only [Bool.not_eq_true, Bool.not_eq_false', Bool.and_eq_true, beq_iff_eq] at hmeth
      exact hmeth.1
    split
    · rename_i hcls
      split
      · exact G.refl _ _ _ _ _
      · rename_i hkey
        split
        · exact G.refl _ _ _ _ _
        · rename_i r hr
          have hk : m.key = some a.remotePwd := by simpa using hkey
          have hc2 : m.cls = 2 := by simpa using hcls
          have : ansPair a now m l r src = none := by
            unfold ansOf at hans
            rw [hr] at hans
            simpa [hm1, hc2, hk] using hans
          exact (handleSuccess_none a now m l r src this).trans (seenRemoteRecv_g _ _ _)
    · split
      · rename_i hcls
        have hc0 : m.cls = 0 := by simpa using hcls
        split
        · exact G.refl _ _ _ _ _
        · rename_i huser
          split
          · exact G.refl _ _ _ _ _
          · rename_i hkey
            have hu : m.user = some (a.localUfrag ++ ":" ++ a.remoteUfrag) := by simpa using huser
            have hk : m.key = some a.localPwd := by simpa using hkey
            have hauth : AuthRequest a m := ⟨hm1, hc0, hu, hk⟩
            rw [hiDisc_eq]
            have hd := resolveSource_g hi hc l src m
            have hcore := core_resolveSource a l src m
            split
            · exact hd
            · rename_i r hr
              refine hd.trans (hiRole_g _ now l r m _ ?_)
              intro hc1 hnc1
              have hca : a.controlling = false :=
                (congrArg Core.controlling hcore).symm.trans hc1
              have hnca : roleConflict a m = none :=
                (roleConflict_congr hcore m).symm.trans hnc1
              have hdel : cldDelivers a l src m = true := by
                rw [cldDelivers_iff]
                refine ⟨hauth, ?_, hca, (roleConflict_eq_none a m).1 hnca⟩
                rw [hr]; rfl
              have hln : (resolveSource a l src m).1.lastNomination = a.lastNomination :=
                congrArg Core.lastNomination hcore
              rw [hln]
              exact hq hca hdel
      · split
        · exact seenRemoteRecv_g _ _ _
        · exact G.refl _ _ _ _ _

end IceProofs.C20S
