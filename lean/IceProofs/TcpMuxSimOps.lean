import IceProofs.TcpMuxSimStep
/-!
# The monitor's bookkeeping for the single operations follows the model (`BookOK`)
-/
namespace IceProofs.TcpMux
open IceModel.TcpMux IceSpec.C15 IceSpec.C15.View

/-- the bookkeeping `b` of the monitor (state `m`) for a step `s → s'` of the model is correct -/
structure BookOK (s s' : State) (m : Mon) (b : Mon × Option String × Bool) : Prop where
  verdict : b.2.1 = none
  u : SimU s' (expire b.1)
  n : NRead s' (expire b.1)
  prov : ∀ (k : Nat) (c : MClient) (p : Nat) (pc : MPc) (d : Nat), b.1.clients[k]? = some c → c.target = some p →
    b.1.pcs[p]? = some pc → pc.expires = some d → d ≤ b.1.now → ∃ t', s'.tcps[k]? = some t' ∧ t'.isClosed = true
  old : ∀ (k : Nat) (c : MClient), b.1.clients[k]? = some c → c.closed = true →
    ∃ t', s'.tcps[k]? = some t' ∧ t'.isClosed = true
  ret : b.1.returned = m.returned
  outs : b.2.2 = false → newReplies s.tcps s'.tcps = []

/-- the usual case: the bookkeeping already yields the records of the new state -/
theorem bookOK_mk {s s' : State} {m : Mon} {b : Mon × Option String × Bool} (hv : b.2.1 = none)
    (hu : SimU s' b.1) (hn : NRead s' b.1) (hi' : Inv s')
    (hold : ∀ (k : Nat) (c : MClient), b.1.clients[k]? = some c → c.closed = true →
      ∃ t', s'.tcps[k]? = some t' ∧ t'.isClosed = true)
    (hret : b.1.returned = m.returned) (houts : b.2.2 = false → newReplies s.tcps s'.tcps = []) : BookOK s s' m b := by
  have he : expire b.1 = b.1 := expire_id b.1 s' hu.pcs hu.now hi'
  refine ⟨hv, by rw [he]; exact hu, by rw [he]; exact hn, ?_, hold, hret, houts⟩
  intro k c p pc d _ _ hp he' hd
  exfalso
  rw [hu.pcs, List.getElem?_map] at hp
  cases hq : s'.pcs[p]? with
  | none => rw [hq] at hp; cases hp
  | some pc0 =>
    rw [hq] at hp
    simp only [Option.map_some, Option.some.injEq] at hp
    rw [← hp] at he'
    have := (hi'.pc p pc0 hq).2.2.2.2.2 d he'
    rw [hu.now] at hd; omega

theorem ext_closed_mono {s s' : State} (e : Ext s s') :
    ∀ (k : Nat) (t : Tcp), s.tcps[k]? = some t → t.isClosed = true → ∃ t', s'.tcps[k]? = some t' ∧ t'.isClosed = true := by
  intro k t ht hc
  obtain ⟨t', ht', te⟩ := e.tcps k t ht
  refine ⟨t', ht', ?_⟩
  have := te.phase
  rw [isClosed_iff.1 hc] at this
  simp only [PhaseStep] at this
  exact isClosed_iff.2 this

theorem old_of_flags {s s' : State} {m : Mon} {cl' : List MClient} (hf : Flags s.tcps m)
    (hlen : m.clients.length = s.tcps.length) (e : Ext s s')
    (hcl : ∀ (k : Nat) (c : MClient), cl'[k]? = some c → c.closed = true → ∃ c0, m.clients[k]? = some c0 ∧ c0.closed = true) :
    ∀ (k : Nat) (c : MClient), cl'[k]? = some c → c.closed = true → ∃ t', s'.tcps[k]? = some t' ∧ t'.isClosed = true := by
  intro k c hc hcc
  obtain ⟨c0, hc0, h0⟩ := hcl k c hc hcc
  have hlt : k < s.tcps.length := by rw [← hlen]; exact getElem?_lt hc0
  obtain ⟨t, ht⟩ := getElem?_of_lt hlt
  exact ext_closed_mono e k t ht (by rw [← hf k t c0 ht hc0]; exact h0)

theorem closed_setAt {l : List MClient} {k : Nat} {h : MClient → MClient} (hh : ∀ c, (h c).closed = c.closed) :
    ∀ (j : Nat) (c : MClient), (setAt l k h)[j]? = some c → c.closed = true → ∃ c0, l[j]? = some c0 ∧ c0.closed = true := by
  intro j c hc hcc
  unfold setAt at hc
  rw [getElem?_modify_map] at hc
  cases h0 : l[j]? with
  | none => rw [h0] at hc; cases hc
  | some c0 =>
    rw [h0] at hc
    simp only [Option.map_some, Option.some.injEq] at hc
    refine ⟨c0, rfl, ?_⟩
    rw [← hc] at hcc
    split at hcc
    · rw [hh] at hcc; exact hcc
    · exact hcc

theorem closed_same {l : List MClient} :
    ∀ (j : Nat) (c : MClient), l[j]? = some c → c.closed = true → ∃ c0, l[j]? = some c0 ∧ c0.closed = true :=
  fun _ c hc hcc => ⟨c, hc, hcc⟩

/-! ## accept -/

/-- the record the monitor creates for a newly accepted (`acc`) or refused connection -/
def newClient (m : Mon) (peer : Addr) (lip : Nat) (acc : Bool) : MClient :=
  { ip := peer.ip, port := peer.port, lip := lip, accepted := acc, deadline := m.now + m.t1, closed := !acc }

theorem bookAccept_eq (m : Mon) (o : Obs) (peer : Addr) (lip : Nat) :
    bookAccept m o peer.ip peer.port lip =
      ({ m with clients := m.clients ++ [newClient m peer lip (o.res == .ok)] },
       if (m.closeCalled && (o.res == .ok)) = true then some "close: a connection was accepted after Close" else none, false) := rfl

theorem old_append {s s' : State} {m : Mon} {cn : MClient} {tn : Tcp} (hf : Flags s.tcps m)
    (hlen : m.clients.length = s.tcps.length) (e : Ext s s') (hs' : s'.tcps = s.tcps ++ [tn])
    (hcn : cn.closed = true → tn.isClosed = true) :
    ∀ (k : Nat) (c : MClient), (m.clients ++ [cn])[k]? = some c → c.closed = true →
      ∃ t', s'.tcps[k]? = some t' ∧ t'.isClosed = true := by
  intro k c hc hcl
  by_cases hlt : k < s.tcps.length
  · rw [List.getElem?_append_left (by rw [hlen]; exact hlt)] at hc
    obtain ⟨t, ht⟩ := getElem?_of_lt hlt
    exact ext_closed_mono e k t ht (by rw [← hf k t c ht hc]; exact hcl)
  · have hl2 : k < (m.clients ++ [cn]).length := getElem?_lt hc
    simp [hlen] at hl2
    have : k = m.clients.length := by rw [hlen]; omega
    subst this
    rw [List.getElem?_concat_length] at hc
    cases hc
    rw [hs', hlen]
    exact ⟨tn, List.getElem?_concat_length, hcn hcl⟩

theorem op_accept {s : State} {m : Mon} (hs : Sim s m) (hi : Inv s) (h2 : Inv2 s) (peer : Addr) (lip : Nat) :
    BookOK s (step s (.accept peer lip)).1 m
      (book m (.accept peer.ip peer.port lip)
        (obsOf s.tcps (step s (.accept peer lip)).1 (oresOf (.accept peer lip) (step s (.accept peer lip)).2))) := by
  have hi' := step_inv s (.accept peer lip) hi
  have hext := step_ext s (.accept peer lip) (inv2_pendingFresh s h2)
  show BookOK s _ m (bookAccept m _ peer.ip peer.port lip)
  rw [bookAccept_eq]
  rcases Bool.eq_false_or_eq_true s.listenerOpen with hl | hl
  · have hst : step s (.accept peer lip) =
        ({ s with tcps := s.tcps ++ [{ peer := peer, lip := lip, phase := .pending (s.now + effTimeout s.cfg.t1) }] }, .ok) := by
      simp only [step, hl, if_true]
    rw [hst] at hi' hext ⊢
    simp only at hi' hext ⊢
    have hres : (obsOf s.tcps { s with tcps := s.tcps ++ [{ peer := peer, lip := lip, phase := .pending (s.now + effTimeout s.cfg.t1) }] }
        (oresOf (.accept peer lip) .ok)).res = .ok := rfl
    rw [hres]
    have hmc : s.muxClosed = false := by
      cases hm : s.muxClosed with
      | false => rfl
      | true => have := hi.lis hm; rw [hl] at this; cases this
    have hcc : m.closeCalled = false := by rw [hs.u.called]; exact hmc
    have hrel : CRel { peer := peer, lip := lip, phase := .pending (s.now + effTimeout s.cfg.t1) } (newClient m peer lip true) := by
      constructor
      · rfl
      · rfl
      · rfl
      · intro d hd
        simp only [Phase.pending.injEq] at hd
        refine ⟨rfl, rfl, ?_⟩
        show m.now + m.t1 = d
        rw [hs.u.now, hs.u.t1]; exact hd
      · intro _ p h; cases h
      · rfl
      · rfl
      · rfl
      · intro h; cases h
      · intro h; cases h
    obtain ⟨hu, hn⟩ := appendTcp_simU hs.u hs.nread h2
      { peer := peer, lip := lip, phase := .pending (s.now + effTimeout s.cfg.t1) } (newClient m peer lip true)
      rfl (by intro p h; cases h) rfl rfl hrel rfl
    apply bookOK_mk
    · show (if (m.closeCalled && (ORes.ok == ORes.ok)) = true then _ else none) = none
      rw [hcc]; rfl
    · exact hu
    · exact hn
    · exact hi'
    · exact old_append hs.flags hs.u.len hext rfl (by intro h; cases h)
    · rfl
    · intro _
      exact newReplies_append_nil _ _ rfl
  · have hst : step s (.accept peer lip) =
        ({ s with tcps := s.tcps ++ [{ peer := peer, lip := lip, phase := .closed }] }, .refused) := by
      simp only [step, hl, Bool.false_eq_true, if_false]
    rw [hst] at hi' hext ⊢
    simp only at hi' hext ⊢
    have hres : (obsOf s.tcps { s with tcps := s.tcps ++ [{ peer := peer, lip := lip, phase := .closed }] }
        (oresOf (.accept peer lip) .refused)).res = .other := rfl
    rw [hres]
    have hrel : CRel { peer := peer, lip := lip, phase := .closed } (newClient m peer lip false) := by
      constructor
      · rfl
      · rfl
      · rfl
      · intro d hd; cases hd
      · intro _ p h; cases h
      · rfl
      · rfl
      · rfl
      · intro h; cases h
      · intro _; rfl
    obtain ⟨hu, hn⟩ := appendTcp_simU hs.u hs.nread h2
      { peer := peer, lip := lip, phase := .closed } (newClient m peer lip false)
      rfl (by intro p h; cases h) rfl rfl hrel rfl
    apply bookOK_mk
    · show (if (m.closeCalled && (ORes.other == ORes.ok)) = true then _ else none) = none
      simp
    · exact hu
    · exact hn
    · exact hi'
    · exact old_append hs.flags hs.u.len hext rfl (by intro _; rfl)
    · rfl
    · intro _
      exact newReplies_append_nil _ _ rfl

/-! ## generic pieces -/

theorem setTcp_id (s : State) (k : Nat) : setTcp s k (fun t => t) = s := by
  unfold setTcp
  have : s.tcps.modify k (fun t => t) = s.tcps := by
    apply List.ext_getElem?
    intro j
    rw [getElem?_modify_map]
    cases s.tcps[j]? with
    | none => rfl
    | some a => simp
  rw [this]

/-- the monitor's records, handles and clock re-read from a state they already agree with -/
theorem mon_reread {s' : State} {m : Mon} (hp : m.pcs = s'.pcs.map absPc) (hh : m.handles = s'.handles.map absH)
    (hn : m.now = s'.now) : ({ m with pcs := s'.pcs.map absPc, handles := s'.handles.map absH, now := s'.now } : Mon) = m := by
  rw [← hp, ← hh, ← hn]

/-- the reader of `k` runs: nothing for the monitor to do -/
theorem reader_chain {s : State} {m : Mon} (k : Nat) (hi : Inv s) (h2 : Inv2 s) (hu : SimU s m) (hn : NRead s m) :
    SimU (runReader s k) m ∧ NRead (runReader s k) m ∧ OutQ s (runReader s k) := by
  obtain ⟨q, oq, rl, habs⟩ := runReader_quiet s k hi h2 hu.endLast
  obtain ⟨e1, e2, _⟩ := runReader_misc s k
  have := quiet_step q rl hi h2 hu hn
  rw [mon_reread (by rw [habs]; exact hu.pcs) (by rw [e1]; exact hu.handles) (by rw [e2]; exact hu.now)] at this
  exact ⟨this.1, this.2, oq⟩

/-- an operation that changes one connection and the matching client record -/
theorem bookOK_modify {s : State} {m : Mon} (hs : Sim s m) (k : Nat) (t : Tcp) (c : MClient)
    (g : Tcp → Tcp) (h : MClient → MClient)
    (hi' : Inv (setTcp s k g)) (hext : Ext s (setTcp s k g))
    (ht : s.tcps[k]? = some t) (hc : m.clients[k]? = some c)
    (hpeer : (g t).peer = t.peer) (hpc : (g t).pc = t.pc)
    (hphase : (g t).phase = t.phase ∨ (t.pc = none ∧ (g t).phase = .closed))
    (hsent : t.phase = .closed → (g t).sent = t.sent)
    (hrd : (g t).reader = t.reader)
    (hin : ∀ (a b : List Item) (it : Item), (g t).inbox = a ++ it :: b → isEnd it = true → b = [])
    (hrel : CRel (g t) (h c)) (hseq : (h c).seq = c.seq) (hnr : (h c).nread = c.nread)
    (hout : (g t).out = t.out) (hcl : ∀ c, (h c).closed = c.closed) :
    BookOK s (setTcp s k g) m ({ m with clients := setAt m.clients k h }, none, false) := by
  obtain ⟨hu, hn⟩ := modify_simU hs.u hs.nread k t c g h ht hc hpeer hpc hphase hsent hrd hin hrel hseq hnr
  apply bookOK_mk rfl hu hn hi'
  · exact old_of_flags hs.flags hs.u.len hext (closed_setAt hcl)
  · rfl
  · intro _
    apply newReplies_nil (by simp [setTcp])
    intro j tj htj
    simp only [setTcp]
    rw [getElem?_modify_map, htj]
    refine ⟨_, rfl, ?_⟩
    split
    · rename_i e; subst e; rw [ht] at htj; cases htj; exact hout
    · rfl

/-- an operation that changes only a client record -/
theorem bookOK_client {s : State} {m : Mon} (hs : Sim s m) (hi : Inv s) (k : Nat) (t : Tcp) (c : MClient)
    (h : MClient → MClient) (ht : s.tcps[k]? = some t) (hc : m.clients[k]? = some c)
    (hrel : CRel t (h c)) (hseq : (h c).seq = c.seq) (hnr : (h c).nread = c.nread) (hcl : ∀ c, (h c).closed = c.closed) :
    BookOK s s m ({ m with clients := setAt m.clients k h }, none, false) := by
  have := bookOK_modify hs k t c (fun t => t) h (by rw [setTcp_id]; exact hi) (by rw [setTcp_id]; exact Ext.refl s) ht hc
    rfl rfl (Or.inl rfl) (fun _ => rfl) rfl (fun a b it hin he => hs.u.endLast k t a b it ht hin he) hrel hseq hnr rfl hcl
  rw [setTcp_id] at this
  exact this

/-- no change at all -/
theorem bookOK_same {s : State} {m : Mon} (hs : Sim s m) (hi : Inv s) : BookOK s s m (m, none, false) := by
  apply bookOK_mk rfl hs.u hs.nread hi
  · exact old_of_flags hs.flags hs.u.len (Ext.refl s) closed_same
  · rfl
  · intro _
    exact newReplies_nil rfl (fun k t ht => ⟨t, ht, rfl⟩)

/-- the client record of an existing connection -/
theorem client_of {s : State} {m : Mon} (hu : SimU s m) {k : Nat} {t : Tcp} (ht : s.tcps[k]? = some t) :
    ∃ c, m.clients[k]? = some c ∧ CRel t c := by
  have hlt : k < m.clients.length := by rw [hu.len]; exact getElem?_lt ht
  obtain ⟨c, hc⟩ := getElem?_of_lt hlt
  exact ⟨c, hc, hu.cl k t c ht hc⟩

theorem setAt_same {α : Type} (l : List α) (k : Nat) (h : α → α) (a : α) (ha : l[k]? = some a) (he : h a = a) :
    setAt l k h = l := by
  unfold setAt
  apply List.ext_getElem?
  intro j
  rw [getElem?_modify_map]
  cases hj : l[j]? with
  | none => rfl
  | some b =>
    simp only [Option.map_some, Option.some.injEq]
    split
    · rename_i e; subst e; rw [ha] at hj; cases hj; exact he
    · rfl

theorem mon_clients_same (m : Mon) : ({ m with clients := m.clients } : Mon) = m := rfl

/-! ## partial frame (slow loris) -/

theorem op_partial {s : State} {m : Mon} (hs : Sim s m) (hi : Inv s) (h2 : Inv2 s) (k : Nat)
    (hnb : (step s (.partialFrame k)).2 ≠ .bad) :
    BookOK s (step s (.partialFrame k)).1 m
      (book m (.partialFrame k) (obsOf s.tcps (step s (.partialFrame k)).1 (oresOf (.partialFrame k) (step s (.partialFrame k)).2))) := by
  have hi' := step_inv s (.partialFrame k) hi
  have hext := step_ext s (.partialFrame k) (inv2_pendingFresh s h2)
  show BookOK s _ m ({ m with clients := setAt m.clients k (fun c => { c with done := true }) }, none, false)
  cases ht : s.tcps[k]? with
  | none => simp [step, ht] at hnb
  | some t =>
    obtain ⟨c, hc, r⟩ := client_of hs.u ht
    rcases Bool.eq_false_or_eq_true (t.cEnd || t.stuck) with hd | hd
    · have hst : (step s (.partialFrame k)).1 = s := by simp [step, ht, hd]
      rw [hst]
      have hdone : c.done = true := by rw [r.done]; exact hd
      rw [setAt_same m.clients k _ c hc (by cases c; simp at hdone ⊢; exact hdone)]
      exact bookOK_same hs hi
    · have hst : (step s (.partialFrame k)).1 = setTcp s k (fun t => { t with stuck := true }) := by
        simp [step, ht, hd]
      rw [hst] at hi' hext ⊢
      apply bookOK_modify hs k t c _ _ hi' hext ht hc rfl rfl (Or.inl rfl) (fun _ => rfl) rfl
        (fun a b it hin he => hs.u.endLast k t a b it ht hin he)
      · exact ⟨r.ip, r.port, r.lip, r.pend, r.first, r.target, by simp, r.gone, r.sent, r.acc⟩
      · rfl
      · rfl
      · rfl
      · intro _; rfl

/-! ## the client closes or resets -/

theorem no_end_of_open {s : State} (h3 : Inv3 s) {k : Nat} {t : Tcp} (ht : s.tcps[k]? = some t) (hce : t.cEnd = false) :
    ∀ it, it ∈ t.inbox → isEnd it = false := by
  intro it hit
  cases he : isEnd it with
  | false => rfl
  | true =>
    have := (h3.tcp k t ht).ends it hit he
    rw [hce] at this; cases this

/-- appending one item to an inbox without end markers keeps "nothing follows an end marker" -/
theorem endLast_push {inbox : List Item} {x : Item} (hno : ∀ it, it ∈ inbox → isEnd it = false) :
    ∀ (a b : List Item) (it : Item), inbox ++ [x] = a ++ it :: b → isEnd it = true → b = [] := by
  intro a b it h he
  rcases List.append_eq_append_iff.1 h with ⟨a', ha1, ha2⟩ | ⟨c', hc1, hc2⟩
  · -- a = inbox ++ a', [x] = a' ++ it :: b
    cases a' with
    | nil => simp only [List.nil_append, List.cons.injEq] at ha2; exact ha2.2.symm
    | cons y ys =>
      simp only [List.cons_append, List.cons.injEq] at ha2
      have := ha2.2
      cases ys <;> simp at this
  · -- inbox = a ++ c', it :: b = c' ++ [x]
    cases c' with
    | nil => simp only [List.nil_append, List.cons.injEq] at hc2; exact hc2.2
    | cons y ys =>
      simp only [List.cons_append, List.cons.injEq] at hc2
      have : it ∈ inbox := by rw [hc1, hc2.1]; simp
      rw [hno it this] at he; cases he

theorem op_cclose {s : State} {m : Mon} (hs : Sim s m) (hi : Inv s) (h2 : Inv2 s) (h3 : Inv3 s) (k : Nat) (reset : Bool)
    (hnb : (step s (.clientClose k reset)).2 ≠ .bad) :
    BookOK s (step s (.clientClose k reset)).1 m
      (book m (.cclose k) (obsOf s.tcps (step s (.clientClose k reset)).1
        (oresOf (.clientClose k reset) (step s (.clientClose k reset)).2))) := by
  have hi' := step_inv s (.clientClose k reset) hi
  have hext := step_ext s (.clientClose k reset) (inv2_pendingFresh s h2)
  show BookOK s _ m ({ m with clients := setAt m.clients k (fun c => { c with done := true, gone := true }) }, none, false)
  cases ht : s.tcps[k]? with
  | none => simp [step, ht] at hnb
  | some t =>
    obtain ⟨c, hc, r⟩ := client_of hs.u ht
    rcases Bool.eq_false_or_eq_true t.cEnd with hd | hd
    · have hst : (step s (.clientClose k reset)).1 = s := by simp [step, ht, hd]
      rw [hst]
      have hdone : c.done = true := by rw [r.done, hd]; rfl
      have hgone : c.gone = true := by rw [r.gone, hd]; rfl
      rw [setAt_same m.clients k _ c hc (by cases c; simp at hdone hgone ⊢; exact ⟨hdone, hgone⟩)]
      exact bookOK_same hs hi
    · cases hph : t.phase with
      | closed =>
        have hst : (step s (.clientClose k reset)).1 = setTcp s k (fun t => { t with cEnd := true }) := by
          simp [step, ht, hd, hph]
        rw [hst] at hi' hext ⊢
        apply bookOK_modify hs k t c _ _ hi' hext ht hc rfl rfl (Or.inl rfl) (fun _ => rfl) rfl
          (fun a b it hin he => hs.u.endLast k t a b it ht hin he)
        · exact ⟨r.ip, r.port, r.lip, r.pend, r.first, r.target, by simp, by simp, r.sent, r.acc⟩
        · rfl
        · rfl
        · rfl
        · intro _; rfl
      | pending d =>
        have hst : (step s (.clientClose k reset)).1 = setTcp s k (fun t => { closeTcp t with cEnd := true }) := by
          simp [step, ht, hd, hph]
        rw [hst] at hi' hext ⊢
        have hpcn := ((h2.tcp k t ht).fresh d hph).1
        have hrdn := (pending_unref s hi k t ht d hph).2.2
        apply bookOK_modify hs k t c _ _ hi' hext ht hc rfl rfl (Or.inr ⟨hpcn, rfl⟩) (fun _ => rfl) hrdn.symm
        · intro a b it hin; simp [closeTcp] at hin
        · refine ⟨r.ip, r.port, r.lip, ?_, ?_, r.target, by simp [closeTcp], by simp [closeTcp], r.sent, fun _ => rfl⟩
          · intro d' hd'; simp [closeTcp] at hd'
          · intro _ p hp; simp [closeTcp] at hp
        · rfl
        · rfl
        · rfl
        · intro _; rfl
      | attached p =>
        have hst : (step s (.clientClose k reset)).1 = runReader (setTcp s k (fun t =>
            { t with cEnd := true, inbox := t.inbox ++ [if reset then .reset else .eof] })) k := by
          simp [step, ht, hd, hph]
        rw [hst] at hi' hext ⊢
        have hi1 : Inv (setTcp s k (fun t => { t with cEnd := true, inbox := t.inbox ++ [if reset then .reset else .eof] })) :=
          setTcp_irrel_inv s k _ (fun t => ⟨rfl, rfl, rfl, rfl⟩) hi
        have h21 : Inv2 (setTcp s k (fun t => { t with cEnd := true, inbox := t.inbox ++ [if reset then .reset else .eof] })) := by
          apply push_inv2 s h2 k t ht _ (if reset then .reset else .eof) [] ⟨rfl, rfl, rfl, rfl, rfl, by simp⟩
          · cases reset <;> rfl
          · intro d hd'; rw [hph] at hd'; cases hd'
        have htpc : t.pc = some p := by
          have := hi.phase k t ht
          simp only [PhaseOk, hph] at this
          exact this.1
        obtain ⟨hu1, hn1⟩ := modify_simU hs.u hs.nread k t c
          (fun t => { t with cEnd := true, inbox := t.inbox ++ [if reset then .reset else .eof] })
          (fun c => { c with done := true, gone := true }) ht hc rfl rfl (Or.inl rfl) (fun _ => rfl) rfl
          (endLast_push (no_end_of_open h3 ht hd))
          ⟨r.ip, r.port, r.lip, r.pend, r.first, r.target, by simp, by simp, r.sent, r.acc⟩ rfl rfl
        obtain ⟨hu, hn, oq⟩ := reader_chain k hi1 h21 hu1 hn1
        apply bookOK_mk rfl hu hn hi'
        · exact old_of_flags hs.flags hs.u.len hext (closed_setAt (fun _ => rfl))
        · rfl
        · intro _
          apply newReplies_nil
          · have := (runReader_quiet _ k hi1 h21 hu1.endLast).1.tlen
            rw [this]; simp [setTcp]
          · intro j tj htj
            have hj1 : ∃ t1, (setTcp s k (fun t => { t with cEnd := true, inbox := t.inbox ++ [if reset then .reset else .eof] })).tcps[j]? = some t1 ∧
                t1.out = tj.out := by
              simp only [setTcp]
              rw [getElem?_modify_map, htj]
              refine ⟨_, rfl, ?_⟩
              split <;> rfl
            obtain ⟨t1, ht1, e1⟩ := hj1
            obtain ⟨t', ht', e'⟩ := oq j t1 ht1
            exact ⟨t', ht', e'.trans e1⟩

end IceProofs.TcpMux
